/-
  C18 — lemmas about the UTF-8 check used by `read_char`, and the chunked versions of the `read`
  built-in's readers.
-/
import YashModel.Input.Frame
namespace YashModel.Input

theorem byte_eq_nl (b : Byte) : b = NL ↔ b.toNat = 10 := by
  constructor
  · intro h; subst h; rfl
  · intro h; exact UInt8.toNat_inj.1 (by simpa [NL] using h)

theorem isCont_ge (b : Byte) (h : isCont b = true) : 0x80 ≤ b.toNat := by
  simp [isCont] at h; omega

theorem second2_ge (a b : Byte) (h : second2 a b = true) : 0x80 ≤ b.toNat := by
  unfold second2 at h
  split at h
  · simp at h; omega
  · split at h
    · simp at h; omega
    · split at h
      · simp at h; omega
      · split at h
        · simp at h; omega
        · exact isCont_ge b h

theorem isCont_ascii (b : Byte) (hb : b.toNat < 0x80) : isCont b = false := by
  cases h : isCont b with
  | false => rfl
  | true => have := isCont_ge b h; omega

theorem second2_ascii (a b : Byte) (hb : b.toNat < 0x80) : second2 a b = false := by
  cases h : second2 a b with
  | false => rfl
  | true => have := second2_ge a b h; omega

/-- a byte below 0x80 cannot continue a sequence -/
theorem utf8_ascii_mid (buf : List Byte) (b : Byte) (hb : b.toNat < 0x80) (hne : buf ≠ []) :
    utf8Check (buf ++ [b]) = .bad := by
  have h1 := isCont_ascii b hb
  match buf, hne with
  | [a], _ =>
    have h2 := second2_ascii a b hb
    by_cases c1 : 0xC2 ≤ a.toNat ∧ a.toNat ≤ 0xDF <;> simp [utf8Check, c1, h1, h2]
  | [a, a2], _ =>
    by_cases c1 : 0xE0 ≤ a.toNat ∧ a.toNat ≤ 0xEF <;> simp [utf8Check, c1, h1]
  | [a, a2, a3], _ => simp [utf8Check, h1]
  | a :: a2 :: a3 :: a4 :: rest, _ => simp [utf8Check]

theorem utf8_single (b : Byte) :
    (∀ code, utf8Check [b] = .ok code → code = b.toNat ∧ b.toNat < 0x80) ∧
    (utf8Check [b] = .more → 0x80 ≤ b.toNat) := by
  by_cases h : b.toNat < 0x80
  · simp [utf8Check, h]
  · by_cases h2 : 0xC2 ≤ b.toNat ∧ b.toNat ≤ 0xF4
    · simp [utf8Check, h, h2]; omega
    · simp [utf8Check, h, h2]

/-- a multi-byte sequence never decodes to a code point below 128 -/
theorem utf8_multi_code (buf : List Byte) (b : Byte) (code : Nat) (hne : buf ≠ [])
    (h : utf8Check (buf ++ [b]) = .ok code) : 128 ≤ code := by
  match buf, hne with
  | [a], _ =>
    by_cases c1 : 0xC2 ≤ a.toNat ∧ a.toNat ≤ 0xDF
    · by_cases c2 : isCont b = true
      · simp [utf8Check, c1, c2] at h; have := isCont_ge b c2; omega
      · simp [utf8Check, c1, c2] at h
    · by_cases c2 : 0xE0 ≤ a.toNat ∧ a.toNat ≤ 0xF4 ∧ second2 a b = true <;>
        simp [utf8Check, c1, c2] at h
  | [a, a2], _ =>
    by_cases c1 : 0xE0 ≤ a.toNat ∧ a.toNat ≤ 0xEF
    · by_cases c2 : second2 a a2 = true ∧ isCont b = true
      · simp [utf8Check, c1, c2] at h
        have h2 := c2.1
        have h3 := isCont_ge b c2.2
        unfold second2 at h2
        split at h2
        · simp at h2; omega
        · omega
      · simp [utf8Check, c1, c2] at h
    · by_cases c2 : 0xF0 ≤ a.toNat ∧ a.toNat ≤ 0xF4 ∧ second2 a a2 = true ∧ isCont b = true <;>
        simp [utf8Check, c1, c2] at h
  | [a, a2, a3], _ =>
    by_cases c1 : 0xF0 ≤ a.toNat ∧ a.toNat ≤ 0xF4 ∧ second2 a a2 = true ∧ isCont a3 = true
        ∧ isCont b = true
    · simp [utf8Check, c1] at h
      have h2 := c1.2.2.1
      unfold second2 at h2
      have h4 := c1.1
      split at h2
      · omega
      · split at h2
        · omega
        · split at h2
          · simp at h2; omega
          · omega
    · simp [utf8Check, c1] at h
  | a :: a2 :: a3 :: a4 :: rest, _ => simp [utf8Check] at h

/-- a sequence that decodes to the newline character is the single byte 0x0A -/
theorem utf8_ok_nl (buf : List Byte) (b : Byte) (h : utf8Check (buf ++ [b]) = .ok 10) :
    buf = [] ∧ b = NL := by
  by_cases hne : buf = []
  · subst hne
    exact ⟨rfl, (byte_eq_nl b).2 ((utf8_single b).1 10 h).1.symm⟩
  · have := utf8_multi_code buf b 10 hne h; omega

/-- a sequence that decodes to a code point below 128 is that single byte -/
theorem utf8_ok_ascii (buf : List Byte) (b : Byte) (d : Nat) (hd : d < 128)
    (h : utf8Check (buf ++ [b]) = .ok d) : buf = [] ∧ b.toNat = d := by
  by_cases hne : buf = []
  · subst hne
    exact ⟨rfl, ((utf8_single b).1 d h).1.symm⟩
  · have := utf8_multi_code buf b d hne h; omega

/-- the newline byte is never part of a longer sequence: it ends whatever was being assembled -/
theorem utf8_nl_byte (buf : List Byte) :
    utf8Check (buf ++ [NL]) = if buf = [] then .ok 10 else .bad := by
  by_cases hne : buf = []
  · subst hne; simp [utf8Check, NL]
  · simp only [hne, if_false]; exact utf8_ascii_mid buf NL (by decide) hne

/-- a byte that does not finish its character, or finishes a character other than newline, is not the
    newline byte -/
theorem utf8_not_nl (buf : List Byte) (b : Byte)
    (h : utf8Check (buf ++ [b]) = .more ∨ ∃ code, utf8Check (buf ++ [b]) = .ok code ∧ code ≠ 10) :
    b ≠ NL := by
  intro hb
  subst hb
  rw [utf8_nl_byte] at h
  by_cases hne : buf = [] <;> simp [hne] at h

/-! ### the `read` built-in's readers over a chunked source -/

theorem readCharCGo_eq (buf : List Byte) (cs : List (List Byte)) :
    ((readCharCGo buf cs).1, (readCharCGo buf cs).2.flatten) = readCharGo buf cs.flatten := by
  fun_induction readCharCGo buf cs <;> simp_all [readCharGo]

theorem readLineCGo_eq (d : Nat) (raw esc : Bool) (buf : List Byte) (cs : List (List Byte))
    (acc : List AChar) :
    ((readLineCGo d raw esc buf cs acc).1, (readLineCGo d raw esc buf cs acc).2.1,
      (readLineCGo d raw esc buf cs acc).2.2.flatten) = readLineGo d raw esc buf cs.flatten acc := by
  fun_induction readLineCGo d raw esc buf cs acc <;> simp_all [readLineGo]

/-! ### what `read_char` and `read` consume -/

theorem readCharGo_exact (buf inp : List Byte) (code : Nat) (rest : List Byte)
    (h : readCharGo buf inp = (.char code, rest)) :
    ∃ pre, pre ≠ [] ∧ pre ++ rest = inp ∧ utf8Check (buf ++ pre) = .ok code := by
  induction inp generalizing buf with
  | nil => by_cases hb : buf = [] <;> simp [readCharGo, hb] at h
  | cons b t ih =>
    simp only [readCharGo] at h
    cases hu : utf8Check (buf ++ [b]) with
    | ok c =>
      simp only [hu, Prod.mk.injEq, RC.char.injEq] at h
      exact ⟨[b], by simp, by simp [h.2], by rw [hu, h.1]⟩
    | more =>
      simp only [hu] at h
      obtain ⟨pre, h1, h2, h3⟩ := ih _ h
      exact ⟨b :: pre, by simp, by simp [h2], by simpa using h3⟩
    | bad => simp [hu] at h

theorem splitLine_unique (pre rest : List Byte) (h1 : pre.getLast? = some NL)
    (h2 : NL ∉ pre.dropLast) : splitLine (pre ++ rest) = (pre, rest) := by
  induction pre with
  | nil => simp at h1
  | cons b t ih =>
    cases t with
    | nil =>
      simp at h1; subst h1; simp [splitLine]
    | cons c t' =>
      have hb : b ≠ NL := by
        intro e; apply h2; simp [e]
      have h1' : (c :: t').getLast? = some NL := by simpa [List.getLast?_cons_cons] using h1
      have h2' : NL ∉ (c :: t').dropLast := by
        intro hm; apply h2; simp only [List.dropLast_cons_cons]; exact List.mem_cons_of_mem _ hm
      have := ih h1' h2'
      simp only [List.cons_append] at this ⊢
      rw [splitLine]
      simp only [hb, if_false, this]

/-- a successful `read` consumed a prefix of the stream that ends with the delimiter byte -/
theorem readLineGo_line (d : Nat) (hd : d < 128) (raw esc : Bool) (buf p : List Byte)
    (acc cs : List AChar) (rest : List Byte)
    (h : readLineGo d raw esc buf p acc = (cs, .found, rest)) :
    ∃ pre bl, pre ++ rest = p ∧ pre.getLast? = some bl ∧ bl.toNat = d := by
  induction p generalizing esc buf acc with
  | nil => by_cases hb : buf = [] <;> simp [readLineGo, hb] at h
  | cons b t ih =>
    have cons_ok : ∀ pre bl, pre ++ rest = t → pre.getLast? = some bl → bl.toNat = d →
        ∃ pre' bl', pre' ++ rest = b :: t ∧ pre'.getLast? = some bl' ∧ bl'.toNat = d := by
      intro pre bl h1 h2 h3
      refine ⟨b :: pre, bl, by simp [h1], ?_, h3⟩
      cases pre with
      | nil => simp at h2
      | cons x xs => simpa [List.getLast?_cons_cons] using h2
    simp only [readLineGo] at h
    cases hu : utf8Check (buf ++ [b]) with
    | more => simp only [hu] at h; obtain ⟨pre, bl, h1, h2, h3⟩ := ih _ _ _ h; exact cons_ok pre bl h1 h2 h3
    | bad => simp [hu] at h
    | ok code =>
      simp only [hu] at h
      cases esc with
      | true =>
        simp only [if_true] at h
        by_cases hc : code = 10
        · simp only [hc, if_true] at h; obtain ⟨pre, bl, h1, h2, h3⟩ := ih _ _ _ h; exact cons_ok pre bl h1 h2 h3
        · simp only [hc, if_false] at h; obtain ⟨pre, bl, h1, h2, h3⟩ := ih _ _ _ h; exact cons_ok pre bl h1 h2 h3
      | false =>
        simp only [Bool.false_eq_true, if_false] at h
        by_cases hc : code = d
        · simp only [hc, if_true, Prod.mk.injEq, true_and] at h
          subst hc
          have := (utf8_ok_ascii buf b code hd hu).2
          exact ⟨[b], b, by simp [h.2], by simp, this⟩
        · simp only [hc, if_false] at h
          by_cases hbs : code = 92 ∧ (!raw) = true
          · simp only [hbs, and_self, if_true] at h
            obtain ⟨pre, bl, h1, h2, h3⟩ := ih _ _ _ h; exact cons_ok pre bl h1 h2 h3
          · simp only [hbs, if_false] at h
            obtain ⟨pre, bl, h1, h2, h3⟩ := ih _ _ _ h; exact cons_ok pre bl h1 h2 h3

/-- a successful `read -r` consumed exactly the first line -/
theorem readLineGo_raw_line (buf p : List Byte) (acc cs : List AChar) (rest : List Byte)
    (h : readLineGo 10 true false buf p acc = (cs, .found, rest)) :
    ∃ pre, pre ++ rest = p ∧ pre.getLast? = some NL ∧ NL ∉ pre.dropLast := by
  induction p generalizing buf acc with
  | nil => by_cases hb : buf = [] <;> simp [readLineGo, hb] at h
  | cons b t ih =>
    have cons_ok : b ≠ NL → ∀ pre, pre ++ rest = t → pre.getLast? = some NL → NL ∉ pre.dropLast →
        ∃ pre', pre' ++ rest = b :: t ∧ pre'.getLast? = some NL ∧ NL ∉ pre'.dropLast := by
      intro hb pre h1 h2 h3
      cases pre with
      | nil => simp at h2
      | cons x xs =>
        refine ⟨b :: x :: xs, by simp [← h1], by simpa [List.getLast?_cons_cons] using h2, ?_⟩
        simp only [List.dropLast_cons_cons]
        intro hm
        cases hm with
        | head => exact hb rfl
        | tail _ hm' => exact h3 hm'
    simp only [readLineGo] at h
    cases hu : utf8Check (buf ++ [b]) with
    | more =>
      simp only [hu] at h
      obtain ⟨pre, h1, h2, h3⟩ := ih _ _ h
      exact cons_ok (utf8_not_nl buf b (Or.inl hu)) pre h1 h2 h3
    | bad => simp [hu] at h
    | ok code =>
      simp only [hu, Bool.false_eq_true, if_false] at h
      by_cases hc : code = 10
      · simp only [hc, if_true, Prod.mk.injEq, true_and] at h
        subst hc
        have := (utf8_ok_nl buf b hu).2
        exact ⟨[b], by simp [h.2], by simp [this], by simp⟩
      · simp only [hc, if_false, Bool.not_true, Bool.false_eq_true, and_false] at h
        obtain ⟨pre, h1, h2, h3⟩ := ih _ _ h
        exact cons_ok (utf8_not_nl buf b (Or.inr ⟨code, hu, hc⟩)) pre h1 h2 h3

/-- a byte below 128 that does not finish the character `d` is not the byte `d` -/
theorem utf8_not_delim (buf : List Byte) (b : Byte) (d : Nat) (hd : d < 128)
    (h : utf8Check (buf ++ [b]) = .more ∨ ∃ code, utf8Check (buf ++ [b]) = .ok code ∧ code ≠ d) :
    b.toNat ≠ d := by
  intro hb
  have hlt : b.toNat < 0x80 := by omega
  by_cases hne : buf = []
  · subst hne
    have hs : utf8Check [b] = .ok b.toNat := by simp [utf8Check, hlt]
    rcases h with h | ⟨code, h1, h2⟩
    · simp [hs] at h
    · simp only [List.nil_append, hs, U8.ok.injEq] at h1; omega
  · have := utf8_ascii_mid buf b hlt hne
    rcases h with h | ⟨code, h1, _⟩
    · rw [this] at h; simp at h
    · rw [this] at h1; simp at h1

/-- end of input: everything was consumed -/
theorem readLineGo_eof (d : Nat) (raw esc : Bool) (buf p : List Byte) (acc : List AChar) :
    (readLineGo d raw esc buf p acc).2.1 = .eof → (readLineGo d raw esc buf p acc).2.2 = [] := by
  induction p generalizing esc buf acc with
  | nil => intro _; simp [readLineGo]
  | cons b t ih =>
    simp only [readLineGo]
    cases hu : utf8Check (buf ++ [b]) with
    | more => exact ih _ _ _
    | bad => intro h; simp at h
    | ok code =>
      simp only []
      cases esc with
      | true =>
        simp only [if_true]
        by_cases hc : code = 10
        · simp only [hc, if_true]; exact ih _ _ _
        · simp only [hc, if_false]; exact ih _ _ _
      | false =>
        simp only [Bool.false_eq_true, if_false]
        by_cases hc : code = d
        · simp only [hc, if_true]; intro h; simp at h
        · simp only [hc, if_false]
          by_cases hbs : code = 92 ∧ (!raw) = true
          · simp only [hbs, and_self, if_true]; exact ih _ _ _
          · simp only [hbs, if_false]; exact ih _ _ _

/-- a successful `read -r -d X`: the delimiter byte does not occur before the end of what was
    consumed -/
theorem readLineGo_raw_first (d : Nat) (hd : d < 128) (buf p : List Byte) (acc cs : List AChar)
    (rest : List Byte) (h : readLineGo d true false buf p acc = (cs, .found, rest)) :
    ∃ pre bl, pre ++ rest = p ∧ pre.getLast? = some bl ∧ bl.toNat = d
      ∧ ∀ x ∈ pre.dropLast, x.toNat ≠ d := by
  induction p generalizing buf acc with
  | nil => by_cases hb : buf = [] <;> simp [readLineGo, hb] at h
  | cons b t ih =>
    have cons_ok : b.toNat ≠ d → ∀ pre bl, pre ++ rest = t → pre.getLast? = some bl → bl.toNat = d →
        (∀ x ∈ pre.dropLast, x.toNat ≠ d) →
        ∃ pre' bl', pre' ++ rest = b :: t ∧ pre'.getLast? = some bl' ∧ bl'.toNat = d
          ∧ ∀ x ∈ pre'.dropLast, x.toNat ≠ d := by
      intro hb pre bl h1 h2 h3 h4
      cases pre with
      | nil => simp at h2
      | cons x xs =>
        refine ⟨b :: x :: xs, bl, by simp [← h1], by simpa [List.getLast?_cons_cons] using h2, h3, ?_⟩
        simp only [List.dropLast_cons_cons]
        intro y hy
        cases hy with
        | head => exact hb
        | tail _ hm' => exact h4 y hm'
    simp only [readLineGo] at h
    cases hu : utf8Check (buf ++ [b]) with
    | more =>
      simp only [hu] at h
      obtain ⟨pre, bl, h1, h2, h3, h4⟩ := ih _ _ h
      exact cons_ok (utf8_not_delim buf b d hd (Or.inl hu)) pre bl h1 h2 h3 h4
    | bad => simp [hu] at h
    | ok code =>
      simp only [hu, Bool.false_eq_true, if_false] at h
      by_cases hc : code = d
      · simp only [hc, if_true, Prod.mk.injEq, true_and] at h
        subst hc
        have := (utf8_ok_ascii buf b code hd hu).2
        exact ⟨[b], b, by simp [h.2], by simp, this, by simp⟩
      · simp only [hc, if_false, Bool.not_true, Bool.false_eq_true, and_false] at h
        obtain ⟨pre, bl, h1, h2, h3, h4⟩ := ih _ _ h
        exact cons_ok (utf8_not_delim buf b d hd (Or.inr ⟨code, hu, hc⟩)) pre bl h1 h2 h3 h4

end YashModel.Input
