/-
  C18 — simulation: the machine over a chunked source (`ChunkModel.lean`) is, step by step, the flat
  machine over the concatenation of the chunks.
-/
import YashModel.Input.ChunkModel
import YashModel.Input.Utf8
import YashModel.Input.RedirLemmas
namespace YashModel.Input

theorem nextLineC_fst (cs : List (List Byte)) : (nextLine cs.flatten).1 = (nextLineC cs).1 := by
  rw [← nextLineC_eq]
theorem nextLineC_snd (cs : List (List Byte)) : (nextLine cs.flatten).2 = (nextLineC cs).2.flatten := by
  rw [← nextLineC_eq]

theorem pullC_flat (parse : Bool → List Byte → ParseRes) (n : Nat) (buf : List Byte)
    (cs : List (List Byte)) : (pullC parse n buf cs).flat = pull parse n buf cs.flatten := by
  induction n generalizing buf cs with
  | zero => simp [pullC, pull, PulledC.flat]
  | succ n ih =>
    rw [pullC, pull]
    simp only [nextLineC_fst, nextLineC_snd]
    by_cases h1 : (nextLineC cs).1 = []
    · simp [h1, PulledC.flat]
    · simp only [h1, if_false]
      by_cases h2 : (parse false (buf ++ (nextLineC cs).1)).isIncomplete = true
      · simp only [h2, if_true]
        rw [← ih]
        simp [PulledC.flat]
      · simp [h2, PulledC.flat]

theorem drainC_eq (acc : List Byte) (cs : List (List Byte)) : drainC acc cs = acc ++ cs.flatten := by
  fun_induction drainC acc cs <;> simp_all

/-! ### operations that do not touch the descriptor commute with setting it -/

theorem setOption_set (s : State) (o : String) (on : Bool) (x : List Byte) :
    setOption { s with inp := x } o on = { setOption s o on with inp := x } := by
  unfold setOption; split
  · rfl
  · split <;> rfl

theorem execSet_set (s : State) (args : List String) (x : List Byte) :
    execSet { s with inp := x } args = { execSet s args with inp := x } := by
  unfold execSet; split <;> first | rfl | exact setOption_set _ _ _ _

theorem execAlias_set (s : State) (args : List String) (x : List Byte) :
    execAlias { s with inp := x } args = { execAlias s args with inp := x } := by
  unfold execAlias; split <;> rfl

theorem execUnalias_set (s : State) (args : List String) (x : List Byte) :
    execUnalias { s with inp := x } args = { execUnalias s args with inp := x } := by
  unfold execUnalias; split <;> rfl

theorem execUtil_set (s : State) (u : Util) (name : String)
    (args : List String) (here : Option (List Char)) (x : List Byte) (h1 : u ≠ .read) (h2 : u ≠ .cat)
    (h3 : u ≠ .closein := by simp) :
    execUtil { s with inp := x } u name args here
      = { execUtil s u name args here with inp := x } := by
  cases u with
  | probe => rfl
  | aliasName => rfl
  | st => rfl
  | colon => rfl
  | read => exact absurd rfl h1
  | alias => exact execAlias_set _ _ _
  | unalias => exact execUnalias_set _ _ _
  | set => exact execSet_set _ _ _
  | cat => exact absurd rfl h2
  | closein => exact absurd rfl h3
  | echo => rfl
  | unknown => rfl

theorem step_set (k : List K) (s : State) (x : List Byte)
    (h : ∀ ws here k0, k ≠ .cmd (.simple ws here) :: k0) :
    step k { s with inp := x }
      = (step k s).map (fun r => (r.1, { r.2 with inp := x })) := by
  cases k with
  | nil => rfl
  | cons a k0 =>
    cases a with
    | cmd c =>
      cases c with
      | simple ws here => exact absurd rfl (h ws here k0)
      | ifc c t e he => rfl
      | loop u c b => rfl
      | group b => rfl
      | subsh b => rfl
      | andor l a r => rfl
      | neg c => rfl
      | async c =>
        simp only [step]
        have hx : controlsJobs k0 { s with inp := x } = controlsJobs k0 s := rfl
        rw [hx]
        by_cases hc : controlsJobs k0 s = true
        · simp only [hc, if_true]; rfl
        · simp only [hc]; rfl
      | redir rs c =>
        simp only [step]
        rw [performIn_comm (fun s => { s with inp := x }) (fun _ => rfl) (fun _ _ => rfl)]
        by_cases hf : (performIn rs [] s).2.2 = true
        · simp only [hf, if_true]; rfl
        · simp only [hf]
          rw [undoIn_comm (fun s => { s with inp := x }) (fun _ _ => rfl)]
          have hx : redirErrorExits { s with inp := x } c = redirErrorExits s c := rfl
          rw [hx]
          by_cases hx2 : redirErrorExits s c = true
          · simp only [hx2, if_true]; rfl
          · simp only [hx2]; rfl
    | undo saved =>
      simp only [step]
      rw [undoIn_comm (fun s => { s with inp := x }) (fun _ _ => rfl)]; rfl
    | branch t e he =>
      by_cases h0 : s.status = 0 <;> cases he <;> simp [step, h0]
    | andK a r =>
      by_cases h0 : (s.status = 0) = (a = true) <;> simp [step, h0]
    | loopTest u c b l =>
      by_cases h0 : ((s.status = 0) != u) = true
      · simp [step, h0] <;> (intro h1; simp at h0; exact absurd h1 h0)
      · simp [step, h0] <;> (intro h1; simp at h0; exact absurd h0 h1)
    | loopBack u c b => rfl
    | restore sv => rfl
    | negK => rfl
    | src t e ex =>
      have hp : parserOf { s with inp := x } = parserOf s := rfl
      simp only [step, Option.map, stepSrc, hp]
      split <;> rfl

/-! ### the operations that read the descriptor -/

theorem execReadC_flat (c : CState) (d : Nat) (raw : Bool) (names : List String) :
    (execReadC c d raw names).flat = execRead c.flat d raw names := by
  have e := readLineCGo_eq d raw false [] c.src []
  cases hsh : c.st.shared with
  | false => simp [execReadC, execRead, CState.flat, State.stdin, State.setStdin, hsh]
  | true =>
    have e1 : (readLine d raw c.src.flatten []).1 = (readLineCGo d raw false [] c.src []).1 :=
      (congrArg (·.1) e).symm
    have e2 : (readLine d raw c.src.flatten []).2.1 = (readLineCGo d raw false [] c.src []).2.1 :=
      (congrArg (·.2.1) e).symm
    have e3 : (readLine d raw c.src.flatten []).2.2 = (readLineCGo d raw false [] c.src []).2.2.flatten :=
      (congrArg (·.2.2) e).symm
    simp [execReadC, execRead, CState.flat, State.stdin, State.setStdin, hsh, e1, e2, e3]

theorem execCatC_flat (c : CState) (here : Option (List Char)) :
    (execCatC c here).flat = execCat c.flat here := by
  cases here with
  | some k => simp [execCatC, execCat, CState.flat]
  | none =>
    cases hsh : c.st.shared with
    | false => simp [execCatC, execCat, CState.flat, State.stdin, State.setStdin, hsh]
    | true => simp [execCatC, execCat, CState.flat, State.stdin, State.setStdin, hsh, drainC_eq]

theorem execSimpleC_flat (c : CState) (fields : List String)
    (here : Option (List Char)) :
    (execSimpleC c fields here).flat = execSimple c.flat fields here := by
  cases fields with
  | nil => rfl
  | cons name args =>
    simp only [execSimpleC, execSimple]
    cases hu : classify name with
    | read =>
      exact execReadC_flat _ _ _ _
    | cat => exact execCatC_flat _ _
    | closein =>
      cases hsh : c.st.shared with
      | false => simp [execUtil, execClose, CState.flat, State.stdin, State.setStdin, hsh]
      | true => simp [execUtil, execClose, CState.flat, State.stdin, State.setStdin, hsh, drainC_eq]
    | probe => exact (execUtil_set c.st .probe name args here _ (by simp) (by simp)).symm
    | aliasName => exact (execUtil_set c.st .aliasName name args here _ (by simp) (by simp)).symm
    | st => exact (execUtil_set c.st .st name args here _ (by simp) (by simp)).symm
    | colon => exact (execUtil_set c.st .colon name args here _ (by simp) (by simp)).symm
    | alias => exact (execUtil_set c.st .alias name args here _ (by simp) (by simp)).symm
    | unalias => exact (execUtil_set c.st .unalias name args here _ (by simp) (by simp)).symm
    | set => exact (execUtil_set c.st .set name args here _ (by simp) (by simp)).symm
    | unknown => exact (execUtil_set c.st .unknown name args here _ (by simp) (by simp)).symm
    | echo => exact (execUtil_set c.st .echo name args here _ (by simp) (by simp)).symm

theorem stepC_flat (k : List K) (c : CState) :
    (stepC k c).map (fun r => (r.1, r.2.flat)) = step k c.flat := by
  by_cases hs : ∃ ws here k0, k = .cmd (.simple ws here) :: k0
  · obtain ⟨ws, here, k0, hk⟩ := hs
    subst hk
    simp only [stepC, step, stepSimple]
    show _ = some (match nested (expandWords c.st.vars c.st.status ws) with
      | some (text, echoes) => (K.src text echoes false :: k0, c.flat)
      | none => (k0, execSimple c.flat (expandWords c.st.vars c.st.status ws) here))
    cases nested (expandWords c.st.vars c.st.status ws) with
    | some r => rfl
    | none => simp only [Option.map]; rw [execSimpleC_flat]
  · have hs' : ∀ ws here k0, k ≠ .cmd (.simple ws here) :: k0 := by
      intro ws here k0 e; exact hs ⟨ws, here, k0, e⟩
    have hstep : stepC k c = (step k c.st).map fun r => (r.1, { c with st := r.2 }) := by
      unfold stepC
      split
      · rename_i ws here k0; exact absurd rfl (hs' ws here k0)
      · rfl
    rw [hstep]
    refine Eq.trans ?_ (step_set k c.st c.src.flatten hs').symm
    cases step k c.st with
    | none => rfl
    | some r => rfl

theorem runKC_flat (n : Nat) (k : List K) (c : CState) :
    ((runKC n k c).1.flat, (runKC n k c).2) = runK n k c.flat := by
  induction n generalizing k c with
  | zero => rfl
  | succ n ih =>
    simp only [runKC, runK]
    rw [← stepC_flat]
    cases stepC k c with
    | none => rfl
    | some r => simpa using ih r.1 r.2

/-! ### the read-eval loop -/

theorem pullOfC_flat (c : CState) : (pullOfC c).flat = pullOf c.flat :=
  pullC_flat (parserOf c.st) (c.src.flatten.length + 1) [] c.src

theorem pullOfC_text (c : CState) : (pullOfC c).text = (pullOf c.flat).text := by
  rw [← pullOfC_flat]; rfl
theorem pullOfC_rest (c : CState) : (pullOfC c).rest.flatten = (pullOf c.flat).rest := by
  rw [← pullOfC_flat]; rfl
theorem pullOfC_res (c : CState) : (pullOfC c).res = (pullOf c.flat).res := by
  rw [← pullOfC_flat]; rfl
theorem pullOfC_sawEof (c : CState) : (pullOfC c).sawEof = (pullOf c.flat).sawEof := by
  rw [← pullOfC_flat]; rfl

theorem afterPullC_flat (c : CState) : (afterPullC c).flat = afterPull c.flat := by
  simp only [afterPullC, afterPull, CState.flat, pullOfC_text, pullOfC_rest]
  rfl

theorem atExecC_flat (c : CState) : (atExecC c).flat = atExec c.flat := by
  simp only [atExecC, atExec, ← afterPullC_flat, pullOfC_sawEof]
  rfl

theorem loopC_flat (n : Nat) (c : CState) (log : List (List Byte)) (lg : List Iter)
    (hl : log = lg.map (·.text)) :
    (loopC n c log).1.flat = (loop n c.flat lg).1
    ∧ (loopC n c log).2.1 = (loop n c.flat lg).2.1
    ∧ (loopC n c log).2.2 = (loop n c.flat lg).2.2.map (·.text) := by
  induction n generalizing c log lg with
  | zero => exact ⟨rfl, rfl, hl⟩
  | succ n ih =>
    have hlog : log ++ [(pullOfC c).text] = (lg ++ [iterOf c.flat]).map (·.text) := by
      simp [hl, iterOf, pullOfC_text]
    simp only [loopC, loop]
    rw [pullOfC_res]
    cases hres : (pullOf c.flat).res with
    | none =>
      refine ⟨?_, rfl, hlog⟩
      show ({ (afterPullC c).flat with hitEof := c.st.hitEof || !(pullOfC c).text.isEmpty } : State) = _
      rw [afterPullC_flat, pullOfC_text]
      rfl
    | error =>
      refine ⟨?_, rfl, hlog⟩
      show ({ (afterPullC c).flat with status := 2 } : State) = _
      rw [afterPullC_flat]
    | incomplete =>
      refine ⟨?_, rfl, hlog⟩
      show ({ (afterPullC c).flat with status := 2 } : State) = _
      rw [afterPullC_flat]
    | ok cs =>
      simp only []
      have hr := runKC_flat execFuel (cmds cs) (atExecC c)
      rw [atExecC_flat] at hr
      simp only [Prod.ext_iff] at hr
      rw [← hr.2]
      have hab : (runKC execFuel (cmds cs) (atExecC c)).1.st.aborted
          = (runK execFuel (cmds cs) (atExec c.flat)).1.aborted := by
        rw [← hr.1]; rfl
      by_cases hfin : (runKC execFuel (cmds cs) (atExecC c)).2 = true
      · simp only [hfin, if_true]
        rw [hab]
        by_cases ha : (runK execFuel (cmds cs) (atExec c.flat)).1.aborted = true
        · simp only [ha, if_true]
          exact ⟨hr.1, trivial, hlog⟩
        · simp only [ha]
          have := ih (runKC execFuel (cmds cs) (atExecC c)).1 _ _ hlog
          rw [hr.1] at this
          exact this
      · simp only [hfin]
        exact ⟨hr.1, rfl, hlog⟩

end YashModel.Input
