/-
  C18 — Spec: what "line by line, no further than the running command needs" says about a run,
  stated on the input text alone (no reader, no lexer buffer):

    * the script descriptor is consumed in order, without gaps and without going back: what an
      iteration of the read-eval loop pulled, followed by what it left, is what it found;
    * what an iteration pulled is a whole number of lines (it ends with a newline or at end of input);
    * commands only consume forward from where the parser stopped;
    * whenever a command looks at the shared descriptor its offset is the start of a line of the
      script (or its end): nothing of a later line has been taken, nothing of the current one is left;
    * a source delivering the same bytes in different chunks yields the same lines.

  `check` evaluates these clauses on a run of the Impl model (the driver prints the verdict in the
  Spec column); the theorems of `Theorems.lean` prove them for every run.
  Import-free and executable.
-/
import YashModel.Input.Model
import YashModel.Input.ChunkModel
namespace YashModel.Input

/-- the first `k` lines of an input (concatenated) and what follows them -/
def takeLines : Nat → List Byte → List Byte × List Byte
  | 0, inp => ([], inp)
  | k + 1, inp =>
    ((nextLine inp).1 ++ (takeLines k (nextLine inp).2).1, (takeLines k (nextLine inp).2).2)

/-! ### the reference reader: lines, not bytes

  What POSIX asks of `sh` reading commands from a file or standard input, in its simplest form: the
  input is a list of lines; an iteration takes the *fewest* lines that make a complete command for the
  parser **as configured by everything executed so far** (aliases, options), executes it with the
  remaining lines as its standard input, and only then looks at the next line.  No reader, no buffer,
  no fuel-driven pulling: `takeLines k` for the least `k`.  The driver prints this run's observation as
  the Spec prediction (`=…`): the implementation must produce exactly it. -/

def specPull (parse : Bool → List Byte → ParseRes) : Nat → Nat → List Byte →
    List Byte × List Byte × ParseRes
  | 0, k, inp => ((takeLines k inp).1, (takeLines k inp).2, .error)
  | n + 1, k, inp =>
    if inp = [] then ([], [], parse true [])
    else if !(parse false (takeLines k inp).1).isIncomplete then
      ((takeLines k inp).1, (takeLines k inp).2, parse false (takeLines k inp).1)
    else if (takeLines k inp).2 = [] then
      ((takeLines k inp).1, [], parse true (takeLines k inp).1)
    else specPull parse n (k + 1) inp

def specLoop : Nat → State → State × Outcome
  | 0, s => (s, .outOfFuel)
  | n + 1, s =>
    let p := specPull (parserOf s) (s.inp.length + 1) 1 s.inp
    let s1 : State := { s with inp := p.2.1, echo := echoOf s p.1,
                               pos := if s.shared then s.pos + p.1.length else s.pos }
    match p.2.2 with
    | .none => (s1, .eof)
    | .error => ({ s1 with status := 2 }, .syntaxError)
    | .incomplete => ({ s1 with status := 2 }, .syntaxError)
    | .ok cs =>
      let r := runK execFuel (cmds cs) s1
      if r.2 then (if r.1.aborted then (r.1, .syntaxError) else specLoop n r.1) else (r.1, .outOfFuel)

def specRun (shared : Bool) (script data : List Byte) : State × Outcome :=
  specLoop (script.length + 2) (initState shared script data)

def specRunPipe (inherited : Bool) (script : List Byte) : State × Outcome :=
  specLoop (script.length + 2) (prepareInput true { initState true script [] with nonblock := inherited })

def specRunFile (script data : List Byte) : State × Outcome :=
  specLoop (script.length + 2) (initStateFile script data)

def isSuffix (a b : List Byte) : Bool := a.length ≤ b.length && b.drop (b.length - a.length) == a

/-- offset `o` of `script` is the start of a line or the end of the script -/
def lineStart (script : List Byte) (o : Nat) : Bool :=
  o == 0 || o == script.length || (o ≤ script.length && script[o - 1]? == some NL)

/-- the input is valid UTF-8 (`read` stops in the middle of a line when it meets an invalid byte) -/
def validUtf8 (buf : List Byte) : List Byte → Bool
  | [] => buf.isEmpty
  | b :: rest =>
    match utf8Check (buf ++ [b]) with
    | .ok _ => validUtf8 [] rest
    | .more => validUtf8 (buf ++ [b]) rest
    | .bad => false

def wholeLines (text rest : List Byte) : Bool := text.isEmpty || endsNL text || rest.isEmpty

def checkLog : List Byte → List Iter → Option String
  | _, [] => none
  | prev, it :: more =>
    if it.text ++ it.atExec != it.start then some "gap"
    else if !wholeLines it.text it.atExec then some "partial-line"
    else if !isSuffix it.start prev then some "went-back"
    else checkLog it.atExec more

def probeOffsets : List Out → List Nat
  | [] => []
  | .probe _ fields o _ :: rest =>
    -- a probe whose marker starts with `I` runs with standard input redirected (the generator's
    -- convention): its offset is an offset into the here-document or file, not into the script
    if (fields.head?.map (·.startsWith "I")).getD false then probeOffsets rest
    else o :: probeOffsets rest
  | _ :: rest => probeOffsets rest

/-- split a script into the chunks of the given sizes (cyclic) -/
def chunksOf (sizes : List Nat) : Nat → Nat → List Byte → List (List Byte)
  | 0, _, _ => []
  | _, _, [] => []
  | n + 1, k, bs =>
    let sz := max 1 (sizes.getD (k % max 1 sizes.length) 1)
    bs.take sz :: chunksOf sizes n (k + 1) (bs.drop sz)

/-- `prefix_monotone` evaluated at the given prefixes: a prefix whose own run ends cleanly has a trace
    that the whole run extends -/
def checkPrefixes (fileSrc shared : Bool) (data : List Byte) (full : List Out) (fullEcho : List Byte) :
    List (List Byte) → Bool
  | [] => true
  | p :: ps =>
    let r := if fileSrc then runFile p data else run shared p data
    (if r.2.1 == .eof && !r.1.hitEof then (traceOf r).isPrefixOf full && r.1.echo.isPrefixOf fullEcho
     else true)
      && checkPrefixes fileSrc shared data full fullEcho ps

/-- does the script use `read -d` (then `read` may stop in the middle of a line) -/
def usesDelim : List Byte → Bool
  | 45 :: 100 :: 32 :: _ => true
  | _ :: rest => usesDelim rest
  | [] => false

def check (fileSrc shared : Bool) (script data : List Byte) (prefixes : List (List Byte))
    (chunks : Option (List (List Byte))) (r : State × Outcome × List Iter) : String :=
  match checkLog script r.2.2 with
  | some w => "FAIL:" ++ w
  | none =>
    if shared && validUtf8 [] script && !usesDelim script
       && !(probeOffsets r.1.out).all (lineStart script) then "FAIL:offset-inside-line"
    else if !checkPrefixes fileSrc shared data (traceOf r) r.1.echo prefixes then "FAIL:prefix-not-monotone"
    else match chunks with
      | some cs =>
        if cs.flatten != script then "FAIL:chunks"
        else if linesOfC (script.length + 1) cs != linesOf (script.length + 1) script
        then "FAIL:chunking-changes-lines"
        else
          let rc := readLineCGo 10 true false [] cs []
          let rf := readLine 10 true script []
          if (rc.1, rc.2.1, rc.2.2.flatten) != rf then "FAIL:chunking-changes-read"
          else if shared then
            -- the machine that only ever reads the chunk list, against the flat run
            let c := runC cs
            if c.1.st.out != r.1.out || c.1.st.status != r.1.status || c.1.st.echo != r.1.echo
               || c.1.st.pos != r.1.pos || c.1.st.vars != r.1.vars || c.1.st.aliases != r.1.aliases
               || c.2.1 != r.2.1 || c.2.2 != r.2.2.map (·.text) || c.1.src.flatten != r.1.inp
            then "FAIL:chunked-run-differs" else "ok"
          else "ok"
      | none => "ok"

end YashModel.Input
