/-
  C18 — helper lemmas about the readers (`nextLine`, `nextLineC`, `readLine`) and `pull`.
-/
import YashModel.Input.Model
namespace YashModel.Input

/-! ### `nextLine` -/

/-- the reference description of a line: the shortest prefix ending with a newline, or everything -/
def splitLine : List Byte → List Byte × List Byte
  | [] => ([], [])
  | b :: rest => if b = NL then ([b], rest) else ((splitLine rest).1 |> (b :: ·), (splitLine rest).2)

theorem nextLineGo_eq (acc inp : List Byte) :
    nextLineGo acc inp = (acc ++ (splitLine inp).1, (splitLine inp).2) := by
  induction inp generalizing acc with
  | nil => simp [nextLineGo, splitLine]
  | cons b rest ih =>
    by_cases hb : b = NL
    · simp [nextLineGo, splitLine, hb]
    · simp [nextLineGo, splitLine, hb, ih]

theorem nextLine_eq (inp : List Byte) : nextLine inp = splitLine inp := by
  simp [nextLine, nextLineGo_eq]

theorem splitLine_append (inp : List Byte) : (splitLine inp).1 ++ (splitLine inp).2 = inp := by
  induction inp with
  | nil => simp [splitLine]
  | cons b rest ih =>
    by_cases hb : b = NL
    · simp [splitLine, hb]
    · simp [splitLine, hb, ih]

theorem splitLine_no_inner_nl (inp : List Byte) : NL ∉ (splitLine inp).1.dropLast := by
  induction inp with
  | nil => simp [splitLine]
  | cons b rest ih =>
    by_cases hb : b = NL
    · simp [splitLine, hb]
    · simp only [splitLine, hb, if_false]
      cases h : (splitLine rest).1 with
      | nil => simp
      | cons c t =>
        rw [h] at ih
        simp only [List.dropLast_cons_cons]
        intro hm
        cases hm with
        | head => exact hb rfl
        | tail _ hm' => exact ih hm'

theorem splitLine_end (inp : List Byte) :
    (splitLine inp).2 = [] ∨ (splitLine inp).1.getLast? = some NL := by
  induction inp with
  | nil => simp [splitLine]
  | cons b rest ih =>
    by_cases hb : b = NL
    · simp [splitLine, hb]
    · simp only [splitLine, hb, if_false]
      cases ih with
      | inl h => exact Or.inl h
      | inr h =>
        right
        cases h2 : (splitLine rest).1 with
        | nil => rw [h2] at h; simp at h
        | cons c t => rw [h2] at h; simpa [List.getLast?_cons_cons] using h

theorem splitLine_nil_iff (inp : List Byte) : (splitLine inp).1 = [] ↔ inp = [] := by
  cases inp with
  | nil => simp [splitLine]
  | cons b rest => by_cases hb : b = NL <;> simp [splitLine, hb]

theorem splitLine_rest_length (inp : List Byte) (h : inp ≠ []) :
    (splitLine inp).2.length < inp.length := by
  have h1 := splitLine_append inp
  have h2 : (splitLine inp).1 ≠ [] := fun e => h ((splitLine_nil_iff inp).1 e)
  have h3 : 0 < (splitLine inp).1.length := List.length_pos_iff.mpr h2
  have : inp.length = (splitLine inp).1.length + (splitLine inp).2.length := by
    rw [← List.length_append, h1]
  omega

/-- appending more input does not change a line that was terminated by its newline -/
theorem splitLine_append_right (p S : List Byte) (h : (splitLine p).1.getLast? = some NL) :
    splitLine (p ++ S) = ((splitLine p).1, (splitLine p).2 ++ S) := by
  induction p with
  | nil => simp [splitLine] at h
  | cons b rest ih =>
    by_cases hb : b = NL
    · simp [splitLine, hb]
    · simp only [splitLine, hb, if_false] at h ⊢
      have h' : (splitLine rest).1.getLast? = some NL := by
        cases h2 : (splitLine rest).1 with
        | nil => rw [h2] at h; simp at h; exact absurd h hb
        | cons c t => rw [h2] at h; simpa [List.getLast?_cons_cons] using h
      simp [List.cons_append, splitLine, hb, ih h']

/-! ### chunked sources -/

theorem read1_none (cs : List (List Byte)) : read1 cs = none ↔ cs.flatten = [] := by
  induction cs with
  | nil => simp [read1]
  | cons c cs ih => cases c <;> simp [read1, ih]

theorem read1_some (cs cs' : List (List Byte)) (b : Byte) (h : read1 cs = some (b, cs')) :
    cs.flatten = b :: cs'.flatten := by
  induction cs with
  | nil => simp [read1] at h
  | cons c cs ih =>
    cases c with
    | nil => simp only [read1] at h; simpa using ih h
    | cons x c => simp only [read1, Option.some.injEq, Prod.mk.injEq] at h; simp [← h.1, ← h.2]

theorem nextLineCGo_eq (acc : List Byte) (cs : List (List Byte)) :
    ((nextLineCGo acc cs).1, (nextLineCGo acc cs).2.flatten) = nextLineGo acc cs.flatten := by
  fun_induction nextLineCGo acc cs <;> simp_all [nextLineGo]

theorem nextLineC_eq (cs : List (List Byte)) :
    ((nextLineC cs).1, (nextLineC cs).2.flatten) = nextLine cs.flatten := by
  simpa [nextLineC, nextLine] using nextLineCGo_eq [] cs

theorem linesOfC_eq (n : Nat) (cs : List (List Byte)) : linesOfC n cs = linesOf n cs.flatten := by
  induction n generalizing cs with
  | zero => simp [linesOfC, linesOf]
  | succ n ih =>
    have h := nextLineC_eq cs
    simp only [linesOfC, linesOf]
    rw [← h]
    simp [ih]

end YashModel.Input
