/-
  C18 — lemmas about the redirections of standard input (`performIn` / `undoIn`, the transcription of
  `RedirGuard::perform_redirs` / `undo_redirs` for descriptor 0): they only ever change which open file
  description descriptor 0 refers to, and they commute with everything that does not look at it.
-/
import YashModel.Input.Model
namespace YashModel.Input

@[simp] theorem setDesc_setDesc (s : State) (a b : SavedIn) : setDesc (setDesc s a) b = setDesc s b := rfl
@[simp] theorem setDesc_stdinDesc (s : State) : setDesc s (stdinDesc s) = s := rfl
@[simp] theorem stdinDesc_setDesc (s : State) (d : SavedIn) : stdinDesc (setDesc s d) = d := rfl

/-- the state after `perform_redirs` differs from the one before only in what descriptor 0 refers to -/
theorem performIn_state (rs : List Rd) (saved : List SavedIn) (s : State) :
    (performIn rs saved s).2.1 = setDesc s (stdinDesc (performIn rs saved s).2.1) := by
  induction rs generalizing saved s with
  | nil => rfl
  | cons r rs ih =>
    rw [performIn]
    cases rdContent r with
    | none => rfl
    | some c =>
      simp only []
      have := ih (saved ++ [stdinDesc s]) (setDesc s { shared := false, data := c, pos := 0 })
      rw [setDesc_setDesc] at this
      exact this

theorem foldl_setDesc_state (l : List SavedIn) (s : State) :
    l.foldl setDesc s = setDesc s (stdinDesc (l.foldl setDesc s)) := by
  induction l generalizing s with
  | nil => rfl
  | cons d l ih =>
    simp only [List.foldl_cons]
    have := ih (setDesc s d)
    rw [setDesc_setDesc] at this
    exact this

/-- the same for `undo_redirs` -/
theorem undoIn_state (saved : List SavedIn) (s : State) :
    undoIn saved s = setDesc s (stdinDesc (undoIn saved s)) := foldl_setDesc_state _ _

/-- `saved_fds` only grows, in the order pushed -/
theorem performIn_saved (rs : List Rd) (saved : List SavedIn) (s : State) :
    ∃ more, (performIn rs saved s).1 = saved ++ more := by
  induction rs generalizing saved s with
  | nil => exact ⟨[], by simp [performIn]⟩
  | cons r rs ih =>
    rw [performIn]
    cases rdContent r with
    | none => exact ⟨[], by simp⟩
    | some c =>
      obtain ⟨m, hm⟩ := ih (saved ++ [stdinDesc s]) (setDesc s { shared := false, data := c, pos := 0 })
      exact ⟨stdinDesc s :: m, by simp only []; rw [hm]; simp⟩

/-- the first description saved is the one standard input referred to before the command -/
theorem performIn_first (rs : List Rd) (s : State) :
    (performIn rs [] s).1 = [] ∧ (performIn rs [] s).2.1 = s
    ∨ (performIn rs [] s).1.head? = some (stdinDesc s) := by
  cases rs with
  | nil => exact Or.inl ⟨rfl, rfl⟩
  | cons r rs =>
    rw [performIn]
    cases rdContent r with
    | none => exact Or.inl ⟨rfl, rfl⟩
    | some c =>
      obtain ⟨m, hm⟩ := performIn_saved rs ([] ++ [stdinDesc s]) (setDesc s { shared := false, data := c, pos := 0 })
      right
      simp only []
      rw [hm]; rfl

/-- copying the saved descriptions back last-saved-first leaves the first one on descriptor 0 -/
theorem undoIn_head (saved : List SavedIn) (s : State) (d : SavedIn) (h : saved.head? = some d) :
    undoIn saved s = setDesc s d := by
  cases saved with
  | nil => simp at h
  | cons a l =>
    simp only [List.head?_cons, Option.some.injEq] at h
    subst h
    unfold undoIn
    rw [List.reverse_cons, List.foldl_append]
    simp only [List.foldl_cons, List.foldl_nil]
    rw [foldl_setDesc_state]
    rfl

/-! ### commutation with operations that do not look at descriptor 0 -/

theorem performIn_comm (f : State → State) (h1 : ∀ s, stdinDesc (f s) = stdinDesc s)
    (h2 : ∀ s d, setDesc (f s) d = f (setDesc s d)) (rs : List Rd) (saved : List SavedIn) (s : State) :
    performIn rs saved (f s)
      = ((performIn rs saved s).1, f (performIn rs saved s).2.1, (performIn rs saved s).2.2) := by
  induction rs generalizing saved s with
  | nil => rfl
  | cons r rs ih =>
    rw [performIn, performIn]
    cases rdContent r with
    | none => rfl
    | some c =>
      simp only []
      rw [h1, h2]
      exact ih _ _

theorem foldl_setDesc_comm (f : State → State) (h2 : ∀ s d, setDesc (f s) d = f (setDesc s d))
    (l : List SavedIn) (s : State) : l.foldl setDesc (f s) = f (l.foldl setDesc s) := by
  induction l generalizing s with
  | nil => rfl
  | cons d l ih => simp only [List.foldl_cons]; rw [h2]; exact ih _

theorem undoIn_comm (f : State → State) (h2 : ∀ s d, setDesc (f s) d = f (setDesc s d))
    (saved : List SavedIn) (s : State) : undoIn saved (f s) = f (undoIn saved s) :=
  foldl_setDesc_comm f h2 _ _

end YashModel.Input
