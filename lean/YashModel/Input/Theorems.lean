/-
  C18 — property theorems: input is consumed line by line, no further than the running command needs.

  ★ `next_line_exact`      what `FdReader2::next_line` returns and leaves
  ★ `chunking_irrelevant`  the lines do not depend on how the source delivers its bytes
    `chunk_refines_bytes`  a chunked source is the byte stream of its concatenation, one byte per read
  ★ `pull_exact`, `lazy_prefix`  the bytes pulled for a command line are exactly its lines, no proper
                           prefix of which was a complete command; the command starts with the
                           descriptor at the start of the next line
  ★ `prefix_monotone`      the run of `P ++ S` extends the run of a complete `P`, whatever `S` is
    `frame_exec`           a command never depends on input it did not reach
  ★ `read_logical_line`, `read_leaves_what_follows`, `exec_read_leaves_what_follows`,
    `read_trailing_backslashes`   the `read` built-in takes exactly the first logical line (shortest
                           prefix ending with the delimiter after an even number of backslashes) and
                           leaves exactly what follows it
  ★ `redirs_undone_exactly`, `stdin_restored_after_command`, `script_cursor_after_command`,
    `run_stdin_is_the_script`   whatever redirections of standard input the commands of a command line
                           perform (`RedirGuard`), when they are over descriptor 0 is the description it
                           was, its offset advanced by exactly what was consumed through it
-/
import YashModel.Input.Steps
import YashModel.Input.Utf8
import YashModel.Input.ChunkLemmas
import YashModel.Input.SpecEq
import YashModel.Input.Logical
import YashModel.Input.Compose
import YashModel.Input.RedirInv
import YashModel.Input.RedirCursor
import YashModel.Input.RedirC09
import YashModel.Expansion.ReadLemmas
import YashModel.Generated.InputConsts
namespace YashModel.Input

/-- ★ `next_line`: the line and the rest are the input; the line has no newline except possibly as
    its last byte; either the line ends with a newline or the input is exhausted; an empty line means
    end of input. -/
theorem next_line_exact (inp line rest : List Byte) (h : nextLine inp = (line, rest)) :
    line ++ rest = inp ∧ NL ∉ line.dropLast ∧ (rest = [] ∨ line.getLast? = some NL)
      ∧ (line = [] ↔ inp = []) := by
  rw [nextLine_eq] at h
  have h1 : line = (splitLine inp).1 := by rw [h]
  have h2 : rest = (splitLine inp).2 := by rw [h]
  subst h1; subst h2
  exact ⟨splitLine_append inp, splitLine_no_inner_nl inp, splitLine_end inp, splitLine_nil_iff inp⟩

example : nextLine [112, 10, 113] = ([112, 10], [113]) := by decide

/-- ★ the same as offsets, for **arbitrary bytes** (no assumption about UTF-8: a lead-like byte before
    the newline changes nothing): `next_line` takes the bytes up to and including the first newline —
    `k + 1` bytes where `k` is the number of bytes before the first newline — or everything if there is
    none; the descriptor then stands exactly one past that newline. -/
theorem next_line_offset (inp : List Byte) :
    nextLine inp = (inp.take ((inp.takeWhile (· != NL)).length + 1),
                    inp.drop ((inp.takeWhile (· != NL)).length + 1)) := by
  rw [nextLine_eq]
  induction inp with
  | nil => simp [splitLine]
  | cons b rest ih =>
    by_cases hb : b = NL
    · simp [splitLine, hb]
    · simp [splitLine, hb, ih]

/-- 0xE2 (the lead byte of a three-byte sequence) right before the newline: the line still ends at
    the newline -/
example : nextLine [97, 0xE2, 10, 98, 10] = ([97, 0xE2, 10], [98, 10]) := by decide

/-- a source that delivers its bytes in chunks is, read one byte at a time, the byte stream of the
    concatenated chunks (empty chunks included) -/
theorem chunk_refines_bytes (cs : List (List Byte)) :
    (read1 cs = none ↔ cs.flatten = []) ∧
    (∀ b cs', read1 cs = some (b, cs') → cs.flatten = b :: cs'.flatten) :=
  ⟨read1_none cs, fun b cs' h => read1_some cs cs' b h⟩

/-- ★ the sequence of lines a reader produces is independent of the chunking of the source: it is the
    sequence of lines of the concatenation, so two chunkings of the same bytes give the same lines -/
theorem chunking_irrelevant (n : Nat) (cs ds : List (List Byte)) :
    linesOfC n cs = linesOf n cs.flatten ∧
    ((nextLineC cs).1, (nextLineC cs).2.flatten) = nextLine cs.flatten ∧
    (cs.flatten = ds.flatten → linesOfC n cs = linesOfC n ds) := by
  refine ⟨linesOfC_eq n cs, nextLineC_eq cs, ?_⟩
  intro h; rw [linesOfC_eq, linesOfC_eq, h]

example : linesOfC 9 [[112], [], [10, 113, 10], [114]] = linesOfC 9 [[112, 10], [113], [10, 114]] :=
  (chunking_irrelevant 9 _ _).2.2 (by decide)

/-- ★ `read_char` of the `read` built-in (bytes read one at a time until `from_utf8` accepts the buffer)
    over a chunked source: the character delivered (or end of input / EILSEQ) and the bytes left are
    those of the concatenated stream, hence the same for every chunking of the same bytes — wherever
    the chunk boundaries fall inside a multi-byte character; and a delivered character consumed
    exactly the bytes of its own UTF-8 sequence, nothing beyond. -/
theorem read_char_chunking_irrelevant (cs ds : List (List Byte)) :
    ((readCharCGo [] cs).1, (readCharCGo [] cs).2.flatten) = readChar cs.flatten
    ∧ (cs.flatten = ds.flatten →
        (readCharCGo [] cs).1 = (readCharCGo [] ds).1
        ∧ (readCharCGo [] cs).2.flatten = (readCharCGo [] ds).2.flatten)
    ∧ (∀ code rest, readChar cs.flatten = (.char code, rest) →
        ∃ pre, pre ≠ [] ∧ pre ++ rest = cs.flatten ∧ utf8Check pre = .ok code) := by
  refine ⟨readCharCGo_eq [] cs, ?_, ?_⟩
  · intro h
    have h1 := readCharCGo_eq [] cs
    have h2 := readCharCGo_eq [] ds
    rw [h] at h1
    rw [← h2] at h1
    simp only [Prod.mk.injEq] at h1
    exact h1
  · intro code rest h
    obtain ⟨pre, h1, h2, h3⟩ := readCharGo_exact [] cs.flatten code rest h
    exact ⟨pre, h1, h2, by simpa using h3⟩

/-- `€` (E2 82 AC) arriving one byte per chunk, followed by a newline: the character, and only its
    three bytes consumed -/
example : ((readCharCGo [] [[0xE2], [0x82], [], [0xAC, 10]]).1,
           (readCharCGo [] [[0xE2], [0x82], [], [0xAC, 10]]).2.flatten) = (.char 0x20AC, [10]) :=
  (read_char_chunking_irrelevant [[0xE2], [0x82], [], [0xAC, 10]] []).1.trans (by decide)

/-- ★ `chunking_irrelevant` for the `read` built-in's reader, for every delimiter `d` (`-d`, a single
    byte, newline by default) and with or without `-r`: over any chunking of the same bytes `read`
    delivers the same characters (with their quoting), ends the same way and leaves the same bytes;
    when it found its delimiter it consumed a prefix of the stream ending with the delimiter byte —
    for `read -r` with the default delimiter exactly the first line of the stream, newline included,
    nothing of the next line. -/
theorem read_chunking_irrelevant (d : Nat) (hd : d < 128) (raw : Bool) (cs ds : List (List Byte)) :
    ((readLineCGo d raw false [] cs []).1, (readLineCGo d raw false [] cs []).2.1,
        (readLineCGo d raw false [] cs []).2.2.flatten) = readLine d raw cs.flatten []
    ∧ (cs.flatten = ds.flatten →
        (readLineCGo d raw false [] cs []).1 = (readLineCGo d raw false [] ds []).1
        ∧ (readLineCGo d raw false [] cs []).2.1 = (readLineCGo d raw false [] ds []).2.1
        ∧ (readLineCGo d raw false [] cs []).2.2.flatten = (readLineCGo d raw false [] ds []).2.2.flatten)
    ∧ ((readLineCGo d raw false [] cs []).2.1 = .found →
        ∃ pre bl, pre ++ (readLineCGo d raw false [] cs []).2.2.flatten = cs.flatten
          ∧ pre.getLast? = some bl ∧ bl.toNat = d
          ∧ (raw = true → d = 10 → pre = (nextLine cs.flatten).1
                          ∧ (readLineCGo d raw false [] cs []).2.2.flatten = (nextLine cs.flatten).2)) := by
  have e1 := readLineCGo_eq d raw false [] cs []
  refine ⟨e1, ?_, ?_⟩
  · intro h
    have e2 := readLineCGo_eq d raw false [] ds []
    rw [h] at e1
    rw [← e2] at e1
    simp only [Prod.mk.injEq] at e1
    exact e1
  · intro hf
    have hrl : readLineGo d raw false [] cs.flatten []
        = ((readLineCGo d raw false [] cs []).1, .found, (readLineCGo d raw false [] cs []).2.2.flatten) := by
      rw [← e1, hf]
    obtain ⟨pre, bl, h1, h2, h3⟩ := readLineGo_line d hd raw false [] cs.flatten [] _ _ hrl
    refine ⟨pre, bl, h1, h2, h3, ?_⟩
    intro hraw hd10
    subst hraw; subst hd10
    obtain ⟨pre', h1', h2', h3'⟩ := readLineGo_raw_line [] cs.flatten [] _ _ hrl
    have hpp : pre' = pre := List.append_cancel_right (h1'.trans h1.symm)
    subst hpp
    have := splitLine_unique pre' (readLineCGo 10 true false [] cs []).2.2.flatten h2' h3'
    rw [h1'] at this
    rw [nextLine_eq, this]
    exact ⟨rfl, rfl⟩

/-- ★ what `read` consumes, for **every** byte input (valid UTF-8 or not), delimiter and mode: it
    consumes a prefix of the stream; at end of input it has consumed everything; when it found its
    delimiter the prefix ends with the delimiter byte and what is left starts right after it — nothing
    of what follows has been taken; with `-r` that delimiter byte is the *first* one in the stream
    (for the default delimiter: exactly one line).  Without `-r` the prefix may contain earlier
    delimiter bytes only as backslash-newline continuations or backslash-quoted characters (that part
    is the definition of `readLineGo`, mirrored from `read/input.rs`). -/
theorem read_consumes (d : Nat) (hd : d < 128) (raw : Bool) (inp : List Byte) :
    (∃ pre, pre ++ (readLine d raw inp []).2.2 = inp)
    ∧ ((readLine d raw inp []).2.1 = .eof → (readLine d raw inp []).2.2 = [])
    ∧ ((readLine d raw inp []).2.1 = .found →
        ∃ pre bl, pre ++ (readLine d raw inp []).2.2 = inp ∧ pre.getLast? = some bl ∧ bl.toNat = d
          ∧ (raw = true → ∀ x ∈ pre.dropLast, x.toNat ≠ d)) := by
  refine ⟨readLine_suffix raw inp [], readLineGo_eof d raw false [] inp [], ?_⟩
  intro hf
  have hrl : readLineGo d raw false [] inp []
      = ((readLine d raw inp []).1, .found, (readLine d raw inp []).2.2) := by
    rw [← hf]; rfl
  obtain ⟨pre, bl, h1, h2, h3⟩ := readLineGo_line d hd raw false [] inp [] _ _ hrl
  refine ⟨pre, bl, h1, h2, h3, ?_⟩
  intro hraw
  subst hraw
  obtain ⟨pre', bl', h1', _, _, h4'⟩ := readLineGo_raw_first d hd [] inp [] _ _ hrl
  have hpp : pre' = pre := List.append_cancel_right (h1'.trans h1.symm)
  subst hpp
  exact h4'

example : readLine 10 true [0xE2, 0x82, 0xAC, 10, 120] [] = ([Expansion.plainChar (Char.ofNat 0x20AC)], .found, [120]) := by
  decide

/-- ★ chunking-independence of a *whole run*.  `runC chunks` is the shell fed through standard input
    by a source that delivers the script in the given chunks; every access to the descriptor (the
    lexer's `next_line`, `read`'s `read_char`, `cat`) is a loop of one-byte reads over the chunk list.
    Its run is the flat run over the concatenation: same final state (standard output, verbose echo,
    exit status, variables, aliases, options, descriptor offset, bytes left), same outcome, and the same
    sequence of command-line texts pulled by the iterations of the read-eval loop.  Hence two
    chunkings of the same byte stream execute the same command sequence with the same results. -/
theorem run_chunking_irrelevant (cs ds : List (List Byte)) :
    ((runC cs).1.flat = (run true cs.flatten []).1
      ∧ (runC cs).2.1 = (run true cs.flatten []).2.1
      ∧ (runC cs).2.2 = (run true cs.flatten []).2.2.map (·.text))
    ∧ (cs.flatten = ds.flatten →
        (runC cs).1.flat = (runC ds).1.flat ∧ (runC cs).2.1 = (runC ds).2.1
        ∧ (runC cs).2.2 = (runC ds).2.2) := by
  have key : ∀ xs : List (List Byte),
      (runC xs).1.flat = (run true xs.flatten []).1
      ∧ (runC xs).2.1 = (run true xs.flatten []).2.1
      ∧ (runC xs).2.2 = (run true xs.flatten []).2.2.map (·.text) := fun xs =>
    loopC_flat (xs.flatten.length + 2) { st := initState true [] [], src := xs } [] [] rfl
  refine ⟨key cs, fun h => ?_⟩
  obtain ⟨a1, a2, a3⟩ := key cs
  obtain ⟨b1, b2, b3⟩ := key ds
  rw [h] at a1 a2 a3
  exact ⟨a1.trans b1.symm, a2.trans b2.symm, a3.trans b3.symm⟩

/-- what the property talks about, read off the previous theorem: trace, exit status and verbose echo
    do not depend on the chunking -/
theorem run_chunking_observables (cs ds : List (List Byte)) (h : cs.flatten = ds.flatten) :
    (runC cs).1.st.out = (runC ds).1.st.out ∧ (runC cs).1.st.status = (runC ds).1.st.status
    ∧ (runC cs).1.st.echo = (runC ds).1.st.echo ∧ (runC cs).1.st.pos = (runC ds).1.st.pos
    ∧ (runC cs).1.st.vars = (runC ds).1.st.vars ∧ (runC cs).1.st.aliases = (runC ds).1.st.aliases := by
  have e := ((run_chunking_irrelevant cs ds).2 h).1
  have o : (runC cs).1.flat.out = (runC ds).1.flat.out := by rw [e]
  have st : (runC cs).1.flat.status = (runC ds).1.flat.status := by rw [e]
  have ec : (runC cs).1.flat.echo = (runC ds).1.flat.echo := by rw [e]
  have po : (runC cs).1.flat.pos = (runC ds).1.flat.pos := by rw [e]
  have va : (runC cs).1.flat.vars = (runC ds).1.flat.vars := by rw [e]
  have al : (runC cs).1.flat.aliases = (runC ds).1.flat.aliases := by rw [e]
  exact ⟨o, st, ec, po, va, al⟩

example : [[112, 114], [111, 98, 101, 32], [], [97, 10]].flatten = [[112], [114, 111, 98, 101, 32, 97, 10]].flatten := by
  decide

/-- ★ (one command line) What the lexer pulled for one `Parser::command_line` is exactly the first
    `k` lines of the input — nothing of line `k+1` — and every shorter non-empty prefix of lines made
    the parser ask for more; the answer is the parser's on that text (or the input ended). -/
theorem pull_exact (parse : Bool → List Byte → ParseRes) (inp : List Byte) :
    let p := pull parse (inp.length + 1) [] inp
    ∃ k, p.text = (takeLines k inp).1 ∧ p.rest = (takeLines k inp).2
      ∧ p.text ++ p.rest = inp
      ∧ (∀ j, 0 < j → j < k → (parse false (takeLines j inp).1).isIncomplete = true)
      ∧ ((0 < k ∧ p.res = parse false p.text ∧ p.res.isIncomplete = false)
         ∨ (p.rest = [] ∧ p.res = parse true p.text)) := by
  intro p
  obtain ⟨k, h1, h2, h3, h4⟩ := pull_spec parse (inp.length + 1) [] inp (by omega)
  refine ⟨k, by simpa using h1, h2, ?_, by simpa using h3, h4⟩
  have : ∀ k inp, (takeLines k inp).1 ++ (takeLines k inp).2 = inp := by
    intro k
    induction k with
    | zero => intro inp; simp [takeLines]
    | succ k ih =>
      intro inp
      simp only [takeLines, List.append_assoc, ih]
      rw [nextLine_eq]; exact splitLine_append inp
  show p.text ++ p.rest = inp
  rw [show p.text = (takeLines k inp).1 from by simpa using h1, show p.rest = _ from h2]
  exact this k inp

/-- an iteration of the read-eval loop pulled whole lines only, as few as possible, and its command
    started with the descriptor right after them -/
def IterOK (it : Iter) : Prop :=
  ∃ (st : State) (k : Nat), it.start = st.inp
    ∧ it.text = (takeLines k it.start).1 ∧ it.atExec = (takeLines k it.start).2
    ∧ it.text ++ it.atExec = it.start
    ∧ (∀ j, 0 < j → j < k → (parserOf st false (takeLines j it.start).1).isIncomplete = true)
    ∧ (st.shared = true → it.posAtExec = it.posStart + it.text.length)

/-- ★ every iteration of the read-eval loop satisfies `IterOK`: the bytes pulled before command i
    runs are exactly the lines up to the end of command i, so the offset of the shared descriptor
    seen by command i is the start of the next line. -/
theorem lazy_prefix (n : Nat) (s : State) (log : List Iter) (h : ∀ it ∈ log, IterOK it) :
    ∀ it ∈ (loop n s log).2.2, IterOK it := by
  induction n generalizing s log with
  | zero => simpa [loop] using h
  | succ n ih =>
    have hnew : ∀ it ∈ log ++ [iterOf s], IterOK it := by
      intro it hit
      rcases List.mem_append.1 hit with h1 | h1
      · exact h it h1
      · simp only [List.mem_singleton] at h1
        subst h1
        obtain ⟨k, h1, h2, h3, h4, _⟩ := pull_exact (parserOf s) s.inp
        refine ⟨s, k, rfl, h1, h2, h3, h4, fun hs => ?_⟩
        simp [iterOf, afterPull, hs]
    simp only [loop]
    split
    · exact hnew
    · exact hnew
    · exact hnew
    · split
      · split
        · exact hnew
        · exact ih _ _ hnew
      · exact hnew

/-- the command of an iteration runs in the state `atExec s`, whose script descriptor stands right
    after the pulled text with the shared offset advanced by exactly the pulled bytes and nothing else
    changed, and it runs before the loop pulls anything else -/
theorem command_sees_next_line (n : Nat) (s : State) (log : List Iter) (cs : List Cmd)
    (h : (pullOf s).res = .ok cs) :
    (atExec s).inp = (pullOf s).rest
      ∧ (s.shared = true → (atExec s).pos = s.pos + (pullOf s).text.length)
      ∧ (atExec s).out = s.out ∧ (atExec s).aliases = s.aliases ∧ (atExec s).vars = s.vars
      ∧ loop (n + 1) s log =
          if (runK execFuel (cmds cs) (atExec s)).2
          then (if (runK execFuel (cmds cs) (atExec s)).1.aborted
                then ((runK execFuel (cmds cs) (atExec s)).1, .syntaxError, log ++ [iterOf s])
                else loop n (runK execFuel (cmds cs) (atExec s)).1 (log ++ [iterOf s]))
          else ((runK execFuel (cmds cs) (atExec s)).1, .outOfFuel, log ++ [iterOf s]) := by
  refine ⟨rfl, fun hs => by simp [atExec, afterPull, hs], rfl, rfl, rfl, ?_⟩
  simp only [loop, h]

/-- a command never depends on input it did not reach: with `S` appended after the cursor the
    execution is the same, `S` still after the cursor — unless a reader met the end of the input -/
theorem frame_exec (n : Nat) (k : List K) (s : State) (S : List Byte)
    (he : (runK n k s).1.hitEof = false) :
    runK n k (s.app S) = ((runK n k s).1.app S, (runK n k s).2) :=
  runK_app n k s S he

theorem echoOf_grows (s : State) (text : List Byte) : ∃ e, echoOf s text = s.echo ++ e := by
  unfold echoOf; split
  · exact ⟨_, rfl⟩
  · exact ⟨[], by simp⟩

theorem atExec_grows (s : State) : Grows s (atExec s) :=
  ⟨⟨[], rfl⟩, fun h => by simp [atExec, h], echoOf_grows s _, rfl⟩

theorem loop_grows (n : Nat) (s : State) (log : List Iter) : Grows s (loop n s log).1 := by
  induction n generalizing s log with
  | zero => exact Grows.refl _
  | succ n ih =>
    simp only [loop]
    split
    · exact ⟨⟨[], rfl⟩, fun h => by simp [h], echoOf_grows s _, rfl⟩
    · exact ⟨⟨[], rfl⟩, id, echoOf_grows s _, rfl⟩
    · exact ⟨⟨[], rfl⟩, id, echoOf_grows s _, rfl⟩
    · split
      · split
        · exact (atExec_grows s).trans (runK_grows _ _ _)
        · exact (atExec_grows s).trans ((runK_grows _ _ _).trans (ih _ _))
      · exact (atExec_grows s).trans (runK_grows _ _ _)

theorem pullOf_app (s : State) (S : List Byte) (h : (pullOf s).sawEof = false) :
    pullOf (s.app S) = { pullOf s with rest := (pullOf s).rest ++ S } := by
  have hlen : (s.inp ++ S).length + 1 = s.inp.length + 1 + S.length := by
    simp only [List.length_append]; omega
  have hparser : parserOf (s.app S) = parserOf s := rfl
  simp only [pullOf, hparser, app_inp]
  rw [hlen]
  exact pull_append (parserOf s) (s.inp.length + 1) S.length [] s.inp S h

theorem atExec_app (s : State) (S : List Byte) (h : (pullOf s).sawEof = false) :
    atExec (s.app S) = (atExec s).app S := by
  simp only [atExec, afterPull, pullOf_app s S h]
  rfl

/-- the final iteration of a clean run pulled nothing -/
theorem pull_text_of_none (parse : Bool → List Byte → ParseRes) (n : Nat) (buf inp : List Byte)
    (h : (pull parse n buf inp).text = []) : buf = [] := by
  induction n generalizing buf inp with
  | zero => simpa [pull] using h
  | succ n ih =>
    rw [pull] at h
    by_cases h1 : (nextLine inp).1 = []
    · simpa [h1] using h
    · simp only [h1, if_false] at h
      by_cases h2 : (parse false (buf ++ (nextLine inp).1)).isIncomplete = true
      · simp only [h2, if_true] at h
        have := ih _ _ h
        simp at this; exact this.1
      · simp only [h2] at h
        simp at h; exact h.1

/-- ★ (general form of `prefix_monotone`, for any state: any feed kind, any aliases and options, also in
    the middle of a run)  If the loop started in `s` ends at end of input without any reader having
    met the end of the input in the middle of something, then with `S` appended to the input the run
    produces the same standard output and the same verbose echo, followed by whatever `S` adds. -/
theorem prefix_monotone_state (n m : Nat) (s sf : State) (log log' lg : List Iter) (S : List Byte)
    (h : loop n s log = (sf, .eof, lg)) (he : sf.hitEof = false) :
    (∃ o, (loop (n + m) (s.app S) log').1.out = o ++ sf.out)
    ∧ (∃ e, (loop (n + m) (s.app S) log').1.echo = sf.echo ++ e) := by
  induction n generalizing s log log' with
  | zero => simp [loop] at h
  | succ n ih =>
    have hnm : n + 1 + m = (n + m) + 1 := by omega
    rw [hnm]
    simp only [loop] at h
    split at h
    · -- `Ok(None)`: the run of `P` is over, having pulled nothing in its last iteration; whatever the
      -- longer run does, it only adds output and echo
      rename_i hres
      simp only [Prod.mk.injEq] at h
      have hempty : (pullOf s).text = [] := by
        have : sf.hitEof = (s.hitEof || !(pullOf s).text.isEmpty) := by rw [← h.1]
        rw [he] at this
        cases ht : (pullOf s).text with
        | nil => rfl
        | cons x xs => simp [ht] at this
      obtain ⟨⟨o, ho⟩, _, ⟨e, hec⟩, _⟩ := loop_grows (n + m + 1) (s.app S) log'
      refine ⟨⟨o, ?_⟩, ⟨e, ?_⟩⟩
      · rw [ho, ← h.1]; rfl
      · rw [hec, ← h.1]
        show s.echo ++ e = echoOf s (pullOf s).text ++ e
        rw [hempty]
        unfold echoOf
        split
        · have : toBytes (toChars []) = [] := rfl
          rw [this]; simp
        · rfl
    · simp at h
    · simp at h
    · rename_i cs hres
      split at h
      · rename_i hfin
        split at h
        · simp at h
        · rename_i hab
          have hs2 : (runK execFuel (cmds cs) (atExec s)).1.hitEof = false := by
            cases hh : (runK execFuel (cmds cs) (atExec s)).1.hitEof with
            | false => rfl
            | true =>
              have := (loop_grows n _ (log ++ [iterOf s])).2.1 hh
              rw [h] at this
              rw [he] at this; exact absurd this (by simp)
          have hs1 : (atExec s).hitEof = false := by
            cases hh : (atExec s).hitEof with
            | false => rfl
            | true =>
              have := (runK_grows execFuel (cmds cs) (atExec s)).2.1 hh
              rw [hs2] at this; exact absurd this (by simp)
          have hsaw : (pullOf s).sawEof = false := by
            cases hh : (pullOf s).sawEof with
            | false => rfl
            | true => simp [atExec, hh] at hs1
          have hres' : (pullOf (s.app S)).res = .ok cs := by
            rw [pullOf_app s S hsaw]; exact hres
          simp only [loop, hres', atExec_app s S hsaw, runK_app execFuel (cmds cs) _ S hs2, hfin,
            if_true, app_aborted, hab]
          exact ih _ _ _ h
      · simp at h

theorem loop_app (n m : Nat) (s sf : State) (log log' lg : List Iter) (S : List Byte)
    (h : loop n s log = (sf, .eof, lg)) (he : sf.hitEof = false) :
    ∃ o, (loop (n + m) (s.app S) log').1.out = o ++ sf.out :=
  (prefix_monotone_state n m s sf log log' lg S h he).1

/-- ★ **the machine is the line-by-line reference reader.**  For every script, standard input and
    feed kind, the run of the machine (byte-at-a-time line reader, lexer buffer, incremental pulling,
    read-eval loop) and the run of `Spec.specRun` agree on everything but the ghost flag: standard
    output, verbose echo, exit status, variables, aliases, options, offset and bytes left of the
    descriptor, and how the run ended.  `specLoop` is the statement of "line by line, no further than
    needed, earlier lines take effect on later ones": each iteration takes the *fewest whole lines*
    (`specPull` = least `k` with `takeLines k` complete) for the parser **configured from the state as it
    is then** (`parserOf s`: aliases and `portable` after everything executed so far), runs the
    command with the remaining lines as the shared standard input, and only then looks further.  A
    model that kept a snapshot of the parsing mode or of the aliases, or whose reader took more or
    less than whole lines, would not satisfy this equation. -/
theorem run_eq_specRun (shared : Bool) (script data : List Byte) :
    (run shared script data).1.erase = (specRun shared script data).1.erase
    ∧ (run shared script data).2.1 = (specRun shared script data).2 :=
  loop_eq_specLoop (script.length + 2) _ _ [] rfl

theorem runFile_eq_specRunFile (script data : List Byte) :
    (runFile script data).1.erase = (specRunFile script data).1.erase
    ∧ (runFile script data).2.1 = (specRunFile script data).2 :=
  loop_eq_specLoop (script.length + 2) _ _ [] rfl

/-- end to end: the shell fed through a pipe in arbitrary chunks, touching its descriptor only by
    one-byte reads, is the line-by-line reference reader on the concatenated bytes -/
theorem runC_eq_specRun (cs : List (List Byte)) :
    (runC cs).1.flat.erase = (specRun true cs.flatten []).1.erase
    ∧ (runC cs).2.1 = (specRun true cs.flatten []).2 := by
  obtain ⟨⟨a, b, _⟩, _⟩ := run_chunking_irrelevant cs cs
  obtain ⟨c, d⟩ := run_eq_specRun true cs.flatten []
  exact ⟨by rw [a]; exact c, by rw [b]; exact d⟩

/-- the observables of the previous theorem, spelled out -/
theorem run_eq_specRun_observables (shared : Bool) (script data : List Byte) :
    (run shared script data).1.out = (specRun shared script data).1.out
    ∧ (run shared script data).1.status = (specRun shared script data).1.status
    ∧ (run shared script data).1.echo = (specRun shared script data).1.echo
    ∧ (run shared script data).1.pos = (specRun shared script data).1.pos
    ∧ (run shared script data).1.vars = (specRun shared script data).1.vars
    ∧ (run shared script data).1.aliases = (specRun shared script data).1.aliases
    ∧ (run shared script data).1.portable = (specRun shared script data).1.portable
    ∧ (run shared script data).1.inp = (specRun shared script data).1.inp := by
  have e := (run_eq_specRun shared script data).1
  have f : ∀ {α : Type} (g : State → α), g (run shared script data).1.erase
      = g (specRun shared script data).1.erase := fun g => by rw [e]
  exact ⟨f (·.out), f (·.status), f (·.echo), f (·.pos), f (·.vars), f (·.aliases), f (·.portable),
    f (·.inp)⟩

/-- the reference reader's `specPull` meets its description: it returns the first `k ≥ 1` lines for the
    least `k` whose text is not incomplete for the parser (or all lines, judged at end of input), and
    what follows them -/
theorem specPull_least (parse : Bool → List Byte → ParseRes) (inp : List Byte) :
    ∃ k, (specPull parse (inp.length + 1) 1 inp).1 = (takeLines k inp).1
      ∧ (specPull parse (inp.length + 1) 1 inp).2.1 = (takeLines k inp).2
      ∧ (∀ j, 0 < j → j < k → (parse false (takeLines j inp).1).isIncomplete = true)
      ∧ ((0 < k ∧ (specPull parse (inp.length + 1) 1 inp).2.2 = parse false (takeLines k inp).1
            ∧ (parse false (takeLines k inp).1).isIncomplete = false)
         ∨ ((takeLines k inp).2 = []
            ∧ (specPull parse (inp.length + 1) 1 inp).2.2 = parse true (takeLines k inp).1)) := by
  obtain ⟨k, h1, h2, _, h4, h5⟩ := pull_exact parse inp
  have e := pull_eq_specPull parse inp
  have e1 := congrArg (·.1) e
  have e2 := congrArg (·.2.1) e
  have e3 := congrArg (·.2.2) e
  simp only at e1 e2 e3
  refine ⟨k, by rw [← e1]; exact h1, by rw [← e2]; exact h2, h4, ?_⟩
  rcases h5 with ⟨a, b, c⟩ | ⟨a, b⟩
  · refine Or.inl ⟨a, ?_, ?_⟩
    · rw [← e3, b, h1]
    · rw [← h1, ← b]; exact c
  · refine Or.inr ⟨?_, ?_⟩
    · rw [← h2]; exact a
    · rw [← e3, b, h1]

example :
    (specPull (fun _ t => if t.length < 4 then .incomplete else .error) 7 1 [1, 10, 2, 10, 3, 10]).1
      = [1, 10, 2, 10]
    ∧ (specPull (fun _ t => if t.length < 4 then .incomplete else .error) 7 1 [1, 10, 2, 10, 3, 10]).2.1
      = [3, 10] := by decide

/-! ### where a command line ends (aliases replaced by nothing included) -/

/-- ★ `Parser::list` stops at a newline and leaves it: if, after alias substitution (an alias replaced by
    nothing — empty, blank or comment-only value — simply disappears), the next token is a newline, the
    list is over and the newline is not consumed. -/
theorem list_stops_at_newline (cfg : PCfg) (n : Nat) (ts rest : List Tok)
    (h : substAlias cfg 8 ts = .nl :: rest) : pList cfg (n + 1) ts = .ok [] (.nl :: rest) := by
  rw [pList]
  simp [h, startsCmd, openTok]

/-- ★ a newline after a `;` separator ends the command line **whatever aliases were substituted before
    it**: when the and-or list before the `;` is `c` and what follows the `;` is, after alias
    substitution, a newline, the list is exactly `[c]` and the newline is left for `command_line`,
    which ends there.  (After `&&` / `||` newlines are skipped — `skipNlAlias` — and the command
    continues on the next line; after `;` they are not.) -/
theorem separator_newline_ends_list (cfg : PCfg) (n : Nat) (ts rest r r' : List Tok) (t : Tok) (c : Cmd)
    (h1 : substAlias cfg 8 ts = t :: rest) (hs : startsCmd t = true)
    (h2 : pAndOr cfg (n + 1) (t :: rest) = .ok c (.op ";" :: r))
    (h3 : substAlias cfg 8 r = .nl :: r') :
    pList cfg (n + 2) ts = .ok [c] (.nl :: r') := by
  rw [pList]
  simp only [h1, hs, Bool.not_true, Bool.false_eq_true, if_false, h2]
  rw [list_stops_at_newline cfg n r r' h3]

/-- for the examples: a literal word token, and the shape of a list result (commands, tokens left) -/
def litWord (s : String) : Tok := .word (s.toList.map fun c => Part.lit c false) []
def PR.shape : PR (List Cmd) → Option (Nat × Nat)
  | .ok cs r => some (cs.length, r.length)
  | _ => none

/-- `st 0; n1` newline `:` newline, `n1` an alias for nothing: the list is the one command `st 0`, and the
    newline and the whole next line are left (2 + 1 tokens) -/
example : (pList { aliases := [("n1", "")], portable := false, eof := false } 12
    [litWord "st", litWord "0", .op ";", litWord "n1", .nl, litWord ":", .nl]).shape = some (1, 3) := by
  decide

/-- the same with a comment-only value; and after `&&` the command does continue on the next line:
    one command (the and-or list `: && :`) and only the final newline left -/
example : (pList { aliases := [("n3", "# note")], portable := false, eof := false } 12
    [litWord ":", .op ";", litWord "n3", .nl, litWord ":", .nl]).shape = some (1, 3)
  ∧ (pList { aliases := [("n1", "")], portable := false, eof := false } 12
    [litWord ":", .op "&&", litWord "n1", .nl, litWord ":", .nl]).shape = some (1, 1) := by
  decide

/-- lines read = lines needed: when the first line alone is a complete command for the parser in
    force, exactly that line is pulled -/
theorem pull_one_line (parse : Bool → List Byte → ParseRes) (inp : List Byte) (hne : inp ≠ [])
    (h : (parse false (takeLines 1 inp).1).isIncomplete = false) :
    (pull parse (inp.length + 1) [] inp).text = (takeLines 1 inp).1
    ∧ (pull parse (inp.length + 1) [] inp).rest = (takeLines 1 inp).2 := by
  obtain ⟨k, h1, h2, h3, h4, h5⟩ := pull_exact parse inp
  have hk : k = 1 := by
    rcases Nat.lt_trichotomy k 1 with hlt | heq | hgt
    · have hk0 : k = 0 := by omega
      subst hk0
      rcases h5 with ⟨a, _⟩ | ⟨a, _⟩
      · omega
      · rw [h2] at a; simp [takeLines] at a; exact absurd a hne
    · exact heq
    · have := h4 1 (by omega) hgt
      rw [h] at this; exact absurd this (by simp)
  subst hk
  exact ⟨h1, h2⟩

/-- ★ **standard input is in blocking mode whenever a command runs, whatever mode it was inherited in**
    (POSIX sh, STDIN: "if the standard input to sh is a FIFO or terminal device and is set to
    non-blocking reads, then sh shall enable blocking reads on standard input").  `prepareInput` clears
    the flag for a FIFO; after that the state at the start of every command (`atExec`), after any number
    of steps of any command (`runK m`), and after any number of iterations of the read-eval loop
    (`loop n`) has `nonblock = false` — the shell's own reads restore the mode they find, so nothing else
    ever changes it.  Hence a command that is not part of the shell and reads the same descriptor
    blocks until the next chunk arrives instead of failing with EAGAIN in a gap between chunks: what
    follows on standard input stays available to it, whatever the timing of the chunks.  (A `probe`
    records the flag of the state it runs in: `Out.probe … s.nonblock`.) -/
theorem stdin_blocking_while_running (inherited : Bool) (script : List Byte) :
    (prepareInput true { initState true script [] with nonblock := inherited }).nonblock = false
    ∧ (∀ s : State, s.nonblock = false →
        (atExec s).nonblock = false
        ∧ (∀ m k, (runK m k s).1.nonblock = false)
        ∧ (∀ n log, (loop n s log).1.nonblock = false))
    ∧ (runPipe inherited script).1.nonblock = false := by
  have hinv : ∀ s : State, s.nonblock = false →
      (atExec s).nonblock = false ∧ (∀ m k, (runK m k s).1.nonblock = false)
        ∧ (∀ n log, (loop n s log).1.nonblock = false) := by
    intro s hs
    exact ⟨hs, fun m k => by rw [(runK_grows m k s).2.2.2]; exact hs,
      fun n log => by rw [(loop_grows n s log).2.2.2]; exact hs⟩
  refine ⟨rfl, hinv, ?_⟩
  exact (hinv _ rfl).2.2 _ _

example : (prepareInput true { initState true [99, 97, 116, 10] [] with nonblock := true }).nonblock = false :=
  rfl

/-- ★ `P` is a complete prefix when its own run ends at end of input without any reader having met
    the end of the input in the middle of something (a command line, a `read`, a `cat`).  Then the
    trace of `P ++ S` extends the trace of `P`, and so does what `set -v` echoed, whatever `S` is —
    in particular when `S` starts with a syntax error: the earlier lines have taken effect. -/
theorem prefix_monotone (shared : Bool) (P S data : List Byte)
    (hend : (run shared P data).2.1 = .eof) (hclean : (run shared P data).1.hitEof = false) :
    (∃ t, traceOf (run shared (P ++ S) data) = traceOf (run shared P data) ++ t)
    ∧ (∃ e, (run shared (P ++ S) data).1.echo = (run shared P data).1.echo ++ e) := by
  have hfuel : (P ++ S).length + 2 = (P.length + 2) + S.length := by
    simp only [List.length_append]; omega
  obtain ⟨⟨o, ho⟩, ⟨e, hec⟩⟩ := prefix_monotone_state (P.length + 2) S.length (initState shared P data)
    (run shared P data).1 [] [] (run shared P data).2.2 S
    (by simp only [run]; rw [show loop (P.length + 2) (initState shared P data) [] = run shared P data from rfl]
        rcases hr : run shared P data with ⟨a, b, c⟩
        rw [hr] at hend; simp at hend; simp [hend])
    hclean
  have : run shared (P ++ S) data = loop (P.length + 2 + S.length) ((initState shared P data).app S) [] := by
    simp only [run, hfuel]; rfl
  refine ⟨⟨o.reverse, ?_⟩, ⟨e, ?_⟩⟩
  · simp only [traceOf]
    rw [this, ho, List.reverse_append]
  · rw [this, hec]

/-- the same for `sh file` (the script read from its own descriptor, echoed under `set -v`) -/
theorem prefix_monotone_file (P S data : List Byte)
    (hend : (runFile P data).2.1 = .eof) (hclean : (runFile P data).1.hitEof = false) :
    (∃ t, traceOf (runFile (P ++ S) data) = traceOf (runFile P data) ++ t)
    ∧ (∃ e, (runFile (P ++ S) data).1.echo = (runFile P data).1.echo ++ e) := by
  have hfuel : (P ++ S).length + 2 = (P.length + 2) + S.length := by
    simp only [List.length_append]; omega
  obtain ⟨⟨o, ho⟩, ⟨e, hec⟩⟩ := prefix_monotone_state (P.length + 2) S.length (initStateFile P data)
    (runFile P data).1 [] [] (runFile P data).2.2 S
    (by simp only [runFile]; rw [show loop (P.length + 2) (initStateFile P data) [] = runFile P data from rfl]
        rcases hr : runFile P data with ⟨a, b, c⟩
        rw [hr] at hend; simp at hend; simp [hend])
    hclean
  have : runFile (P ++ S) data = loop (P.length + 2 + S.length) ((initStateFile P data).app S) [] := by
    simp only [runFile, hfuel]; rfl
  refine ⟨⟨o.reverse, ?_⟩, ⟨e, ?_⟩⟩
  · simp only [traceOf]
    rw [this, ho, List.reverse_append]
  · rw [this, hec]

/-- non-vacuity (kept tiny: the kernel evaluates lexer, parser and loop): `:` + newline is a complete
    prefix.  The correspondence run exercises the hypotheses on every generated script: the harness
    checks the conclusion on the real shell for every unit boundary of every script. -/
example : (run true [58, 10] []).2.1 = .eof ∧ (run true [58, 10] []).1.hitEof = false := by decide

example : ∀ it ∈ ([] : List Iter), IterOK it := by simp

/-! ### `read` takes exactly one logical line (Spec: `ReadSpec.lean`) -/

/-- the Spec function `firstLogicalLine` characterised declaratively: it returns `(pre, rest)` iff `pre`
    is a prefix of the input that is a complete logical line (ends with the delimiter byte after an
    even number of backslashes; any number with `-r`) and **no shorter prefix is one**; it returns
    `none` iff no prefix of the input is a complete logical line. -/
theorem first_logical_line_spec (d : Nat) (raw : Bool) (inp : List Byte) :
    (∀ pre rest, firstLogicalLine d raw inp = some (pre, rest) ↔
      (pre ++ rest = inp ∧ logicalEnd d raw pre = true ∧
        ∀ q s, q ++ s = pre → s ≠ [] → logicalEnd d raw q = false))
    ∧ (firstLogicalLine d raw inp = none ↔ ∀ q s, q ++ s = inp → logicalEnd d raw q = false) := by
  have fwd : ∀ pre rest, firstLogicalLine d raw inp = some (pre, rest) →
      (pre ++ rest = inp ∧ logicalEnd d raw pre = true ∧
        ∀ q s, q ++ s = pre → s ≠ [] → logicalEnd d raw q = false) := by
    intro pre rest h
    obtain ⟨w, h1, h2, h3, h4⟩ := scanLogical_some d raw inp [] pre rest (logicalEnd_nil d raw) h
    simp only [List.nil_append] at h1 h4
    subst h1
    exact ⟨h2, h3, h4⟩
  refine ⟨fun pre rest => ⟨fwd pre rest, ?_⟩, ?_, ?_⟩
  · rintro ⟨h1, h2, h3⟩
    have hne : pre ≠ [] := by
      intro e; subst e; simp [logicalEnd_nil] at h2
    have := scanLogical_unique d raw pre [] rest hne (by simpa using h2)
      (fun q s hqs hs _ => by simpa using h3 q s hqs hs)
    subst h1
    simpa [firstLogicalLine] using this
  · intro h q s hqs
    by_cases hq : q = []
    · subst hq; exact logicalEnd_nil d raw
    · simpa using scanLogical_none d raw inp [] h q s hqs hq
  · intro h
    cases hf : firstLogicalLine d raw inp with
    | none => rfl
    | some pr =>
      obtain ⟨pre, rest⟩ := pr
      obtain ⟨h1, h2, _⟩ := fwd pre rest hf
      rw [h pre rest h1] at h2
      simp at h2

/-- a line `w` followed by `k` backslashes and a newline (`w` not itself ending in a backslash) is a
    complete logical line for `read` iff `k` is **even**; for `read -r` always -/
theorem logical_end_parity (w : List Byte) (k : Nat) (hw : w.getLast? ≠ some BS) :
    logicalEnd 10 false (w ++ List.replicate k BS ++ [NL]) = (k % 2 == 0)
    ∧ logicalEnd 10 true (w ++ List.replicate k BS ++ [NL]) = true := by
  rw [logicalEnd_snoc, logicalEnd_snoc, trailingBs_replicate w hw k]
  simp [NL]

example : logicalEnd 10 false ([97, 98] ++ List.replicate 2 BS ++ [NL]) = true := by decide
example : logicalEnd 10 false ([97, 98] ++ List.replicate 3 BS ++ [NL]) = false := by decide

/-- ★ where `read` stops, for **every** byte input, one-byte delimiter and mode, against the Spec:
    when it found its delimiter, what it consumed is exactly the first logical line of the input and
    what it leaves is exactly what follows that line; at end of input no prefix of the input was a
    complete logical line (and everything was consumed); when it fails with EILSEQ the input is not
    valid UTF-8 and it still has not gone past the end of the first logical line. -/
theorem read_logical_line (d : Nat) (hd : d < 128) (raw : Bool) (inp : List Byte) :
    ((readLine d raw inp []).2.1 = .found →
        ∃ pre, pre ++ (readLine d raw inp []).2.2 = inp ∧
          firstLogicalLine d raw inp = some (pre, (readLine d raw inp []).2.2))
    ∧ ((readLine d raw inp []).2.1 = .eof →
        firstLogicalLine d raw inp = none ∧ (readLine d raw inp []).2.2 = [])
    ∧ ((readLine d raw inp []).2.1 = .err →
        validUtf8 [] inp = false ∧
        ∀ pre rest, firstLogicalLine d raw inp = some (pre, rest) →
          ∃ m, (readLine d raw inp []).2.2 = m ++ rest) := by
  obtain ⟨h1, h2, h3⟩ := readLine_logical d hd raw inp
  refine ⟨?_, h2, h3⟩
  intro hf
  obtain ⟨pre, e1, e2⟩ := h1 hf
  exact ⟨pre, e1, by simpa [firstLogicalLine] using e2⟩

/-- an escaped backslash right before the newline: the line ends there, the next line is untouched -/
example : (readLine 10 false [97, 92, 92, 10, 120, 10] []).2 = (.found, [120, 10]) := by decide
/-- a single backslash before the newline: line continuation -/
example : (readLine 10 false [97, 92, 10, 120, 10] []).2 = (.found, []) := by decide

/-- ★ "whatever follows the current command on standard input remains available": if the input
    starts with a complete logical line `pre` (shortest such prefix) that is valid UTF-8, `read` finds
    its delimiter and leaves **exactly** `rest`, whatever `rest` is — and the same through any chunked
    source delivering those bytes. -/
theorem read_leaves_what_follows (d : Nat) (hd : d < 128) (raw : Bool) (pre rest : List Byte)
    (hfirst : firstLogicalLine d raw (pre ++ rest) = some (pre, rest))
    (hv : validUtf8 [] pre = true) :
    (readLine d raw (pre ++ rest) []).2 = (.found, rest)
    ∧ ∀ cs : List (List Byte), cs.flatten = pre ++ rest →
        (readLineCGo d raw false [] cs []).2.1 = .found
        ∧ (readLineCGo d raw false [] cs []).2.2.flatten = rest := by
  have hspec := ((first_logical_line_spec d raw (pre ++ rest)).1 pre rest).1 hfirst
  have hpre : firstLogicalLine d raw pre = some (pre, []) :=
    ((first_logical_line_spec d raw pre).1 pre []).2 ⟨by simp, hspec.2.1, hspec.2.2⟩
  obtain ⟨g1, g2, g3⟩ := read_logical_line d hd raw pre
  have key : (readLine d raw (pre ++ rest) []).2 = (.found, rest) := by
    cases hst : (readLine d raw pre []).2.1 with
    | found =>
      obtain ⟨p2, _, e2⟩ := g1 hst
      rw [hpre] at e2
      simp only [Option.some.injEq, Prod.mk.injEq] at e2
      have hrl : readLine d raw pre [] = ((readLine d raw pre []).1, .found, []) := by
        rw [← hst, e2.2]
      have := readLine_append (d := d) raw pre rest [] _ _ hrl
      rw [this]; simp
    | eof => rw [(g2 hst).1] at hpre; simp at hpre
    | err => rw [(g3 hst).1] at hv; simp at hv
  refine ⟨key, ?_⟩
  intro cs hcs
  have e := readLineCGo_eq d raw false [] cs []
  rw [hcs] at e
  have e' : ((readLineCGo d raw false [] cs []).2.1, (readLineCGo d raw false [] cs []).2.2.flatten)
      = (readLine d raw (pre ++ rest) []).2 := by
    rw [readLine, ← e]
  rw [key] at e'
  simp only [Prod.mk.injEq] at e'
  exact e'

example : firstLogicalLine 10 false ([97, 92, 92, 10] ++ [120, 10]) = some ([97, 92, 92, 10], [120, 10])
    ∧ validUtf8 [] [97, 92, 92, 10] = true := by decide

/-- ★ the same for the `read` built-in of the machine (the function the driver runs): in any state
    whose standard input starts with a valid logical line `pre` followed by `rest`, after `read`
    standard input is exactly `rest` and its offset has advanced by exactly `|pre|` — with a shared
    descriptor `rest` is what the shell parses next. -/
theorem exec_read_leaves_what_follows (s : State) (d : Nat) (hd : d < 128) (raw : Bool)
    (names : List String) (pre rest : List Byte)
    (hfirst : firstLogicalLine d raw s.stdin = some (pre, rest)) (hv : validUtf8 [] pre = true) :
    (execRead s d raw names).stdin = rest
    ∧ (execRead s d raw names).pos = s.pos + pre.length
    ∧ (s.shared = true → (execRead s d raw names).inp = rest)
    ∧ (s.shared = false → (execRead s d raw names).inp = s.inp)
    ∧ (execRead s d raw names).hitEof = s.hitEof := by
  have hin : pre ++ rest = s.stdin :=
    (((first_logical_line_spec d raw s.stdin).1 pre rest).1 hfirst).1
  have h := (read_leaves_what_follows d hd raw pre rest (by rw [hin]; exact hfirst) hv).1
  rw [hin] at h
  have h1 : (readLine d raw s.stdin []).2.1 = .found := by rw [h]
  have h2 : (readLine d raw s.stdin []).2.2 = rest := by rw [h]
  have hlen : s.stdin.length - rest.length = pre.length := by
    rw [← hin]; simp
  cases hsh : s.shared <;>
    simp [execRead, State.stdin, State.setStdin, hsh] <;>
    (simp only [State.stdin, hsh] at hlen h2 h1; simp_all)

/-- the hypotheses are met by a shell reading `a\\` + newline + `x` + newline from the descriptor it
    shares with `read` (an escaped backslash at the end of the data line) -/
example : firstLogicalLine 10 false (initState true [97, 92, 92, 10, 120, 10] []).stdin
      = some ([97, 92, 92, 10], [120, 10]) ∧ validUtf8 [] [97, 92, 92, 10] = true := by decide

example : (execRead (initState true [97, 92, 92, 10, 120, 10] []) 10 false ["v1"]).inp = [120, 10] :=
  ((exec_read_leaves_what_follows _ 10 (by decide) false ["v1"] [97, 92, 92, 10] [120, 10]
    (by decide) (by decide)).2.2.1) rfl

/-- ★ data lines that end in backslashes.  `w` is the text of the line before them (no newline in it,
    not ending in a backslash, valid UTF-8), `k` the number of backslashes before the newline.
    `k` even: `read` stops at that newline and leaves exactly what follows.  `read -r`: always.
    `k` odd: the newline is a line continuation — the logical line goes on into what follows (the
    Spec's scan continues with `rest`). -/
theorem read_trailing_backslashes (w rest : List Byte) (k : Nat)
    (hnl : ∀ x ∈ w, x ≠ NL) (hw : w.getLast? ≠ some BS) (hv : validUtf8 [] w = true) :
    (k % 2 = 0 →
        (readLine 10 false (w ++ List.replicate k BS ++ [NL] ++ rest) []).2 = (.found, rest))
    ∧ (readLine 10 true (w ++ List.replicate k BS ++ [NL] ++ rest) []).2 = (.found, rest)
    ∧ (k % 2 = 1 →
        firstLogicalLine 10 false (w ++ List.replicate k BS ++ [NL] ++ rest)
          = scanLogical 10 false (w ++ List.replicate k BS ++ [NL]) rest) := by
  have hu : ∀ x ∈ w ++ List.replicate k BS, x.toNat ≠ 10 := by
    intro x hx
    rcases List.mem_append.1 hx with h | h
    · intro e; exact hnl x h ((byte_eq_nl x).2 e)
    · have := (List.mem_replicate.1 h).2; subst this; decide
  have hscan : ∀ raw, firstLogicalLine 10 raw (w ++ List.replicate k BS ++ [NL] ++ rest)
      = if logicalEnd 10 raw (w ++ List.replicate k BS ++ [NL]) then
          some (w ++ List.replicate k BS ++ [NL], rest)
        else scanLogical 10 raw (w ++ List.replicate k BS ++ [NL]) rest := by
    intro raw
    have := scanLogical_skip 10 raw (w ++ List.replicate k BS) [] ([NL] ++ rest) hu
    simp only [firstLogicalLine, List.append_assoc] at this ⊢
    rw [this]
    simp [scanLogical, List.append_assoc]
  have hvalid : validUtf8 [] (w ++ List.replicate k BS ++ [NL]) = true := by
    rw [List.append_assoc]
    refine validUtf8_append_ascii w _ ?_ [] hv
    intro x hx
    rcases List.mem_append.1 hx with h | h
    · have := (List.mem_replicate.1 h).2; subst this; decide
    · simp at h; subst h; decide
  obtain ⟨p1, p2⟩ := logical_end_parity w k hw
  refine ⟨?_, ?_, ?_⟩
  · intro hk
    have hf := hscan false
    rw [p1] at hf
    simp only [hk, beq_self_eq_true, if_true] at hf
    exact (read_leaves_what_follows 10 (by decide) false _ rest hf hvalid).1
  · have hf := hscan true
    rw [p2] at hf
    simp only [if_true] at hf
    exact (read_leaves_what_follows 10 (by decide) true _ rest hf hvalid).1
  · intro hk
    have hf := hscan false
    rw [p1] at hf
    simpa [hk] using hf

/-- the hypotheses are met by `ab` with two and with three backslashes -/
example : (∀ x ∈ ([97, 98] : List Byte), x ≠ NL) ∧ ([97, 98] : List Byte).getLast? ≠ some BS
    ∧ validUtf8 [] [97, 98] = true := by decide

/-! ### composition with C01 (`YashModel.Expansion`): the characters and the values of `read` -/

/-- ★ composition with C01, reader level: on valid UTF-8 input, `read` as this area models it (one
    byte per `read`, characters assembled by `from_utf8` on a 4-byte buffer, an escape flag) collects
    exactly the attributed characters that the C01 model of `read/input.rs` collects from the decoded
    characters, and finds its delimiter exactly when that one does — so everything C01 proves about the
    logical line (`Expansion.readInput_eq_specReadInput`, `read_line_value`, `read_raw_line`) holds
    for what the shell reads from a descriptor byte by byte. -/
theorem read_bytes_eq_chars (d : Nat) (hd : d < 128) (raw : Bool) (inp : List Byte)
    (hv : validUtf8 [] inp = true) :
    (readLine d raw inp []).1 = (Expansion.readInput raw (Char.ofNat d) (toChars inp)).1
    ∧ ((readLine d raw inp []).2.1 = .found ↔
        (Expansion.readInput raw (Char.ofNat d) (toChars inp)).2 = true)
    ∧ (readLine d raw inp []).2.1 ≠ .err := by
  have h := readLineGo_eq_readInput d hd raw inp false [] [] hv
  simp only [Bool.false_eq_true, if_false, List.nil_append] at h
  refine ⟨h.1, ?_, ?_⟩
  · rw [readLine, h.2, toChars]
    cases (Expansion.readInput raw (Char.ofNat d) (decodeGo [] inp)).2 <;> simp [statOf]
  · rw [readLine, h.2]
    cases (Expansion.readInput raw (Char.ofNat d) (decodeGo [] inp)).2 <;> simp [statOf]

example : validUtf8 [] [97, 92, 32, 0xC3, 0xA9, 10] = true := by decide

/-- the characters `read` collects from a descriptor that starts with the valid logical line `pre` are
    those of `pre` alone, whatever follows -/
theorem read_first_line_chars (d : Nat) (hd : d < 128) (raw : Bool) (pre rest : List Byte)
    (hfirst : firstLogicalLine d raw (pre ++ rest) = some (pre, rest))
    (hv : validUtf8 [] pre = true) :
    readLine d raw (pre ++ rest) [] =
      ((Expansion.readInput raw (Char.ofNat d) (toChars pre)).1, .found, rest) := by
  have hspec := ((first_logical_line_spec d raw (pre ++ rest)).1 pre rest).1 hfirst
  have hpre : firstLogicalLine d raw pre = some (pre, []) :=
    ((first_logical_line_spec d raw pre).1 pre []).2 ⟨by simp, hspec.2.1, hspec.2.2⟩
  have h := (read_leaves_what_follows d hd raw pre [] (by simpa using hpre) hv).1
  simp only [List.append_nil] at h
  have hrl : readLine d raw pre [] = ((readLine d raw pre []).1, .found, []) := by
    rw [← h]
  have := readLine_append (d := d) raw pre rest [] _ _ hrl
  rw [this, (read_bytes_eq_chars d hd raw pre hv).1]
  simp

/-- ★ composition with C01, end to end: in any state whose standard input starts with the valid
    logical line `pre` (as the Spec of this area finds it) followed by `rest`, the `read` built-in of
    the machine assigns to its variables, in order, exactly the values that the **C01 Spec** prescribes
    (`Expansion.specRead` — XCU `read` on POSIX field splitting with the default IFS — applied to
    `Expansion.specReadInput`, the logical line by items, of the decoded bytes of `pre`), returns 0,
    and leaves exactly `rest` on the descriptor.  (No NUL character in the line: then `read` fails.) -/
theorem exec_read_assigns_spec (s : State) (d : Nat) (hd : d < 128) (raw : Bool)
    (names : List String) (pre rest : List Byte) (hn : names ≠ [])
    (hfirst : firstLogicalLine d raw s.stdin = some (pre, rest)) (hv : validUtf8 [] pre = true)
    (hnul : hasNul (Expansion.readInput raw (Char.ofNat d) (toChars pre)).1 = false) :
    (execRead s d raw names).vars =
        assignValues names
          (Expansion.specRead Expansion.Ifs.default
            (Expansion.specReadInput raw (Char.ofNat d) (toChars pre)).1 (names.length - 1)) s.vars
    ∧ (execRead s d raw names).status = 0
    ∧ (execRead s d raw names).stdin = rest := by
  have hin : pre ++ rest = s.stdin :=
    (((first_logical_line_spec d raw s.stdin).1 pre rest).1 hfirst).1
  have h := read_first_line_chars d hd raw pre rest (by rw [hin]; exact hfirst) hv
  rw [hin] at h
  have hE : Expansion.readAssign Expansion.Ifs.default
        (Expansion.readInput raw (Char.ofNat d) (toChars pre)).1 (names.length - 1)
      = Expansion.specRead Expansion.Ifs.default
        (Expansion.specReadInput raw (Char.ofNat d) (toChars pre)).1 (names.length - 1) := by
    rw [Expansion.readInput_eq_specReadInput]
    exact Expansion.readAssign_eq_specRead _ _ _
  have hne : names.isEmpty = false := by
    cases names with
    | nil => exact absurd rfl hn
    | cons _ _ => rfl
  refine ⟨?_, ?_, (exec_read_leaves_what_follows s d hd raw names pre rest hfirst hv).1⟩
  · cases hsh : s.shared <;>
      simp [execRead, State.setStdin, hsh, h, readAssign, hnul, assignRead, hne, hE]
  · cases hsh : s.shared <;>
      simp [execRead, State.setStdin, hsh, h, readExit, hnul]

/-- `read v1 v2` on `x y \` + newline + `z` + newline: the hypotheses hold (a continuation joins the lines) -/
example : firstLogicalLine 10 false [120, 32, 121, 32, 92, 10, 122, 10, 113, 10]
      = some ([120, 32, 121, 32, 92, 10, 122, 10], [113, 10])
    ∧ validUtf8 [] [120, 32, 121, 32, 92, 10, 122, 10] = true := by decide


/-! ### constants of the code (re-extracted on every run) -/
section
open YashModel.Generated

/-- the literals the model types by hand are the literals of the code (re-extracted from /repo on every
    run by tools/tables/input.py): the byte that ends a line for `FdReader2::next_line`, the default and
    the NUL delimiter of `read`, the exit statuses of `read` (success, end of input, read error — also
    for a NUL byte in the input), the statuses of a syntax error and of an unknown command; and the
    character buffer of `read_char` (`[0; 4]`) is large enough for the model's loop: `utf8Check` never
    asks for more after `READ_CHAR_MAX` bytes, so `buffer[len]` stays in bounds. -/
theorem model_constants_are_the_codes :
    NL.toNat = InputConsts.LINE_END
    ∧ (∀ names, parseReadArgs names false InputConsts.READ_DEFAULT_DELIM = parseReadArgs names false 10)
    ∧ (∀ rest r d, parseReadArgs ("-d" :: "" :: rest) r d = parseReadArgs rest r InputConsts.READ_NUL_DELIM)
    ∧ readExit [] .found = InputConsts.READ_SUCCESS
    ∧ readExit [] .eof = InputConsts.READ_EOF
    ∧ (∀ cs, readExit cs .err = InputConsts.READ_ERROR)
    ∧ (∀ st, readExit [Expansion.plainChar (Char.ofNat 0)] st = InputConsts.READ_ERROR)
    ∧ (∀ s name args here, (execUtil s .unknown name args here).status = InputConsts.NOT_FOUND)
    ∧ (∀ s args, args ≠ ["-v"] → args ≠ ["+v"] → args ≠ ["-m"] → args ≠ ["+m"] →
         (∀ o, args ≠ ["-o", o]) → (∀ o, args ≠ ["+o", o]) →
         (execSet s args).status = InputConsts.SYNTAX_ERROR)
    ∧ (∀ bs : List Byte, InputConsts.READ_CHAR_MAX ≤ bs.length → utf8Check bs ≠ .more) := by
  refine ⟨rfl, fun _ => rfl, fun _ _ _ => rfl, rfl, rfl, fun _ => rfl, ?_, fun _ _ _ _ => rfl, ?_, ?_⟩
  · intro st; cases st <;> rfl
  · intro s args h1 h2 hm1 hm2 h3 h4
    unfold execSet
    split
    · exact absurd rfl h1
    · exact absurd rfl h2
    · exact absurd rfl hm1
    · exact absurd rfl hm2
    · exact absurd rfl (h3 _)
    · exact absurd rfl (h4 _)
    · rfl
  · intro bs hlen
    have h4 : 4 ≤ bs.length := by simpa [InputConsts.READ_CHAR_MAX] using hlen
    match bs, h4 with
    | [a, b, c, e], _ =>
      simp only [utf8Check]
      split <;> simp
    | a :: b :: c :: e :: f :: rest, _ => simp [utf8Check]
end


/-! ### Redirections of standard input: when the command is over, descriptor 0 is what it was -/

/-- ★ `RedirGuard::perform_redirs` followed by `undo_redirs`, for **every** list of redirections of
    standard input (here-documents, files, any number, also when one of them cannot be opened and the
    list is abandoned half-way): the state is exactly the state before — descriptor 0 refers to the same
    open file description at the same offset.  The proof needs the order of `undo_redirs`: the
    description saved **first** must be the one copied back **last** (`undoIn_head`). -/
theorem redirs_undone_exactly (rs : List Rd) (s : State) :
    undoIn (performIn rs [] s).1 (performIn rs [] s).2.1 = s := undo_perform rs s

/-- the order is not a detail: with two redirections, copying the saved descriptions back in the order
    they were saved leaves descriptor 0 on the **first target** (the first here-document, unread) —
    a stdin-fed shell would go on reading its commands from there -/
theorem undo_order_matters :
    (undoIn (performIn [.here ['a', '\n'], .here ['b', '\n']] [] (initState true [112, 10] [])).1
            (performIn [.here ['a', '\n'], .here ['b', '\n']] [] (initState true [112, 10] [])).2.1).shared = true
    ∧ ((performIn [.here ['a', '\n'], .here ['b', '\n']] [] (initState true [112, 10] [])).1.foldl setDesc
            (performIn [.here ['a', '\n'], .here ['b', '\n']] [] (initState true [112, 10] [])).2.1).shared = false
    ∧ ((performIn [.here ['a', '\n'], .here ['b', '\n']] [] (initState true [112, 10] [])).1.foldl setDesc
            (performIn [.here ['a', '\n'], .here ['b', '\n']] [] (initState true [112, 10] [])).2.1).data = [97, 10] := by
  refine ⟨?_, ?_, ?_⟩ <;> decide

/-- ★ **whatever the commands of a command line do — redirect standard input any number of times, on
    simple and compound commands, nested, in subshells, abandon a construct because `eval`/`.` met a
    syntax error — when they are over, standard input is the open file description it was before**,
    only read from: the same kind (`shared`: the script descriptor stays the script descriptor); for a
    stream of its own, what is left is a suffix of what was there and the offset advanced by exactly
    what was consumed.  (The general form for any continuation is `runK_outer`.) -/
theorem stdin_restored_after_command (n : Nat) (cs : List Cmd) (s : State)
    (hfin : (runK n (cmds cs) s).2 = true) :
    Adv (stdinDesc s) (stdinDesc (runK n (cmds cs) s).1) := runK_cmds_adv n cs s hfin

example : (runK 10 (cmds [.redir [.here ['a', '\n'], .file ['/', 'r', '1']] (.simple [] none)])
    (initState true [112, 10] [])).2 = true := by decide

/-- ★ a shell reading its commands from standard input (`sh -s`: file or pipe): after any number of
    command lines — whatever their redirections — **descriptor 0 is the script descriptor**; the next
    command line is read from the script, never from a here-document or a file a command was
    redirected to.  The same for the machine over a chunked source.  And for `sh -c` / `sh file`: what is
    left on the separate standard input is a suffix of the data, the offset = what was consumed. -/
theorem run_stdin_is_the_script (script data : List Byte) :
    ((run true script data).2.1 ≠ .outOfFuel → (run true script data).1.shared = true)
    ∧ (∀ cs : List (List Byte), (runC cs).2.1 ≠ .outOfFuel → (runC cs).1.st.shared = true)
    ∧ ((run false script data).2.1 ≠ .outOfFuel →
        (run false script data).1.shared = false
        ∧ ∃ pre, data = pre ++ (run false script data).1.data ∧ (run false script data).1.pos = pre.length)
    ∧ ((runFile script data).2.1 ≠ .outOfFuel →
        ∃ pre, data = pre ++ (runFile script data).1.data ∧ (runFile script data).1.pos = pre.length) := by
  refine ⟨?_, ?_, ?_, ?_⟩
  · intro h
    exact (loop_stdin _ _ _ h).1
  · intro cs h
    have hc := (run_chunking_irrelevant cs cs).1
    have h1 : (runC cs).1.flat = (run true cs.flatten []).1 := hc.1
    have h2 : (runC cs).2.1 = (run true cs.flatten []).2.1 := hc.2.1
    rw [h2] at h
    have := (loop_stdin _ _ _ h).1
    have e : (runC cs).1.st.shared = (runC cs).1.flat.shared := rfl
    rw [e, h1]; exact this
  · intro h
    obtain ⟨h1, pre, h2, h3⟩ := loop_stdin _ _ _ h
    refine ⟨h1, pre, h2, ?_⟩
    have := h3 rfl
    simpa [run, initState, stdinDesc] using this
  · intro h
    obtain ⟨_, pre, h2, h3⟩ := loop_stdin _ _ _ h
    refine ⟨pre, h2, ?_⟩
    have := h3 rfl
    simpa [runFile, initStateFile, stdinDesc] using this



/-- the order in which `RedirGuard::undo_redirs` walks `saved_fds` is re-read from the code on every run
    (`Generated.InputConsts.UNDO_REVERSED`, tools/tables/input.py): it is the order of the model's
    `undoIn`, and the status after a redirection that cannot be performed is `ExitStatus::ERROR` -/
theorem undo_order_is_the_codes :
    Generated.InputConsts.UNDO_REVERSED = true
    ∧ (∀ (saved : List SavedIn) (s : State),
        undoIn saved s
          = (if Generated.InputConsts.UNDO_REVERSED then saved.reverse else saved).foldl setDesc s)
    ∧ (∀ (rs : List Rd) (c : Cmd) (k : List K) (s : State), (performIn rs [] s).2.2 = false →
        (step (.cmd (.redir rs c) :: k) s).map (·.2.status) = some Generated.InputConsts.SYNTAX_ERROR) := by
  refine ⟨rfl, fun _ _ => rfl, ?_⟩
  intro rs c k s h
  by_cases hx : redirErrorExits s c = true <;> simp [step, h, hx, Generated.InputConsts.SYNTAX_ERROR]


/-- ★ **after any commands with any redirections, the shell's input descriptor and its offset are what
    they were plus what was consumed through that descriptor.**  In a shell whose standard input is the
    script (`sh -s`), for every command list `cs` (any nesting of simple and compound commands, each
    with any list of redirections of standard input, `eval`/`.`, subshells) run to its end from any
    state: descriptor 0 is the script descriptor again, what is left of the script is a suffix of what
    was there, and the offset advanced by exactly the length of the consumed prefix — bytes read while
    descriptor 0 was redirected came from the here-document or file, not from the script (`Inside`:
    whenever an `undo` is pending, descriptor 0 is a stream of its own; `step_cursor`). -/
theorem script_cursor_after_command (n : Nat) (cs : List Cmd) (s : State)
    (hfin : (runK n (cmds cs) s).2 = true) (hsh : s.shared = true) :
    ∃ pre, s.inp = pre ++ (runK n (cmds cs) s).1.inp
      ∧ (runK n (cmds cs) s).1.pos = s.pos + pre.length
      ∧ (runK n (cmds cs) s).1.shared = true := runK_cmds_cursor n cs s hfin hsh

set_option maxRecDepth 4000 in
/-- `read v <<A <</r1`-like: a `read` under two redirections takes its line from the last target and
    leaves the script (`p⏎`) and its offset alone; afterwards a `read` takes the script's line -/
example :
    (runK 10 (cmds [.redir [.here ['a', '\n'], .here ['b', '\n']]
        (.simple [[.lit 'r' false, .lit 'e' false, .lit 'a' false, .lit 'd' false], [.lit 'v' false]] none)])
      (initState true [112, 10] [])).1.inp = [112, 10]
    ∧ (runK 10 (cmds [.redir [.here ['a', '\n'], .here ['b', '\n']]
        (.simple [[.lit 'r' false, .lit 'e' false, .lit 'a' false, .lit 'd' false], [.lit 'v' false]] none)])
      (initState true [112, 10] [])).1.vars = [("v", "b")] := by
  refine ⟨?_, ?_⟩ <;> decide



/-! ### C18 ↔ C09: the two transcriptions of `RedirGuard` -/
section C09
open YashModel.Redir
variable {W : Type}

/-- ★ **the two models of `RedirGuard` cannot drift apart**: for the same list of redirections of
    descriptor 0 (`Tracks`), from a table whose descriptor 0 refers to the description C18's state has
    (`proj I t = stdinDesc s`; `WF`: C09's hypothesis), the C18 description of standard input is the
    projection of the C09 table (1) while the command runs, (2) in every saved copy of the guard, in
    order, and (3) after `undo_redirs` — where C09's `undo_restores` and C18's `redirs_undone_exactly`
    both say: what it was before -/
theorem c09_c18_agree (o : Oracle W) (I : Nat → SavedIn) (w : W) (t : FdTable) (rs : List Redir)
    (rds : List Rd) (s : State) (h : Tracks o I w t rs rds) (hw : WF t)
    (hp : proj I t = some (stdinDesc s)) :
    proj I (performRedirs o w t rs).t = some (stdinDesc (performIn rds [] s).2.1)
    ∧ (performIn rds [] s).1 = (performRedirs o w t rs).saved.map (savedDesc I (performRedirs o w t rs).t)
    ∧ proj I (undoRedirs (performRedirs o w t rs).t (performRedirs o w t rs).saved)
        = some (stdinDesc (undoIn (performIn rds [] s).1 (performIn rds [] s).2.1)) := by
  obtain ⟨_, _, h3, h4⟩ := perform_projection o I w t rs rds s [] h hp
  refine ⟨h3, by simpa using h4, ?_⟩
  rw [undo_perform]
  simp only [proj]
  rw [(undo_restores o w t rs hw).2 0]
  exact hp


example : Tracks worldOracle exI (stdWorld false) stdTable
    [⟨0, .hereDoc [97, 10]⟩, ⟨0, .hereDoc [98, 10]⟩] [.here ['a', '\n'], .here ['b', '\n']] := by
  refine ⟨rfl, ⟨_, rfl⟩, ⟨[97, 10], by decide, by decide⟩, rfl, ⟨_, rfl⟩, ⟨[98, 10], by decide, by decide⟩, trivial⟩

example : proj exI stdTable = some (stdinDesc (initState true [112, 10] [])) := by decide


end C09


/-- the reserved words of the model's grammar are the reserved words of yash-syntax, and the model's
    clause delimiters are those of `Keyword::is_clause_delimiter` (both re-extracted on every run) -/
theorem keywords_are_the_codes :
    (∀ k ∈ Generated.InputConsts.KEYWORDS, keywords.contains k = true)
    ∧ (∀ k ∈ keywords, Generated.InputConsts.KEYWORDS.contains k = true)
    ∧ (∀ k ∈ Generated.InputConsts.KEYWORDS,
        isClauseDelim (.word (k.toList.map fun c => Part.lit c false) []) = Generated.InputConsts.CLAUSE_DELIMS.contains k) := by
  refine ⟨by decide, by decide, by decide⟩


/-- ★ a read error of the command reader: once descriptor 0 — the script's descriptor — is closed
    (`closein`), nothing is left to read (`inp = []`, `inClosed`), the next iteration of the read-eval
    loop executes nothing and ends, and the shell's exit status is `ExitStatus::READ_ERROR` (generated
    constant): the commands read before have run, nothing after that command line is read -/
theorem read_error_ends_the_run (s : State) (name : String) (args : List String) (here : Option (List Char))
    (hsh : s.shared = true) (n : Nat) (log : List Iter) :
    (execUtil s .closein name args here).inp = []
    ∧ (execUtil s .closein name args here).inClosed = true
    ∧ (execUtil s .closein name args here).out = s.out
    ∧ (∀ t : State, t.inp = [] →
        (loop (n + 1) t log).2.1 = .eof ∧ (loop (n + 1) t log).1.out = t.out
        ∧ (t.inClosed = true → t.shared = true →
            exitStatus (loop (n + 1) t log).1 (loop (n + 1) t log).2.1 = Generated.InputConsts.CMD_READ_ERROR)) := by
  refine ⟨by simp [execUtil, execClose, State.setStdin, hsh], by simp [execUtil, execClose, State.setStdin, hsh],
    by simp [execUtil, execClose, State.setStdin, hsh], ?_⟩
  intro t ht
  have hp : (pullOf t).res = .none := by
    simp [pullOf, pull, ht, nextLine, nextLineGo, parse_nothing]
  have hl : loop (n + 1) t log
      = ({ afterPull t with hitEof := t.hitEof || !(pullOf t).text.isEmpty }, .eof, log ++ [iterOf t]) := by
    simp only [loop, hp]
  rw [hl]
  refine ⟨rfl, rfl, ?_⟩
  intro h1 h2
  simp [exitStatus, readError, afterPull, h1, h2, Generated.InputConsts.CMD_READ_ERROR]


example : (execUtil (initState true [112, 10] []) .closein "closein" [] none).inp = [] := by decide


/-- ★ **the exit status at the end of an input is that of the last line that held a command, or 0 if no
    line did** (`read_eval_loop_impl`: `executed |= !command.0.is_empty()`, `if !executed { exit_status =
    SUCCESS }`).  For a nested loop (`eval`, `.`): a line without commands (`ok []`: blank, comment)
    leaves `$?`, the output and the `executed` flag as they are and goes on with the rest of the source;
    a line with commands sets the flag; at the end of the source `$?` is kept iff the flag is set, else
    0.  For the main input: a line without commands is an iteration that changes nothing but the cursor
    (and the echo), so `$?` at end of input is what the last command line left — 0 (the initial `$?`) if
    there was none. -/
theorem blank_lines_do_not_count (text : List Byte) (echoes executed : Bool) (k : List K) (s : State) :
    ((pull (parserOf s) (text.length + 1) [] text).res = .ok [] →
        (stepSrc text echoes executed k s).1
          = .src (pull (parserOf s) (text.length + 1) [] text).rest echoes executed :: k
        ∧ (stepSrc text echoes executed k s).2.status = s.status
        ∧ (stepSrc text echoes executed k s).2.out = s.out)
    ∧ (∀ c cs, (pull (parserOf s) (text.length + 1) [] text).res = .ok (c :: cs) →
        (stepSrc text echoes executed k s).1
          = cmds (c :: cs) ++ .src (pull (parserOf s) (text.length + 1) [] text).rest echoes true :: k)
    ∧ ((pull (parserOf s) (text.length + 1) [] text).res = .none →
        (stepSrc text echoes executed k s).1 = k
        ∧ (stepSrc text echoes executed k s).2.status = if executed then s.status else 0)
    ∧ (∀ n log, (pullOf s).res = .ok [] → s.aborted = false →
        loop (n + 1) s log = loop n (atExec s) (log ++ [iterOf s])
        ∧ (atExec s).status = s.status ∧ (atExec s).out = s.out) := by
  refine ⟨?_, ?_, ?_, ?_⟩
  · intro h
    simp [stepSrc, h, cmds]
  · intro c cs h
    simp [stepSrc, h]
  · intro h
    simp [stepSrc, h]
  · intro n log h ha
    have hr : runK execFuel (cmds []) (atExec s) = (atExec s, true) := by
      simp [execFuel, runK, cmds, step]
    refine ⟨?_, rfl, rfl⟩
    simp only [loop, h, hr]
    have : (atExec s).aborted = false := ha
    simp [this]


example : (pull (parserOf (initState true [] [])) 4 [] [35, 99, 10]).res matches .ok [] := by decide


/-- ★ an asynchronous command cannot take what follows on the shell's input: unless job control is in
    effect for it (`Env::controls_jobs`: `monitor` on **and** not inside a subshell — so never inside
    `( … )`, whatever `set -m` says), `async_body` gives it /dev/null as standard input: the command
    starts with an empty stream on descriptor 0, the script cursor untouched, and the description the
    shell had is what the pending `undo` restores; combined with `script_cursor_after_command` /
    `stdin_restored_after_command` (which cover `.async` like every other command) the shell's descriptor
    and offset after it are those before plus what was read through the shell's own descriptor -/
theorem async_stdin_is_null (c : Cmd) (k : List K) (s : State) :
    (∀ sv k', controlsJobs (.restore sv :: k') s = false)
    ∧ (s.monitor = false → controlsJobs k s = false)
    ∧ (controlsJobs k s = false →
        ∃ sv, step (.cmd (.async c) :: k) s
            = some (.cmd c :: .undo [stdinDesc s] :: .restore sv :: .cmd (.simple [] none) :: k,
                    setDesc s { shared := false, data := [], pos := 0 })
          ∧ (setDesc s { shared := false, data := [], pos := 0 }).stdin = []
          ∧ (setDesc s { shared := false, data := [], pos := 0 }).inp = s.inp
          ∧ ∀ t, stdinDesc (undoIn [stdinDesc s] t) = stdinDesc s) := by
  refine ⟨fun sv k' => by simp [controlsJobs, inSubshell], fun h => by simp [controlsJobs, h], ?_⟩
  intro h
  exact ⟨{ vars := s.vars, aliases := s.aliases, verbose := s.verbose, portable := s.portable },
    by simp [step, h], rfl, rfl, fun t => rfl⟩

example : controlsJobs [] { initState true [] [] with monitor := true } = true := by decide
example : (step [.cmd (.async (.simple [] none)), .restore ⟨[], [], false, false⟩]
    { initState true [112, 10] [] with monitor := true }).map (·.2.stdin) = some [] := by decide


end YashModel.Input
