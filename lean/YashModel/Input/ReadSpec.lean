/-
  C18 — Spec of what the `read` built-in may take from standard input: **exactly one logical line**.

  POSIX `read` (XCU, "read"): "By default, unless the -r option is specified, <backslash> shall act as
  an escape character.  An unescaped <backslash> shall preserve the literal value of the following
  character, with the exception of a <newline>.  If a <newline> follows the <backslash>, the read
  utility shall interpret this as line continuation."  Stated on the bytes alone, with no reader and
  no escape flag:

    * a prefix of the input is a *complete logical line* iff it ends with the delimiter byte and the
      number of backslash bytes immediately before that delimiter is **even** (each pair is an escaped
      backslash; an odd number leaves one backslash that escapes the delimiter: for a newline, a line
      continuation).  With `-r` the number of backslashes does not matter;
    * `read` takes the **shortest** such prefix, or everything if there is none; whatever follows that
      prefix stays on the descriptor for the commands that read the same input next.

  `checkReads` evaluates the second clause on a run of the machine (the driver prints the verdict in
  the Spec column); `Theorems.lean` proves it for every input (`read_logical_line`,
  `read_leaves_what_follows`, `exec_read_leaves_what_follows`).
  Import-free and executable.
-/
import YashModel.Input.Spec
namespace YashModel.Input

/-- the backslash byte -/
def BS : Byte := 92

/-- number of backslash bytes at the end of `l` -/
def trailingBs (l : List Byte) : Nat := (l.reverse.takeWhile (· == BS)).length

/-- `pre` is a complete logical line for `read` with delimiter `d`: it ends with the delimiter byte,
    and (unless `-r`) the backslashes immediately before it pair up -/
def logicalEnd (d : Nat) (raw : Bool) (pre : List Byte) : Bool :=
  match pre.getLast? with
  | none => false
  | some b => b.toNat == d && (raw || trailingBs pre.dropLast % 2 == 0)

/-- the shortest prefix `hist ++ w` (`w` a non-empty prefix of the second argument) that is a complete
    logical line, and what follows it -/
def scanLogical (d : Nat) (raw : Bool) : List Byte → List Byte → Option (List Byte × List Byte)
  | _, [] => none
  | hist, b :: t =>
    if logicalEnd d raw (hist ++ [b]) then some (hist ++ [b], t)
    else scanLogical d raw (hist ++ [b]) t

/-- the first logical line of the input and the rest of the input (`none`: the input ends before any
    logical line does) -/
def firstLogicalLine (d : Nat) (raw : Bool) (inp : List Byte) : Option (List Byte × List Byte) :=
  scanLogical d raw [] inp

/-- what `read` leaves on standard input according to the Spec -/
def specReadRest (d : Nat) (raw : Bool) (inp : List Byte) : List Byte :=
  match firstLogicalLine d raw inp with
  | some (_, rest) => rest
  | none => []

def isNameByte (b : Byte) : Bool :=
  (97 ≤ b.toNat && b.toNat ≤ 122) || (48 ≤ b.toNat && b.toNat ≤ 57)

/-- the command line is exactly `read NAME` or `read -r NAME` + newline: `some raw` -/
def plainRead (text : List Byte) : Option Bool :=
  if text.take 5 == [114, 101, 97, 100, 32] then
    let t := text.drop 5
    let raw := t.take 3 == [45, 114, 32]
    let n := if raw then t.drop 3 else t
    if n.getLast? == some NL && !n.dropLast.isEmpty && n.dropLast.all isNameByte then some raw
    else none
  else none

/-- "whatever follows the current command on standard input remains available", evaluated on the
    iterations of a run with a shared descriptor: after a command line that is just `read [-r] NAME`
    the next iteration must find the descriptor exactly after the first logical line of what the
    `read` found (valid UTF-8 data: an invalid byte makes `read` stop there with status 3) -/
def checkReads : List Iter → Option String
  | [] => none
  | [_] => none
  | it :: nxt :: more =>
    match plainRead it.text with
    | none => checkReads (nxt :: more)
    | some raw =>
      match firstLogicalLine 10 raw it.atExec with
      | some (pre, rest) =>
        if validUtf8 [] pre && nxt.start != rest then some "read-did-not-stop-after-its-logical-line"
        else checkReads (nxt :: more)
      | none =>
        if validUtf8 [] it.atExec && nxt.start != [] then some "read-left-input-without-a-line"
        else checkReads (nxt :: more)

end YashModel.Input
