/-
  C18 — the cursor of the script descriptor under redirections: while descriptor 0 is redirected the
  script descriptor is not read from, and when the command is over its offset has advanced by exactly
  what was consumed through it.
-/
import YashModel.Input.RedirInv
namespace YashModel.Input

/-- whenever an `undo` with a saved description is pending, descriptor 0 refers to a target of a
    redirection — a stream of its own, never the script descriptor (`cur` = the `shared` flag of what
    descriptor 0 refers to at that level) -/
def Inside : List K → Bool → Prop
  | [], _ => True
  | .undo saved :: k, cur =>
    match saved.head? with
    | some d => cur = false ∧ Inside k d.shared
    | none => Inside k cur
  | _ :: k, cur => Inside k cur

/-- an `undo` with a saved description is pending -/
def pending : List K → Bool
  | [] => false
  | .undo saved :: k => saved.head?.isSome || pending k
  | _ :: k => pending k

theorem Inside_cmds (l : List Cmd) (k : List K) (c : Bool) : Inside (cmds l ++ k) c = Inside k c := by
  induction l with
  | nil => rfl
  | cons x l ih => exact ih

theorem pending_cmds (l : List Cmd) (k : List K) : pending (cmds l ++ k) = pending k := by
  induction l with
  | nil => rfl
  | cons x l ih => exact ih

theorem Inside_dropGuards (k : List K) (c : Bool) (h : Inside k c) : Inside (dropGuards k) c := by
  induction k generalizing c with
  | nil => trivial
  | cons a k ih =>
    cases a with
    | undo saved =>
      simp only [dropGuards, Inside] at h ⊢
      cases hh : saved.head? with
      | none => rw [hh] at h; exact ih _ h
      | some d => rw [hh] at h; exact ⟨h.1, ih _ h.2⟩
    | restore sv => exact h
    | cmd c => exact ih _ h
    | branch t e he => exact ih _ h
    | andK a r => exact ih _ h
    | loopTest u c b l => exact ih _ h
    | loopBack u c b => exact ih _ h
    | negK => exact ih _ h
    | src t e x => exact ih _ h

theorem outerDesc_not_pending (k : List K) (d : SavedIn) (h : pending k = false) : outerDesc k d = d := by
  induction k generalizing d with
  | nil => rfl
  | cons a k ih =>
    cases a with
    | undo saved =>
      simp only [pending, Bool.or_eq_false_iff] at h
      simp only [outerDesc]
      cases hh : saved.head? with
      | none => exact ih _ h.2
      | some x => rw [hh] at h; simp at h
    | cmd c => exact ih _ h
    | branch t e he => exact ih _ h
    | andK a r => exact ih _ h
    | loopTest u c b l => exact ih _ h
    | loopBack u c b => exact ih _ h
    | restore sv => exact ih _ h
    | negK => exact ih _ h
    | src t e x => exact ih _ h

theorem outerDesc_pending (k : List K) (d d' : SavedIn) (h : pending k = true) :
    outerDesc k d = outerDesc k d' := by
  induction k generalizing d d' with
  | nil => simp [pending] at h
  | cons a k ih =>
    cases a with
    | undo saved =>
      simp only [outerDesc]
      cases hh : saved.head? with
      | none =>
        simp only [pending, hh, Option.isSome_none, Bool.false_or] at h
        exact ih _ _ h
      | some x => rfl
    | cmd c => exact ih _ _ h
    | branch t e he => exact ih _ _ h
    | andK a r => exact ih _ _ h
    | loopTest u c b l => exact ih _ _ h
    | loopBack u c b => exact ih _ _ h
    | restore sv => exact ih _ _ h
    | negK => exact ih _ _ h
    | src t e x => exact ih _ _ h

theorem Inside_pending (k : List K) (c : Bool) (h : Inside k c) (hp : pending k = true) : c = false := by
  induction k generalizing c with
  | nil => simp [pending] at hp
  | cons a k ih =>
    cases a with
    | undo saved =>
      simp only [Inside] at h
      cases hh : saved.head? with
      | none =>
        rw [hh] at h
        simp only [pending, hh, Option.isSome_none, Bool.false_or] at hp
        exact ih _ h hp
      | some x => rw [hh] at h; exact h.1
    | cmd c => exact ih _ h hp
    | branch t e he => exact ih _ h hp
    | andK a r => exact ih _ h hp
    | loopTest u c b l => exact ih _ h hp
    | loopBack u c b => exact ih _ h hp
    | restore sv => exact ih _ h hp
    | negK => exact ih _ h hp
    | src t e x => exact ih _ h hp

/-! ### what a built-in does to the script cursor -/

/-- the script cursor moves only when descriptor 0 *is* the script descriptor, and then together with
    the offset -/
def CursorStep (s s' : State) : Prop :=
  s'.shared = s.shared
  ∧ (s.shared = false → s'.inp = s.inp)
  ∧ (s.shared = true → ∃ pre, s.inp = pre ++ s'.inp ∧ s'.pos = s.pos + pre.length)

theorem CursorStep.of_same {s s' : State} (h1 : s'.shared = s.shared) (h2 : s'.inp = s.inp)
    (h3 : s'.pos = s.pos) : CursorStep s s' :=
  ⟨h1, fun _ => h2, fun _ => ⟨[], by simp [h2], by simp [h3]⟩⟩

theorem setStdin_cursor (s : State) (pre rest : List Byte) (h : s.stdin = pre ++ rest) :
    CursorStep s (s.setStdin rest pre.length) := by
  cases hsh : s.shared with
  | false =>
    exact ⟨by simp [State.setStdin, hsh], fun _ => by simp [State.setStdin, hsh],
      fun h' => by rw [hsh] at h'; cases h'⟩
  | true =>
    simp only [State.stdin, hsh, if_true] at h
    exact ⟨by simp [State.setStdin, hsh], (fun h' => by rw [hsh] at h'; cases h'),
      fun _ => ⟨pre, by simp [State.setStdin, hsh, h], by simp [State.setStdin, hsh]⟩⟩

theorem execRead_cursor (s : State) (d : Nat) (raw : Bool) (names : List String) :
    CursorStep s (execRead s d raw names) := by
  obtain ⟨pre, hpre⟩ := readLine_suffix (d := d) raw s.stdin []
  have hlen : s.stdin.length - (readLine d raw s.stdin []).2.2.length = pre.length := by
    have : s.stdin.length = pre.length + (readLine d raw s.stdin []).2.2.length := by
      rw [← List.length_append, hpre]
    omega
  have := setStdin_cursor s pre (readLine d raw s.stdin []).2.2 hpre.symm
  simp only [execRead, hlen]
  exact this

theorem execCat_cursor (s : State) (here : Option (List Char)) : CursorStep s (execCat s here) := by
  cases here with
  | some t => exact CursorStep.of_same rfl rfl rfl
  | none =>
    have := setStdin_cursor s s.stdin [] (by simp)
    simp only [execCat]
    exact this

theorem setOption_cursor (s : State) (o : String) (on : Bool) : CursorStep s (setOption s o on) := by
  unfold setOption; split
  · exact CursorStep.of_same rfl rfl rfl
  · split <;> exact CursorStep.of_same rfl rfl rfl

theorem execSimple_cursor (s : State) (fields : List String) (here : Option (List Char)) :
    CursorStep s (execSimple s fields here) := by
  cases fields with
  | nil => exact CursorStep.of_same rfl rfl rfl
  | cons name args =>
    simp only [execSimple]
    generalize classify name = u
    cases u with
    | probe => exact CursorStep.of_same rfl rfl rfl
    | aliasName => exact CursorStep.of_same rfl rfl rfl
    | echo => exact CursorStep.of_same rfl rfl rfl
    | st => exact CursorStep.of_same rfl rfl rfl
    | colon => exact CursorStep.of_same rfl rfl rfl
    | read => exact execRead_cursor _ _ _ _
    | alias => simp only [execUtil, execAlias]; split <;> exact CursorStep.of_same rfl rfl rfl
    | unalias => simp only [execUtil, execUnalias]; split <;> exact CursorStep.of_same rfl rfl rfl
    | set =>
      simp only [execUtil, execSet]
      split <;> first | exact setOption_cursor _ _ _ | exact CursorStep.of_same rfl rfl rfl
    | cat => exact execCat_cursor _ _
    | closein =>
      have := setStdin_cursor s s.stdin [] (by simp)
      simp only [execUtil, execClose]
      exact this
    | unknown => exact CursorStep.of_same rfl rfl rfl

/-- what `step_cursor` says about one step -/
def CursorAdv (k : List K) (s : State) (k' : List K) (s' : State) : Prop :=
  Inside k' s'.shared
  ∧ ((outerDesc k (stdinDesc s)).shared = true →
      ∃ pre, s.inp = pre ++ s'.inp
        ∧ (outerDesc k' (stdinDesc s')).pos = (outerDesc k (stdinDesc s)).pos + pre.length)

/-- a step that touches neither descriptor 0 nor the script cursor, and only adds or removes items
    other than `undo` -/
theorem cursorAdv_quiet (k k' : List K) (s s' : State) (hin : Inside k s.shared)
    (hd : stdinDesc s' = stdinDesc s) (hi : s'.inp = s.inp)
    (ho : ∀ d, outerDesc k' d = outerDesc k d) (hI : ∀ c, Inside k c → Inside k' c) :
    CursorAdv k s k' s' := by
  have hs : s'.shared = s.shared := congrArg SavedIn.shared hd
  refine ⟨by rw [hs]; exact hI _ hin, fun _ => ⟨[], by simp [hi], ?_⟩⟩
  rw [hd, ho]; simp

theorem cursorAdv_simple (k0 k' : List K) (a : K) (s s' : State) (hin : Inside (a :: k0) s.shared)
    (ha : ∀ d, outerDesc (a :: k0) d = outerDesc k0 d) (hI : ∀ c, Inside (a :: k0) c = Inside k0 c)
    (hk : (∀ d, outerDesc k' d = outerDesc k0 d) ∧ (∀ c, Inside k' c = Inside k0 c))
    (hc : CursorStep s s') : CursorAdv (a :: k0) s k' s' := by
  obtain ⟨h1, h2, h3⟩ := hc
  rw [hI] at hin
  refine ⟨by rw [hk.2, h1]; exact hin, ?_⟩
  intro hsh
  rw [ha] at hsh ⊢
  rw [hk.1]
  cases hp : pending k0 with
  | true =>
    have hf : s.shared = false := Inside_pending k0 _ hin hp
    refine ⟨[], by simp [h2 hf], ?_⟩
    rw [outerDesc_pending k0 (stdinDesc s') (stdinDesc s) hp]; simp
  | false =>
    rw [outerDesc_not_pending _ _ hp] at hsh ⊢
    rw [outerDesc_not_pending _ _ hp]
    obtain ⟨pre, e1, e2⟩ := h3 hsh
    exact ⟨pre, e1, e2⟩

/-- ★ one step: the invariant `Inside` is kept, and if descriptor 0 will finally be the script
    descriptor, the script cursor moved by exactly what the final offset moved -/
theorem step_cursor (k k' : List K) (s s' : State) (h : step k s = some (k', s'))
    (hin : Inside k s.shared) : CursorAdv k s k' s' := by
  cases k with
  | nil => simp [step] at h
  | cons a k0 =>
    cases a with
    | cmd c =>
      cases c with
      | simple ws here =>
        simp only [step, Option.some.injEq] at h
        unfold stepSimple at h
        split at h
        · simp only [Prod.mk.injEq] at h; rw [← h.1, ← h.2]
          exact cursorAdv_quiet _ _ _ _ hin rfl rfl (fun _ => rfl) (fun _ x => x)
        · simp only [Prod.mk.injEq] at h; rw [← h.1, ← h.2]
          exact cursorAdv_simple k0 k0 _ s _ hin (fun _ => rfl) (fun _ => rfl) ⟨fun _ => rfl, fun _ => rfl⟩
            (execSimple_cursor _ _ _)
      | redir rs c =>
        simp only [step] at h
        split at h <;> (try split at h) <;> (simp only [Option.some.injEq, Prod.mk.injEq] at h; rw [← h.1, ← h.2])
        · rcases performIn_first rs s with ⟨h1, h2⟩ | hh
          · rw [h1, h2]
            exact cursorAdv_quiet _ _ _ _ hin rfl rfl (fun _ => rfl) (fun _ x => x)
          · have hst := performIn_state rs [] s
            have hinp : (performIn rs [] s).2.1.inp = s.inp := by rw [hst]; rfl
            have hshared : (performIn rs [] s).2.1.shared = false := by
              -- the target of the last redirection performed is a stream of its own
              cases rs with
              | nil => simp [performIn] at hh
              | cons r rs =>
                rw [performIn] at hh ⊢
                cases hc : rdContent r with
                | none => rw [hc] at hh; simp at hh
                | some c =>
                  simp only []
                  clear hh hst hinp
                  generalize ([] ++ [stdinDesc s] : List SavedIn) = sv
                  have : ∀ (rs : List Rd) (sv : List SavedIn) (t : State), t.shared = false →
                      (performIn rs sv t).2.1.shared = false := by
                    intro rs
                    induction rs with
                    | nil => intro sv t ht; exact ht
                    | cons r rs ih =>
                      intro sv t ht
                      rw [performIn]
                      cases rdContent r with
                      | none => exact ht
                      | some c => exact ih _ _ rfl
                  exact this rs sv _ rfl
            refine ⟨?_, fun _ => ⟨[], by simp [hinp], ?_⟩⟩
            · show Inside (K.cmd c :: K.undo (performIn rs [] s).1 :: k0) _
              simp only [Inside, hh]
              exact ⟨hshared, hin⟩
            · simp only [outerDesc, hh, Option.getD_some]; simp
        · rw [undo_perform]
          exact cursorAdv_quiet _ _ _ _ hin rfl rfl (fun _ => by rw [outerDesc_dropGuards]; rfl)
            (fun _ x => Inside_dropGuards _ _ x)
        · rw [undo_perform]
          exact cursorAdv_quiet _ _ _ _ hin rfl rfl (fun _ => rfl) (fun _ x => x)
      | async c =>
        simp only [step] at h
        split at h <;> (simp only [Option.some.injEq, Prod.mk.injEq] at h; rw [← h.1, ← h.2])
        · exact cursorAdv_quiet _ _ _ _ hin rfl rfl (fun _ => rfl) (fun _ x => x)
        · refine ⟨?_, fun _ => ⟨[], by simp [setDesc], ?_⟩⟩
          · show Inside (K.cmd c :: K.undo [stdinDesc s] :: _) _
            simp only [Inside, List.head?_cons]
            exact ⟨rfl, hin⟩
          · simp only [outerDesc, List.head?_cons, Option.getD_some]; simp
      | ifc c t e he =>
        simp only [step, Option.some.injEq, Prod.mk.injEq] at h; rw [← h.1, ← h.2]
        exact cursorAdv_quiet _ _ _ _ hin rfl rfl (fun _ => by rw [outerDesc_cmds]; rfl)
          (fun _ x => by rw [Inside_cmds]; exact x)
      | loop u c b =>
        simp only [step, Option.some.injEq, Prod.mk.injEq] at h; rw [← h.1, ← h.2]
        exact cursorAdv_quiet _ _ _ _ hin rfl rfl (fun _ => by rw [outerDesc_cmds]; rfl)
          (fun _ x => by rw [Inside_cmds]; exact x)
      | group b =>
        simp only [step, Option.some.injEq, Prod.mk.injEq] at h; rw [← h.1, ← h.2]
        exact cursorAdv_quiet _ _ _ _ hin rfl rfl (fun _ => by rw [outerDesc_cmds]; rfl)
          (fun _ x => by rw [Inside_cmds]; exact x)
      | subsh b =>
        simp only [step, Option.some.injEq, Prod.mk.injEq] at h; rw [← h.1, ← h.2]
        exact cursorAdv_quiet _ _ _ _ hin rfl rfl (fun _ => by rw [outerDesc_cmds]; rfl)
          (fun _ x => by rw [Inside_cmds]; exact x)
      | andor l a r =>
        simp only [step, Option.some.injEq, Prod.mk.injEq] at h; rw [← h.1, ← h.2]
        exact cursorAdv_quiet _ _ _ _ hin rfl rfl (fun _ => rfl) (fun _ x => x)
      | neg c =>
        simp only [step, Option.some.injEq, Prod.mk.injEq] at h; rw [← h.1, ← h.2]
        exact cursorAdv_quiet _ _ _ _ hin rfl rfl (fun _ => rfl) (fun _ x => x)
    | undo saved =>
      simp only [step, Option.some.injEq, Prod.mk.injEq] at h; rw [← h.1, ← h.2]
      cases saved with
      | nil => exact cursorAdv_quiet _ _ _ _ hin rfl rfl (fun _ => rfl) (fun _ x => x)
      | cons x l =>
        rw [undoIn_head (x :: l) s x rfl]
        simp only [Inside, List.head?_cons] at hin
        refine ⟨hin.2, fun _ => ⟨[], by simp [setDesc], ?_⟩⟩
        simp only [outerDesc, List.head?_cons, Option.getD_some, stdinDesc_setDesc]; simp
    | branch t e he =>
      simp only [step] at h
      split at h
      · simp only [Option.some.injEq, Prod.mk.injEq] at h; rw [← h.1, ← h.2]
        exact cursorAdv_quiet _ _ _ _ hin rfl rfl (fun _ => by rw [outerDesc_cmds]; rfl)
          (fun _ x => by rw [Inside_cmds]; exact x)
      · split at h <;> (simp only [Option.some.injEq, Prod.mk.injEq] at h; rw [← h.1, ← h.2])
        · exact cursorAdv_quiet _ _ _ _ hin rfl rfl (fun _ => by rw [outerDesc_cmds]; rfl)
            (fun _ x => by rw [Inside_cmds]; exact x)
        · exact cursorAdv_quiet _ _ _ _ hin rfl rfl (fun _ => rfl) (fun _ x => x)
    | andK a r =>
      simp only [step] at h
      split at h <;> (simp only [Option.some.injEq, Prod.mk.injEq] at h; rw [← h.1, ← h.2]) <;>
        exact cursorAdv_quiet _ _ _ _ hin rfl rfl (fun _ => rfl) (fun _ x => x)
    | loopTest u c b l =>
      simp only [step] at h
      split at h <;> (simp only [Option.some.injEq, Prod.mk.injEq] at h; rw [← h.1, ← h.2])
      · exact cursorAdv_quiet _ _ _ _ hin rfl rfl (fun _ => by rw [outerDesc_cmds]; rfl)
          (fun _ x => by rw [Inside_cmds]; exact x)
      · exact cursorAdv_quiet _ _ _ _ hin rfl rfl (fun _ => rfl) (fun _ x => x)
    | loopBack u c b =>
      simp only [step, Option.some.injEq, Prod.mk.injEq] at h; rw [← h.1, ← h.2]
      exact cursorAdv_quiet _ _ _ _ hin rfl rfl (fun _ => by rw [outerDesc_cmds]; rfl)
        (fun _ x => by rw [Inside_cmds]; exact x)
    | restore sv =>
      simp only [step, Option.some.injEq, Prod.mk.injEq] at h; rw [← h.1, ← h.2]
      exact cursorAdv_quiet _ _ _ _ hin rfl rfl (fun _ => rfl) (fun _ x => x)
    | negK =>
      simp only [step, Option.some.injEq, Prod.mk.injEq] at h; rw [← h.1, ← h.2]
      exact cursorAdv_quiet _ _ _ _ hin rfl rfl (fun _ => rfl) (fun _ x => x)
    | src t e x =>
      simp only [step, Option.some.injEq] at h
      unfold stepSrc at h
      split at h <;> (simp only [Prod.mk.injEq] at h; rw [← h.1, ← h.2])
      · exact cursorAdv_quiet _ _ _ _ hin rfl rfl (fun _ => rfl) (fun _ x => x)
      · exact cursorAdv_quiet _ _ _ _ hin rfl rfl (fun _ => by rw [outerDesc_cmds]; rfl)
          (fun _ x => by rw [Inside_cmds]; exact x)
      · exact cursorAdv_quiet _ _ _ _ hin rfl rfl (fun _ => by rw [outerDesc_dropGuards]; rfl)
          (fun _ x => Inside_dropGuards _ _ x)

/-- a continuation run to its end from a state whose descriptor 0 will finally be the script descriptor:
    the script cursor and the final offset moved together -/
theorem runK_cursor (n : Nat) (k : List K) (s : State) (hfin : (runK n k s).2 = true)
    (hin : Inside k s.shared) (hsh : (outerDesc k (stdinDesc s)).shared = true) :
    ∃ pre, s.inp = pre ++ (runK n k s).1.inp
      ∧ (runK n k s).1.pos = (outerDesc k (stdinDesc s)).pos + pre.length
      ∧ (runK n k s).1.shared = true := by
  induction n generalizing k s with
  | zero => simp [runK] at hfin
  | succ n ih =>
    simp only [runK] at hfin ⊢
    cases hst : step k s with
    | none =>
      have hk : k = [] := by
        cases k with
        | nil => rfl
        | cons a k0 =>
          exfalso
          cases a with
          | cmd c =>
            cases c with
            | redir rs c => simp only [step] at hst; split at hst <;> (try split at hst) <;> simp at hst
            | async c => simp only [step] at hst; split at hst <;> simp at hst
            | simple ws here => simp [step] at hst
            | ifc c t e he => simp [step] at hst
            | loop u c b => simp [step] at hst
            | group b => simp [step] at hst
            | subsh b => simp [step] at hst
            | andor l a r => simp [step] at hst
            | neg c => simp [step] at hst
          | branch t e he => simp only [step] at hst; split at hst <;> (try split at hst) <;> simp at hst
          | andK a r => simp only [step] at hst; split at hst <;> simp at hst
          | loopTest u c b l => simp only [step] at hst; split at hst <;> simp at hst
          | loopBack u c b => simp [step] at hst
          | restore sv => simp [step] at hst
          | negK => simp [step] at hst
          | undo saved => simp [step] at hst
          | src t e x => simp [step] at hst
      subst hk
      exact ⟨[], by simp, by simp [outerDesc, stdinDesc], hsh⟩
    | some r =>
      obtain ⟨k', s'⟩ := r
      simp only [hst] at hfin ⊢
      obtain ⟨hin', hc⟩ := step_cursor _ _ _ _ hst hin
      obtain ⟨pre, e1, e2⟩ := hc hsh
      have hsh' : (outerDesc k' (stdinDesc s')).shared = true := by
        rw [(step_outer _ _ _ _ hst).1]; exact hsh
      obtain ⟨pre2, f1, f2, f3⟩ := ih k' s' hfin hin' hsh'
      refine ⟨pre ++ pre2, by rw [e1, f1, List.append_assoc], ?_, f3⟩
      rw [f2, e2, List.length_append]; omega

theorem Inside_cmds_nil (cs : List Cmd) (c : Bool) : Inside (cmds cs) c := by
  have := Inside_cmds cs [] c
  rw [List.append_nil] at this
  rw [this]; trivial

/-- a command line of a stdin-fed shell, run to its end -/
theorem runK_cmds_cursor (n : Nat) (cs : List Cmd) (s : State) (hfin : (runK n (cmds cs) s).2 = true)
    (hsh : s.shared = true) :
    ∃ pre, s.inp = pre ++ (runK n (cmds cs) s).1.inp
      ∧ (runK n (cmds cs) s).1.pos = s.pos + pre.length
      ∧ (runK n (cmds cs) s).1.shared = true := by
  have e : outerDesc (cmds cs) (stdinDesc s) = stdinDesc s := by
    have := outerDesc_cmds cs [] (stdinDesc s)
    rw [List.append_nil] at this
    exact this
  have := runK_cursor n (cmds cs) s hfin (Inside_cmds_nil cs _) (by rw [e]; exact hsh)
  rw [e] at this
  exact this

end YashModel.Input
