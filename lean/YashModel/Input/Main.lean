/-
  Driver for C18.  Case line: `<feed> <hex data> <hex unit> <hex unit> …`
    feed  = `str` (sh -c, standard input = data) | `file` (sh -s, script is /dev/stdin)
          | `script` (sh /script.sh, standard input = data)
          | `pipe:<pause>:<n1>,<n2>,…` (sh -s, script written into a pipe in chunks of n1, n2, … bytes)
    the script is the concatenation of the units (unit boundaries matter to the harness only).
  Output: `trace=<item|item…> status=<n> err=<0/1> echo=<hex> fin=<vars;aliases;options>` TAB `<spec verdict>`.
-/
import YashModel.Common.Proto
import YashModel.Input.Model
import YashModel.Input.Spec
import YashModel.Input.ReadSpec
open YashModel YashModel.Input YashModel.Proto

def decBytes (t : String) : Option (List UInt8) :=
  if t = "-" then some [] else hexToBytes t.toList

def encBytes (bs : List UInt8) : String := if bs.isEmpty then "-" else bytesToHex bs

def showOut : Out → String
  | .probe st fs off nb => s!"{st}:{",".intercalate (fs.map encStr)}@{off}{if nb then "!nb" else ""}"
  | .raw bs => "L" ++ encBytes (if endsNL bs then bs.dropLast else bs)

def decAll : List String → Option (List (List UInt8))
  | [] => some []
  | t :: ts => do
    let a ← decBytes t
    let r ← decAll ts
    pure (a :: r)

def runLine (line : String) : String :=
  match words line with
  | feed :: dataT :: unitTs =>
    let feedOk : Bool := feed == "str" || feed == "file" || feed == "script" ||
      feed == "real:nb" || feed == "real:bl" ||
      (match feed.splitOn ":" with
       | ["nbpipe", p, sz] => p.toNat?.isSome && !(sz.splitOn ",").isEmpty &&
                              (sz.splitOn ",").all (fun t => (t.toNat?.getD 0) > 0)
       | ["pipe", p, sz] => p.toNat?.isSome && !(sz.splitOn ",").isEmpty &&
                            (sz.splitOn ",").all (fun t => (t.toNat?.getD 0) > 0)
       | _ => false)
    if !feedOk then "bad-case\t-" else
    match decBytes dataT, decAll unitTs with
    | some data, some units =>
      let script := units.flatten
      let fileSrc := feed == "script"
      let shared := feed != "str" && !fileSrc
      let chunks : Option (List (List UInt8)) :=
        match feed.splitOn ":" with
        | ["pipe", _, sz] | ["nbpipe", _, sz] =>
          let sizes := (sz.splitOn ",").filterMap String.toNat?
          some (chunksOf sizes (script.length + 1) 0 script)
        | _ => none
      -- a pipe inherited in non-blocking mode (`nbpipe:…`, `real:nb`)
      let nb := feed.startsWith "nbpipe" || feed == "real:nb"
      let r := if fileSrc then runFile script data else if nb then runPipe true script
               else run shared script data
      -- the state left behind: the variables `read` assigns, the aliases the scripts define, the two
      -- options they toggle (not available from the real-binary leg)
      let real := feed == "real:nb" || feed == "real:bl"
      let showFin (st : State) : String :=
        if real then "-" else
        let vs := ["v1", "v2", "v3", "vd"].map fun n => encStr (getVar st.vars n)
        let as := ["a1", "a2", "a3", "n1", "n2", "n3"].map fun n =>
          match st.aliases.find? (·.1 == n) with
          | some e => encStr e.2
          | none => "~"
        s!"{",".intercalate vs};{",".intercalate as};{if st.verbose then 1 else 0}{if st.portable then 1 else 0}"
      let showObs (st : State) (o : Outcome) : String :=
        let tr := "|".intercalate (st.out.reverse.map showOut)
        match o with
        | .outOfFuel => s!"FUEL trace={tr}"
        | o => s!"trace={tr} status={exitStatus st o} err={if (o == .syntaxError && !st.aborted) || st.errRep then 1 else 0} echo={encBytes st.echo} fin={showFin st}"
      let obs := showObs r.1 r.2.1
      let prefixes := (List.range units.length).filterMap fun k =>
        if k == 0 then none else some (units.take k).flatten
      -- Spec column: a violated clause of the Spec on the model's own run, else the prediction of
      -- the line-by-line reference reader
      let verdict0 := check fileSrc shared script data prefixes chunks r
      -- `read` took exactly its logical line: what follows it is what the next iteration finds
      let verdict := if verdict0 != "ok" then verdict0
                     else if shared then
                       (match checkReads r.2.2 with
                        | some w => "FAIL:" ++ w
                        | none => "ok")
                     else "ok"
      let sp := if fileSrc then specRunFile script data else if nb then specRunPipe true script
                else specRun shared script data
      obs ++ "\t" ++ (if verdict != "ok" then verdict
                      else "=" ++ showObs sp.1 sp.2)
    | _, _ => "bad-case\t-"
  | _ => "bad-case\t-"

def main : IO Unit := mainLoop runLine
