/-
  C18 — the byte-level `read` of this area (one byte per read, UTF-8 assembly, escape flag) composed with
  the C01 model of the same built-in (`YashModel.Expansion`: `readInput` over characters, `readAssign`,
  both proved against their Specs there): on valid UTF-8 input the byte-level reader yields exactly what
  the character-level reader yields on the decoded input.
-/
import YashModel.Input.Logical
namespace YashModel.Input
open Expansion (readInput readQuoting readQuoted plainChar)

/-! ### `utf8Check` only accepts Unicode scalar values -/

theorem second2_bounds (a b : Byte) (h : second2 a b = true) :
    0x80 ≤ b.toNat ∧ b.toNat ≤ 0xBF ∧ (a.toNat = 0xE0 → 0xA0 ≤ b.toNat) ∧ (a.toNat = 0xED → b.toNat ≤ 0x9F)
      ∧ (a.toNat = 0xF0 → 0x90 ≤ b.toNat) ∧ (a.toNat = 0xF4 → b.toNat ≤ 0x8F) := by
  unfold second2 at h
  split at h
  · simp at h; omega
  · split at h
    · simp at h; omega
    · split at h
      · simp at h; omega
      · split at h
        · simp at h; omega
        · simp [isCont] at h; omega

theorem isCont_bounds (b : Byte) (h : isCont b = true) : 0x80 ≤ b.toNat ∧ b.toNat ≤ 0xBF := by
  simp [isCont] at h; omega

/-- a sequence accepted by `utf8Check` decodes to a Unicode scalar value (no surrogate, at most U+10FFFF) -/
theorem utf8_ok_valid (bs : List Byte) (code : Nat) (h : utf8Check bs = .ok code) : code.isValidChar := by
  unfold Nat.isValidChar
  match bs with
  | [] => simp [utf8Check] at h
  | [a] =>
    by_cases h1 : a.toNat < 0x80
    · simp [utf8Check, h1] at h; omega
    · by_cases h2 : 0xC2 ≤ a.toNat ∧ a.toNat ≤ 0xF4 <;> simp [utf8Check, h1, h2] at h
  | [a, b] =>
    by_cases c1 : 0xC2 ≤ a.toNat ∧ a.toNat ≤ 0xDF
    · by_cases c2 : isCont b = true
      · simp [utf8Check, c1, c2] at h
        have := isCont_bounds b c2
        omega
      · simp [utf8Check, c1, c2] at h
    · by_cases c2 : 0xE0 ≤ a.toNat ∧ a.toNat ≤ 0xF4 ∧ second2 a b = true <;>
        simp [utf8Check, c1, c2] at h
  | [a, b, c] =>
    by_cases c1 : 0xE0 ≤ a.toNat ∧ a.toNat ≤ 0xEF
    · by_cases c2 : second2 a b = true ∧ isCont c = true
      · simp [utf8Check, c1, c2] at h
        have h2 := second2_bounds a b c2.1
        have h3 := isCont_bounds c c2.2
        omega
      · simp [utf8Check, c1, c2] at h
    · by_cases c2 : 0xF0 ≤ a.toNat ∧ a.toNat ≤ 0xF4 ∧ second2 a b = true ∧ isCont c = true <;>
        simp [utf8Check, c1, c2] at h
  | [a, b, c, e] =>
    by_cases c1 : 0xF0 ≤ a.toNat ∧ a.toNat ≤ 0xF4 ∧ second2 a b = true ∧ isCont c = true
        ∧ isCont e = true
    · simp [utf8Check, c1] at h
      have h2 := second2_bounds a b c1.2.2.1
      have h3 := isCont_bounds c c1.2.2.2.1
      have h4 := isCont_bounds e c1.2.2.2.2
      omega
    · simp [utf8Check, c1] at h
  | a :: b :: c :: e :: f :: rest => simp [utf8Check] at h

theorem toNat_ofNat_valid (n : Nat) (h : n.isValidChar) : (Char.ofNat n).toNat = n := by
  simp [Char.ofNat, h, Char.toNat, Char.ofNatAux]

/-- comparing the decoded character with an ASCII character is comparing the code points -/
theorem ofNat_beq (code d : Nat) (hc : code.isValidChar) (hd : d < 128) :
    (Char.ofNat code == Char.ofNat d) = decide (code = d) := by
  have hdv : d.isValidChar := by unfold Nat.isValidChar; omega
  by_cases h : code = d
  · subst h; simp
  · have : Char.ofNat code ≠ Char.ofNat d := by
      intro e
      have := congrArg Char.toNat e
      rw [toNat_ofNat_valid code hc, toNat_ofNat_valid d hdv] at this
      exact h this
    simp [h, this]

/-! ### the two readers in lock step -/

/-- what the character-level reader does after an unquoted backslash (the inner `match` of
    `Expansion.readInput`) -/
def escCont (raw : Bool) (delim : Char) : List Char → List AChar × Bool
  | [] => ([readQuoting '\\'], false)
  | x :: r =>
    if x == '\n' then readInput raw delim r
    else (readQuoting '\\' :: readQuoted x :: (readInput raw delim r).1, (readInput raw delim r).2)

theorem readInput_cons (raw : Bool) (delim c : Char) (rest : List Char) :
    readInput raw delim (c :: rest) =
      if c == delim then ([], true)
      else if c == '\\' && !raw then escCont raw delim rest
      else (plainChar c :: (readInput raw delim rest).1, (readInput raw delim rest).2) := by
  cases rest <;> simp [readInput, escCont]

def statOf (found : Bool) : RStat := if found then .found else .eof

/-- ★ on valid UTF-8 input the byte-level `read` (bytes read one at a time, characters assembled in a
    buffer, escape flag) and the C01 character-level `read` on the decoded input collect the same
    attributed characters and agree on whether the delimiter was found -/
theorem readLineGo_eq_readInput (d : Nat) (hd : d < 128) (raw : Bool) (p : List Byte) :
    ∀ (esc : Bool) (buf : List Byte) (acc : List AChar), validUtf8 buf p = true →
      (readLineGo d raw esc buf p acc).1 =
        acc ++ (if esc then escCont raw (Char.ofNat d) (decodeGo buf p)
                else readInput raw (Char.ofNat d) (decodeGo buf p)).1
      ∧ (readLineGo d raw esc buf p acc).2.1 =
        statOf (if esc then escCont raw (Char.ofNat d) (decodeGo buf p)
                else readInput raw (Char.ofNat d) (decodeGo buf p)).2 := by
  induction p with
  | nil =>
    intro esc buf acc hv
    have hb : buf = [] := by simpa [validUtf8] using hv
    subst hb
    cases esc <;> simp [readLineGo, decodeGo, escCont, readInput, statOf]
  | cons b t ih =>
    intro esc buf acc hv
    simp only [readLineGo, validUtf8, decodeGo] at hv ⊢
    cases hu : utf8Check (buf ++ [b]) with
    | more =>
      simp only [hu] at hv ⊢
      exact ih esc (buf ++ [b]) acc hv
    | bad => simp [hu] at hv
    | ok code =>
      simp only [hu] at hv ⊢
      have hval := utf8_ok_valid _ code hu
      have e10 : (Char.ofNat code == '\n') = decide (code = 10) := ofNat_beq code 10 hval (by decide)
      have e92 : (Char.ofNat code == '\\') = decide (code = 92) := ofNat_beq code 92 hval (by decide)
      have ed : (Char.ofNat code == Char.ofNat d) = decide (code = d) := ofNat_beq code d hval hd
      cases esc with
      | true =>
        simp only [if_true, escCont, e10]
        by_cases hc : code = 10
        · simp only [hc, if_true, decide_true]
          have := ih false [] acc hv
          simpa using this
        · simp only [hc, if_false, decide_false, Bool.false_eq_true]
          have := ih false [] (acc ++ [readQuoting '\\', readQuoted (Char.ofNat code)]) hv
          simpa [List.append_assoc] using this
      | false =>
        simp only [Bool.false_eq_true, if_false, readInput_cons, ed, e92]
        by_cases hc : code = d
        · simp [hc, statOf]
        · simp only [hc, if_false, decide_false, Bool.false_eq_true]
          by_cases hbs : code = 92 ∧ (!raw) = true
          · simp only [hbs, and_self, if_true]
            have := ih true [] acc hv
            simpa using this
          · have h1 : (decide (code = 92) && !raw) = false := by
              cases hr : raw <;> simp_all
            simp only [hbs, if_false, h1, Bool.false_eq_true]
            have := ih false [] (acc ++ [plainChar (Char.ofNat code)]) hv
            simpa [List.append_assoc] using this

end YashModel.Input
