/-
  C18 ↔ C09 — the two transcriptions of `RedirGuard` agree: C18's `performIn` / `undoIn` (descriptor 0
  as "the open file description it refers to", a description identified by what reading from it
  delivers) is the projection on descriptor 0 of C09's `performRedirs` / `undoRedirs` (the descriptor
  table: backup copies at ≥ 10, `dup2`, `close`).  C09's model is imported, not copied; the world is
  C09's arbitrary oracle; `I` interprets an open file description (by identity) as a C18 description.
-/
import YashModel.Redir.Theorems
import YashModel.Input.RedirInv
namespace YashModel.Input
open YashModel.Redir
open YashModel.Generated.RedirConsts

variable {W : Type}

/-- what descriptor 0 of the table refers to, as a C18 description -/
def proj (I : Nat → SavedIn) (t : FdTable) : Option SavedIn := (t.get 0).map fun e => I e.ofd

/-- the description a saved copy of the guard holds in the table `t` -/
def savedDesc (I : Nat → SavedIn) (t : FdTable) (sv : SavedFd) : SavedIn :=
  (((sv.save.bind t.get).map fun e => I e.ofd)).getD { shared := false, data := [], pos := 0 }

/-- the C09 list and the C18 list are the same redirections of descriptor 0, item by item: each C09
    `perform` succeeds, and the description it leaves on descriptor 0 delivers the contents the C18 item
    opens (here-document or file), from offset 0 -/
def Tracks (o : Oracle W) (I : Nat → SavedIn) : W → FdTable → List Redir → List Rd → Prop
  | _, _, [], [] => True
  | w, t, r :: rs, rd :: rds =>
    r.fd = 0 ∧ (∃ sv, (perform o w t r).r = .ok sv)
      ∧ (∃ c, rdContent rd = some c ∧ proj I (perform o w t r).t = some { shared := false, data := c, pos := 0 })
      ∧ Tracks o I (perform o w t r).w (perform o w t r).t rs rds
  | _, _, _, _ => False

/-- an occupied descriptor that no item targets is never chosen for a saved copy and keeps its entry -/
theorem occupied_not_saved (o : Oracle W) (w : W) (t : FdTable) (rs : List Redir) (fd : Fd)
    (hocc : t.get fd ≠ none) (hnt : ∀ r ∈ rs, r.fd ≠ fd) :
    (∀ s ∈ (performRedirs o w t rs).saved, s.save ≠ some fd) ∧ (performRedirs o w t rs).t.get fd = t.get fd := by
  induction rs generalizing w t with
  | nil => exact ⟨(fun s hs => by cases hs), rfl⟩
  | cons r rs ih =>
    have hr : r.fd ≠ fd := hnt r (List.mem_cons_self)
    have hnt' : ∀ r' ∈ rs, r'.fd ≠ fd := fun r' h => hnt r' (List.mem_cons_of_mem _ h)
    rcases perform_spec o w t r with ⟨s0, hs0, hp⟩ | ⟨e, he, heq⟩
    · rw [performRedirs_cons_ok o w t r rs s0 hs0]
      simp only
      have h1 : (perform o w t r).t.get fd = t.get fd ∧ s0.save ≠ some fd := by
        cases hsv : s0.save with
        | none => exact ⟨(hp.none_case hsv).2.frame fd (Ne.symm hr), by simp⟩
        | some sv =>
          obtain ⟨e, _, _, hfree, _, hch⟩ := hp.some_case sv hsv
          have hne : sv ≠ fd := by intro h; rw [h] at hfree; exact hocc hfree
          refine ⟨?_, by simpa using hne⟩
          rw [hch.frame fd (Ne.symm hr)]
          simp [Ne.symm hne]
      have ih' := ih (perform o w t r).w (perform o w t r).t (by rw [h1.1]; exact hocc) hnt'
      refine ⟨?_, by rw [ih'.2, h1.1]⟩
      intro s hs
      rcases List.mem_cons.mp hs with h | h
      · rw [h]; exact h1.2
      · exact ih'.1 s h
    · rw [performRedirs_cons_err o w t r rs e he]
      exact ⟨(fun s hs => by cases hs), heq.2 fd⟩

theorem tracks_targets (o : Oracle W) (I : Nat → SavedIn) (w : W) (t : FdTable) (rs : List Redir)
    (rds : List Rd) (h : Tracks o I w t rs rds) : ∀ r ∈ rs, r.fd = 0 := by
  induction rs generalizing w t rds with
  | nil => intro r hr; cases hr
  | cons r rs ih =>
    cases rds with
    | nil => exact absurd h (by simp [Tracks])
    | cons rd rds =>
      simp only [Tracks] at h
      intro r' hr'
      rcases List.mem_cons.mp hr' with e | e
      · rw [e]; exact h.1
      · exact ih _ _ _ h.2.2.2 r' e

/-- ★ lock-step: `performIn` is the projection of `performRedirs` on descriptor 0 — same success, the
    description on descriptor 0 while the command runs, and the guard's saved copies **in the same
    order** (`saved_fds`) holding exactly the descriptions C18 saved -/
theorem perform_projection (o : Oracle W) (I : Nat → SavedIn) (w : W) (t : FdTable) (rs : List Redir)
    (rds : List Rd) (s : State) (saved : List SavedIn) (h : Tracks o I w t rs rds)
    (hp : proj I t = some (stdinDesc s)) :
    (performIn rds saved s).2.2 = true
    ∧ (performRedirs o w t rs).err = none
    ∧ proj I (performRedirs o w t rs).t = some (stdinDesc (performIn rds saved s).2.1)
    ∧ (performIn rds saved s).1
        = saved ++ (performRedirs o w t rs).saved.map (savedDesc I (performRedirs o w t rs).t) := by
  induction rs generalizing w t rds s saved with
  | nil =>
    cases rds with
    | nil => exact ⟨rfl, rfl, hp, by simp [performIn, performRedirs]⟩
    | cons rd rds => exact absurd h (by simp [Tracks])
  | cons r rs ih =>
    cases rds with
    | nil => exact absurd h (by simp [Tracks])
    | cons rd rds =>
      simp only [Tracks] at h
      obtain ⟨hfd, ⟨s0, hs0⟩, ⟨c, hc, hpc⟩, htail⟩ := h
      rcases perform_spec o w t r with ⟨s0', hs0', hok⟩ | ⟨e, he, _⟩
      · rw [hs0] at hs0'; cases hs0'
        -- the saved copy holds what descriptor 0 referred to
        have hget0 : ∃ e0, t.get 0 = some e0 ∧ I e0.ofd = stdinDesc s := by
          simp only [proj] at hp
          cases hg : t.get 0 with
          | none => rw [hg] at hp; simp at hp
          | some e0 => rw [hg] at hp; exact ⟨e0, rfl, by simpa using hp⟩
        obtain ⟨e0, hg0, hI0⟩ := hget0
        cases hsv : s0.save with
        | none =>
          have := (hok.none_case hsv).1
          rw [hfd, hg0] at this; cases this
        | some sv =>
          obtain ⟨e, hg, hmin, hfree, _, hch⟩ := hok.some_case sv hsv
          rw [hfd, hg0] at hg; cases hg
          have hne : sv ≠ 0 := by
            intro h0; rw [h0, hg0] at hfree; cases hfree
          have hsvget : (perform o w t r).t.get sv = some { ofd := e0.ofd, cloexec := saveCloexec } := by
            rw [hch.frame sv (by rw [hfd]; exact hne)]; simp
          have htg := tracks_targets o I _ _ rs rds htail
          have hocc := occupied_not_saved o (perform o w t r).w (perform o w t r).t rs sv
            (by rw [hsvget]; simp) (fun r' hr' => by rw [htg r' hr']; exact Ne.symm hne)
          have ih' := ih (perform o w t r).w (perform o w t r).t rds
            (setDesc s { shared := false, data := c, pos := 0 }) (saved ++ [stdinDesc s]) htail
            (by rw [hpc]; rfl)
          rw [performRedirs_cons_ok o w t r rs s0 hs0]
          simp only
          rw [performIn, hc]
          simp only []
          refine ⟨ih'.1, ih'.2.1, ih'.2.2.1, ?_⟩
          rw [ih'.2.2.2, List.map_cons, List.append_assoc]
          congr 2
          simp only [savedDesc, hsv, Option.bind_some, hocc.2, hsvget, Option.map_some, Option.getD_some]
          simp [hI0]
      · rw [hs0] at he; cases he

/-- non-vacuity, in C09's concrete world: `cmd <<A <<B` from the standard table of a stdin-fed shell;
    the descriptions 3 and 4 are the two temporary files -/
def exI (n : Nat) : SavedIn :=
  if n = 3 then { shared := false, data := [97, 10], pos := 0 }
  else if n = 4 then { shared := false, data := [98, 10], pos := 0 }
  else { shared := true, data := [], pos := 0 }


end YashModel.Input
