/-
  C18 — Impl model of the input path of a non-interactive shell.

    * `nextLine`      `yash-env/src/input/fd_reader_2.rs  FdReader2::next_line`
    * `nextLineC`     the same loop over a source that delivers its bytes in chunks (a pipe)
    * `pull`          `yash-syntax/src/parser/lex/core.rs  LexerCore::peek_char` driven by
                      `Parser::command_line` (a new line is pulled only when the buffer is exhausted)
    * `readLine`      `yash-builtin/src/read/input.rs  read` (+ `read_char`), same descriptor; its result
                      is the vector of attributed characters of the C01 model (`Expansion.AttrChar`), and
                      `assigning::assign` is **composed from C01** (`Expansion.readAssign`: `Ifs::ranges`,
                      `skip_quotes`, `strip`), not re-modelled here
    * `loop`          `yash-semantics/src/runner.rs  read_eval_loop_impl`
    * `step`/`runK`   execution of the parsed command (small-step, explicit continuation), with the
                      built-ins that matter here: `probe`, `read`, `alias`, `unalias`, `set`, `cat`

  The input is a byte stream with a cursor: `State.inp` is what has not been consumed yet from the
  script descriptor.  When the script *is* standard input (`sh -s`, fed by a file or a pipe) commands
  that read standard input consume from that same cursor (`shared = true`); for `sh -c` standard
  input is the separate stream `State.data`.
  Executable; imports only other areas' import-free models (`YashModel.Expansion.Model`).
-/
import YashModel.Input.Syntax
import YashModel.Expansion.Model
namespace YashModel.Input

abbrev Byte := UInt8
def NL : Byte := 10

/-! ### `FdReader2::next_line` -/

/-- the `loop` of `next_line`: one byte per `read`; stop after a newline or at end of input.
    `bytes` is the vector being filled. -/
def nextLineGo (bytes : List Byte) : List Byte → List Byte × List Byte
  | [] => (bytes, [])                                         -- `Ok(0) => break`
  | b :: rest =>
    if b = NL then (bytes ++ [b], rest)                       -- push, `if byte == b'\n' { break }`
    else nextLineGo (bytes ++ [b]) rest

def nextLine (inp : List Byte) : List Byte × List Byte := nextLineGo [] inp

/-- A source whose bytes arrive in chunks (what a writer put into a pipe with each `write`; a regular
    file is a single chunk).  One `read(fd, buf, 1)` returns the next byte whatever the chunking; an
    exhausted chunk list is end of input (the writer has closed its end). -/
def read1 : List (List Byte) → Option (Byte × List (List Byte))
  | [] => none
  | [] :: cs => read1 cs
  | (b :: c) :: cs => some (b, c :: cs)

def chunkMeasure (cs : List (List Byte)) : Nat := cs.flatten.length + cs.length

/-- `next_line` over a chunked source -/
def nextLineCGo (bytes : List Byte) (cs : List (List Byte)) : List Byte × List (List Byte) :=
  match cs with
  | [] => (bytes, [])
  | [] :: cs' => nextLineCGo bytes cs'
  | (b :: c) :: cs' =>
    if b = NL then (bytes ++ [b], c :: cs')
    else nextLineCGo (bytes ++ [b]) (c :: cs')
termination_by chunkMeasure cs
decreasing_by
  all_goals simp [chunkMeasure]
  all_goals omega

def nextLineC (cs : List (List Byte)) : List Byte × List (List Byte) := nextLineCGo [] cs

/-- all lines of an input, in order (`fuel` ≥ length suffices) -/
def linesOf : Nat → List Byte → List (List Byte)
  | 0, _ => []
  | n + 1, inp =>
    if (nextLine inp).1 = [] then [] else (nextLine inp).1 :: linesOf n (nextLine inp).2

def linesOfC : Nat → List (List Byte) → List (List Byte)
  | 0, _ => []
  | n + 1, cs =>
    if (nextLineC cs).1 = [] then [] else (nextLineC cs).1 :: linesOfC n (nextLineC cs).2

/-! ### The lexer buffer and `Parser::command_line` -/

/-! ### UTF-8 (`std::str::from_utf8` on a buffer of at most four bytes) -/

/-- outcome of `from_utf8(&buffer[..len])`: one complete character (its code point), a valid but
    incomplete sequence (`error_len() == None`), or an invalid one -/
inductive U8 where
  | ok (code : Nat)
  | more
  | bad
  deriving DecidableEq, Repr

def isCont (b : Byte) : Bool := 0x80 ≤ b.toNat && b.toNat ≤ 0xBF

/-- the second byte allowed after the lead byte `a` of a three- or four-byte sequence -/
def second2 (a b : Byte) : Bool :=
  if a.toNat = 0xE0 then 0xA0 ≤ b.toNat && b.toNat ≤ 0xBF
  else if a.toNat = 0xED then 0x80 ≤ b.toNat && b.toNat ≤ 0x9F
  else if a.toNat = 0xF0 then 0x90 ≤ b.toNat && b.toNat ≤ 0xBF
  else if a.toNat = 0xF4 then 0x80 ≤ b.toNat && b.toNat ≤ 0x8F
  else isCont b

def utf8Check : List Byte → U8
  | [] => .more
  | [a] =>
    if a.toNat < 0x80 then .ok a.toNat
    else if 0xC2 ≤ a.toNat ∧ a.toNat ≤ 0xF4 then .more else .bad
  | [a, b] =>
    if 0xC2 ≤ a.toNat ∧ a.toNat ≤ 0xDF then
      (if isCont b then .ok ((a.toNat - 0xC0) * 64 + (b.toNat - 0x80)) else .bad)
    else if 0xE0 ≤ a.toNat ∧ a.toNat ≤ 0xF4 ∧ second2 a b then .more else .bad
  | [a, b, c] =>
    if 0xE0 ≤ a.toNat ∧ a.toNat ≤ 0xEF then
      (if second2 a b ∧ isCont c
       then .ok ((a.toNat - 0xE0) * 4096 + (b.toNat - 0x80) * 64 + (c.toNat - 0x80)) else .bad)
    else if 0xF0 ≤ a.toNat ∧ a.toNat ≤ 0xF4 ∧ second2 a b ∧ isCont c then .more else .bad
  | [a, b, c, d] =>
    if 0xF0 ≤ a.toNat ∧ a.toNat ≤ 0xF4 ∧ second2 a b ∧ isCont c ∧ isCont d
    then .ok ((a.toNat - 0xF0) * 262144 + (b.toNat - 0x80) * 4096 + (c.toNat - 0x80) * 64
              + (d.toNat - 0x80))
    else .bad
  | _ => .bad

/-- `String::from_utf8` / `from_utf8_lossy` of a line: complete characters; an invalid or truncated
    sequence becomes U+FFFD (the generator never produces one) -/
def decodeGo (buf : List Byte) : List Byte → List Char
  | [] => if buf.isEmpty then [] else [Char.ofNat 0xFFFD]
  | b :: rest =>
    match utf8Check (buf ++ [b]) with
    | .ok code => Char.ofNat code :: decodeGo [] rest
    | .more => decodeGo (buf ++ [b]) rest
    | .bad =>
      -- `from_utf8_lossy`: the maximal valid prefix of a sequence becomes one U+FFFD and decoding
      -- resumes at the offending byte
      if buf.isEmpty then Char.ofNat 0xFFFD :: decodeGo [] rest
      else match utf8Check [b] with
        | .ok code => Char.ofNat 0xFFFD :: Char.ofNat code :: decodeGo [] rest
        | .more => Char.ofNat 0xFFFD :: decodeGo [b] rest
        | .bad => Char.ofNat 0xFFFD :: Char.ofNat 0xFFFD :: decodeGo [] rest

def toChars (bs : List Byte) : List Char := decodeGo [] bs
/-- UTF-8 encoding of a code point -/
def encodeCode (n : Nat) : List Byte :=
  if n < 0x80 then [n.toUInt8]
  else if n < 0x800 then [(0xC0 + n / 64).toUInt8, (0x80 + n % 64).toUInt8]
  else if n < 0x10000 then
    [(0xE0 + n / 4096).toUInt8, (0x80 + n / 64 % 64).toUInt8, (0x80 + n % 64).toUInt8]
  else [(0xF0 + n / 262144).toUInt8, (0x80 + n / 4096 % 64).toUInt8, (0x80 + n / 64 % 64).toUInt8,
        (0x80 + n % 64).toUInt8]

def toBytes (cs : List Char) : List Byte := cs.flatMap fun c => encodeCode c.toNat

/-- What one iteration of the read-eval loop pulled: the text now in the lexer buffer
    (`LexerCore::source`), the input left on the descriptor, and the parser's answer. -/
structure Pulled where
  text : List Byte
  rest : List Byte
  res : ParseRes
  sawEof : Bool          -- `next_line` met the end of the input (`Ok(0)`) while pulling this text
  deriving Repr, Inhabited

def endsNL (l : List Byte) : Bool := l.getLast? == some NL

/-- `peek_char` with an exhausted buffer calls `next_line`; an empty line is end of input
    (`InputState::EndOfInput`).  The parser (`parse eof text`) says whether it needs more.
    `fuel` bounds the number of lines (the length of the input suffices). -/
def pull (parse : Bool → List Byte → ParseRes) : Nat → List Byte → List Byte → Pulled
  | 0, buf, inp => { text := buf, rest := inp, res := .error, sawEof := true }
  | n + 1, buf, inp =>
    if (nextLine inp).1 = [] then
      { text := buf, rest := (nextLine inp).2, res := parse true buf, sawEof := true }
    else if (parse false (buf ++ (nextLine inp).1)).isIncomplete then
      { pull parse n (buf ++ (nextLine inp).1) (nextLine inp).2 with
        sawEof := (pull parse n (buf ++ (nextLine inp).1) (nextLine inp).2).sawEof
                  || !endsNL (nextLine inp).1 }
    else { text := buf ++ (nextLine inp).1, rest := (nextLine inp).2,
           res := parse false (buf ++ (nextLine inp).1), sawEof := !endsNL (nextLine inp).1 }

/-! ### Shell state and built-ins -/

/-- one line of standard output -/
inductive Out where
  | probe (status : Nat) (fields : List String) (offset : Nat) (nonblock : Bool)
      -- `nonblock`: standard input was in non-blocking mode while the command ran
  | raw (bytes : List Byte)
  deriving Repr, DecidableEq

structure State where
  inp : List Byte                       -- script descriptor: bytes not consumed yet
  shared : Bool                         -- standard input *is* the script descriptor
  data : List Byte := []                -- standard input when it is not
  pos : Nat := 0                        -- bytes consumed from standard input so far
  status : Nat := 0
  vars : List (String × String) := []
  aliases : List (String × String) := []
  verbose : Bool := false
  portable : Bool := false
  out : List Out := []                  -- reversed
  echo : List Byte := []                -- what `Echo` wrote to standard error
  hitEof : Bool := false                -- some reader saw the end of the input
  fdFed : Bool := shared                -- the script is read from a descriptor (`FdReader2` + `Echo`)
  aborted : Bool := false               -- a nested read-eval loop (`eval`, `.`) hit a syntax error
  nonblock : Bool := false              -- O_NONBLOCK of the open file description of standard input
  monitor : Bool := false               -- the `monitor` option (`set -m`)
  inClosed : Bool := false              -- descriptor 0 has been closed (`closein`): every later read of it fails
  errRep : Bool := false                -- a nested read-eval loop reported a syntax error (also inside a subshell)
  deriving Repr

def State.stdin (s : State) : List Byte := if s.shared then s.inp else s.data

def State.setStdin (s : State) (rest : List Byte) (used : Nat) : State :=
  if s.shared then { s with inp := rest, pos := s.pos + used }
  else { s with data := rest, pos := s.pos + used }

def getVar (vars : List (String × String)) (n : String) : String :=
  ((vars.find? (·.1 == n)).map (·.2)).getD ""

def setVar (vars : List (String × String)) (n v : String) : List (String × String) :=
  (n, v) :: vars.filter (·.1 != n)

/-- result of one `read_char` -/
inductive RC where
  | eof                 -- `Ok(None)`
  | char (code : Nat)   -- `Ok(Some(c))`
  | err                 -- `Err(EILSEQ)`
  deriving DecidableEq, Repr

/-- `read_char` of `read/input.rs`: bytes are read **one at a time** into `buffer` until
    `from_utf8(&buffer[..len])` is a complete character, so that nothing beyond the character is
    consumed.  `buf` is `buffer[..len]`. -/
def readCharGo (buf : List Byte) : List Byte → RC × List Byte
  | [] => (if buf = [] then .eof else .err, [])          -- `count == 0`
  | b :: rest =>
    match utf8Check (buf ++ [b]) with
    | .ok code => (.char code, rest)
    | .more => readCharGo (buf ++ [b]) rest              -- `error_len() == None => continue`
    | .bad => (.err, rest)

def readChar (inp : List Byte) : RC × List Byte := readCharGo [] inp

/-- `read_char` over a chunked source (one `read(fd, buf, 1)` per byte, see `read1`) -/
def readCharCGo (buf : List Byte) (cs : List (List Byte)) : RC × List (List Byte) :=
  match cs with
  | [] => (if buf = [] then .eof else .err, [])
  | [] :: cs' => readCharCGo buf cs'
  | (b :: c) :: cs' =>
    match utf8Check (buf ++ [b]) with
    | .ok code => (.char code, c :: cs')
    | .more => readCharCGo (buf ++ [b]) (c :: cs')
    | .bad => (.err, c :: cs')
termination_by chunkMeasure cs
decreasing_by
  all_goals simp [chunkMeasure]
  all_goals omega

/-- how a `read` ended -/
inductive RStat where
  | found     -- the delimiter (newline) was read
  | eof       -- end of input before a delimiter
  | err       -- `read_char` failed (invalid UTF-8)
  deriving DecidableEq, Repr

/-- the attributed characters `read` collects: `yash_env::semantics::expansion::attr::AttrChar` as modelled
    by C01 (`plain` / `quoting` / `quoted` of read/input.rs are `plainChar`, `readQuoting`, `readQuoted`) -/
abbrev AChar := Expansion.AttrChar

/-- `read` of `read/input.rs` with `read_char` inlined: one byte per step; `buf` holds the bytes of
    the character being assembled, `esc` says that the previous character was an unquoted backslash.
    Result: the attributed characters of the line (`result`: a backslash that escapes a character is
    kept as a *quoting* character followed by the *quoted* character, exactly as in the Rust vector),
    how it ended, the rest of the stream.  A backslash-newline pair is a line continuation unless
    `raw`; a backslash followed by the end of the input stays as a lone quoting character.  `d` is
    the delimiter (`-d`, newline by default; a single byte, hence below 128). -/
def readLineGo (d : Nat) (raw : Bool) : Bool → List Byte → List Byte → List AChar →
    (List AChar × RStat × List Byte)
  | esc, buf, [], acc =>                                                 -- `None => break false`
    (if esc then acc ++ [Expansion.readQuoting '\\'] else acc, if buf = [] then .eof else .err, [])
  | esc, buf, b :: rest, acc =>
    match utf8Check (buf ++ [b]) with
    | .more => readLineGo d raw esc (buf ++ [b]) rest acc
    | .bad => (acc, .err, rest)
    | .ok code =>
      if esc then                                                         -- the character after `\`
        (if code = 10 then readLineGo d raw false [] rest acc               -- line continuation
         else readLineGo d raw false [] rest
                (acc ++ [Expansion.readQuoting '\\', Expansion.readQuoted (Char.ofNat code)]))
      else if code = d then (acc, .found, rest)                           -- delimiter
      else if code = 92 ∧ !raw then readLineGo d raw true [] rest acc       -- backslash escape
      else readLineGo d raw false [] rest (acc ++ [Expansion.plainChar (Char.ofNat code)])

def readLine (d : Nat) (raw : Bool) (inp : List Byte) (acc : List AChar) :
    List AChar × RStat × List Byte := readLineGo d raw false [] inp acc

/-- the same `read` over a chunked source -/
def readLineCGo (d : Nat) (raw : Bool) (esc : Bool) (buf : List Byte) (cs : List (List Byte))
    (acc : List AChar) : List AChar × RStat × List (List Byte) :=
  match cs with
  | [] => (if esc then acc ++ [Expansion.readQuoting '\\'] else acc, if buf = [] then .eof else .err, [])
  | [] :: cs' => readLineCGo d raw esc buf cs' acc
  | (b :: c) :: cs' =>
    match utf8Check (buf ++ [b]) with
    | .more => readLineCGo d raw esc (buf ++ [b]) (c :: cs') acc
    | .bad => (acc, .err, c :: cs')
    | .ok code =>
      if esc then
        (if code = 10 then readLineCGo d raw false [] (c :: cs') acc
         else readLineCGo d raw false [] (c :: cs')
                (acc ++ [Expansion.readQuoting '\\', Expansion.readQuoted (Char.ofNat code)]))
      else if code = d then (acc, .found, c :: cs')
      else if code = 92 ∧ !raw then readLineCGo d raw true [] (c :: cs') acc
      else readLineCGo d raw false [] (c :: cs') (acc ++ [Expansion.plainChar (Char.ofNat code)])
termination_by chunkMeasure cs
decreasing_by
  all_goals simp [chunkMeasure]
  all_goals omega

/-- `assigning::assign`, composed from the C01 model (`Expansion.readAssign`: `Ifs::ranges` over the
    attributed characters, every variable but the last gets one field, the last one its field or — when
    more follow — the rest of the line without trailing IFS white space; `skip_quotes` + `strip`), with
    the default IFS (the scripts never set it): the values are assigned to the names in order -/
def assignValues : List String → List (List Char) → List (String × String) → List (String × String)
  | n :: ns, v :: vs, vars => assignValues ns vs (setVar vars n (String.ofList v))
  | _, _, vars => vars

def assignRead (names : List String) (cs : List AChar) (vars : List (String × String)) :
    List (String × String) :=
  if names.isEmpty then vars
  else assignValues names (Expansion.readAssign Expansion.Ifs.default cs (names.length - 1)) vars

/-! ### Word expansion (parameter expansion + field splitting + quote removal, default IFS) -/

def expandParts (vars : List (String × String)) (status : Nat) : Word → List (Char × Bool)
  | [] => []
  | .lit c q :: rest => (c, q) :: expandParts vars status rest
  | .emptyQuote :: rest => expandParts vars status rest
  | .var n q :: rest =>
    let v := if n == "?" then toString status else getVar vars n
    -- characters of an unquoted expansion are subject to field splitting: marked `false`
    -- *and* distinguished from literal characters by being the only unquoted blanks possible
    (v.toList.map fun c => (c, q)) ++ expandParts vars status rest

def hasQuote : Word → Bool
  | [] => false
  | .lit _ true :: _ => true
  | .var _ true :: _ => true
  | .emptyQuote :: _ => true
  | _ :: rest => hasQuote rest

/-- split at unquoted blanks (they can only come from unquoted expansions) -/
def splitFields : List (Char × Bool) → List Char → Bool → List String
  | [], cur, started => if started then [String.ofList cur.reverse] else []
  | (c, q) :: rest, cur, started =>
    if !q && (c == ' ' || c == '\t' || c == '\n') then
      (if started then String.ofList cur.reverse :: splitFields rest [] false
       else splitFields rest [] false)
    else splitFields rest (c :: cur) true

def expandWord (vars : List (String × String)) (status : Nat) (w : Word) : List String :=
  let cs := expandParts vars status w
  match splitFields cs [] false with
  | [] => if hasQuote w then [""] else []
  | fs => fs

def expandWords (vars : List (String × String)) (status : Nat) (ws : List Word) : List String :=
  ws.flatMap (expandWord vars status)

/-! ### Commands -/

structure Saved where
  vars : List (String × String)
  aliases : List (String × String)
  verbose : Bool
  portable : Bool
  deriving Repr

/-- What a `SavedFd` of `RedirGuard` stands for when the redirected descriptor is standard input: the
    open file description descriptor 0 referred to when `perform` saved it (`dup` to a descriptor ≥ 10).
    A description is identified by what reading from it delivers: the script descriptor itself
    (`shared`), or a stream of its own with its offset. -/
structure SavedIn where
  shared : Bool
  data : List Byte
  pos : Nat
  deriving Repr, DecidableEq

/-- continuation items -/
inductive K where
  | cmd (c : Cmd)
  | branch (thn els : List Cmd) (hasElse : Bool)
  | andK (isAnd : Bool) (r : Cmd)
  | loopTest (untl : Bool) (cond body : List Cmd) (last : Nat)
  | loopBack (untl : Bool) (cond body : List Cmd)
  | restore (s : Saved)
  | negK                                    -- after the command of `! command`
  | undo (saved : List SavedIn)             -- `RedirGuard::undo_redirs` (also run by `Drop`)
  | src (text : List Byte) (echoes executed : Bool)   -- a nested read-eval loop (`eval`, `.`): what is left of its input
  deriving Repr

def cmds (l : List Cmd) : List K := l.map K.cmd

def splitEq (s : String) : Option (String × String) :=
  match s.splitOn "=" with
  | n :: v :: more => some (n, "=".intercalate (v :: more))
  | _ => none

def setOption (s : State) (name : String) (on : Bool) : State :=
  if name == "verbose" then { s with verbose := on, status := 0 }
  else if name == "portable" then { s with portable := on, status := 0 }
  else { s with status := 2 }

/-- everything still on standard input, as output lines (`cat` without operand) -/
def outLines : Nat → List Byte → List Out
  | 0, _ => []
  | n + 1, inp =>
    if (nextLine inp).1 = [] then [] else Out.raw (nextLine inp).1 :: outLines n (nextLine inp).2

/-- `read::main`: "input contains a nul byte" -/
def hasNul (cs : List AChar) : Bool := cs.any fun p => p.value.toNat == 0

/-- the variables after `read`: nothing is assigned when reading failed or a NUL was read -/
def readAssign (names : List String) (cs : List AChar) (st : RStat)
    (vars : List (String × String)) : List (String × String) :=
  if st = .err || hasNul cs then vars else assignRead names cs vars

/-- exit status of `read`: 0, 1 at end of input, 3 on a read error (`EXIT_STATUS_READ_ERROR`) -/
def readExit (cs : List AChar) (st : RStat) : Nat :=
  match st with
  | .err => 3
  | .found => if hasNul cs then 3 else 0
  | .eof => if hasNul cs then 3 else 1

/-- `read::syntax::parse`: `-r`, `-d delimiter` (empty = NUL), then the variable names -/
def parseReadArgs : List String → Bool → Nat → (Bool × Nat × List String)
  | "-r" :: rest, _, d => parseReadArgs rest true d
  | "-d" :: x :: rest, r, _ =>
    parseReadArgs rest r (match x.toList with | [] => 0 | c :: _ => c.toNat)
  | names, r, d => (r, d, names)

/-- the `read` built-in: one (logical) line from standard input into the variables; status 1 at end
    of input -/
def execRead (s : State) (d : Nat) (raw : Bool) (names : List String) : State :=
  let r := readLine d raw s.stdin []
  let s' := s.setStdin r.2.2 (s.stdin.length - r.2.2.length)
  { s' with vars := readAssign names r.1 r.2.1 s'.vars, status := readExit r.1 r.2.1,
            hitEof := s'.hitEof || (s'.shared && r.2.1 != .found) }

/-- `cat`: a here-document if there is one, otherwise everything left on standard input -/
def execCat (s : State) (here : Option (List Char)) : State :=
  match here with
  | some text =>
    let body := toBytes text
    { s with out := (outLines (body.length + 1) body).reverse ++ s.out, status := 0 }
  | none =>
    let all := s.stdin
    let s' := s.setStdin [] all.length
    { s' with out := (outLines (all.length + 1) all).reverse ++ s'.out, status := 0,
              hitEof := s'.hitEof || s'.shared }

/-- the special built-ins among them (`Type::Special`): an error in their redirections makes a
    non-interactive shell exit -/
def isSpecial (name : String) : Bool :=
  name == ":" || name == "set" || name == "eval" || name == "."

/-- `closein` (a harness built-in: `close(0)`, what `exec <&-` does): nothing more can be read from
    descriptor 0.  When the script comes from there, the next `FdReader2::next_line` fails
    (`Err(errno) => return Err(errno.into())`), `peek_char` records `InputState::Error`, and
    `read_eval_loop` ends: modelled as "nothing is left on the descriptor" plus the flag `inClosed`,
    from which `readError` / `exitStatus` below derive how the shell ends. -/
def execClose (s : State) : State :=
  let all := s.stdin
  let s' := s.setStdin [] all.length
  { s' with status := 0, inClosed := true, hitEof := s'.hitEof || s'.shared }

/-- the offset a probe shows: a closed descriptor has none (the harness prints 0) -/
def shownPos (s : State) : Nat := if s.inClosed then 0 else s.pos

/-- the utilities the scripts use (`a1`…`a3` are harness built-ins named like the aliases) -/
inductive Util where
  | probe | aliasName | st | colon | read | alias | unalias | set | cat | echo | closein | unknown
  deriving DecidableEq, Repr

def classify (name : String) : Util :=
  if name == "probe" then .probe
  else if name == "a1" || name == "a2" || name == "a3" then .aliasName
  else if name == "st" then .st
  else if name == ":" || name == "eval" then .colon     -- `eval` without operands does nothing
  else if name == "read" then .read
  else if name == "alias" then .alias
  else if name == "unalias" then .unalias
  else if name == "set" then .set
  else if name == "cat" then .cat
  else if name == "echo" then .echo
  else if name == "closein" then .closein
  else .unknown

def execSet (s : State) (args : List String) : State :=
  match args with
  | ["-v"] => setOption s "verbose" true
  | ["+v"] => setOption s "verbose" false
  | ["-m"] => { s with monitor := true, status := 0 }
  | ["+m"] => { s with monitor := false, status := 0 }
  | ["-o", o] => setOption s o true
  | ["+o", o] => setOption s o false
  | _ => { s with status := 2 }

def execAlias (s : State) (args : List String) : State :=
  match args.head?.bind splitEq with
  | some (n, v) => { s with aliases := (n, v) :: s.aliases.filter (·.1 != n), status := 0 }
  | none => { s with status := 0 }

def execUnalias (s : State) (args : List String) : State :=
  match args.head? with
  | some n => { s with aliases := s.aliases.filter (·.1 != n), status := 0 }
  | none => { s with status := 2 }

def execUtil (s : State) (u : Util) (name : String) (args : List String)
    (here : Option (List Char)) : State :=
  match u with
  | .probe => { s with out := Out.probe s.status args (shownPos s) s.nonblock :: s.out }
  | .aliasName => { s with out := Out.probe s.status ["@" ++ name] (shownPos s) s.nonblock :: s.out }
  | .echo => { s with out := Out.raw ((" ".intercalate args).toUTF8.toList ++ [NL]) :: s.out, status := 0 }
  | .st => { s with status := (args.head?.bind String.toNat?).getD 0 }
  | .colon => { s with status := 0 }
  | .read => execRead s (parseReadArgs args false 10).2.1 (parseReadArgs args false 10).1
             (parseReadArgs args false 10).2.2
  | .alias => execAlias s args
  | .unalias => execUnalias s args
  | .set => execSet s args
  | .cat => execCat s here
  | .closein => execClose s
  | .unknown => { s with status := 127 }

/-- a simple command after expansion: the built-ins -/
def execSimple (s : State) (fields : List String) (here : Option (List Char)) : State :=
  match fields with
  | [] => { s with status := 0 }
  | name :: args => execUtil s (classify name) name args here

/-- the parser as configured at the start of an iteration: alias table and mode are read from the
    environment *now* (`Parser::config().aliases(env)`, `lexer.set_mode(Mode::from(&env.options))`) -/
def parserOf (s : State) (eof : Bool) (text : List Byte) : ParseRes :=
  parseLine { aliases := s.aliases, portable := s.portable, eof } (toChars text)

/-- `Echo::next_line`: every pulled line goes to standard error when `verbose` is on at that moment.
    (The option cannot change while one command line is being parsed.) -/
def echoOf (s : State) (text : List Byte) : List Byte :=
  -- what is printed is the `String` the reader returned (`from_utf8_lossy` of the bytes)
  if s.verbose && s.fdFed then s.echo ++ toBytes (toChars text) else s.echo

/-- the files the scripts may read with the `.` built-in or `<path` (the harness creates the same files) -/
def dotFile (path : String) : Option (List Byte) :=
  if path == "/d1" then some "probe D1\nread vd\nprobe D1b \"$vd\"\n".toUTF8.toList
  else if path == "/d2" then some "alias a3='probe fromdot'\nset -o portable\n".toUTF8.toList
  else if path == "/d3" then some "probe D3a\nfi\nprobe D3b\n".toUTF8.toList
  else if path == "/d4" then some "probe D4 'multi\nline'\ncat <<E\nh dot é\nE\n".toUTF8.toList
  else if path == "/d5" then some []
  else if path == "/d6" then some "st 3".toUTF8.toList
  else if path == "/d7" then some "# only a comment\n\n   \n\t# and blanks\n".toUTF8.toList
  else if path == "/d8" then some "\n# c\nst 4\n\n# trailing comment".toUTF8.toList
  else if path == "/r1" then some "r1 one\nr1 two é\n".toUTF8.toList
  else if path == "/r2" then some "probe FROMR2 a\nprobe FROMR2 b\n".toUTF8.toList
  else none

/-- `eval` and `.`: the commands come from another source, read by a nested read-eval loop
    (`eval`: `Memory` over the operands joined by spaces; `.`: `Echo(FdReader2)` over the file) -/
def nested (fields : List String) : Option (List Byte × Bool) :=
  match fields with
  | "eval" :: a :: args => some ((" ".intercalate (a :: args)).toUTF8.toList, false)
  | "." :: path :: _ => (dotFile path).map fun t => (t, true)
  | _ => none

/-- where execution resumes when a special built-in makes the shell exit: at the end of the innermost
    subshell, if any -/
def unwind : List K → Option (List K)
  | [] => none
  | .restore sv :: k => some (.restore sv :: k)
  | _ :: k => unwind k

/-- what is still done on the way there: every `RedirGuard` that goes out of scope undoes its
    redirections (`impl Drop for RedirGuard`); everything else is abandoned -/
def dropGuards : List K → List K
  | [] => []
  | .restore sv :: k => .restore sv :: k
  | .undo saved :: k => .undo saved :: dropGuards k
  | _ :: k => dropGuards k

/-! ### Redirections of standard input (`yash-semantics/src/redir.rs  RedirGuard`) -/

/-- the open file description standard input refers to -/
def stdinDesc (s : State) : SavedIn := { shared := s.shared, data := s.data, pos := s.pos }

/-- descriptor 0 made to refer to the description `d` (`dup2(_, 0)`) -/
def setDesc (s : State) (d : SavedIn) : State := { s with shared := d.shared, data := d.data, pos := d.pos }

/-- what a redirection opens: the contents of the here-document (`here_doc::open_fd`: a temporary file
    filled with the contents and rewound) or of the file; `none` = the file cannot be opened -/
def rdContent : Rd → Option (List Byte)
  | .here body => some (toBytes body)
  | .file path => dotFile (String.ofList path)

/-- `RedirGuard::perform_redirs` for redirections of descriptor 0: left to right, every `perform`
    first saves what descriptor 0 refers to **at that moment** (pushed onto `saved_fds`), then opens
    the target onto descriptor 0 (offset 0).  Stops at the first failure (`false`); the redirections
    performed so far stay recorded. -/
def performIn : List Rd → List SavedIn → State → List SavedIn × State × Bool
  | [], saved, s => (saved, s, true)
  | r :: rs, saved, s =>
    match rdContent r with
    | none => (saved, s, false)
    | some c => performIn rs (saved ++ [stdinDesc s]) (setDesc s { shared := false, data := c, pos := 0 })

/-- `RedirGuard::undo_redirs`: `for SavedFd { original, save } in self.saved_fds.drain(..).rev()` —
    the saved descriptions are copied back onto descriptor 0 **last saved first**, so that the one
    copied last is the one saved first: what standard input was before the command -/
def undoIn (saved : List SavedIn) (s : State) : State := saved.reverse.foldl setDesc s

/-- a simple command: `eval` and `.` start a nested read-eval loop, everything else is a built-in -/
def stepSimple (ws : List Word) (here : Option (List Char)) (k : List K) (s : State) : List K × State :=
  match nested (expandWords s.vars s.status ws) with
  | some (text, echoes) => (.src text echoes false :: k, s)
  | none => (k, execSimple s (expandWords s.vars s.status ws) here)

/-- one iteration of a nested `read_eval_loop` (`eval`, `.`): mode and aliases are read now, one
    command line is pulled from the nested source and its commands run before the next one is looked
    at; at the end of the source `$?` is that of the last line that held a command, or 0 if no line
    did (`if !executed { exit_status = SUCCESS }`); a syntax error makes the (sub)shell exit with status 2 -/
def stepSrc (text : List Byte) (echoes executed : Bool) (k : List K) (s : State) : List K × State :=
  match (pull (parserOf s) (text.length + 1) [] text).res with
  | .none =>
    (k, { s with echo := if s.verbose && echoes
                         then s.echo ++ toBytes (toChars (pull (parserOf s) (text.length + 1) [] text).text)
                         else s.echo,
                 status := if executed then s.status else 0 })
  | .ok cs =>
    -- `executed |= !command.0.is_empty()`: a line without commands (blank, comment) does not count
    (cmds cs ++ .src (pull (parserOf s) (text.length + 1) [] text).rest echoes (executed || !cs.isEmpty) :: k,
     { s with echo := if s.verbose && echoes
                      then s.echo ++ toBytes (toChars (pull (parserOf s) (text.length + 1) [] text).text)
                      else s.echo })
  | _ =>
    (dropGuards k,
     { s with echo := if s.verbose && echoes
                      then s.echo ++ toBytes (toChars (pull (parserOf s) (text.length + 1) [] text).text)
                      else s.echo,
              status := 2, aborted := s.aborted || (unwind k).isNone, errRep := true })

/-- a redirection error on this command makes the shell exit: a simple command whose name (after
    expansion) is a special built-in (`simple_command/builtin.rs`: `Special` → `Divert::Interrupt`) -/
def redirErrorExits (s : State) (c : Cmd) : Bool :=
  match c with
  | .simple ws _ => ((expandWords s.vars s.status ws).head?.map isSpecial).getD false
  | _ => false

/-- the command runs inside a subshell (`env.stack.contains(&Frame::Subshell)`): the end of a subshell
    is pending in the continuation -/
def inSubshell : List K → Bool
  | [] => false
  | .restore _ :: _ => true
  | _ :: k => inSubshell k

/-- `Env::controls_jobs`: `Monitor` is on and the shell is not in a subshell — only then does
    `Subshell::start` grant the job control `execute_async` asks for (`job_control` is `Some`) -/
def controlsJobs (k : List K) (s : State) : Bool := s.monitor && !inSubshell k

/-- one step of command execution; `none` when the continuation is empty -/
def step (k : List K) (s : State) : Option (List K × State) :=
  match k with
  | [] => none
  | .cmd (.simple ws here) :: k => some (stepSimple ws here k s)
  | .src text echoes executed :: k => some (stepSrc text echoes executed k s)
  | .cmd (.ifc cond thn els hasElse) :: k => some (cmds cond ++ .branch thn els hasElse :: k, s)
  | .branch thn els hasElse :: k =>
    if s.status = 0 then some (cmds thn ++ k, s)
    else if hasElse then some (cmds els ++ k, s)
    else some (k, { s with status := 0 })
  | .cmd (.andor l isAnd r) :: k => some (.cmd l :: .andK isAnd r :: k, s)
  | .andK isAnd r :: k =>
    if (s.status = 0) = isAnd then some (.cmd r :: k, s) else some (k, s)
  | .cmd (.loop untl cond body) :: k => some (cmds cond ++ .loopTest untl cond body 0 :: k, s)
  | .loopTest untl cond body last :: k =>
    if (s.status = 0) != untl then some (cmds body ++ .loopBack untl cond body :: k, s)
    else some (k, { s with status := last })
  | .loopBack untl cond body :: k =>
    some (cmds cond ++ .loopTest untl cond body s.status :: k, s)
  | .cmd (.group body) :: k => some (cmds body ++ k, s)
  | .cmd (.subsh body) :: k =>
    some (cmds body ++ .restore { vars := s.vars, aliases := s.aliases, verbose := s.verbose,
                                  portable := s.portable } :: k, s)
  | .restore sv :: k =>
    some (k, { s with vars := sv.vars, aliases := sv.aliases, verbose := sv.verbose,
                      portable := sv.portable })
  | .cmd (.neg c) :: k => some (.cmd c :: .negK :: k, s)
  | .cmd (.redir rs c) :: k =>
    -- `perform_redirs`, the command, `undo_redirs`; a redirection that fails (`cannot open the
    -- file`): the command is not run, `$?` = 2, what was redirected so far is undone
    if (performIn rs [] s).2.2 then some (.cmd c :: .undo (performIn rs [] s).1 :: k, (performIn rs [] s).2.1)
    else if redirErrorExits s c then
      -- a special built-in: the (sub)shell exits with that status, nothing more is read
      some (dropGuards k, { undoIn (performIn rs [] s).1 (performIn rs [] s).2.1 with
                              status := 2, aborted := s.aborted || (unwind k).isNone })
    else some (k, { undoIn (performIn rs [] s).1 (performIn rs [] s).2.1 with status := 2 })
  | .undo saved :: k => some (k, undoIn saved s)
  | .cmd (.async c) :: k =>
    -- `execute_async` / `async_body`: the and-or list runs in a subshell (what it assigns is lost);
    -- `if job_control.is_none() { nullify_stdin }`: unless job control is in effect for it, its standard
    -- input is /dev/null — it cannot take anything of what follows on the shell's input; the shell
    -- goes on with `$?` = 0.  (The child is run to its end here: the scripts only start asynchronous
    -- commands that write nothing.)
    let sv : Saved := { vars := s.vars, aliases := s.aliases, verbose := s.verbose, portable := s.portable }
    if controlsJobs k s then some (.cmd c :: .restore sv :: .cmd (.simple [] none) :: k, s)
    else some (.cmd c :: .undo [stdinDesc s] :: .restore sv :: .cmd (.simple [] none) :: k,
               setDesc s { shared := false, data := [], pos := 0 })
  | .negK :: k => some (k, { s with status := if s.status = 0 then 1 else 0 })

/-- run a continuation to its end (`fuel` steps at most; `false` when the fuel ran out) -/
def runK : Nat → List K → State → State × Bool
  | 0, _, s => (s, false)
  | n + 1, k, s =>
    match step k s with
    | none => (s, true)
    | some (k', s') => runK n k' s'

/-! ### `read_eval_loop_impl` -/

inductive Outcome where
  | eof            -- `Ok(None)`: the loop returned `Continue(())`
  | syntaxError    -- the parser failed: `Break(Divert::Interrupt(Some(ExitStatus::ERROR)))`
  | outOfFuel
  deriving Repr, DecidableEq

/-- what one iteration pulled and where the descriptor stood when its command started -/
structure Iter where
  start : List Byte
  text : List Byte
  atExec : List Byte
  posStart : Nat
  posAtExec : Nat
  deriving Repr

def execFuel : Nat := 20000

/-- what the iteration starting in `s` pulls -/
def pullOf (s : State) : Pulled := pull (parserOf s) (s.inp.length + 1) [] s.inp

/-- the state after the pull: the descriptor stands right after the pulled text -/
def afterPull (s : State) : State :=
  { s with inp := (pullOf s).rest, echo := echoOf s (pullOf s).text,
           pos := if s.shared then s.pos + (pullOf s).text.length else s.pos }

/-- the state in which the command of the iteration starts -/
def atExec (s : State) : State :=
  { afterPull s with hitEof := s.hitEof || (pullOf s).sawEof }

def iterOf (s : State) : Iter :=
  { start := s.inp, text := (pullOf s).text, atExec := (pullOf s).rest, posStart := s.pos,
    posAtExec := (afterPull s).pos }

/-- The read-eval loop.  Each iteration starts with an empty lexer buffer (`flush`: nothing is pending
    because the previous command line ended with the last pulled line), re-reads mode and aliases,
    pulls exactly one command line, and runs it before anything else is pulled. -/
def loop : Nat → State → List Iter → State × Outcome × List Iter
  | 0, s, log => (s, .outOfFuel, log)
  | n + 1, s, log =>
    match (pullOf s).res with
    | .none =>
      -- (ghost) end of input met with a non-empty buffer counts as "a reader met the end of the input"
      ({ afterPull s with hitEof := s.hitEof || !(pullOf s).text.isEmpty }, .eof, log ++ [iterOf s])
    | .error => ({ afterPull s with status := 2 }, .syntaxError, log ++ [iterOf s])
    | .incomplete => ({ afterPull s with status := 2 }, .syntaxError, log ++ [iterOf s])
    | .ok cs =>
      let r := runK execFuel (cmds cs) (atExec s)
      if r.2 then
        (if r.1.aborted then (r.1, .syntaxError, log ++ [iterOf s]) else loop n r.1 (log ++ [iterOf s]))
      else (r.1, .outOfFuel, log ++ [iterOf s])

def initState (shared : Bool) (script data : List Byte) : State :=
  { inp := script, shared, data }

/-- `sh file`: the script is read from its own descriptor (echoed under `set -v`), standard input is
    something else -/
def initStateFile (script data : List Byte) : State :=
  { inp := script, shared := false, data, fdFed := true }

/-- `prepare_input`, `Source::Stdin`: "if the standard input is a FIFO or a terminal and is set to
    non-blocking reads, then sh shall enable blocking reads on standard input".  Every later read of
    the shell (`Concurrent::read` with its `TemporaryNonBlockingGuard`) switches the descriptor to
    non-blocking for the duration of the read and restores the mode it found — so no operation of the
    machine changes `nonblock`, and commands that are not part of the shell see what `prepare_input`
    left. -/
def prepareInput (fifo : Bool) (s : State) : State :=
  if fifo then { s with nonblock := false } else s

/-- `sh -s` with standard input a pipe inherited in the given mode -/
def runPipe (inherited : Bool) (script : List Byte) : State × Outcome × List Iter :=
  loop (script.length + 2) (prepareInput true { initState true script [] with nonblock := inherited }) []

def runFile (script data : List Byte) : State × Outcome × List Iter :=
  loop (script.length + 2) (initStateFile script data) []

def run (shared : Bool) (script data : List Byte) : State × Outcome × List Iter :=
  loop (script.length + 2) (initState shared script data) []

/-- the read-eval loop ended because the command descriptor could not be read (`ErrorCause::Io`:
    "cannot read commands"): descriptor 0 was closed and the script comes from there.  The commands read
    before — the rest of the line that closed it included — have run; nothing after that line is read. -/
def readError (st : State) (o : Outcome) : Bool := st.inClosed && st.shared && o == .eof

/-- the exit status of the shell: `ExitStatus::READ_ERROR` after a read error, else `$?` -/
def exitStatus (st : State) (o : Outcome) : Nat := if readError st o then 128 else st.status

/-- the trace of a run: standard output, oldest first -/
def traceOf (r : State × Outcome × List Iter) : List Out := r.1.out.reverse

end YashModel.Input
