/-
  C18 — step lemmas: executing a command with more input after the cursor gives the same result (with
  that input still after the cursor) unless a reader reached the end of the input; `hitEof` is
  sticky; standard output only grows.
-/
import YashModel.Input.Frame
import YashModel.Input.RedirLemmas
namespace YashModel.Input

/-- the same state with more input after the cursor of the script descriptor -/
def State.app (s : State) (S : List Byte) : State := { s with inp := s.inp ++ S }

@[simp] theorem app_shared (s : State) (S) : (s.app S).shared = s.shared := rfl
@[simp] theorem app_data (s : State) (S) : (s.app S).data = s.data := rfl
@[simp] theorem app_inp (s : State) (S) : (s.app S).inp = s.inp ++ S := rfl
@[simp] theorem app_out (s : State) (S) : (s.app S).out = s.out := rfl
@[simp] theorem app_hitEof (s : State) (S) : (s.app S).hitEof = s.hitEof := rfl
@[simp] theorem app_status (s : State) (S) : (s.app S).status = s.status := rfl
@[simp] theorem app_vars (s : State) (S) : (s.app S).vars = s.vars := rfl
@[simp] theorem app_echo (s : State) (S) : (s.app S).echo = s.echo := rfl
@[simp] theorem app_verbose (s : State) (S) : (s.app S).verbose = s.verbose := rfl
@[simp] theorem app_aborted (s : State) (S) : (s.app S).aborted = s.aborted := rfl

theorem execRead_app (s : State) (d : Nat) (raw : Bool) (names : List String) (S : List Byte)
    (h : (execRead s d raw names).hitEof = false) :
    execRead (s.app S) d raw names = (execRead s d raw names).app S := by
  cases hsh : s.shared with
  | false =>
    simp [execRead, State.app, State.stdin, State.setStdin, hsh]
  | true =>
    have hfound : (readLine d raw s.inp []).2.1 = .found := by
      simp [execRead, State.stdin, State.setStdin, hsh] at h
      exact h.2
    have hr := readLine_append raw s.inp S [] (readLine d raw s.inp []).1 (readLine d raw s.inp []).2.2
      (by rw [← hfound])
    obtain ⟨pre, hpre⟩ := readLine_suffix raw s.inp []
    have hlen : s.inp.length = pre.length + (readLine d raw s.inp []).2.2.length := by
      rw [← List.length_append, hpre]
    simp only [execRead, State.app, State.stdin, State.setStdin, hsh, if_true, hr]
    have : (s.inp ++ S).length - ((readLine d raw s.inp []).2.2 ++ S).length
        = s.inp.length - (readLine d raw s.inp []).2.2.length := by
      simp only [List.length_append]; omega
    simp [hfound]
    omega

theorem execCat_app (s : State) (here : Option (List Char)) (S : List Byte)
    (h : (execCat s here).hitEof = false) :
    execCat (s.app S) here = (execCat s here).app S := by
  cases here with
  | some k => simp [execCat, State.app]
  | none =>
    cases hsh : s.shared with
    | false => simp [execCat, State.app, State.stdin, State.setStdin, hsh]
    | true => simp [execCat, State.setStdin, hsh] at h

theorem setOption_app (s : State) (o : String) (on : Bool) (S : List Byte) :
    setOption (s.app S) o on = (setOption s o on).app S := by
  unfold setOption; split
  · rfl
  · split <;> rfl

theorem execSet_app (s : State) (args : List String) (S : List Byte) :
    execSet (s.app S) args = (execSet s args).app S := by
  unfold execSet; split <;> first | rfl | exact setOption_app _ _ _ _

theorem execAlias_app (s : State) (args : List String) (S : List Byte) :
    execAlias (s.app S) args = (execAlias s args).app S := by
  unfold execAlias; split <;> rfl

theorem execUnalias_app (s : State) (args : List String) (S : List Byte) :
    execUnalias (s.app S) args = (execUnalias s args).app S := by
  unfold execUnalias; split <;> rfl

theorem execSimple_app (s : State) (fields : List String)
    (here : Option (List Char)) (S : List Byte) (h : (execSimple s fields here).hitEof = false) :
    execSimple (s.app S) fields here = (execSimple s fields here).app S := by
  cases fields with
  | nil => rfl
  | cons name args =>
    simp only [execSimple] at h ⊢
    generalize classify name = u at h ⊢
    cases u with
    | probe => rfl
    | aliasName => rfl
    | st => rfl
    | colon => rfl
    | read => exact execRead_app _ _ _ _ _ h
    | alias => exact execAlias_app _ _ _
    | unalias => exact execUnalias_app _ _ _
    | set => exact execSet_app _ _ _
    | cat => exact execCat_app _ _ _ h
    | closein =>
      cases hsh : s.shared with
      | false => simp [execUtil, execClose, State.app, State.stdin, State.setStdin, hsh]
      | true => simp [execUtil, execClose, State.setStdin, hsh] at h
    | echo => rfl
    | unknown => rfl

/-! ### `hitEof` is sticky, standard output only grows -/

/-- `t` extends `s`: same or more output and verbose echo, and an end of input once seen stays seen -/
def Grows (s t : State) : Prop :=
  (∃ o, t.out = o ++ s.out) ∧ (s.hitEof = true → t.hitEof = true) ∧ (∃ e, t.echo = s.echo ++ e)
    ∧ t.nonblock = s.nonblock

theorem Grows.refl (s : State) : Grows s s := ⟨⟨[], rfl⟩, id, ⟨[], by simp⟩, rfl⟩

theorem Grows.trans {a b c : State} (h1 : Grows a b) (h2 : Grows b c) : Grows a c := by
  obtain ⟨⟨o1, e1⟩, k1, ⟨x1, y1⟩, n1⟩ := h1
  obtain ⟨⟨o2, e2⟩, k2, ⟨x2, y2⟩, n2⟩ := h2
  exact ⟨⟨o2 ++ o1, by rw [e2, e1, List.append_assoc]⟩, fun h => k2 (k1 h),
    ⟨x1 ++ x2, by rw [y2, y1, List.append_assoc]⟩, n2.trans n1⟩

theorem grows_of_eq {s t : State} (ho : t.out = s.out) (he : t.hitEof = s.hitEof)
    (hc : t.echo = s.echo) (hn : t.nonblock = s.nonblock := by rfl) : Grows s t :=
  ⟨⟨[], by simp [ho]⟩, by rw [he]; exact id, ⟨[], by simp [hc]⟩, hn⟩

theorem setOption_grows (s : State) (o : String) (on : Bool) : Grows s (setOption s o on) := by
  unfold setOption; split
  · exact grows_of_eq rfl rfl rfl
  · split <;> exact grows_of_eq rfl rfl rfl

theorem execRead_grows (s : State) (d : Nat) (raw : Bool) (names : List String) :
    Grows s (execRead s d raw names) := by
  refine ⟨⟨[], ?_⟩, ?_, ⟨[], ?_⟩, ?_⟩
  · cases hsh : s.shared <;> simp [execRead, State.setStdin, hsh]
  · intro h; cases hsh : s.shared <;> simp [execRead, State.setStdin, hsh, h]
  · cases hsh : s.shared <;> simp [execRead, State.setStdin, hsh]
  · cases hsh : s.shared <;> simp [execRead, State.setStdin, hsh]

theorem execCat_grows (s : State) (here : Option (List Char)) :
    Grows s (execCat s here) := by
  cases here with
  | some k => exact ⟨⟨_, rfl⟩, id, ⟨[], by simp [execCat]⟩, rfl⟩
  | none =>
    refine ⟨⟨(outLines (s.stdin.length + 1) s.stdin).reverse, ?_⟩, ?_, ⟨[], ?_⟩, ?_⟩
    · cases hsh : s.shared <;> simp [execCat, State.setStdin, hsh]
    · intro h; cases hsh : s.shared <;> simp [execCat, State.setStdin, hsh, h]
    · cases hsh : s.shared <;> simp [execCat, State.setStdin, hsh]
    · cases hsh : s.shared <;> simp [execCat, State.setStdin, hsh]

theorem execSimple_grows (s : State) (fields : List String)
    (here : Option (List Char)) : Grows s (execSimple s fields here) := by
  cases fields with
  | nil => exact grows_of_eq rfl rfl rfl
  | cons name args =>
    simp only [execSimple]
    generalize classify name = u
    cases u with
    | probe => exact ⟨⟨[_], rfl⟩, id, ⟨[], by simp [execUtil]⟩, rfl⟩
    | aliasName => exact ⟨⟨[_], rfl⟩, id, ⟨[], by simp [execUtil]⟩, rfl⟩
    | echo => exact ⟨⟨[_], rfl⟩, id, ⟨[], by simp [execUtil]⟩, rfl⟩
    | st => exact grows_of_eq rfl rfl rfl
    | colon => exact grows_of_eq rfl rfl rfl
    | read => exact execRead_grows _ _ _ _
    | alias => simp only [execUtil, execAlias]; split <;> exact grows_of_eq rfl rfl rfl
    | unalias => simp only [execUtil, execUnalias]; split <;> exact grows_of_eq rfl rfl rfl
    | set =>
      simp only [execUtil, execSet]
      split <;> first | exact setOption_grows _ _ _ | exact grows_of_eq rfl rfl rfl
    | cat => exact execCat_grows _ _
    | closein =>
      refine ⟨⟨[], ?_⟩, ?_, ⟨[], ?_⟩, ?_⟩
      · cases hsh : s.shared <;> simp [execUtil, execClose, State.setStdin, hsh]
      · intro h; cases hsh : s.shared <;> simp [execUtil, execClose, State.setStdin, hsh, h]
      · cases hsh : s.shared <;> simp [execUtil, execClose, State.setStdin, hsh]
      · cases hsh : s.shared <;> simp [execUtil, execClose, State.setStdin, hsh]
    | unknown => exact grows_of_eq rfl rfl rfl

/-! ### `step`, `runK` -/

theorem setDesc_grows (s : State) (d : SavedIn) : Grows s (setDesc s d) := grows_of_eq rfl rfl rfl

theorem performIn_grows (rs : List Rd) (saved : List SavedIn) (s : State) :
    Grows s (performIn rs saved s).2.1 := by
  rw [performIn_state]; exact setDesc_grows _ _

theorem undoIn_grows (saved : List SavedIn) (s : State) : Grows s (undoIn saved s) := by
  rw [undoIn_state]; exact setDesc_grows _ _

theorem app_comm_setDesc (S : List Byte) : ∀ (s : State) (d : SavedIn),
    setDesc (s.app S) d = (setDesc s d).app S := fun _ _ => rfl

theorem stepSimple_grows (ws : List Word) (here : Option (List Char)) (k : List K) (s : State) :
    Grows s (stepSimple ws here k s).2 := by
  unfold stepSimple; split
  · exact Grows.refl _
  · exact execSimple_grows _ _ _

theorem stepSrc_grows (text : List Byte) (echoes executed : Bool) (k : List K) (s : State) :
    Grows s (stepSrc text echoes executed k s).2 := by
  unfold stepSrc
  split <;> refine ⟨⟨[], by simp⟩, fun h => by simpa using h, ?_, rfl⟩ <;>
    (simp only []; split <;> first | exact ⟨_, rfl⟩ | exact ⟨[], by simp⟩)

theorem step_grows (k k' : List K) (s s' : State)
    (h : step k s = some (k', s')) : Grows s s' := by
  cases k with
  | nil => simp [step] at h
  | cons a k0 =>
    cases a with
    | cmd c =>
      cases c with
      | simple ws here =>
        simp only [step, Option.some.injEq] at h
        have := stepSimple_grows ws here k0 s; rw [h] at this; exact this
      | ifc c t e he => simp only [step, Option.some.injEq, Prod.mk.injEq] at h; rw [← h.2]; exact Grows.refl _
      | loop u c b => simp only [step, Option.some.injEq, Prod.mk.injEq] at h; rw [← h.2]; exact Grows.refl _
      | group b => simp only [step, Option.some.injEq, Prod.mk.injEq] at h; rw [← h.2]; exact Grows.refl _
      | subsh b => simp only [step, Option.some.injEq, Prod.mk.injEq] at h; rw [← h.2]; exact Grows.refl _
      | andor l a r => simp only [step, Option.some.injEq, Prod.mk.injEq] at h; rw [← h.2]; exact Grows.refl _
      | neg c => simp only [step, Option.some.injEq, Prod.mk.injEq] at h; rw [← h.2]; exact Grows.refl _
      | async c =>
        simp only [step] at h
        split at h <;> (simp only [Option.some.injEq, Prod.mk.injEq] at h; rw [← h.2])
        · exact Grows.refl _
        · exact setDesc_grows _ _
      | redir rs c =>
        simp only [step] at h
        split at h
        · simp only [Option.some.injEq, Prod.mk.injEq] at h; rw [← h.2]; exact performIn_grows _ _ _
        · split at h <;> (simp only [Option.some.injEq, Prod.mk.injEq] at h; rw [← h.2]) <;>
            exact ((performIn_grows rs [] s).trans (undoIn_grows _ _)).trans (grows_of_eq rfl rfl rfl)
    | undo saved =>
      simp only [step, Option.some.injEq, Prod.mk.injEq] at h; rw [← h.2]; exact undoIn_grows _ _
    | branch t e he =>
      simp only [step] at h
      split at h
      · simp only [Option.some.injEq, Prod.mk.injEq] at h; rw [← h.2]; exact Grows.refl _
      · split at h <;> (simp only [Option.some.injEq, Prod.mk.injEq] at h; rw [← h.2])
        · exact Grows.refl _
        · exact grows_of_eq rfl rfl rfl
    | andK a r =>
      simp only [step] at h
      split at h <;> (simp only [Option.some.injEq, Prod.mk.injEq] at h; rw [← h.2]; exact Grows.refl _)
    | loopTest u c b l =>
      simp only [step] at h
      split at h <;> (simp only [Option.some.injEq, Prod.mk.injEq] at h; rw [← h.2])
      · exact Grows.refl _
      · exact grows_of_eq rfl rfl rfl
    | loopBack u c b => simp only [step, Option.some.injEq, Prod.mk.injEq] at h; rw [← h.2]; exact Grows.refl _
    | restore sv => simp only [step, Option.some.injEq, Prod.mk.injEq] at h; rw [← h.2]; exact grows_of_eq rfl rfl rfl
    | negK => simp only [step, Option.some.injEq, Prod.mk.injEq] at h; rw [← h.2]; exact grows_of_eq rfl rfl rfl
    | src t e x =>
      simp only [step, Option.some.injEq] at h
      have := stepSrc_grows t e x k0 s; rw [h] at this; exact this

theorem stepSimple_app (ws : List Word) (here : Option (List Char)) (k : List K) (s : State)
    (S : List Byte) (h : (stepSimple ws here k s).2.hitEof = false) :
    stepSimple ws here k (s.app S) = ((stepSimple ws here k s).1, (stepSimple ws here k s).2.app S) := by
  unfold stepSimple at h ⊢
  simp only [app_vars, app_status]
  cases hn : nested (expandWords s.vars s.status ws) with
  | some r => rfl
  | none =>
    simp only [hn] at h ⊢
    rw [execSimple_app _ _ _ _ h]

theorem stepSrc_app (text : List Byte) (echoes executed : Bool) (k : List K) (s : State)
    (S : List Byte) :
    stepSrc text echoes executed k (s.app S)
      = ((stepSrc text echoes executed k s).1, (stepSrc text echoes executed k s).2.app S) := by
  have hp : parserOf (s.app S) = parserOf s := rfl
  unfold stepSrc
  simp only [hp]
  split <;> rfl

theorem step_app_gen (k : List K) (s : State) (S : List Byte)
    (h : ∀ ws here k0, k = .cmd (.simple ws here) :: k0 →
      (stepSimple ws here k0 s).2.hitEof = false) :
    step k (s.app S) = (step k s).map (fun r => (r.1, r.2.app S)) := by
  cases k with
  | nil => rfl
  | cons a k0 =>
    cases a with
    | cmd c =>
      cases c with
      | simple ws here =>
        simp only [step, Option.map]
        rw [stepSimple_app _ _ _ _ _ (h ws here k0 rfl)]
      | ifc c t e he => rfl
      | loop u c b => rfl
      | group b => rfl
      | subsh b => rfl
      | andor l a r => rfl
      | neg c => rfl
      | async c =>
        simp only [step]
        have hx : controlsJobs k0 (s.app S) = controlsJobs k0 s := rfl
        rw [hx]
        by_cases hc : controlsJobs k0 s = true
        · simp only [hc, if_true]; rfl
        · simp only [hc]; rfl
      | redir rs c =>
        simp only [step]
        rw [performIn_comm (fun s => s.app S) (fun _ => rfl) (app_comm_setDesc S)]
        by_cases hf : (performIn rs [] s).2.2 = true
        · simp only [hf, if_true]; rfl
        · simp only [hf]
          rw [undoIn_comm (fun s => s.app S) (app_comm_setDesc S)]
          have hx : redirErrorExits (s.app S) c = redirErrorExits s c := rfl
          rw [hx]
          by_cases hx2 : redirErrorExits s c = true
          · simp only [hx2, if_true]; rfl
          · simp only [hx2]; rfl
    | undo saved =>
      simp only [step]
      rw [undoIn_comm (fun s => s.app S) (app_comm_setDesc S)]; rfl
    | branch t e he =>
      by_cases h0 : s.status = 0 <;> cases he <;> simp [step, h0, State.app]
    | andK a r =>
      by_cases h0 : (s.status = 0) = (a = true) <;> simp [step, h0, State.app]
    | loopTest u c b l =>
      by_cases h0 : ((s.status = 0) != u) = true
      · simp [step, h0, State.app]; intro h1; simp at h0; exact absurd h1 h0
      · simp [step, h0, State.app]; intro h1; simp at h0; exact absurd h0 h1
    | loopBack u c b => rfl
    | restore sv => rfl
    | negK => rfl
    | src t e x =>
      simp only [step, Option.map]
      rw [stepSrc_app]

theorem step_app (k k' : List K) (s s' : State) (S : List Byte)
    (h : step k s = some (k', s')) (he : s'.hitEof = false) :
    step k (s.app S) = some (k', s'.app S) := by
  rw [step_app_gen, h]
  · rfl
  · intro ws here k0 hk
    subst hk
    simp only [step, Option.some.injEq] at h
    rw [h]; exact he

theorem step_none_app (k : List K) (s : State) (S : List Byte)
    (h : step k s = none) : step k (s.app S) = none := by
  rw [step_app_gen, h]
  · rfl
  · intro ws here k0 hk
    subst hk
    simp [step] at h

theorem runK_grows (n : Nat) (k : List K) (s : State) :
    Grows s (runK n k s).1 := by
  induction n generalizing k s with
  | zero => exact Grows.refl _
  | succ n ih =>
    simp only [runK]
    cases hst : step k s with
    | none => exact Grows.refl _
    | some r =>
      obtain ⟨k', s'⟩ := r
      exact (step_grows _ _ _ _ hst).trans (ih k' s')

theorem runK_app (n : Nat) (k : List K) (s : State) (S : List Byte)
    (he : (runK n k s).1.hitEof = false) :
    runK n k (s.app S) = ((runK n k s).1.app S, (runK n k s).2) := by
  induction n generalizing k s with
  | zero => rfl
  | succ n ih =>
    simp only [runK] at he ⊢
    cases hst : step k s with
    | none => rw [step_none_app _ _ _ hst]
    | some r =>
      obtain ⟨k', s'⟩ := r
      simp only [hst] at he
      have hs' : s'.hitEof = false := by
        cases hh : s'.hitEof with
        | false => rfl
        | true => rw [(runK_grows n k' s').2.1 hh] at he; exact absurd he (by simp)
      rw [step_app _ _ _ _ S hst hs']
      exact ih k' s' he

end YashModel.Input
