/-
  C04 — helper lemmas, part 9: the implementation's bracket parser (item stack + `make_range` after every push)
  computes exactly the grammar of Spec.lean (`specItems` / `specBracket`).
-/
import YashModel.Fnmatch.DeepProofs

namespace YashModel.Fnmatch

/-! ### unfolding `bracketLoop` -/

theorem bracketLoop_nil (c : Bool) (st : ItemStack) : bracketLoop c st [] = none := by
  rw [bracketLoop]

theorem bracketLoop_close (c : Bool) (st : ItemStack) (t : List PatternChar) (hst : st ≠ []) :
    bracketLoop c st (.normal ']' :: t) = some ({ complement := c, items := st.reverse.map Prod.fst }, t) := by
  rw [bracketLoop]; simp [hst]

theorem bracketLoop_compl (st : ItemStack) (pc : PatternChar) (t : List PatternChar)
    (hp : pc = .normal '!' ∨ pc = .normal '^') :
    bracketLoop false [] (pc :: t) = bracketLoop true [] t := by
  rw [bracketLoop]
  have h1 : ¬(pc = .normal ']' ∧ ([] : ItemStack) ≠ []) := by simp
  rw [if_neg h1, if_pos ⟨hp, rfl, rfl⟩]

theorem bracketLoop_push (c : Bool) (st : ItemStack) (pc : PatternChar) (t : List PatternChar)
    (h1 : ¬(pc = .normal ']' ∧ st ≠ []))
    (h2 : ¬((pc = .normal '!' ∨ pc = .normal '^') ∧ c = false ∧ st = [])) :
    bracketLoop c st (pc :: t) =
      bracketLoop c (makeRange ((.atom (specElem pc t).1, decide (pc = .normal '-')) :: st)) (specElem pc t).2 := by
  rw [bracketLoop, if_neg h1, if_neg h2]
  by_cases hb : pc = .normal '['
  · subst hb
    simp only [if_true]
    unfold specElem
    simp only [if_true]
    split
    · rename_i a j hp
      rw [hp]
      simp
    · rename_i hp
      rw [hp]
      simp
  · rw [if_neg hb]
    unfold specElem
    rw [if_neg hb]

/-! ### unfolding `specItems` -/

theorem specItems_close (acc : List BracketItem) (t : List PatternChar) (hacc : acc ≠ []) :
    specItems acc (.normal ']' :: t) = some (acc.reverse, t) := by
  rw [specItems]; simp [hacc]

theorem specItems_nil (acc : List BracketItem) (pc : PatternChar) (t : List PatternChar)
    (h1 : ¬(pc = .normal ']' ∧ acc ≠ [])) (he : (specElem pc t).2 = []) :
    specItems acc (pc :: t) = none := by
  rw [specItems, if_neg h1]
  split
  · rfl
  · rename_i h r1 hr; rw [he] at hr; cases hr

theorem specItems_atom (acc : List BracketItem) (pc : PatternChar) (t : List PatternChar)
    (h1 : ¬(pc = .normal ']' ∧ acc ≠ [])) (h : PatternChar) (r1 : List PatternChar)
    (he : (specElem pc t).2 = h :: r1) (hh : h ≠ .normal '-') :
    specItems acc (pc :: t) = specItems (.atom (specElem pc t).1 :: acc) (h :: r1) := by
  rw [specItems, if_neg h1]
  split
  · rename_i hr; rw [he] at hr; cases hr
  · rename_i h' r1' hr
    rw [he] at hr
    injection hr with e1 e2
    subst e1; subst e2
    rw [if_neg hh]

theorem specItems_dash_nil (acc : List BracketItem) (pc : PatternChar) (t : List PatternChar)
    (h1 : ¬(pc = .normal ']' ∧ acc ≠ [])) (he : (specElem pc t).2 = [.normal '-']) :
    specItems acc (pc :: t) = none := by
  rw [specItems, if_neg h1]
  split
  · rfl
  · rename_i h' r1' hr
    rw [he] at hr
    injection hr with e1 e2
    subst e1; subst e2
    simp

theorem specItems_dash_close (acc : List BracketItem) (pc : PatternChar) (t r2 : List PatternChar)
    (h1 : ¬(pc = .normal ']' ∧ acc ≠ [])) (he : (specElem pc t).2 = .normal '-' :: .normal ']' :: r2) :
    specItems acc (pc :: t) =
      some ((BracketItem.atom (.char '-') :: .atom (specElem pc t).1 :: acc).reverse, r2) := by
  rw [specItems, if_neg h1]
  split
  · rename_i hr; rw [he] at hr; cases hr
  · rename_i h' r1' hr
    rw [he] at hr
    injection hr with e1 e2
    subst e1; subst e2
    simp

theorem specItems_range (acc : List BracketItem) (pc : PatternChar) (t : List PatternChar)
    (h1 : ¬(pc = .normal ']' ∧ acc ≠ [])) (x : PatternChar) (r2 : List PatternChar)
    (he : (specElem pc t).2 = .normal '-' :: x :: r2) (hx : x ≠ .normal ']') :
    specItems acc (pc :: t) =
      specItems (.range (specElem pc t).1 (specElem x r2).1 :: acc) (specElem x r2).2 := by
  rw [specItems, if_neg h1]
  split
  · rename_i hr; rw [he] at hr; cases hr
  · rename_i h' r1' hr
    rw [he] at hr
    injection hr with e1 e2
    subst e1; subst e2
    simp [hx]

/-! ### the stack invariant -/

/-- the top of the stack is an unquoted hyphen sitting on an atom: the next atom pushed folds into a range -/
def pendingB : ItemStack → Bool
  | (_, true) :: (.atom _, _) :: _ => true
  | _ => false

def topAtom : ItemStack → Bool
  | (.atom _, _) :: _ => true
  | _ => false

theorem makeRange_nofold (a : BracketAtom) (f : Bool) (st : ItemStack) (h : pendingB st = false) :
    makeRange ((.atom a, f) :: st) = (.atom a, f) :: st := by
  unfold makeRange
  split
  · rename_i e _ x s _ rest heq
    injection heq with h1 h2
    subst h2
    simp [pendingB] at h
  · rfl

theorem makeRange_fold (b : BracketAtom) (fb : Bool) (a : BracketAtom) (fa : Bool) (x : BracketItem)
    (st : ItemStack) :
    makeRange ((.atom b, fb) :: (x, true) :: (.atom a, fa) :: st) = (.range a b, false) :: st := by
  simp [makeRange]

theorem specElem_dash (t : List PatternChar) : specElem (.normal '-') t = (.char '-', t) := by
  simp [specElem, PatternChar.charValue]

/-- The implementation's loop from a settled stack = the grammar, for every input. -/
theorem bracketLoop_spec : ∀ (n : Nat) (cs : List PatternChar), cs.length ≤ n →
    ∀ (c : Bool) (st : ItemStack), pendingB st = false →
      (topAtom st = true → cs.head? ≠ some (.normal '-')) →
      (c = false → st = [] → cs.head? ≠ some (.normal '!') ∧ cs.head? ≠ some (.normal '^')) →
      bracketLoop c st cs =
        (specItems (st.map Prod.fst) cs).map (fun x => ({ complement := c, items := x.1 }, x.2)) := by
  intro n
  induction n with
  | zero =>
    intro cs hn c st _ _ _
    have : cs = [] := by cases cs with
      | nil => rfl
      | cons a b => simp at hn
    subst this
    rw [bracketLoop_nil, specItems]; rfl
  | succ n ih =>
    intro cs hn c st hpend hJ hC
    cases cs with
    | nil => rw [bracketLoop_nil, specItems]; rfl
    | cons pc t =>
      have hmapne : st.map Prod.fst ≠ [] ↔ st ≠ [] := by
        cases st <;> simp
      by_cases hclose : pc = .normal ']' ∧ st ≠ []
      · obtain ⟨rfl, hst⟩ := hclose
        rw [bracketLoop_close c st t hst, specItems_close _ t (hmapne.mpr hst)]
        simp [List.map_reverse]
      · have hclose' : ¬(pc = .normal ']' ∧ st.map Prod.fst ≠ []) := by
          rw [hmapne]; exact hclose
        have hcompl : ¬((pc = .normal '!' ∨ pc = .normal '^') ∧ c = false ∧ st = []) := by
          rintro ⟨hp, hc, hs⟩
          have := hC hc hs
          rcases hp with rfl | rfl
          · exact this.1 rfl
          · exact this.2 rfl
        rw [bracketLoop_push c st pc t hclose hcompl]
        -- the pushed atom does not fold
        have hf : decide (pc = .normal '-') = true → topAtom st = false := by
          intro hd
          have hpc : pc = .normal '-' := by simpa using hd
          cases hta : topAtom st with
          | false => rfl
          | true => exact absurd (by rw [hpc]; rfl) (hJ hta)
        rw [makeRange_nofold _ _ st hpend]
        generalize hfl : decide (pc = .normal '-') = f at hf
        -- the stack after the push
        have hpend1 : pendingB ((.atom (specElem pc t).1, f) :: st) = false := by
          cases f with
          | false => cases st <;> rfl
          | true =>
            have := hf rfl
            cases st with
            | nil => rfl
            | cons x rest =>
              obtain ⟨xi, xf⟩ := x
              cases xi with
              | atom a => simp [topAtom] at this
              | range a b => rfl
        have hlen := specElem_length pc t
        cases hr : (specElem pc t).2 with
        | nil =>
          rw [bracketLoop_nil, specItems_nil _ pc t hclose' hr]; rfl
        | cons h r1 =>
          rw [hr] at hlen
          by_cases hh : h = .normal '-'
          · subst hh
            cases r1 with
            | nil =>
              rw [specItems_dash_nil _ pc t hclose' hr]
              rw [bracketLoop_push c _ (.normal '-') [] (by simp) (by simp), specElem_dash, bracketLoop_nil]
              rfl
            | cons x r2 =>
              have hpush : bracketLoop c ((.atom (specElem pc t).1, f) :: st) (.normal '-' :: x :: r2) =
                  bracketLoop c ((.atom (.char '-'), true) :: (.atom (specElem pc t).1, f) :: st) (x :: r2) := by
                rw [bracketLoop_push c _ (.normal '-') (x :: r2) (by simp) (by simp), specElem_dash,
                  makeRange_nofold _ _ _ hpend1]
                simp
              rw [hpush]
              by_cases hx : x = .normal ']'
              · subst hx
                rw [bracketLoop_close c _ r2 (by simp), specItems_dash_close _ pc t r2 hclose' hr]
                simp [List.map_reverse]
              · rw [specItems_range _ pc t hclose' x r2 hr hx]
                rw [bracketLoop_push c _ x r2 (by simp [hx]) (by simp), makeRange_fold]
                have hl2 := specElem_length x r2
                have := ih (specElem x r2).2 (by simp at hn hlen; omega) c
                  ((.range (specElem pc t).1 (specElem x r2).1, false) :: st) (by cases st <;> rfl)
                  (by simp [topAtom]) (by intro _ h; simp at h)
                rw [this]
                simp
          · rw [specItems_atom _ pc t hclose' h r1 hr hh]
            have := ih (h :: r1) (by simp at hn hlen ⊢; omega) c
              ((.atom (specElem pc t).1, f) :: st) hpend1
              (by intro _; simp; exact hh) (by intro _ h; simp at h)
            rw [this]
            simp

/-- ★ the bracket parser of the implementation = the grammar of the Spec -/
theorem parseBracket_eq_spec (cs : List PatternChar) : parseBracket cs = specBracket cs := by
  unfold parseBracket specBracket
  cases cs with
  | nil => rw [bracketLoop_nil]
  | cons pc t =>
    simp only []
    by_cases hp : pc = .normal '!' ∨ pc = .normal '^'
    · rw [if_pos hp, bracketLoop_compl [] pc t hp]
      have := bracketLoop_spec t.length t (Nat.le_refl _) true [] rfl (by simp [topAtom]) (by simp)
      rw [this]; rfl
    · rw [if_neg hp]
      have := bracketLoop_spec (pc :: t).length (pc :: t) (Nat.le_refl _) false [] rfl (by simp [topAtom])
        (by
          intro _ _
          simp only [List.head?_cons, ne_eq, Option.some.injEq]
          exact ⟨fun e => hp (Or.inl e), fun e => hp (Or.inr e)⟩)
      rw [this]; rfl

/-- ★ the whole parser of the implementation = the grammar of the Spec -/
theorem parseAtoms_eq_spec : ∀ (n : Nat) (cs : List PatternChar), cs.length ≤ n → parseAtoms cs = specParse cs := by
  intro n
  induction n with
  | zero =>
    intro cs hn
    have : cs = [] := by cases cs with
      | nil => rfl
      | cons a b => simp at hn
    subst this
    rw [parseAtoms, specParse]
  | succ n ih =>
    intro cs hn
    cases cs with
    | nil => rw [parseAtoms, specParse]
    | cons pc t =>
      have ht : t.length ≤ n := by simp at hn; omega
      rw [parseAtoms, specParse]
      by_cases h1 : pc = .normal '?'
      · rw [if_pos h1, if_pos h1, ih t ht]
      · rw [if_neg h1, if_neg h1]
        by_cases h2 : pc = .normal '*'
        · rw [if_pos h2, if_pos h2, ih t ht]
        · rw [if_neg h2, if_neg h2]
          by_cases h3 : pc = .normal '['
          · rw [if_pos h3, if_pos h3]
            have hb := parseBracket_eq_spec t
            split
            · rename_i b j hp
              rw [hb] at hp
              have hl := specBracket_length t b j hp
              split
              · rename_i b' j' hp'
                rw [hp] at hp'
                injection hp' with e
                injection e with e1 e2
                subst e1; subst e2
                rw [ih j (by omega)]
              · rename_i hp'
                rw [hp] at hp'; cases hp'
            · rename_i hp
              rw [hb] at hp
              split
              · rename_i b' j' hp'
                rw [hp] at hp'; cases hp'
              · rw [ih t ht]
          · rw [if_neg h3, if_neg h3, ih t ht]

end YashModel.Fnmatch
