/-
  C04 wave 3 — `BracketAtom::parse_inner` characterised without recursion (the three-way dispatch over the scan that
  `scanClose_first` already characterises); model parser and Spec grammar both call `parseInner`.
-/
import YashModel.Fnmatch.ShellLemmas

namespace YashModel.Fnmatch

/-- the three inner elements of a bracket expression: delimiter ↦ what `[d … d]` is -/
def innerKind (d : Char) (v : List Char) : Option BracketAtom :=
  if d = '.' then some (.collating v) else if d = '=' then some (.equiv v) else if d = ':' then some (.cls v) else none

namespace Proofs

theorem parseInner_spec (cs : List PatternChar) (a : BracketAtom) (r : List PatternChar) :
    parseInner cs = some (a, r) ↔
      ∃ d v, cs = .normal d :: (v ++ .normal d :: .normal ']' :: r) ∧
        (∀ v' r', v ++ .normal d :: .normal ']' :: r = v' ++ .normal d :: .normal ']' :: r' → v.length ≤ v'.length) ∧
        innerKind d (v.map PatternChar.charValue) = some a := by
  have key : ∀ (d : Char) (t : List PatternChar) (mk : List Char → BracketAtom),
      ((match scanClose d t with
        | some (v, r) => some (mk (v.map PatternChar.charValue), r)
        | none => none) = some (a, r)) ↔
      ∃ v, t = v ++ .normal d :: .normal ']' :: r ∧
        (∀ v' r', t = v' ++ .normal d :: .normal ']' :: r' → v.length ≤ v'.length) ∧
        mk (v.map PatternChar.charValue) = a := by
    intro d t mk
    constructor
    · intro h
      cases hs : scanClose d t with
      | none => rw [hs] at h; simp at h
      | some p =>
        obtain ⟨v, r'⟩ := p
        rw [hs] at h
        simp only [Option.some.injEq, Prod.mk.injEq] at h
        obtain ⟨h1, rfl⟩ := h
        obtain ⟨e, hmin⟩ := (scanClose_spec d t v r').1 hs
        exact ⟨v, e, hmin, h1⟩
    · rintro ⟨v, e, hmin, hk⟩
      have hs := (scanClose_spec d t v r).2 ⟨e, hmin⟩
      rw [hs]; simp [hk]
  cases cs with
  | nil => simp [parseInner]
  | cons pc t =>
    unfold parseInner
    by_cases h1 : pc = .normal '.'
    · subst h1
      simp only [if_true]
      refine Iff.trans (key '.' t .collating) ?_
      constructor
      · rintro ⟨v, e, hmin, hk⟩
        exact ⟨'.', v, by rw [e], fun v' r' h => hmin v' r' (by rw [e]; exact h), by simp [innerKind, hk]⟩
      · rintro ⟨d, v, e, hmin, hk⟩
        simp only [List.cons.injEq, PatternChar.normal.injEq] at e
        obtain ⟨rfl, e⟩ := e
        exact ⟨v, e, fun v' r' h => hmin v' r' (by rw [← e]; exact h), by simpa [innerKind] using hk⟩
    · by_cases h2 : pc = .normal '='
      · subst h2
        simp only [h1, if_false, if_true]
        refine Iff.trans (key '=' t .equiv) ?_
        constructor
        · rintro ⟨v, e, hmin, hk⟩
          exact ⟨'=', v, by rw [e], fun v' r' h => hmin v' r' (by rw [e]; exact h), by simp [innerKind, hk]⟩
        · rintro ⟨d, v, e, hmin, hk⟩
          simp only [List.cons.injEq, PatternChar.normal.injEq] at e
          obtain ⟨rfl, e⟩ := e
          exact ⟨v, e, fun v' r' h => hmin v' r' (by rw [← e]; exact h), by simpa [innerKind] using hk⟩
      · by_cases h3 : pc = .normal ':'
        · subst h3
          simp only [h1, h2, if_false, if_true]
          refine Iff.trans (key ':' t .cls) ?_
          constructor
          · rintro ⟨v, e, hmin, hk⟩
            exact ⟨':', v, by rw [e], fun v' r' h => hmin v' r' (by rw [e]; exact h), by simp [innerKind, hk]⟩
          · rintro ⟨d, v, e, hmin, hk⟩
            simp only [List.cons.injEq, PatternChar.normal.injEq] at e
            obtain ⟨rfl, e⟩ := e
            exact ⟨v, e, fun v' r' h => hmin v' r' (by rw [← e]; exact h), by simpa [innerKind] using hk⟩
        · simp only [h1, h2, h3, if_false]
          constructor
          · intro h; cases h
          · rintro ⟨d, v, e, -, hk⟩
            simp only [List.cons.injEq] at e
            obtain ⟨rfl, -⟩ := e
            unfold innerKind at hk
            by_cases d1 : d = '.'
            · exact absurd (by rw [d1]) h1
            · by_cases d2 : d = '='
              · exact absurd (by rw [d2]) h2
              · by_cases d3 : d = ':'
                · exact absurd (by rw [d3]) h3
                · simp [d1, d2, d3] at hk

end Proofs
end YashModel.Fnmatch
