/-
  C04 — proofs of `find_is_extremal` / `trim_correct` (restated in Theorems.lean).
-/
import YashModel.Fnmatch.TrimProofs

namespace YashModel.Fnmatch

/-- the range `find`/`rfind` must return for each trim form: prefix `0..k` with `k` the least (`#`) / greatest
    (`##`) matching prefix length; suffix `a..len` with `a` the greatest (`%`) / least (`%%`) matching start -/
def specRange (side : TrimSide) (len : TrimLength) (ast : Ast) (v : List Char) : Option (Nat × Nat) :=
  match side, len with
  | .prefix, .shortest => (leastUpTo (fun k => globMatch ast (v.take k)) v.length).map (fun k => (0, k))
  | .prefix, .longest => (greatestUpTo (fun k => globMatch ast (v.take k)) v.length).map (fun k => (0, k))
  | .suffix, .shortest => (greatestUpTo (fun k => globMatch ast (v.drop k)) v.length).map (fun a => (a, v.length))
  | .suffix, .longest => (leastUpTo (fun k => globMatch ast (v.drop k)) v.length).map (fun a => (a, v.length))

/-- the search `trim_value` runs: `rfind` for `%`, `find` otherwise -/
def trimSearch (p : Pattern) (v : List Char) : Option (Nat × Nat) :=
  if p.config.anchorEnd && p.config.shortest then p.rfind v else p.find v

namespace Proofs

theorem cfg_ps : trimConfig .prefix .shortest = { anchorBegin := true, anchorEnd := false, shortest := true } := rfl
theorem cfg_pl : trimConfig .prefix .longest = { anchorBegin := true, anchorEnd := false, shortest := false } := rfl
theorem cfg_ss : trimConfig .suffix .shortest = { anchorBegin := false, anchorEnd := true, shortest := true } := rfl
theorem cfg_sl : trimConfig .suffix .longest = { anchorBegin := false, anchorEnd := true, shortest := false } := rfl

theorem trimValue_eq (p : Pattern) (v : List Char) : trimValue p v = cut v (trimSearch p v) := by
  unfold trimValue cut trimSearch
  rfl

theorem rfind_regex_eq (re : List ReAtom) (dot : Bool) (cfg : Config) (v : List Char) :
    Pattern.rfind ⟨.regex re dot, cfg⟩ v =
      (Pattern.find ⟨.regex re dot, cfg⟩ v).map (rfindLoop (!cfg.shortest) re v (v.length + 1)) := by
  simp only [Pattern.rfind]
  cases Pattern.find ⟨.regex re dot, cfg⟩ v <;> rfl

theorem search_regex (ast : Ast) (hn : noMulti ast = true) (side : TrimSide) (len : TrimLength)
    (res : List ReAtom) (hres : cAtoms ast = some res) (dot : Bool) (v : List Char) :
    trimSearch (Pattern.mk (Body.regex
        ((if (trimConfig side len).anchorBegin then [ReAtom.bos] else []) ++ (res ++
          (if (trimConfig side len).anchorEnd then [ReAtom.eos] else []))) dot)
      (trimConfig side len)) v = specRange side len ast v := by
  unfold trimSearch
  cases side <;> cases len
  · rw [cfg_ps]
    have := prefix_find_regex ast res hres hn false v
    simpa [Pattern.find, Pattern.at0, specRange, globMatch] using this
  · rw [cfg_pl]
    have := prefix_find_regex ast res hres hn true v
    simpa [Pattern.find, Pattern.at0, specRange, globMatch] using this
  · rw [cfg_ss]
    have := suffix_shortest_regex ast res hres false v
    simp only [Bool.and_self, if_true]
    rw [rfind_regex_eq]
    simpa [Pattern.find, Pattern.at0, specRange, globMatch] using this
  · rw [cfg_sl]
    have := suffix_longest_regex ast res hres true v
    simpa [Pattern.find, Pattern.at0, specRange, globMatch] using this

theorem search_literal (ast : Ast) (side : TrimSide) (len : TrimLength) (l : List Char)
    (hl : toLiteral ast = some l) (v : List Char) :
    trimSearch { body := .literal l, config := trimConfig side len } v = specRange side len ast v := by
  unfold trimSearch
  have hp := literal_prefix_find ast l hl v
  have hs := literal_suffix_find ast l hl v
  cases side <;> cases len
  · rw [cfg_ps]; simpa [Pattern.find, specRange, globMatch] using hp.1
  · rw [cfg_pl]; simpa [Pattern.find, specRange, globMatch] using hp.2
  · rw [cfg_ss]; simpa [Pattern.find, Pattern.rfind, specRange, globMatch] using hs.2
  · rw [cfg_sl]; simpa [Pattern.find, specRange, globMatch] using hs.1

theorem find_is_extremal (ast : Ast) (hn : noMulti ast = true) (side : TrimSide) (len : TrimLength)
    (p : Pattern) (h : Pattern.fromAst ast (trimConfig side len) = .ok p) (v : List Char) :
    trimSearch p v = specRange side len ast v := by
  unfold Pattern.fromAst at h
  split at h
  · rename_i l hl
    simp at h; subst h
    exact search_literal ast side len l hl v
  · split at h
    · simp at h
    · rename_i r hr
      split at h
      · simp at h
      · rename_i re hre
        simp at h; subst h
        rw [toRegex_parse ast _ r hr] at hre
        cases hc : cAtoms ast with
        | none => simp [hc] at hre
        | some res =>
          simp [hc] at hre
          subst hre
          exact search_regex ast hn side len res hc _ v

theorem cut_specRange (side : TrimSide) (len : TrimLength) (ast : Ast) (v : List Char) :
    cut v (specRange side len ast v) = specTrim side len ast v := by
  cases side <;> cases len <;> simp only [specRange, specTrim]
  · cases leastUpTo (fun k => globMatch ast (v.take k)) v.length <;> simp [cut]
  · cases greatestUpTo (fun k => globMatch ast (v.take k)) v.length <;> simp [cut]
  · cases greatestUpTo (fun k => globMatch ast (v.drop k)) v.length <;> simp [cut]
  · cases leastUpTo (fun k => globMatch ast (v.drop k)) v.length <;> simp [cut]

theorem trim_correct (ast : Ast) (hn : noMulti ast = true) (side : TrimSide) (len : TrimLength)
    (p : Pattern) (h : Pattern.fromAst ast (trimConfig side len) = .ok p) (v : List Char) :
    trimValue p v = specTrim side len ast v := by
  rw [trimValue_eq, find_is_extremal ast hn side len p h v, cut_specRange]

/-! ### suffix side: no hypothesis on the pattern (the leftmost / rightmost matching start does not depend on
    which alternative of a multi-character element is tried first) -/

theorem search_regex_suffix (ast : Ast) (len : TrimLength)
    (res : List ReAtom) (hres : cAtoms ast = some res) (dot : Bool) (v : List Char) :
    trimSearch (Pattern.mk (Body.regex
        ((if (trimConfig .suffix len).anchorBegin then [ReAtom.bos] else []) ++ (res ++
          (if (trimConfig .suffix len).anchorEnd then [ReAtom.eos] else []))) dot)
      (trimConfig .suffix len)) v = specRange .suffix len ast v := by
  unfold trimSearch
  cases len
  · rw [cfg_ss]
    have := suffix_shortest_regex ast res hres false v
    simp only [Bool.and_self, if_true]
    rw [rfind_regex_eq]
    simpa [Pattern.find, Pattern.at0, specRange, globMatch] using this
  · rw [cfg_sl]
    have := suffix_longest_regex ast res hres true v
    simpa [Pattern.find, Pattern.at0, specRange, globMatch] using this

theorem find_is_extremal_suffix (ast : Ast) (len : TrimLength)
    (p : Pattern) (h : Pattern.fromAst ast (trimConfig .suffix len) = .ok p) (v : List Char) :
    trimSearch p v = specRange .suffix len ast v := by
  unfold Pattern.fromAst at h
  split at h
  · rename_i l hl
    simp at h; subst h
    exact search_literal ast .suffix len l hl v
  · split at h
    · simp at h
    · rename_i r hr
      split at h
      · simp at h
      · rename_i re hre
        simp at h; subst h
        rw [toRegex_parse ast _ r hr] at hre
        cases hc : cAtoms ast with
        | none => simp [hc] at hre
        | some res =>
          simp [hc] at hre
          subst hre
          exact search_regex_suffix ast len res hc _ v

theorem trim_correct_suffix (ast : Ast) (len : TrimLength)
    (p : Pattern) (h : Pattern.fromAst ast (trimConfig .suffix len) = .ok p) (v : List Char) :
    trimValue p v = specTrim .suffix len ast v := by
  rw [trimValue_eq, find_is_extremal_suffix ast len p h v, cut_specRange]

theorem greatestUpTo_spec {p : Nat → Bool} {n : Nat} :
    (greatestUpTo p n = none ∧ ∀ j, j ≤ n → p j = false) ∨
    (∃ k, greatestUpTo p n = some k ∧ k ≤ n ∧ p k = true ∧ ∀ j, k < j → j ≤ n → p j = false) := by
  induction n with
  | zero =>
    simp only [greatestUpTo]
    by_cases h : p 0 = true
    · exact Or.inr ⟨0, by simp [h], Nat.le_refl _, h, by intro j h1 h2; omega⟩
    · have hf : p 0 = false := by simpa using h
      refine Or.inl ⟨by simp [hf], ?_⟩
      intro j hj
      have hj0 : j = 0 := by omega
      rw [hj0]; exact hf
  | succ n ih =>
    simp only [greatestUpTo]
    by_cases h : p (n + 1) = true
    · exact Or.inr ⟨n + 1, by simp [h], Nat.le_refl _, h, by intro j h1 h2; omega⟩
    · have hf : p (n + 1) = false := by simpa using h
      simp only [hf, Bool.false_eq_true, if_false]
      rcases ih with ⟨h1, h2⟩ | ⟨k, h1, h2, h3, h4⟩
      · refine Or.inl ⟨h1, ?_⟩
        intro j hj
        by_cases hj' : j = n + 1
        · subst hj'; exact hf
        · exact h2 j (by omega)
      · refine Or.inr ⟨k, h1, by omega, h3, ?_⟩
        intro j hj1 hj2
        by_cases hj' : j = n + 1
        · subst hj'; exact hf
        · exact h4 j hj1 (by omega)

/-- `%` spelled out: what is removed is a matching suffix and no shorter suffix matches -/
theorem percent_removes_shortest (ast : Ast) (p : Pattern)
    (h : Pattern.fromAst ast (trimConfig .suffix .shortest) = .ok p) (v : List Char) :
    (trimValue p v = v ∧ ∀ j, j ≤ v.length → globMatch ast (v.drop j) = false) ∨
    (∃ k, k ≤ v.length ∧ trimValue p v = v.take k ∧ globMatch ast (v.drop k) = true ∧
      ∀ j, k < j → j ≤ v.length → globMatch ast (v.drop j) = false) := by
  rw [trim_correct_suffix ast .shortest p h v]
  simp only [specTrim]
  rcases @greatestUpTo_spec (fun k => globMatch ast (v.drop k)) v.length with ⟨h1, h2⟩ | ⟨k, h1, h2, h3, h4⟩
  · rw [h1]; exact Or.inl ⟨rfl, h2⟩
  · rw [h1]; exact Or.inr ⟨k, h2, rfl, h3, h4⟩

end Proofs
end YashModel.Fnmatch
