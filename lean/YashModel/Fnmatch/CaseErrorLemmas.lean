/-
  C04 wave 3 — `case` with failing expansions (`expand_word_attr(env, pattern).await?` inside `matches`, the
  `Err(error) => return` arm of `execute`): `itemMatchesE` / `caseExecEGo` against the error-free reading.
-/
import YashModel.Fnmatch.CaseLemmas

namespace YashModel.Fnmatch

/-- the alternatives `matches` gets to before the first one whose expansion fails -/
def reachedAlts : List (Option (List PatternChar)) → List (List PatternChar)
  | [] => []
  | none :: _ => []
  | some p :: r => p :: reachedAlts r

namespace Proofs

theorem itemMatches_one_cons (subj : List Char) (p : List PatternChar) (r : List (List PatternChar)) :
    itemMatches subj (p :: r) = (itemMatches subj [p] || itemMatches subj r) := by
  cases hp : Pattern.parse p caseConfig with
  | error e => simp [itemMatches, hp]
  | ok pat => simp only [itemMatches, hp]; cases pat.isMatch subj <;> simp

/-- `matches` with failing expansions: a match among the alternatives before the first failing one wins; otherwise
    the failure propagates if there is one; otherwise no match -/
theorem itemMatchesE_spec (subj : List Char) (alts : List (Option (List PatternChar))) :
    itemMatchesE subj alts =
      if itemMatches subj (reachedAlts alts) then some true
      else if alts.any Option.isNone then none else some false := by
  induction alts with
  | nil => simp [itemMatchesE, reachedAlts, itemMatches]
  | cons a r ih =>
    cases a with
    | none => simp [itemMatchesE, reachedAlts, itemMatches]
    | some p =>
      simp only [itemMatchesE, reachedAlts, itemMatches_one_cons subj p (reachedAlts r)]
      cases h1 : itemMatches subj [p] with
      | true => simp
      | false => simp [ih]

/-- the bodies run before an abort are the first bodies of the error-free reading, and without an abort the run IS
    the error-free reading — over the alternatives actually reached -/
theorem caseExecEGo_spec (subj : List Char) (items : List (List (Option (List PatternChar)) × CaseCont)) :
    ∀ (falling : Bool) (i : Nat),
      (caseExecEGo subj falling i items).1 <+:
        caseExecGo subj falling i (items.map fun it => (reachedAlts it.1, it.2)) ∧
      ((caseExecEGo subj falling i items).2 = false →
        (caseExecEGo subj falling i items).1 =
          caseExecGo subj falling i (items.map fun it => (reachedAlts it.1, it.2))) := by
  induction items with
  | nil => intro falling i; simp [caseExecEGo, caseExecGo]
  | cons it r ih =>
    intro falling i
    obtain ⟨alts, c⟩ := it
    simp only [List.map_cons, caseExecEGo, caseExecGo]
    cases falling with
    | true =>
      cases c with
      | brk => simp
      | fallThrough =>
        obtain ⟨h1, h2⟩ := ih true (i + 1)
        simp only [Bool.true_or, if_true, if_pos]
        exact ⟨by simpa using h1, fun h => by simp [h2 h]⟩
      | cont =>
        obtain ⟨h1, h2⟩ := ih false (i + 1)
        simp only [Bool.true_or, if_true]
        exact ⟨by simpa using h1, fun h => by simp [h2 h]⟩
    | false =>
      simp only [Bool.false_eq_true, if_false, Bool.false_or, itemMatchesE_spec]
      cases hm : itemMatches subj (reachedAlts alts) with
      | true =>
        simp only [if_true]
        cases c with
        | brk => simp
        | fallThrough =>
          obtain ⟨h1, h2⟩ := ih true (i + 1)
          exact ⟨by simpa using h1, fun h => by simp [h2 h]⟩
        | cont =>
          obtain ⟨h1, h2⟩ := ih false (i + 1)
          exact ⟨by simpa using h1, fun h => by simp [h2 h]⟩
      | false =>
        simp only [Bool.false_eq_true, if_false]
        cases hn : alts.any Option.isNone with
        | true => simp
        | false =>
          obtain ⟨h1, h2⟩ := ih false (i + 1)
          simp only [Bool.false_eq_true, if_false]
          exact ⟨h1, h2⟩

end Proofs
end YashModel.Fnmatch
