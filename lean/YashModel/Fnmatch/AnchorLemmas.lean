/-
  C04 — helper lemmas, part 10 (extension round): `find` / `is_match` under EVERY configuration (the four
  anchorings, greedy or lazy, `literal_period`, regex path and literal fast path): what is found is an occurrence
  (`occurs`), its start is the leftmost start of any occurrence at or after the search start, and nothing is found
  only when there is no occurrence.
-/
import YashModel.Fnmatch.ParseSpec

namespace YashModel.Fnmatch

/-- the regex a configuration compiles to (the shape `toRegex_parse` gives) -/
def cfgRe (ab ae : Bool) (res : List ReAtom) : List ReAtom :=
  (if ab then [ReAtom.bos] else []) ++ res ++ (if ae then [ReAtom.eos] else [])

/-! ### list plumbing -/

theorem mid_of_drop {s pre ρ : List Char} {i : Nat} (hi : i ≤ s.length) (h : s.drop i = pre ++ ρ) :
    s.length - ρ.length = i + pre.length ∧ (s.take (i + pre.length)).drop i = pre := by
  obtain ⟨a, ha, hal⟩ : ∃ a, s = a ++ (pre ++ ρ) ∧ a.length = i :=
    ⟨s.take i, by rw [← h, List.take_append_drop], by simp; omega⟩
  subst ha
  subst hal
  constructor
  · simp; omega
  · rw [← List.append_assoc]
    have : a.length + pre.length = (a ++ pre).length := by simp
    rw [this, List.take_left']
    · simp
    · rfl

theorem drop_split {s : List Char} {i j : Nat} (hij : i ≤ j) (hj : j ≤ s.length) :
    s.drop i = (s.take j).drop i ++ s.drop j := by
  have h1 : s = s.take j ++ s.drop j := (List.take_append_drop j s).symm
  have h2 : i ≤ (s.take j).length := by simp; omega
  conv => lhs; rw [h1]
  rw [List.drop_append_of_le_length h2]

/-! ### the regex path -/

theorem matchHere_tail (ast : Ast) (res : List ReAtom) (hres : cAtoms ast = some res) (g : Bool) (n : Nat)
    (ae : Bool) (u : List Char) :
    (∀ ρ, matchHere g n (res ++ (if ae then [ReAtom.eos] else [])) u = some ρ →
      ∃ pre, u = pre ++ ρ ∧ globAtoms ast pre = true ∧ (ae = true → ρ = [])) ∧
    (∀ pre ρ, u = pre ++ ρ → globAtoms ast pre = true → (ae = true → ρ = []) →
      (matchHere g n (res ++ (if ae then [ReAtom.eos] else [])) u).isSome = true) := by
  cases ae with
  | true =>
    simp only [if_true]
    constructor
    · intro ρ h
      have hρ := matchHere_eos_nil g n res u ρ h
      subst hρ
      have := matchHere_glob g n ast res hres u
      rw [h] at this
      exact ⟨u, by simp, by simpa using this.symm, fun _ => rfl⟩
    · intro pre ρ hu hg hρ
      have := hρ (by first | rfl | trivial)
      subst this
      simp at hu
      subst hu
      rw [matchHere_glob g n ast res hres]
      exact hg
  | false =>
    simp only [Bool.false_eq_true, if_false, List.append_nil]
    obtain ⟨hA, hB⟩ := matchHere_rests_general n res (cAtoms_noAnchor ast res hres)
    have hrg := rests_glob_general ast res hres
    constructor
    · intro ρ h
      obtain ⟨pre, hu, hg⟩ := (hrg u ρ).mp (hA g u ρ h)
      exact ⟨pre, hu, hg, by intro h; cases h⟩
    · intro pre ρ hu hg _
      exact hB g u ρ ((hrg u ρ).mpr ⟨pre, hu, hg⟩)

/-- one attempt of the matcher at position `i` of `s`: a success is an occurrence starting at `i`, and an
    occurrence starting at `i` makes the attempt succeed -/
theorem matchHere_cfg (ast : Ast) (res : List ReAtom) (hres : cAtoms ast = some res) (g : Bool)
    (ab ae : Bool) (s : List Char) (i : Nat) (hi : i ≤ s.length) :
    (∀ ρ, matchHere g s.length (cfgRe ab ae res) (s.drop i) = some ρ →
      occurs ab ae ast s i (s.length - ρ.length)) ∧
    (∀ j, occurs ab ae ast s i j → (matchHere g s.length (cfgRe ab ae res) (s.drop i)).isSome = true) := by
  obtain ⟨hS, hC⟩ := matchHere_tail ast res hres g s.length ae (s.drop i)
  have sound : ∀ ρ, matchHere g s.length (res ++ (if ae then [ReAtom.eos] else [])) (s.drop i) = some ρ →
      (ab = true → i = 0) → occurs ab ae ast s i (s.length - ρ.length) := by
    intro ρ h hab
    obtain ⟨pre, hu, hg, hρ⟩ := hS ρ h
    obtain ⟨h1, h2⟩ := mid_of_drop hi hu
    refine ⟨by omega, by omega, hab, ?_, ?_⟩
    · intro hae; rw [hρ hae]; simp
    · rw [h1, h2]; exact hg
  have complete : ∀ j, occurs ab ae ast s i j →
      (matchHere g s.length (res ++ (if ae then [ReAtom.eos] else [])) (s.drop i)).isSome = true := by
    intro j ⟨hij, hj, _, hae, hg⟩
    refine hC ((s.take j).drop i) (s.drop j) (drop_split hij hj) hg ?_
    intro h; rw [hae h]; simp
  unfold cfgRe
  rw [List.append_assoc]
  cases ab with
  | true =>
    simp only [if_true, List.singleton_append, matchHere, List.length_drop]
    constructor
    · intro ρ h
      split at h
      · rename_i hlen
        exact sound ρ h (fun _ => by omega)
      · simp at h
    · intro j hocc
      have hi0 : i = 0 := hocc.2.2.1 rfl
      subst hi0
      simp only [Nat.sub_zero, if_true]
      exact complete j hocc
  | false =>
    simp only [Bool.false_eq_true, if_false, List.nil_append]
    exact ⟨fun ρ h => sound ρ h (by intro h; cases h), complete⟩

/-- `Regex::find_at` on the compiled regex of a configuration: leftmost occurrence at or after `a0` -/
theorem findAt_cfg (ast : Ast) (res : List ReAtom) (hres : cAtoms ast = some res) (g : Bool)
    (ab ae : Bool) (s : List Char) (a0 : Nat) (h0 : a0 ≤ s.length) :
    match findAt g (cfgRe ab ae res) s a0 with
    | none => ∀ i j, a0 ≤ i → ¬ occurs ab ae ast s i j
    | some (a, e) => a0 ≤ a ∧ occurs ab ae ast s a e ∧
        ∀ i j, a0 ≤ i → i < a → ¬ occurs ab ae ast s i j := by
  unfold findAt
  rw [if_pos h0]
  have hspec := findFrom_spec g s.length (cfgRe ab ae res) (s.drop a0) a0
  have key : ∀ i, a0 ≤ i → i ≤ s.length →
      matchHere g s.length (cfgRe ab ae res) ((s.drop a0).drop (i - a0)) = none →
      ∀ j, ¬ occurs ab ae ast s i j := by
    intro i h1 h2 hm j hocc
    rw [List.drop_drop] at hm
    have e : a0 + (i - a0) = i := by omega
    rw [e] at hm
    have := (matchHere_cfg ast res hres g ab ae s i h2).2 j hocc
    rw [hm] at this
    simp at this
  cases hf : findFrom g s.length (cfgRe ab ae res) a0 (s.drop a0) with
  | none =>
    rw [hf] at hspec
    intro i j hi hocc
    have hil : i ≤ s.length := Nat.le_trans hocc.1 hocc.2.1
    exact key i hi hil (hspec (i - a0) (by simp; omega)) j hocc
  | some ae' =>
    obtain ⟨a, e⟩ := ae'
    rw [hf] at hspec
    obtain ⟨j, ρ, hj, ha, hm, he, hmin⟩ := hspec
    simp at hj
    rw [List.drop_drop] at hm
    have hal : a0 + j ≤ s.length := by omega
    refine ⟨by omega, ?_, ?_⟩
    · have := (matchHere_cfg ast res hres g ab ae s (a0 + j) hal).1 ρ hm
      rw [ha, he]; exact this
    · intro i j' h1 h2 hocc
      have hil : i ≤ s.length := Nat.le_trans hocc.1 hocc.2.1
      exact key i h1 hil (hmin (i - a0) (by omega)) j' hocc

/-! ### what `from_ast_and_config` builds -/

theorem fromAst_cases (ast : Ast) (cfg : Config) (p : Pattern) (h : Pattern.fromAst ast cfg = .ok p) :
    (∃ l, toLiteral ast = some l ∧ p = ⟨.literal l, cfg⟩) ∨
    (toLiteral ast = none ∧ ∃ res, cAtoms ast = some res ∧
      p = ⟨.regex (cfgRe cfg.anchorBegin cfg.anchorEnd res) (startsWithLiteralDot ast), cfg⟩) := by
  unfold Pattern.fromAst at h
  split at h
  · rename_i l hl
    simp at h
    exact Or.inl ⟨l, hl, h.symm⟩
  · rename_i hnone
    split at h
    · simp at h
    · rename_i r hr
      split at h
      · simp at h
      · rename_i re hre
        simp at h
        rw [toRegex_parse ast _ r hr] at hre
        cases hc : cAtoms ast with
        | none => simp [hc] at hre
        | some res =>
          simp [hc] at hre
          refine Or.inr ⟨hnone, res, rfl, ?_⟩
          rw [← h, ← hre]
          unfold cfgRe
          rw [List.append_assoc]

/-! ### the literal fast path -/

theorem occurs_literal (ast : Ast) (l : List Char) (hl : toLiteral ast = some l) (ab ae : Bool)
    (s : List Char) (i j : Nat) :
    occurs ab ae ast s i j ↔
      (i ≤ j ∧ j ≤ s.length ∧ (ab = true → i = 0) ∧ (ae = true → j = s.length) ∧ (s.take j).drop i = l) := by
  unfold occurs globMatch
  rw [toLiteral_glob' ast l hl]
  simp

theorem mid_eq_iff (s l : List Char) (i j : Nat) (hij : i ≤ j) (hj : j ≤ s.length) :
    (s.take j).drop i = l ↔ (l <+: s.drop i ∧ j = i + l.length) := by
  constructor
  · intro h
    refine ⟨⟨s.drop j, ?_⟩, ?_⟩
    · rw [← h]; exact (drop_split hij hj).symm
    · have := congrArg List.length h
      simp at this; omega
  · rintro ⟨⟨t, ht⟩, hjl⟩
    rw [List.drop_take, ← ht, hjl]
    simp

theorem strFind_spec (p : List Char) : ∀ (t : List Char) (pos : Nat),
    match strFind p pos t with
    | none => ∀ k, k ≤ t.length → ¬ p <+: t.drop k
    | some i => ∃ k, i = pos + k ∧ k ≤ t.length ∧ p <+: t.drop k ∧ ∀ k', k' < k → ¬ p <+: t.drop k' := by
  intro t
  induction t with
  | nil =>
    intro pos
    simp only [strFind]
    by_cases hp : p = []
    · subst hp
      exact ⟨0, by simp, by simp, by simp, by intro k' hk'; omega⟩
    · rw [if_neg hp]
      intro k _
      simpa using hp
  | cons c t ih =>
    intro pos
    simp only [strFind]
    by_cases hp : p.isPrefixOf (c :: t) = true
    · rw [if_pos hp]
      exact ⟨0, by simp, by simp, by simpa using List.isPrefixOf_iff_prefix.mp hp, by intro k' hk'; omega⟩
    · rw [if_neg hp]
      have hnp : ¬ p <+: c :: t := fun h => hp (List.isPrefixOf_iff_prefix.mpr h)
      have := ih (pos + 1)
      cases hf : strFind p (pos + 1) t with
      | none =>
        rw [hf] at this
        intro k hk
        cases k with
        | zero => simpa using hnp
        | succ k => simpa using this k (by simp at hk; omega)
      | some i =>
        rw [hf] at this
        obtain ⟨k, hi, hk, hpre, hmin⟩ := this
        refine ⟨k + 1, by omega, by simp; omega, by simpa using hpre, ?_⟩
        intro k' hk'
        cases k' with
        | zero => simpa using hnp
        | succ k' => simpa using hmin k' (by omega)

theorem endsWith_iff (v l : List Char) : endsWith v l = true ↔ l <:+ v := by
  unfold endsWith
  rw [List.isPrefixOf_iff_prefix, List.reverse_prefix]

/-- `Pattern::find` on the literal fast path, all four anchorings: leftmost occurrence -/
theorem find_literal (ast : Ast) (l : List Char) (hl : toLiteral ast = some l) (cfg : Config) (s : List Char) :
    match Pattern.find ⟨.literal l, cfg⟩ s with
    | none => ∀ i j, ¬ occurs cfg.anchorBegin cfg.anchorEnd ast s i j
    | some (a, e) => occurs cfg.anchorBegin cfg.anchorEnd ast s a e ∧
        ∀ i j, i < a → ¬ occurs cfg.anchorBegin cfg.anchorEnd ast s i j := by
  have hocc := occurs_literal ast l hl
  cases hab : cfg.anchorBegin <;> cases hae : cfg.anchorEnd <;> simp only [Pattern.find, hab, hae]
  · -- unanchored: `str::find`
    have hspec := strFind_spec l s 0
    cases hf : strFind l 0 s with
    | none =>
      rw [hf] at hspec
      simp only [Option.map_none]
      intro i j h
      obtain ⟨hij, hj, _, _, hm⟩ := (hocc false false s i j).mp h
      exact hspec i (by omega) ((mid_eq_iff s l i j hij hj).mp hm).1
    | some a =>
      rw [hf] at hspec
      obtain ⟨k, ha, hk, hpre, hmin⟩ := hspec
      simp only [Nat.zero_add] at ha
      subst ha
      simp only [Option.map_some]
      have hle : a + l.length ≤ s.length := by
        have := hpre.length_le
        simp at this; omega
      refine ⟨(hocc false false s a (a + l.length)).mpr
        ⟨by omega, hle, by simp, by simp, (mid_eq_iff s l a _ (by omega) hle).mpr ⟨hpre, rfl⟩⟩, ?_⟩
      intro i j hi h
      obtain ⟨hij, hj, _, _, hm⟩ := (hocc false false s i j).mp h
      exact hmin i hi ((mid_eq_iff s l i j hij hj).mp hm).1
  · -- anchored at the end: `ends_with`
    by_cases he : endsWith s l = true
    · rw [if_pos he]
      have hsuf := (endsWith_iff s l).mp he
      have hle : l.length ≤ s.length := hsuf.length_le
      have hdrop : s.drop (s.length - l.length) = l := (List.suffix_iff_eq_drop.mp hsuf).symm
      refine ⟨(hocc false true s _ _).mpr ⟨by omega, Nat.le_refl _, by simp, by simp, by simpa using hdrop⟩, ?_⟩
      intro i j hi h
      obtain ⟨hij, hj, _, hje, hm⟩ := (hocc false true s i j).mp h
      have := hje rfl
      subst this
      have := ((mid_eq_iff s l i _ hij hj).mp hm).2
      omega
    · rw [if_neg he]
      intro i j h
      obtain ⟨hij, hj, _, hje, hm⟩ := (hocc false true s i j).mp h
      have := hje rfl
      subst this
      apply he
      rw [endsWith_iff, ← hm]
      simpa using List.drop_suffix i s
  · -- anchored at the beginning: `starts_with`
    by_cases hp : l.isPrefixOf s = true
    · rw [if_pos hp]
      have hpre : l <+: s := List.isPrefixOf_iff_prefix.mp hp
      have hle : l.length ≤ s.length := hpre.length_le
      refine ⟨(hocc true false s 0 l.length).mpr ⟨by omega, hle, by simp, by simp,
        (mid_eq_iff s l 0 _ (by omega) hle).mpr ⟨by simpa using hpre, by simp⟩⟩, ?_⟩
      intro i j hi; omega
    · rw [if_neg hp]
      intro i j h
      obtain ⟨hij, hj, hi0, _, hm⟩ := (hocc true false s i j).mp h
      have := hi0 rfl
      subst this
      apply hp
      rw [List.isPrefixOf_iff_prefix]
      simpa using ((mid_eq_iff s l 0 j hij hj).mp hm).1
  · -- both anchors: equality
    by_cases hs : s = l
    · rw [if_pos hs]
      subst hs
      refine ⟨(hocc true true s 0 s.length).mpr ⟨by omega, Nat.le_refl _, by simp, by simp, by simp⟩, ?_⟩
      intro i j hi; omega
    · rw [if_neg hs]
      intro i j h
      obtain ⟨hij, hj, hi0, hje, hm⟩ := (hocc true true s i j).mp h
      have := hi0 rfl
      subst this
      have := hje rfl
      subst this
      apply hs
      simpa using hm

/-- `is_match` is "`find` finds something", on both paths and under every configuration -/
theorem isMatch_eq_find (p : Pattern) (s : List Char) : p.isMatch s = (p.find s).isSome := by
  unfold Pattern.isMatch Pattern.find
  cases p.body with
  | regex re dot => rfl
  | literal l =>
    cases p.config.anchorBegin <;> cases p.config.anchorEnd <;> simp only []
    · cases strFind l 0 s <;> rfl
    · cases endsWith s l <;> simp
    · cases l.isPrefixOf s <;> simp
    · by_cases h : s = l <;> simp [h]

/-! ### `rfind`: the rightmost start -/

/-- the `while let` loop of `rfind` on the compiled regex of any configuration: it ends at an occurrence no
    occurrence starts after -/
theorem rfindLoop_cfg (ast : Ast) (res : List ReAtom) (hres : cAtoms ast = some res) (g : Bool)
    (ab ae : Bool) (s : List Char) :
    ∀ fuel i e, s.length - i < fuel → occurs ab ae ast s i e →
      i ≤ (rfindLoop g (cfgRe ab ae res) s fuel (i, e)).1 ∧
      occurs ab ae ast s (rfindLoop g (cfgRe ab ae res) s fuel (i, e)).1
        (rfindLoop g (cfgRe ab ae res) s fuel (i, e)).2 ∧
      ∀ i' j', (rfindLoop g (cfgRe ab ae res) s fuel (i, e)).1 < i' → ¬ occurs ab ae ast s i' j' := by
  intro fuel
  induction fuel with
  | zero => intro i e h; omega
  | succ f ih =>
    intro i e hf hocc
    rw [rfindLoop_unfold]
    simp only []
    by_cases hlt : i + 1 ≤ s.length
    · rw [if_pos hlt]
      have hspec := findAt_cfg ast res hres g ab ae s (i + 1) hlt
      cases hfa : findAt g (cfgRe ab ae res) s (i + 1) with
      | none =>
        rw [hfa] at hspec
        exact ⟨Nat.le_refl _, hocc, fun i' j' hi' => hspec i' j' hi'⟩
      | some r =>
        obtain ⟨a, e'⟩ := r
        rw [hfa] at hspec
        obtain ⟨h1, h2, _⟩ := hspec
        simp only []
        have hal : a ≤ s.length := Nat.le_trans h2.1 h2.2.1
        obtain ⟨k1, k2, k3⟩ := ih a e' (by omega) h2
        exact ⟨by omega, k2, k3⟩
    · rw [if_neg hlt]
      refine ⟨Nat.le_refl _, hocc, ?_⟩
      intro i' j' hi' h
      have := Nat.le_trans h.1 h.2.1
      simp only [] at hi'
      omega

theorem strRFind_spec (p : List Char) : ∀ (t : List Char) (pos : Nat),
    match strRFind p pos t with
    | none => ∀ k, k ≤ t.length → ¬ p <+: t.drop k
    | some i => ∃ k, i = pos + k ∧ k ≤ t.length ∧ p <+: t.drop k ∧
        ∀ k', k < k' → k' ≤ t.length → ¬ p <+: t.drop k' := by
  intro t
  induction t with
  | nil =>
    intro pos
    simp only [strRFind]
    by_cases hp : p = []
    · subst hp
      exact ⟨0, by simp, by simp, by simp, by intro k' h1 h2; simp at h2; omega⟩
    · rw [if_neg hp]
      intro k _
      simpa using hp
  | cons c t ih =>
    intro pos
    simp only [strRFind]
    have := ih (pos + 1)
    cases hf : strRFind p (pos + 1) t with
    | some i =>
      rw [hf] at this
      obtain ⟨k, hi, hk, hpre, hmax⟩ := this
      refine ⟨k + 1, by omega, by simp; omega, by simpa using hpre, ?_⟩
      intro k' h1 h2
      cases k' with
      | zero => omega
      | succ k' => simpa using hmax k' (by omega) (by simp at h2; omega)
    | none =>
      rw [hf] at this
      simp only []
      by_cases hp : p.isPrefixOf (c :: t) = true
      · rw [if_pos hp]
        refine ⟨0, by simp, by simp, by simpa using List.isPrefixOf_iff_prefix.mp hp, ?_⟩
        intro k' h1 h2
        cases k' with
        | zero => omega
        | succ k' => simpa using this k' (by simp at h2; omega)
      · rw [if_neg hp]
        have hnp : ¬ p <+: c :: t := fun h => hp (List.isPrefixOf_iff_prefix.mpr h)
        intro k hk
        cases k with
        | zero => simpa using hnp
        | succ k => simpa using this k (by simp at hk; omega)

/-- with an anchor a literal pattern can occur at one place only -/
theorem occurs_literal_unique (ast : Ast) (l : List Char) (hl : toLiteral ast = some l) (ab ae : Bool)
    (hanch : ab = true ∨ ae = true) (s : List Char) (i j i' j' : Nat)
    (h : occurs ab ae ast s i j) (h' : occurs ab ae ast s i' j') : i = i' := by
  obtain ⟨hij, hj, h0, he, hm⟩ := (occurs_literal ast l hl ab ae s i j).mp h
  obtain ⟨hij', hj', h0', he', hm'⟩ := (occurs_literal ast l hl ab ae s i' j').mp h'
  rcases hanch with ha | ha
  · rw [h0 ha, h0' ha]
  · have e1 := ((mid_eq_iff s l i j hij hj).mp hm).2
    have e2 := ((mid_eq_iff s l i' j' hij' hj').mp hm').2
    have := he ha
    have := he' ha
    omega

/-- `Pattern::rfind` on the literal fast path, all four anchorings: rightmost occurrence -/
theorem rfind_literal (ast : Ast) (l : List Char) (hl : toLiteral ast = some l) (cfg : Config) (s : List Char) :
    match Pattern.rfind ⟨.literal l, cfg⟩ s with
    | none => ∀ i j, ¬ occurs cfg.anchorBegin cfg.anchorEnd ast s i j
    | some (a, e) => occurs cfg.anchorBegin cfg.anchorEnd ast s a e ∧
        ∀ i j, a < i → ¬ occurs cfg.anchorBegin cfg.anchorEnd ast s i j := by
  by_cases hanch : cfg.anchorBegin = true ∨ cfg.anchorEnd = true
  · have hrf : Pattern.rfind ⟨.literal l, cfg⟩ s = Pattern.find ⟨.literal l, cfg⟩ s := by
      simp only [Pattern.rfind, Pattern.find]
      cases hab : cfg.anchorBegin <;> cases hae : cfg.anchorEnd <;> simp_all
    rw [hrf]
    have := find_literal ast l hl cfg s
    cases hf : Pattern.find ⟨.literal l, cfg⟩ s with
    | none => rw [hf] at this; exact this
    | some r =>
      obtain ⟨a, e⟩ := r
      rw [hf] at this
      refine ⟨this.1, ?_⟩
      intro i j hi h
      have := occurs_literal_unique ast l hl _ _ hanch s a e i j this.1 h
      omega
  · have hab : cfg.anchorBegin = false := by cases h : cfg.anchorBegin <;> simp_all
    have hae : cfg.anchorEnd = false := by cases h : cfg.anchorEnd <;> simp_all
    have hocc := occurs_literal ast l hl false false s
    simp only [Pattern.rfind, hab, hae]
    have hspec := strRFind_spec l s 0
    cases hf : strRFind l 0 s with
    | none =>
      rw [hf] at hspec
      simp only [Option.map_none]
      intro i j h
      obtain ⟨hij, hj, _, _, hm⟩ := (hocc i j).mp h
      exact hspec i (by omega) ((mid_eq_iff s l i j hij hj).mp hm).1
    | some a =>
      rw [hf] at hspec
      obtain ⟨k, ha, hk, hpre, hmax⟩ := hspec
      simp only [Nat.zero_add] at ha
      subst ha
      simp only [Option.map_some]
      have hle : a + l.length ≤ s.length := by
        have := hpre.length_le
        simp at this; omega
      refine ⟨(hocc a (a + l.length)).mpr
        ⟨by omega, hle, by simp, by simp, (mid_eq_iff s l a _ (by omega) hle).mpr ⟨hpre, rfl⟩⟩, ?_⟩
      intro i j hi h
      obtain ⟨hij, hj, _, _, hm⟩ := (hocc i j).mp h
      exact hmax i hi (by omega) ((mid_eq_iff s l i j hij hj).mp hm).1

/-! ### `Pattern::find` / `is_match`, both paths -/

/-- where `find` starts: index 1 when `literal_period` rejects an initial dot (regex path only — the literal fast
    path of lib.rs does not look at `literal_period`), else 0 -/
def searchStart (ast : Ast) (cfg : Config) (s : List Char) : Nat :=
  if (toLiteral ast).isSome then 0 else Pattern.at0 cfg (startsWithLiteralDot ast) s

theorem at0_le (cfg : Config) (dot : Bool) (s : List Char) : Pattern.at0 cfg dot s ≤ s.length := by
  unfold Pattern.at0
  split
  · rename_i h
    cases s with
    | nil => simp at h
    | cons c t => simp
  · omega

namespace Proofs

theorem find_leftmost (ast : Ast) (cfg : Config) (p : Pattern) (h : Pattern.fromAst ast cfg = .ok p)
    (s : List Char) :
    match p.find s with
    | none => ∀ i j, searchStart ast cfg s ≤ i → ¬ occurs cfg.anchorBegin cfg.anchorEnd ast s i j
    | some (a, e) => searchStart ast cfg s ≤ a ∧ occurs cfg.anchorBegin cfg.anchorEnd ast s a e ∧
        ∀ i j, searchStart ast cfg s ≤ i → i < a → ¬ occurs cfg.anchorBegin cfg.anchorEnd ast s i j := by
  rcases fromAst_cases ast cfg p h with ⟨l, hl, rfl⟩ | ⟨hnone, res, hres, rfl⟩
  · have := find_literal ast l hl cfg s
    have hs : searchStart ast cfg s = 0 := by simp [searchStart, hl]
    rw [hs]
    cases hf : Pattern.find ⟨.literal l, cfg⟩ s with
    | none => rw [hf] at this; exact fun i j _ => this i j
    | some ae =>
      obtain ⟨a, e⟩ := ae
      rw [hf] at this
      exact ⟨Nat.zero_le _, this.1, fun i j _ hi => this.2 i j hi⟩
  · have hs : searchStart ast cfg s = Pattern.at0 cfg (startsWithLiteralDot ast) s := by
      simp [searchStart, hnone]
    rw [hs]
    simp only [Pattern.find]
    exact findAt_cfg ast res hres _ cfg.anchorBegin cfg.anchorEnd s _ (at0_le _ _ _)

theorem rfind_rightmost (ast : Ast) (cfg : Config) (p : Pattern) (h : Pattern.fromAst ast cfg = .ok p)
    (s : List Char) :
    match p.rfind s with
    | none => ∀ i j, searchStart ast cfg s ≤ i → ¬ occurs cfg.anchorBegin cfg.anchorEnd ast s i j
    | some (a, e) => searchStart ast cfg s ≤ a ∧ occurs cfg.anchorBegin cfg.anchorEnd ast s a e ∧
        ∀ i j, a < i → ¬ occurs cfg.anchorBegin cfg.anchorEnd ast s i j := by
  rcases fromAst_cases ast cfg p h with ⟨l, hl, rfl⟩ | ⟨hnone, res, hres, rfl⟩
  · have := rfind_literal ast l hl cfg s
    have hs : searchStart ast cfg s = 0 := by simp [searchStart, hl]
    rw [hs]
    cases hf : Pattern.rfind ⟨.literal l, cfg⟩ s with
    | none => rw [hf] at this; exact fun i j _ => this i j
    | some ae =>
      obtain ⟨a, e⟩ := ae
      rw [hf] at this
      exact ⟨Nat.zero_le _, this.1, this.2⟩
  · have hfind := find_leftmost ast cfg _ (by
      rw [show Pattern.fromAst ast cfg = _ from h])  s
    rw [rfind_regex_eq]
    cases hf : Pattern.find ⟨.regex (cfgRe cfg.anchorBegin cfg.anchorEnd res) (startsWithLiteralDot ast), cfg⟩ s with
    | none => rw [hf] at hfind; exact hfind
    | some r =>
      obtain ⟨a, e⟩ := r
      rw [hf] at hfind
      obtain ⟨h1, h2, _⟩ := hfind
      simp only [Option.map_some]
      have hal : a ≤ s.length := Nat.le_trans h2.1 h2.2.1
      obtain ⟨k1, k2, k3⟩ := rfindLoop_cfg ast res hres (!cfg.shortest) cfg.anchorBegin cfg.anchorEnd s
        (s.length + 1) a e (by omega) h2
      exact ⟨by omega, k2, k3⟩

theorem isMatch_iff (ast : Ast) (cfg : Config) (p : Pattern) (h : Pattern.fromAst ast cfg = .ok p)
    (s : List Char) :
    p.isMatch s = true ↔
      ∃ i j, searchStart ast cfg s ≤ i ∧ occurs cfg.anchorBegin cfg.anchorEnd ast s i j := by
  rw [isMatch_eq_find]
  have := find_leftmost ast cfg p h s
  cases hf : p.find s with
  | none =>
    rw [hf] at this
    simp only [Option.isSome_none, Bool.false_eq_true, false_iff]
    rintro ⟨i, j, hi, hocc⟩
    exact this i j hi hocc
  | some ae =>
    obtain ⟨a, e⟩ := ae
    rw [hf] at this
    simp only [Option.isSome_some, true_iff]
    exact ⟨a, e, this.1, this.2.1⟩

theorem occursB_iff (ab ae : Bool) (ast : Ast) (s : List Char) (i j : Nat) :
    occursB ab ae ast s i j = true ↔ occurs ab ae ast s i j := by
  unfold occursB occurs
  cases ab <;> cases ae <;> simp [and_assoc]

theorem specIsMatchFrom_iff (ab ae : Bool) (ast : Ast) (s : List Char) (start : Nat) :
    specIsMatchFrom ab ae ast s start = true ↔ ∃ i j, start ≤ i ∧ occurs ab ae ast s i j := by
  unfold specIsMatchFrom
  simp only [List.any_eq_true, List.mem_range, Bool.and_eq_true, decide_eq_true_eq, occursB_iff]
  constructor
  · rintro ⟨i, _, hi, j, _, hocc⟩
    exact ⟨i, j, hi, hocc⟩
  · rintro ⟨i, j, hi, hocc⟩
    have h1 := hocc.1
    have h2 := hocc.2.1
    exact ⟨i, by omega, hi, j, by omega, hocc⟩

theorem isMatch_any_config (ast : Ast) (cfg : Config) (p : Pattern) (h : Pattern.fromAst ast cfg = .ok p)
    (s : List Char) :
    p.isMatch s = specIsMatchFrom cfg.anchorBegin cfg.anchorEnd ast s (searchStart ast cfg s) := by
  rw [Bool.eq_iff_iff, isMatch_iff ast cfg p h s, specIsMatchFrom_iff]

theorem explicitDot_eq (ast : Ast) : explicitDot ast = startsWithLiteralDot ast := by
  cases ast with
  | nil => rfl
  | cons a r => cases a <;> rfl

theorem literal_head_dot (ast : Ast) (t : List Char) (h : toLiteral ast = some ('.' :: t)) :
    explicitDot ast = true := by
  cases ast with
  | nil => simp [toLiteral] at h
  | cons a r =>
    cases a with
    | char c =>
      simp only [toLiteral] at h
      split at h
      · simp at h; simp [explicitDot, h.1]
      · simp at h
    | anyChar => simp [toLiteral] at h
    | anyString => simp [toLiteral] at h
    | bracket b => simp [toLiteral] at h

/-- both anchors: the only possible occurrence is the whole text -/
theorem occurs_full (ast : Ast) (s : List Char) (i j : Nat) :
    occurs true true ast s i j ↔ (i = 0 ∧ j = s.length ∧ globMatch ast s = true) := by
  unfold occurs
  constructor
  · rintro ⟨_, _, h1, h2, h3⟩
    have := h1 rfl
    have := h2 rfl
    subst_vars
    simp at h3
    exact ⟨rfl, rfl, h3⟩
  · rintro ⟨rfl, rfl, h⟩
    simp [h]

theorem literal_period_correct (ast : Ast) (cfg : Config) (hb : cfg.anchorBegin = true)
    (he : cfg.anchorEnd = true) (hl : cfg.literalPeriod = true) (p : Pattern)
    (h : Pattern.fromAst ast cfg = .ok p) (s : List Char) :
    p.isMatch s = specPeriodMatch ast s := by
  rw [Bool.eq_iff_iff, isMatch_iff ast cfg p h s, hb, he]
  unfold specPeriodMatch
  simp only [occurs_full, Bool.and_eq_true, Bool.or_eq_true, bne_iff_ne, ne_eq]
  constructor
  · rintro ⟨i, j, hi, rfl, rfl, hg⟩
    refine ⟨hg, ?_⟩
    simp only [Nat.le_zero_eq] at hi
    unfold searchStart at hi
    cases hlit : toLiteral ast with
    | some l =>
      have : s = l := by
        have := toLiteral_glob' ast l hlit s
        unfold globMatch at hg
        rw [hg] at this
        simpa using this.symm
      subst this
      cases s with
      | nil => left; simp
      | cons c t =>
        by_cases hc : c = '.'
        · subst hc; right; exact literal_head_dot ast t hlit
        · left; simp [hc]
    | none =>
      simp only [hlit, Option.isSome_none, Bool.false_eq_true, if_false, Pattern.at0, hl,
        Bool.true_and] at hi
      rw [explicitDot_eq]
      by_cases hd : startsWithLiteralDot ast = true
      · right; exact hd
      · left
        intro hh
        simp [hd, hh] at hi
  · rintro ⟨hg, hdot⟩
    refine ⟨0, s.length, ?_, rfl, rfl, hg⟩
    unfold searchStart
    cases hlit : toLiteral ast with
    | some l => simp
    | none =>
      simp only [Option.isSome_none, Bool.false_eq_true, if_false, Pattern.at0, hl, Bool.true_and]
      rw [explicitDot_eq] at hdot
      rcases hdot with hdot | hdot
      · have : (s.head? == some '.') = false := by simpa using hdot
        simp [this]
      · simp [hdot]

end Proofs

end YashModel.Fnmatch
