/-
  C04 — helper lemmas, part 5: rests of the compiled regex = decompositions `s = pre ++ ρ` with `pre` in the
  glob language; least/greatest search; `findFrom` / `rfindLoop` characterisations.
-/
import YashModel.Fnmatch.ExtremalLemmas

namespace YashModel.Fnmatch

/-! ### least / greatest -/

theorem leastUpTo_none {p : Nat → Bool} {n : Nat} (h : ∀ j, j ≤ n → p j = false) : leastUpTo p n = none := by
  induction n with
  | zero => simp [leastUpTo, h 0 (Nat.le_refl _)]
  | succ n ih =>
    simp [leastUpTo, ih (fun j hj => h j (by omega)), h (n + 1) (Nat.le_refl _)]

theorem leastUpTo_some {p : Nat → Bool} {n k : Nat} (hk : p k = true) (hkn : k ≤ n)
    (hmin : ∀ j, j ≤ n → p j = true → k ≤ j) : leastUpTo p n = some k := by
  induction n with
  | zero =>
    have : k = 0 := by omega
    subst this; simp [leastUpTo, hk]
  | succ n ih =>
    by_cases hle : k ≤ n
    · simp [leastUpTo, ih hle (fun j hj hp => hmin j (by omega) hp)]
    · have hk' : k = n + 1 := by omega
      subst hk'
      have hn : leastUpTo p n = none := by
        apply leastUpTo_none
        intro j hj
        cases hpj : p j with
        | false => rfl
        | true => have := hmin j (by omega) hpj; omega
      simp [leastUpTo, hn, hk]

theorem greatestUpTo_none {p : Nat → Bool} {n : Nat} (h : ∀ j, j ≤ n → p j = false) :
    greatestUpTo p n = none := by
  induction n with
  | zero => simp [greatestUpTo, h 0 (Nat.le_refl _)]
  | succ n ih =>
    simp [greatestUpTo, ih (fun j hj => h j (by omega)), h (n + 1) (Nat.le_refl _)]

theorem greatestUpTo_some {p : Nat → Bool} {n k : Nat} (hk : p k = true) (hkn : k ≤ n)
    (hmax : ∀ j, j ≤ n → p j = true → j ≤ k) : greatestUpTo p n = some k := by
  induction n with
  | zero =>
    have : k = 0 := by omega
    subst this; simp [greatestUpTo, hk]
  | succ n ih =>
    by_cases hp : p (n + 1) = true
    · have := hmax (n + 1) (Nat.le_refl _) hp
      have hk' : k = n + 1 := by omega
      subst hk'
      simp [greatestUpTo, hp]
    · have hk' : k ≠ n + 1 := fun e => hp (e ▸ hk)
      simp only [greatestUpTo, hp, Bool.false_eq_true, if_false]
      exact ih (by omega) (fun j hj hpj => hmax j (by omega) hpj)

/-! ### rests of the compiled regex = prefixes in the glob language -/

theorem one_step_iff (m : Char → Bool) (G G' : List Char → Bool)
    (R R' : List Char → List (List Char))
    (hR0 : R [] = []) (hR1 : ∀ c t, R (c :: t) = if m c then R' t else [])
    (hG0 : G [] = false) (hG1 : ∀ c p, G (c :: p) = (m c && G' p))
    (ih : ∀ s ρ, ρ ∈ R' s ↔ ∃ pre, s = pre ++ ρ ∧ G' pre = true) :
    ∀ s ρ, ρ ∈ R s ↔ ∃ pre, s = pre ++ ρ ∧ G pre = true := by
  intro s ρ
  cases s with
  | nil =>
    rw [hR0]
    constructor
    · intro h; simp at h
    · rintro ⟨pre, hs, hg⟩
      have : pre = [] := by
        cases pre with
        | nil => rfl
        | cons a b => simp at hs
      subst this; rw [hG0] at hg; simp at hg
  | cons c t =>
    rw [hR1]
    constructor
    · intro h
      by_cases hm : m c = true
      · simp only [hm, if_true] at h
        obtain ⟨p', ht, hg⟩ := (ih t ρ).mp h
        exact ⟨c :: p', by simp [ht], by rw [hG1, hm, hg]; rfl⟩
      · simp [hm] at h
    · rintro ⟨pre, hs, hg⟩
      cases pre with
      | nil => rw [hG0] at hg; simp at hg
      | cons a p' =>
        simp only [List.cons_append, List.cons.injEq] at hs
        obtain ⟨rfl, ht⟩ := hs
        rw [hG1] at hg
        simp only [Bool.and_eq_true] at hg
        simp only [hg.1, if_true]
        exact (ih t ρ).mpr ⟨p', ht, hg.2⟩

theorem not_multi_items {b : Bracket} (h : b.multi = false) : ∀ it ∈ b.items, it.multi = false := by
  intro it hi
  have : b.items.any BracketItem.multi = false := h
  rw [List.any_eq_false] at this
  simpa using this it hi

/-- without multi-character elements every compiled atom is plain -/
theorem cAtoms_plain (ast : List Atom) : ∀ res, cAtoms ast = some res → noMulti ast = true →
    res.all plainAtom = true := by
  induction ast with
  | nil => intro res h _; simp [cAtoms] at h; subst h; rfl
  | cons a r ih =>
    intro res h hn
    simp only [noMulti, List.all_cons, Bool.and_eq_true] at hn
    simp only [cAtoms] at h
    split at h
    · rename_i ra rr hra hrr
      simp at h; subst h
      simp only [List.all_cons, Bool.and_eq_true]
      refine ⟨?_, ih rr hrr hn.2⟩
      cases a with
      | char c => simp [cAtom] at hra; subst hra; rfl
      | anyChar => simp [cAtom] at hra; subst hra; rfl
      | anyString => simp [cAtom] at hra; subst hra; rfl
      | bracket b =>
        have hm : b.multi = false := by simpa [noMultiAtom] using hn.1
        simp only [cAtom, cBracket, hm] at hra
        split at hra
        · simp at hra
        · cases hci : cItems b.items with
          | none => simp [hci] at hra
          | some ci => simp [hci] at hra; subst hra; rfl
    · simp at h

theorem rests_glob (ast : List Atom) : ∀ res, cAtoms ast = some res → noMulti ast = true →
    ∀ s ρ, ρ ∈ rests res s ↔ ∃ pre, s = pre ++ ρ ∧ globAtoms ast pre = true := by
  induction ast with
  | nil =>
    intro res h _ s ρ
    simp [cAtoms] at h; subst h
    simp only [rests, List.mem_singleton, globAtoms]
    constructor
    · intro h; exact ⟨[], by simp [h], rfl⟩
    · rintro ⟨pre, hs, hg⟩
      have : pre = [] := by simpa using hg
      subst this; simpa using hs.symm
  | cons a r ih =>
    intro res h hn
    simp only [noMulti, List.all_cons, Bool.and_eq_true] at hn
    simp only [cAtoms] at h
    split at h
    · rename_i ra rr hra hrr
      simp at h; subst h
      have ihr := ih rr hrr hn.2
      cases a with
      | char c =>
        simp [cAtom] at hra; subst hra
        exact one_step_iff (fun c' => c' == c) _ (globAtoms r) _ (rests rr)
          (by simp [rests]) (by intro c' t; simp [rests, Simple.mem])
          (by simp [globAtoms]) (by intro c' p; simp [globAtoms]) ihr
      | anyChar =>
        simp [cAtom] at hra; subst hra
        exact one_step_iff (fun _ => true) _ (globAtoms r) _ (rests rr)
          (by simp [rests]) (by intro c' t; simp [rests])
          (by simp [globAtoms]) (by intro c' p; simp [globAtoms]) ihr
      | bracket b =>
        have hm : b.multi = false := by simpa [noMultiAtom] using hn.1
        have hmi := not_multi_items hm
        simp only [cAtom, cBracket, hm] at hra
        split at hra
        · simp at hra
        · cases hci : cItems b.items with
          | none => simp [hci] at hra
          | some ci =>
            simp [hci] at hra; subst hra
            exact one_step_iff (fun c' => b.items.any (itemHas · c') != b.complement) _ (globAtoms r) _
              (rests rr)
              (by simp [rests])
              (by intro c' t; simp [rests, Simple.mem, Cls.mem, cItems_mem hci c'])
              (by simp [globAtoms, bracketRests_plain_nil hmi])
              (by
                intro c' p
                simp only [globAtoms, bracketRests_plain_cons hmi]
                cases (b.items.any (itemHas · c') != b.complement) <;> simp)
              ihr
      | anyString =>
        simp [cAtom] at hra; subst hra
        intro s ρ
        simp only [rests, mem_starRests, globAtoms]
        constructor
        · rintro ⟨u, ⟨p0, hp0⟩, hu⟩
          obtain ⟨p1, hu1, hg⟩ := (ihr u ρ).mp hu
          refine ⟨p0 ++ p1, by rw [← hp0, hu1, List.append_assoc], ?_⟩
          rw [List.any_eq_true]
          exact ⟨p0.length, by simp [List.mem_range]; omega, by simpa using hg⟩
        · rintro ⟨pre, hs, hg⟩
          rw [List.any_eq_true] at hg
          obtain ⟨k, _, hgk⟩ := hg
          refine ⟨pre.drop k ++ ρ, ⟨pre.take k, ?_⟩, (ihr _ ρ).mpr ⟨pre.drop k, rfl, hgk⟩⟩
          rw [hs, ← List.append_assoc, List.take_append_drop]
    · simp at h


/-! ### `rfind`'s byte-wise step to the next char boundary = the next character index -/

theorem utf8Len_append (a b : List Char) : utf8Len (a ++ b) = utf8Len a + utf8Len b := by
  simp [utf8Len]

theorem nextBoundaryFrom_spec (mid : List Char) :
    ∀ (pre rest : List Char),
      nextBoundaryFrom pre.length (utf8Len pre) (utf8Len (pre ++ mid)) (mid ++ rest) =
        match rest with
        | [] => none
        | c :: _ => some (pre.length + mid.length + 1, utf8Len (pre ++ mid) + c.utf8Size) := by
  induction mid with
  | nil =>
    intro pre rest
    cases rest with
    | nil => simp [nextBoundaryFrom]
    | cons c t =>
      have := Char.utf8Size_pos c
      simp only [List.append_nil, List.nil_append, nextBoundaryFrom, List.length_nil, Nat.add_zero]
      rw [if_pos (by omega)]
  | cons m mid' ih =>
    intro pre rest
    have hlen : utf8Len (pre ++ m :: mid') = utf8Len pre + m.utf8Size + utf8Len mid' := by
      simp [utf8Len]; omega
    have hnot : ¬ utf8Len (pre ++ m :: mid') < utf8Len pre + m.utf8Size := by omega
    simp only [List.cons_append, nextBoundaryFrom]
    rw [if_neg hnot]
    have := ih (pre ++ [m]) rest
    have e1 : (pre ++ [m]).length = pre.length + 1 := by simp
    have e2 : utf8Len (pre ++ [m]) = utf8Len pre + m.utf8Size := by simp [utf8Len]
    have e3 : pre ++ [m] ++ mid' = pre ++ m :: mid' := by simp
    rw [e1, e2, e3] at this
    rw [this]
    cases rest with
    | nil => rfl
    | cons c t => simp; omega

theorem nextBoundary_index (text : List Char) (i : Nat) :
    (nextBoundary text (byteOffset text i)).map (·.1) = if i + 1 ≤ text.length then some (i + 1) else none := by
  unfold nextBoundary byteOffset
  have := nextBoundaryFrom_spec (text.take i) [] (text.drop i)
  simp only [List.length_nil, List.nil_append, List.take_append_drop] at this
  have h0 : utf8Len ([] : List Char) = 0 := rfl
  rw [h0] at this
  rw [this]
  by_cases h : i + 1 ≤ text.length
  · rw [if_pos h]
    have hne : text.drop i ≠ [] := by
      intro e
      have := congrArg List.length e
      simp at this; omega
    cases hd : text.drop i with
    | nil => exact absurd hd hne
    | cons c t =>
      simp only [Option.map_some, List.length_take]
      congr 1
      omega
  · rw [if_neg h]
    have : text.drop i = [] := by
      apply List.drop_eq_nil_of_le; omega
    rw [this]
    rfl

theorem rfindLoop_unfold (g : Bool) (re : List ReAtom) (text : List Char) (fuel : Nat) (cur : Nat × Nat) :
    rfindLoop g re text (fuel + 1) cur =
      if cur.1 + 1 ≤ text.length then
        (match findAt g re text (cur.1 + 1) with
         | some r => rfindLoop g re text fuel r
         | none => cur)
      else cur := by
  have h := nextBoundary_index text cur.1
  simp only [rfindLoop]
  cases hn : nextBoundary text (byteOffset text cur.1) with
  | none =>
    rw [hn] at h
    by_cases hle : cur.1 + 1 ≤ text.length
    · rw [if_pos hle] at h; simp at h
    · rw [if_neg hle]
  | some ib =>
    obtain ⟨i, b⟩ := ib
    rw [hn] at h
    by_cases hle : cur.1 + 1 ≤ text.length
    · rw [if_pos hle] at h
      simp only [Option.map_some, Option.some.injEq] at h
      subst h
      rw [if_pos hle]
      simp only []
      cases findAt g re text (cur.1 + 1) <;> rfl
    · rw [if_neg hle] at h; simp at h

/-! ### `findFrom` -/

theorem findFrom_spec (g : Bool) (n : Nat) (re : List ReAtom) :
    ∀ (s : List Char) (pos : Nat),
      match findFrom g n re pos s with
      | none => ∀ j, j ≤ s.length → matchHere g n re (s.drop j) = none
      | some (a, e) => ∃ j ρ, j ≤ s.length ∧ a = pos + j ∧ matchHere g n re (s.drop j) = some ρ ∧
          e = n - ρ.length ∧ ∀ j', j' < j → matchHere g n re (s.drop j') = none := by
  intro s
  induction s with
  | nil =>
    intro pos
    simp only [findFrom]
    cases h : matchHere g n re [] with
    | none => intro j hj; simp at hj; subst hj; simpa using h
    | some ρ => exact ⟨0, ρ, by simp, by simp, by simpa using h, rfl, by intro j' hj'; omega⟩
  | cons c t ih =>
    intro pos
    simp only [findFrom]
    cases h : matchHere g n re (c :: t) with
    | some ρ => exact ⟨0, ρ, by simp, by simp, by simpa using h, rfl, by intro j' hj'; omega⟩
    | none =>
      have := ih (pos + 1)
      cases hf : findFrom g n re (pos + 1) t with
      | none =>
        rw [hf] at this
        intro j hj
        cases j with
        | zero => simpa using h
        | succ j => simpa using this j (by simp at hj; omega)
      | some ae =>
        obtain ⟨a, e⟩ := ae
        rw [hf] at this
        obtain ⟨j, ρ, hj, ha, hm, he, hmin⟩ := this
        refine ⟨j + 1, ρ, by simp; omega, by omega, by simpa using hm, he, ?_⟩
        intro j' hj'
        cases j' with
        | zero => simpa using h
        | succ j' => simpa using hmin j' (by omega)

/-- a regex that ends in `\z` leaves nothing -/
theorem starLoop_some_exists (g : Bool) (K : List Char → Option (List Char)) :
    ∀ s ρ, starLoop g K s = some ρ → ∃ u, K u = some ρ := by
  intro s
  induction s with
  | nil => intro ρ h; exact ⟨[], by simpa [starLoop] using h⟩
  | cons c t ih =>
    intro ρ h
    cases g with
    | true =>
      simp only [starLoop, if_true] at h
      cases h1 : starLoop true K t with
      | some r => rw [h1] at h; simp at h; subst h; exact ih _ h1
      | none => rw [h1] at h; exact ⟨_, h⟩
    | false =>
      simp only [starLoop, Bool.false_eq_true, if_false] at h
      cases h1 : K (c :: t) with
      | some r => rw [h1] at h; simp at h; subst h; exact ⟨_, h1⟩
      | none => rw [h1] at h; exact ih _ h

theorem altLoop_some_exists (K : List Char → Option (List Char)) (s : List Char) :
    ∀ bs ρ, altLoop K s bs = some ρ → ∃ u, K u = some ρ := by
  intro bs
  induction bs with
  | nil => intro ρ h; simp [altLoop] at h
  | cons b rest ih =>
    intro ρ h
    simp only [altLoop] at h
    cases hm : matchSimples b s with
    | none => rw [hm] at h; simp at h; exact ih _ h
    | some s' =>
      rw [hm] at h
      simp only [] at h
      cases hk : K s' with
      | none => rw [hk] at h; simp at h; exact ih _ h
      | some r => rw [hk] at h; simp at h; subst h; exact ⟨_, hk⟩

theorem matchHere_eos_nil (g : Bool) (n : Nat) (re : List ReAtom) :
    ∀ s ρ, matchHere g n (re ++ [.eos]) s = some ρ → ρ = [] := by
  induction re with
  | nil =>
    intro s ρ h
    simp only [List.nil_append, matchHere] at h
    split at h
    · rename_i hs; subst hs; simp at h; exact h
    · simp at h
  | cons a r ih =>
    intro s ρ h
    cases a with
    | bos =>
      simp only [List.cons_append, matchHere] at h
      split at h
      · exact ih _ _ h
      · simp at h
    | eos =>
      simp only [List.cons_append, matchHere] at h
      split at h
      · exact ih _ _ h
      · simp at h
    | any =>
      cases s with
      | nil => simp [matchHere] at h
      | cons c t => simp only [List.cons_append, matchHere] at h; exact ih _ _ h
    | one x =>
      cases s with
      | nil => simp [matchHere] at h
      | cons c t =>
        simp only [List.cons_append, matchHere] at h
        split at h
        · exact ih _ _ h
        · simp at h
    | star =>
      simp only [List.cons_append, matchHere] at h
      obtain ⟨u, hu⟩ := starLoop_some_exists g _ s ρ h
      exact ih _ _ hu
    | alt bs =>
      simp only [List.cons_append, matchHere] at h
      obtain ⟨u, hu⟩ := altLoop_some_exists _ s bs ρ h
      exact ih _ _ hu

end YashModel.Fnmatch
