/-
  C04 — helper lemmas, part 2b: bracket expressions with multi-character collating elements are emitted as
  a non-capturing alternation `(?:b1|b2|…)` that parses back to the expected branches
  (`parseBranches_emit`) and matches the same prefixes as the Spec allows (`alts_sem`,
  `bracketRests_pos`).
-/
import YashModel.Fnmatch.ClassLemmas

namespace YashModel.Fnmatch
open YashModel.Generated.FnmatchTables

/-- the branch an item of an alternation stands for -/
def cAlt (it : BracketItem) : Option (List Simple) :=
  if it.multi then
    match it with
    | .atom (.collating v) => some (v.map .lit)
    | .atom (.equiv v) => some (v.map .lit)
    | _ => none
  else (cItem it).map (fun ci => [.cls { neg := false, items := [ci] }])

def cAlts : List BracketItem → Option (List (List Simple))
  | [] => some []
  | it :: r =>
    match cAlt it, cAlts r with
    | some a, some b => some (a :: b)
    | _, _ => none

theorem cAlts_cons (it : BracketItem) (r : List BracketItem) :
    cAlts (it :: r) = match cAlt it, cAlts r with
      | some a, some b => some (a :: b)
      | _, _ => none := rfl

/-! ### parsing the branches back -/

theorem parseBranch_delim (fuel : Nat) (acc : List Simple) (d : Char) (r : List Char)
    (hd : d = '|' ∨ d = ')') : parseBranch (fuel + 1) acc (d :: r) = some (acc.reverse, d :: r) := by
  simp [parseBranch, hd]

theorem parseBranch_char (fuel : Nat) (acc : List Simple) (c : Char) (r : List Char) :
    parseBranch (fuel + 1) acc (fmtRegexChar c ++ r) = parseBranch fuel (.lit c :: acc) r := by
  unfold fmtRegexChar
  split
  · rename_i h
    have he : c ∈ escapable := by
      cases h with
      | inl h => exact bracketSpecial_sub_escapable c h
      | inr h => exact special_sub_escapable c h
    simp [parseBranch, he]
  · rename_i h
    have hs : c ∉ specialChars := fun x => h (Or.inr x)
    have hm := not_special_not_meta hs
    have h1 : c ≠ '\\' := ne_of_not_mem hm bs_mem
    have h2 : c ≠ '[' := ne_of_not_mem hm lb_mem
    have h3 : c ≠ '|' := ne_of_not_mem hm bar_mem
    have h4 : c ≠ ')' := ne_of_not_mem hm rp_mem
    simp [parseBranch, h1, h2, h3, h4, hm]

theorem parseBranch_lits (v : List Char) :
    ∀ (acc : List Simple) (d : Char) (r : List Char) (fuel : Nat), (d = '|' ∨ d = ')') → v.length < fuel →
      parseBranch fuel acc (v.flatMap fmtRegexChar ++ d :: r) = some (acc.reverse ++ v.map .lit, d :: r) := by
  induction v with
  | nil =>
    intro acc d r fuel hd hf
    obtain ⟨f, rfl⟩ : ∃ f, fuel = f + 1 := ⟨fuel - 1, by simp at hf; omega⟩
    simp [parseBranch_delim _ _ _ _ hd]
  | cons c t ih =>
    intro acc d r fuel hd hf
    obtain ⟨f, rfl⟩ : ∃ f, fuel = f + 1 := ⟨fuel - 1, by simp at hf; omega⟩
    simp only [List.flatMap_cons, List.append_assoc]
    rw [parseBranch_char, ih (.lit c :: acc) d r f hd (by simp at hf; omega)]
    simp

theorem flatMap_fmt_length (v : List Char) : v.length ≤ (v.flatMap fmtRegexChar).length := by
  induction v with
  | nil => simp
  | cons c t ih =>
    have := fmtRegexChar_length_pos c
    simp only [List.flatMap_cons, List.length_append, List.length_cons]; omega

theorem fmtItems_single {it : BracketItem} {x : List Char} (h : it.fmt = .ok x) :
    fmtItems [it] = .ok x := by
  simp [fmtItems, h]

theorem cItems_single (it : BracketItem) : cItems [it] = (cItem it).map ([·]) := by
  simp only [cItems]
  cases cItem it <;> simp

/-- one alternative -/
theorem branch_emit {it : BracketItem} {x : List Char} (h : fmtAltItem it = .ok x) (d : Char)
    (r : List Char) (hd : d = '|' ∨ d = ')') (fuel : Nat) (hf : (x ++ d :: r).length < fuel) :
    parseBranch fuel [] (x ++ d :: r) = (cAlt it).map (fun b => (b, d :: r)) := by
  unfold fmtAltItem at h
  split at h
  · -- multi-character element: its escaped characters
    rename_i hm
    have hl : ∀ v : List Char, x = v.flatMap fmtRegexChar → v.length < fuel := by
      intro v hv
      have := flatMap_fmt_length v
      rw [hv, List.length_append] at hf; omega
    cases it with
    | atom a =>
      cases a with
      | char c => simp [BracketItem.multi, BracketAtom.multi] at hm
      | collating v =>
        simp only [BracketItem.fmt, BracketAtom.fmt] at h
        split at h
        · simp at h
        · simp at h
          rw [← h, parseBranch_lits v [] d r fuel hd (hl v h.symm)]
          simp [cAlt, hm]
      | equiv v =>
        simp only [BracketItem.fmt, BracketAtom.fmt] at h
        split at h
        · simp at h
        · simp at h
          rw [← h, parseBranch_lits v [] d r fuel hd (hl v h.symm)]
          simp [cAlt, hm]
      | cls n => simp [BracketItem.multi, BracketAtom.multi] at hm
    | range s e => simp [BracketItem.multi] at hm
  · rename_i hm
    have hm' : it.multi = false := by simpa using hm
    split at h
    · simp at h
    · rename_i a ha
      simp at h
      subst h
      have hmi : ∀ i ∈ [it], i.multi = false := by simp [hm']
      have e : ('[' :: (a ++ [']'])) ++ d :: r = '[' :: (a ++ ']' :: (d :: r)) := by simp
      have e0 : ('[' :: a ++ [']']) ++ d :: r = '[' :: (a ++ ']' :: (d :: r)) := by simp
      obtain ⟨f, rfl⟩ : ∃ f, fuel = f + 1 := ⟨fuel - 1, by simp at hf; omega⟩
      obtain ⟨c0, t0, hc0, _⟩ := (item_emit hm' ha).1 []
      have hapos : 0 < a.length := by
        have := congrArg List.length hc0; simp at this; omega
      have hf1 : [it].length < f := by
        rw [e] at hf; simp at hf ⊢; omega
      have hpc := parseClass_emit false [it] a hmi (fmtItems_single ha) (by simp) (d :: r) f hf1
      simp only [Bool.false_eq_true, if_false, List.nil_append] at hpc
      rw [e]
      simp only [parseBranch]
      simp only [show ('[' : Char) ≠ '|' by decide, show ('[' : Char) ≠ ')' by decide,
        show ('[' : Char) ≠ '\\' by decide, or_self, if_false, if_true]
      rw [hpc, cItems_single]
      obtain ⟨f', rfl⟩ : ∃ f', f = f' + 1 := ⟨f - 1, by simp at hf1; omega⟩
      cases hci : cItem it with
      | none => simp [cAlt, hm', hci]
      | some ci => simp [cAlt, hm', hci, parseBranch_delim _ _ _ _ hd]

theorem fmtAltItems_cons_ok {it it2 : BracketItem} {r : List BracketItem} {x : List Char}
    (h : fmtAltItems (it :: it2 :: r) = .ok x) :
    ∃ a b, fmtAltItem it = .ok a ∧ fmtAltItems (it2 :: r) = .ok b ∧ x = a ++ '|' :: b := by
  simp only [fmtAltItems] at h
  split at h
  · simp at h
  · rename_i a ha
    split at h
    · simp at h
    · rename_i b hb
      simp at h
      exact ⟨a, b, ha, hb, h.symm⟩

theorem parseBranches_step (fuel : Nat) (acc : List (List Simple)) (s : List Char) (b : List Simple)
    (d : Char) (r : List Char) (h : parseBranch (fuel + 1) [] s = some (b, d :: r)) :
    parseBranches (fuel + 1) acc s =
      if d = ')' then some ((b :: acc).reverse, r) else parseBranches fuel (b :: acc) r := by
  simp [parseBranches, h]

theorem parseBranches_emit_acc (items : List BracketItem) :
    items ≠ [] → ∀ (a : List Char), fmtAltItems items = .ok a →
    ∀ (acc : List (List Simple)) (r : List Char) (fuel : Nat), (a ++ ')' :: r).length < fuel →
      parseBranches fuel acc (a ++ ')' :: r) = (cAlts items).map (fun bs => (acc.reverse ++ bs, r)) := by
  induction items with
  | nil => intro h; exact absurd rfl h
  | cons it rest ih =>
    intro _ a ha acc r fuel hf
    obtain ⟨f, rfl⟩ : ∃ f, fuel = f + 1 := ⟨fuel - 1, by omega⟩
    cases rest with
    | nil =>
      simp only [fmtAltItems] at ha
      have hb := branch_emit ha ')' r (Or.inr rfl) (f + 1) hf
      cases hca : cAlt it with
      | none =>
        rw [hca] at hb
        simp only [Option.map_none] at hb
        simp [parseBranches, hb, cAlts, hca]
      | some b =>
        rw [hca] at hb
        simp only [Option.map_some] at hb
        rw [parseBranches_step _ _ _ _ _ _ hb]
        simp [cAlts, hca]
    | cons it2 rest2 =>
      obtain ⟨x, y, hx, hy, rfl⟩ := fmtAltItems_cons_ok ha
      have e : (x ++ '|' :: y) ++ ')' :: r = x ++ '|' :: (y ++ ')' :: r) := by simp
      rw [e] at hf ⊢
      have hb := branch_emit hx '|' (y ++ ')' :: r) (Or.inl rfl) (f + 1) hf
      cases hca : cAlt it with
      | none =>
        rw [hca] at hb
        simp only [Option.map_none] at hb
        simp [parseBranches, hb, cAlts, hca]
      | some b =>
        rw [hca] at hb
        simp only [Option.map_some] at hb
        rw [parseBranches_step _ _ _ _ _ _ hb]
        simp only [show ('|' : Char) ≠ ')' by decide, if_false]
        rw [ih (by simp) y hy (b :: acc) r f (by simp at hf ⊢; omega)]
        rw [cAlts_cons it (it2 :: rest2), hca]
        cases hcr : cAlts (it2 :: rest2) with
        | none => simp
        | some bs => simp

theorem parseBranches_emit (items : List BracketItem) (hne : items ≠ []) (a : List Char)
    (ha : fmtAltItems items = .ok a) (r : List Char) (fuel : Nat) (hf : (a ++ ')' :: r).length < fuel) :
    parseBranches fuel [] (a ++ ')' :: r) = (cAlts items).map (fun bs => (bs, r)) := by
  have := parseBranches_emit_acc items hne a ha [] r fuel hf
  simpa using this

/-! ### semantics of the alternation -/

def headOk (it : BracketItem) (s : List Char) (K : List Char → Bool) : Bool :=
  match s with
  | c :: t => itemHas it c && K t
  | [] => false

def seqOk (it : BracketItem) (s : List Char) (K : List Char → Bool) : Bool :=
  match itemSeq it with
  | some v => v.isPrefixOf s && K (s.drop v.length)
  | none => false

/-- what one bracket item allows at the head of `s`, given the continuation test `K` -/
def itemOk (it : BracketItem) (s : List Char) (K : List Char → Bool) : Bool :=
  headOk it s K || seqOk it s K

theorem altLoop_isSome (k : List Char → Option (List Char)) (s : List Char) (bs : List (List Simple)) :
    (altLoop k s bs).isSome =
      bs.any (fun b => match matchSimples b s with
        | some s' => (k s').isSome
        | none => false) := by
  induction bs with
  | nil => simp [altLoop]
  | cons b rest ih =>
    simp only [altLoop, List.any_cons]
    cases hm : matchSimples b s with
    | none => simp [ih]
    | some s' =>
      simp only []
      cases hk : k s' with
      | none => simp [ih]
      | some r => simp

theorem matchSimples_lits (v : List Char) :
    ∀ s, matchSimples (v.map .lit) s = if v.isPrefixOf s then some (s.drop v.length) else none := by
  induction v with
  | nil => intro s; simp [matchSimples]
  | cons a t ih =>
    intro s
    cases s with
    | nil => simp [matchSimples]
    | cons c r =>
      simp only [List.map_cons, matchSimples, Simple.mem, List.isPrefixOf, List.length_cons,
        List.drop_succ_cons]
      rw [ih r]
      by_cases hca : c = a
      · subst hca; simp
      · simp [hca, Ne.symm hca]

theorem noSeq_of_not_multi {it : BracketItem} (h : it.multi = false) : itemSeq it = none := by
  cases it with
  | atom a =>
    cases a with
    | char c => rfl
    | collating v =>
      simp [BracketItem.multi, BracketAtom.multi] at h
      simp [itemSeq]; omega
    | equiv v =>
      simp [BracketItem.multi, BracketAtom.multi] at h
      simp [itemSeq]; omega
    | cls n => rfl
  | range s e => rfl

theorem itemHas_of_multi {it : BracketItem} (h : it.multi = true) (c : Char) : itemHas it c = false := by
  cases it with
  | atom a =>
    cases a with
    | char c => simp [BracketItem.multi, BracketAtom.multi] at h
    | collating v =>
      simp [BracketItem.multi, BracketAtom.multi] at h
      simp only [itemHas, atomHas]
      match v, h with
      | a :: b :: t, _ => simp
    | equiv v =>
      simp [BracketItem.multi, BracketAtom.multi] at h
      simp only [itemHas, atomHas]
      match v, h with
      | a :: b :: t, _ => simp
    | cls n => simp [BracketItem.multi, BracketAtom.multi] at h
  | range s e => simp [BracketItem.multi] at h

theorem alt_item_sem {it : BracketItem} {b : List Simple} (h : cAlt it = some b) (s : List Char)
    (K : List Char → Bool) :
    (match matchSimples b s with
     | some s' => K s'
     | none => false) = itemOk it s K := by
  unfold cAlt at h
  split at h
  · rename_i hm
    have hv : ∀ v : List Char, 1 < v.length → b = v.map .lit → itemHas it = (fun _ => false) →
        itemSeq it = some v →
        (match matchSimples b s with
         | some s' => K s'
         | none => false) = itemOk it s K := by
      intro v _ hb hh hs
      subst hb
      rw [matchSimples_lits]
      simp only [itemOk, headOk, seqOk, hh, hs]
      cases s <;> cases hp : v.isPrefixOf _ <;> simp
    cases it with
    | atom a =>
      cases a with
      | char c => simp at h
      | collating v =>
        simp at h
        have hl : 1 < v.length := by simpa [BracketItem.multi, BracketAtom.multi] using hm
        refine hv v hl h.symm (funext fun c => itemHas_of_multi hm c) ?_
        simp [itemSeq]; omega
      | equiv v =>
        simp at h
        have hl : 1 < v.length := by simpa [BracketItem.multi, BracketAtom.multi] using hm
        refine hv v hl h.symm (funext fun c => itemHas_of_multi hm c) ?_
        simp [itemSeq]; omega
      | cls n => simp at h
    | range s e => simp at h
  · rename_i hm
    have hm' : it.multi = false := by simpa using hm
    cases hci : cItem it with
    | none => simp [hci] at h
    | some ci =>
      simp [hci] at h
      subst h
      have hseq : itemSeq it = none := noSeq_of_not_multi hm'
      cases s with
      | nil => simp [matchSimples, itemOk, headOk, seqOk, hseq]
      | cons c t =>
        simp only [matchSimples, Simple.mem, Cls.mem, itemOk, headOk, seqOk, hseq, List.any_cons, List.any_nil,
          Bool.or_false, Bool.bne_false]
        rw [cItem_mem hci c]
        cases itemHas it c <;> simp [matchSimples]

theorem alts_sem {items : List BracketItem} {bs : List (List Simple)} (h : cAlts items = some bs)
    (k : List Char → Option (List Char)) (s : List Char) :
    bs.any (fun b => match matchSimples b s with
      | some s' => (k s').isSome
      | none => false) = items.any (fun it => itemOk it s (fun s' => (k s').isSome)) := by
  induction items generalizing bs with
  | nil => simp [cAlts] at h; subst h; simp
  | cons it rest ih =>
    simp only [cAlts] at h
    split at h
    · rename_i a b ha hb
      simp at h; subst h
      simp only [List.any_cons]
      rw [ih hb, alt_item_sem ha s (fun s' => (k s').isSome)]
    · simp at h

theorem any_filterMap' {α β : Type} (f : α → Option β) (K : β → Bool) (l : List α) :
    (l.filterMap f).any K = l.any (fun x => match f x with
      | some y => K y
      | none => false) := by
  induction l with
  | nil => rfl
  | cons a t ih =>
    simp only [List.filterMap_cons, List.any_cons]
    cases f a <;> simp [ih]

theorem any_or' {α : Type} (p q : α → Bool) (l : List α) :
    l.any (fun x => p x || q x) = (l.any p || l.any q) := by
  induction l with
  | nil => rfl
  | cons a t ih =>
    simp only [List.any_cons, ih]
    cases p a <;> cases q a <;> cases t.any p <;> cases t.any q <;> rfl

theorem any_and_const {α : Type} (p : α → Bool) (q : Bool) (l : List α) :
    l.any (fun x => p x && q) = (l.any p && q) := by
  cases q <;> simp

/-- the Spec's rests of a non-complemented bracket, item by item -/
theorem bracketRests_pos {b : Bracket} (hc : b.complement = false) (K : List Char → Bool) (s : List Char) :
    (bracketRests b s).any K = b.items.any (fun it => itemOk it s K) := by
  unfold bracketRests
  rw [hc]
  simp only [Bool.false_eq_true, if_false, List.any_append, Bool.bne_false]
  have e : (fun it => itemOk it s K) = (fun it => headOk it s K || seqOk it s K) := rfl
  rw [e, any_or', any_filterMap']
  congr 1
  · cases s with
    | nil => simp [headOk]
    | cons c t =>
      simp only [headOk]
      rw [any_and_const]
      cases b.items.any (itemHas · c) <;> simp
  · congr 1
    funext it
    simp only [seqOk]
    cases itemSeq it with
    | none => rfl
    | some v => by_cases hp : v.isPrefixOf s = true <;> simp [hp]

end YashModel.Fnmatch
