/-
  C04 — helper lemmas, part 11 (extension round): the hand-written tables of the model against
  (a) the tables re-extracted on every run from the regex-syntax crate the harness links
      (`is_meta_character`, `ClassAsciiKind::from_name`, `hir::translate::ascii_class`) and from /repo
      (Config fields, Error variants, RegexBuilder options, written literals, trim / case configurations), and
  (b) the POSIX-locale class lists of the Spec.
-/
import YashModel.Fnmatch.Model
import YashModel.Fnmatch.Spec
import YashModel.Generated.FnmatchConfig
import YashModel.Generated.FnmatchRegexSyntax

namespace YashModel.Fnmatch
open YashModel.Generated

/-- byte ranges the regex crate gives the class `k` (by its name) -/
def rangesOfKind (k : AsciiKind) : List (Nat × Nat) :=
  ((FnmatchRegexSyntax.asciiClasses.find? (fun x => x.1.toList == k.name)).map (·.2)).getD []

def inRanges (rs : List (Nat × Nat)) (c : Char) : Bool := rs.any fun r => r.1 ≤ c.toNat && c.toNat ≤ r.2

/-- the `Config` with exactly the named flags set -/
def cfgOfFlags (fs : List String) : Config :=
  { anchorBegin := fs.contains "anchor_begin", anchorEnd := fs.contains "anchor_end",
    literalPeriod := fs.contains "literal_period", shortest := fs.contains "shortest_match" }

/-- the flags the model's `Config` has -/
def modelledFlags : List String := ["anchor_begin", "anchor_end", "literal_period", "shortest_match"]

def sideFlags : TrimSide → List String
  | .prefix => FnmatchConfig.trimPrefixFlags
  | .suffix => FnmatchConfig.trimSuffixFlags

def lengthFlags : TrimLength → List String
  | .shortest => FnmatchConfig.trimShortestFlags
  | .longest => FnmatchConfig.trimLongestFlags

namespace Proofs

theorem mem_all (k : AsciiKind) : k ∈ AsciiKind.all := by cases k <;> decide

set_option maxRecDepth 100000 in
theorem kinds_low : ∀ k ∈ AsciiKind.all, ∀ n, n < 128 →
    k.mem (Char.ofNat n) = inRanges (rangesOfKind k) (Char.ofNat n) := by decide

theorem kinds_bound : ∀ k ∈ AsciiKind.all, ∀ r ∈ rangesOfKind k, r.2 < 128 := by decide

theorem kinds_mem_ranges (k : AsciiKind) (c : Char) : k.mem c = inRanges (rangesOfKind k) c := by
  by_cases h : c.toNat < 128
  · have := kinds_low k (mem_all k) c.toNat h
    rwa [Char.ofNat_toNat] at this
  · have h1 : k.mem c = false := by
      cases k <;> simp [AsciiKind.mem, inR] <;> omega
    rw [h1]
    symm
    unfold inRanges
    rw [List.any_eq_false]
    intro r hr
    have := kinds_bound k (mem_all k) r hr
    simp
    omega

theorem mem_map_toNat (c : Char) (l : List Char) : c ∈ l ↔ c.toNat ∈ l.map Char.toNat := by
  induction l with
  | nil => simp
  | cons d r ih =>
    simp only [List.mem_cons, List.map_cons, ih]
    constructor
    · rintro (h | h)
      · exact Or.inl (by rw [h])
      · exact Or.inr h
    · rintro (h | h)
      · exact Or.inl (Char.toNat_inj.mp h)
      · exact Or.inr h

theorem kind_high (k : AsciiKind) (c : Char) (h : ¬ c.toNat < 128) : k.mem c = false := by
  cases k <;> simp [AsciiKind.mem, inR] <;> omega

/-- a class of the model = a list of ASCII characters, checked on the code points 0..127 -/
theorem kind_eq_list (k : AsciiKind) (l : List Char)
    (hl : ∀ x ∈ l.map Char.toNat, x < 128)
    (hd : ∀ n, n < 128 → decide (n ∈ l.map Char.toNat) = k.mem (Char.ofNat n)) (c : Char) :
    k.mem c = decide (c ∈ l) := by
  have e : decide (c ∈ l) = decide (c.toNat ∈ l.map Char.toNat) := by
    rw [Bool.eq_iff_iff]; simp only [decide_eq_true_eq]; exact mem_map_toNat c l
  rw [e]
  by_cases h : c.toNat < 128
  · have := hd _ h
    rw [Char.ofNat_toNat] at this
    exact this.symm
  · rw [kind_high k c h]
    symm
    simp only [decide_eq_false_iff_not]
    intro hm
    exact h (hl _ hm)

set_option maxRecDepth 100000 in
theorem posix_alnum (c : Char) : AsciiKind.alnum.mem c = decide (c ∈ posixAlnum) :=
  kind_eq_list _ _ (by decide) (by decide) c

set_option maxRecDepth 100000 in
theorem posix_alpha (c : Char) : AsciiKind.alpha.mem c = decide (c ∈ posixAlpha) :=
  kind_eq_list _ _ (by decide) (by decide) c

set_option maxRecDepth 100000 in
theorem posix_blank (c : Char) : AsciiKind.blank.mem c = decide (c ∈ posixBlank) :=
  kind_eq_list _ _ (by decide) (by decide) c

set_option maxRecDepth 100000 in
theorem posix_cntrl (c : Char) : AsciiKind.cntrl.mem c = decide (c ∈ posixCntrl) :=
  kind_eq_list _ _ (by decide) (by decide) c

set_option maxRecDepth 100000 in
theorem posix_digit (c : Char) : AsciiKind.digit.mem c = decide (c ∈ posixDigit) :=
  kind_eq_list _ _ (by decide) (by decide) c

set_option maxRecDepth 100000 in
theorem posix_graph (c : Char) : AsciiKind.graph.mem c = decide (c ∈ posixGraph) :=
  kind_eq_list _ _ (by decide) (by decide) c

set_option maxRecDepth 100000 in
theorem posix_lower (c : Char) : AsciiKind.lower.mem c = decide (c ∈ posixLower) :=
  kind_eq_list _ _ (by decide) (by decide) c

set_option maxRecDepth 100000 in
theorem posix_print (c : Char) : AsciiKind.print.mem c = decide (c ∈ posixPrint) :=
  kind_eq_list _ _ (by decide) (by decide) c

set_option maxRecDepth 100000 in
theorem posix_punct (c : Char) : AsciiKind.punct.mem c = decide (c ∈ posixPunct) :=
  kind_eq_list _ _ (by decide) (by decide) c

set_option maxRecDepth 100000 in
theorem posix_space (c : Char) : AsciiKind.space.mem c = decide (c ∈ posixSpace) :=
  kind_eq_list _ _ (by decide) (by decide) c

set_option maxRecDepth 100000 in
theorem posix_upper (c : Char) : AsciiKind.upper.mem c = decide (c ∈ posixUpper) :=
  kind_eq_list _ _ (by decide) (by decide) c

set_option maxRecDepth 100000 in
theorem posix_xdigit (c : Char) : AsciiKind.xdigit.mem c = decide (c ∈ posixXdigit) :=
  kind_eq_list _ _ (by decide) (by decide) c

theorem posix_class_mem (name members : List Char) (h : posixClass name = some members) :
    ∃ k, asciiKind name = some k ∧ ∀ c, k.mem c = decide (c ∈ members) := by
  unfold posixClass at h
  by_cases hn : name = "alnum".toList
  · rw [if_pos hn] at h
    simp only [Option.some.injEq] at h
    subst h; subst hn
    exact ⟨.alnum, by decide, posix_alnum⟩
  rw [if_neg hn] at h
  clear hn
  by_cases hn : name = "alpha".toList
  · rw [if_pos hn] at h
    simp only [Option.some.injEq] at h
    subst h; subst hn
    exact ⟨.alpha, by decide, posix_alpha⟩
  rw [if_neg hn] at h
  clear hn
  by_cases hn : name = "blank".toList
  · rw [if_pos hn] at h
    simp only [Option.some.injEq] at h
    subst h; subst hn
    exact ⟨.blank, by decide, posix_blank⟩
  rw [if_neg hn] at h
  clear hn
  by_cases hn : name = "cntrl".toList
  · rw [if_pos hn] at h
    simp only [Option.some.injEq] at h
    subst h; subst hn
    exact ⟨.cntrl, by decide, posix_cntrl⟩
  rw [if_neg hn] at h
  clear hn
  by_cases hn : name = "digit".toList
  · rw [if_pos hn] at h
    simp only [Option.some.injEq] at h
    subst h; subst hn
    exact ⟨.digit, by decide, posix_digit⟩
  rw [if_neg hn] at h
  clear hn
  by_cases hn : name = "graph".toList
  · rw [if_pos hn] at h
    simp only [Option.some.injEq] at h
    subst h; subst hn
    exact ⟨.graph, by decide, posix_graph⟩
  rw [if_neg hn] at h
  clear hn
  by_cases hn : name = "lower".toList
  · rw [if_pos hn] at h
    simp only [Option.some.injEq] at h
    subst h; subst hn
    exact ⟨.lower, by decide, posix_lower⟩
  rw [if_neg hn] at h
  clear hn
  by_cases hn : name = "print".toList
  · rw [if_pos hn] at h
    simp only [Option.some.injEq] at h
    subst h; subst hn
    exact ⟨.print, by decide, posix_print⟩
  rw [if_neg hn] at h
  clear hn
  by_cases hn : name = "punct".toList
  · rw [if_pos hn] at h
    simp only [Option.some.injEq] at h
    subst h; subst hn
    exact ⟨.punct, by decide, posix_punct⟩
  rw [if_neg hn] at h
  clear hn
  by_cases hn : name = "space".toList
  · rw [if_pos hn] at h
    simp only [Option.some.injEq] at h
    subst h; subst hn
    exact ⟨.space, by decide, posix_space⟩
  rw [if_neg hn] at h
  clear hn
  by_cases hn : name = "upper".toList
  · rw [if_pos hn] at h
    simp only [Option.some.injEq] at h
    subst h; subst hn
    exact ⟨.upper, by decide, posix_upper⟩
  rw [if_neg hn] at h
  clear hn
  by_cases hn : name = "xdigit".toList
  · rw [if_pos hn] at h
    simp only [Option.some.injEq] at h
    subst h; subst hn
    exact ⟨.xdigit, by decide, posix_xdigit⟩
  rw [if_neg hn] at h
  clear hn
  simp at h

theorem names_agree :
    FnmatchRegexSyntax.asciiClasses.map (·.1.toList) = AsciiKind.all.map AsciiKind.name := by decide

theorem escapable_agree :
    (∀ c ∈ escapable, c ∈ FnmatchRegexSyntax.metaChars) ∧ (∀ c ∈ FnmatchRegexSyntax.metaChars, c ∈ escapable) := by
  decide

theorem config_tables :
    FnmatchConfig.configFields =
      ["anchor_begin", "anchor_end", "case_insensitive", "literal_period", "shortest_match"] ∧
    FnmatchConfig.errorVariants =
      ["CharClassInRange", "EmptyBracket", "EmptyCollatingSymbol", "RegexError", "UndefinedCharClass"] ∧
    FnmatchConfig.regexBuilderFlags =
      [("case_insensitive", "config.case_insensitive"), ("dot_matches_new_line", "true"),
       ("swap_greed", "config.shortest_match")] ∧
    FnmatchConfig.emittedLiterals =
      ["(?:", ")", "-", ".", ".*", "[", "[^", "\\", "\\A", "\\z", "]", "^", "fmt:[:{class}:]", "|"] := by
  decide

theorem callers_table :
    FnmatchConfig.fnmatchCallers =
      ["yash-semantics/src/command/compound_command/case.rs", "yash-semantics/src/expansion/attr_fnmatch.rs",
       "yash-semantics/src/expansion/glob.rs", "yash-semantics/src/expansion/initial/param/trim.rs"] ∧
    FnmatchConfig.caseInsensitiveUsers = [] := by decide

theorem trimConfig_table (side : TrimSide) (len : TrimLength) :
    trimConfig side len = cfgOfFlags (sideFlags side ++ lengthFlags len) ∧
    ∀ f ∈ sideFlags side ++ lengthFlags len, f ∈ modelledFlags := by
  cases side <;> cases len <;> decide

theorem caseConfig_table :
    caseConfig = cfgOfFlags FnmatchConfig.caseConfigFlags ∧
    ∀ f ∈ FnmatchConfig.caseConfigFlags, f ∈ modelledFlags := by decide

end Proofs

end YashModel.Fnmatch
