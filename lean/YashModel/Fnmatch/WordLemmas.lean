/-
  C04 wave 3 — lemmas about pattern words: `to_pattern_chars ∘ apply_escapes` on attributed characters = quote removal
  + XCU 2.13.1 (`toPatternChars_applyEscapes`), and quote removal on what `expand` yields for a word = the Spec's
  marked characters (`attrMarks_wordAttrs`, mutual induction over the four syntactic categories).
-/
import YashModel.Fnmatch.WordSpec

namespace YashModel.Fnmatch

/-! ## `apply_escapes` + `to_pattern_chars` = quote removal + XCU 2.13.1 on the marked characters -/

theorem attrMarks_cons (a : AttrChar) (t : List AttrChar) :
    attrMarks (a :: t) = if a.isQuoting then attrMarks t else (a.value, a.isQuoted) :: attrMarks t := by
  unfold attrMarks
  cases h : a.isQuoting <;> simp [h]

theorem toPatternChars_cons (a : AttrChar) (t : List AttrChar) :
    toPatternChars (a :: t) =
      if a.isQuoting then toPatternChars t
      else (if a.isQuoted then PatternChar.literal a.value else .normal a.value) :: toPatternChars t := by
  unfold toPatternChars
  cases h1 : a.isQuoting <;> cases h2 : a.isQuoted <;> simp [h1, h2]

theorem attrMarks_nil_iff (t : List AttrChar) : attrMarks t = [] ↔ t.any (fun c => !c.isQuoting) = false := by
  induction t with
  | nil => simp [attrMarks]
  | cons a r ih =>
    rw [attrMarks_cons, List.any_cons]
    cases h : a.isQuoting <;> simp [h, ih]

/-- the statement with the `quoteThis` flag of the loop -/
theorem toPatternChars_aux (cs : List AttrChar) : ∀ (qt : Bool),
    toPatternChars (applyEscapesAux qt cs) =
      if qt then (match attrMarks cs with
        | [] => []
        | m :: t => .literal m.1 :: escapeMarked t)
      else escapeMarked (attrMarks cs) := by
  induction cs with
  | nil => intro qt; cases qt <;> simp [applyEscapesAux, toPatternChars, attrMarks, escapeMarked]
  | cons a t ih =>
    intro qt
    have ihf := ih false
    simp only [Bool.false_eq_true, if_false] at ihf
    rw [applyEscapesAux]
    by_cases haq : a.isQuoting = true
    · simp only [haq, if_true, toPatternChars_cons, attrMarks_cons]
      exact ih qt
    · have haq : a.isQuoting = false := by cases h : a.isQuoting <;> simp_all
      simp only [haq, Bool.false_eq_true, if_false]
      cases qt with
      | true =>
        simp [toPatternChars_cons, attrMarks_cons, haq, ihf]
      | false =>
        simp only [Bool.false_eq_true, if_false]
        by_cases hesc : a.value = '\\' ∧ a.isQuoted = false ∧ t.any (fun c => !c.isQuoting) = true
        · obtain ⟨hv, hqd, hany⟩ := hesc
          have iht := ih true
          simp only [if_true] at iht
          have hne : attrMarks t ≠ [] := by
            intro h; rw [(attrMarks_nil_iff t).1 h] at hany; cases hany
          rw [if_pos ⟨hv, hqd, hany⟩]
          simp only [toPatternChars_cons, if_true, iht, attrMarks_cons, haq, Bool.false_eq_true, if_false]
          cases hm : attrMarks t with
          | nil => exact absurd hm hne
          | cons m r => simp [escapeMarked, hv, hqd]
        · rw [if_neg hesc]
          simp only [toPatternChars_cons, haq, attrMarks_cons, Bool.false_eq_true, if_false, ihf]
          cases hm : attrMarks t with
          | nil => simp [escapeMarked, markChar]
          | cons d r =>
            have hany : t.any (fun c => !c.isQuoting) = true := by
              cases h : t.any (fun c => !c.isQuoting) with
              | true => rfl
              | false => rw [(attrMarks_nil_iff t).2 h] at hm; cases hm
            by_cases hv : a.value = '\\'
            · by_cases hq2 : a.isQuoted = true
              · simp [escapeMarked, markChar, hq2]
              · have hq2 : a.isQuoted = false := by cases h : a.isQuoted <;> simp_all
                exact absurd ⟨hv, hq2, hany⟩ hesc
            · simp [escapeMarked, markChar, hv]

/-- ★ for EVERY sequence of attributed characters: `to_pattern_chars` after `apply_escapes` = quote removal, then
    XCU 2.13.1 (no exception since fix 9da0f0e) -/
theorem toPatternChars_applyEscapes (cs : List AttrChar) :
    toPatternChars (applyEscapes cs) = escapeMarked (attrMarks cs) := by
  have := toPatternChars_aux cs false
  simpa [applyEscapes] using this

/-! ## the word: quote removal on what `expand` yields = the Spec's marked characters -/

/-- quote removal on the full attributed characters -/
def pMarks (cs : List PAttrChar) : List (Char × Bool) := attrMarks (cs.map PAttrChar.reduce)

theorem attrMarks_append (a b : List AttrChar) : attrMarks (a ++ b) = attrMarks a ++ attrMarks b := by
  simp [attrMarks]

theorem pMarks_append (a b : List PAttrChar) : pMarks (a ++ b) = pMarks a ++ pMarks b := by
  simp [pMarks, attrMarks_append]

theorem pMarks_attribute (cs : List PAttrChar) : pMarks (cs.map pAttribute) = pMarks cs := by
  unfold pMarks
  congr 1
  simp only [List.map_map]
  apply List.map_congr_left
  intro c _
  simp only [Function.comp, pAttribute, PAttrChar.reduce]
  cases c.origin <;> rfl

def setTrue (m : Char × Bool) : Char × Bool := (m.1, true)

theorem pMarks_setQuoted (cs : List PAttrChar) : pMarks (cs.map pSetQuoted) = (pMarks cs).map setTrue := by
  induction cs with
  | nil => rfl
  | cons c t ih =>
    simp only [pMarks, List.map_cons, attrMarks_cons] at ih ⊢
    simp only [PAttrChar.reduce, pSetQuoted]
    by_cases h : c.isQuoting = true
    · simp only [h, if_true]; exact ih
    · simp only [h, ih]; simp [setTrue]

theorem pMarks_quote (c : Char) : pMarks [pQuoteChar c] = [] := by
  simp [pMarks, attrMarks, pQuoteChar, PAttrChar.reduce]

theorem pMarks_quotedLits (s : List Char) : pMarks (s.map pQuotedLit) = s.map fun c => (c, true) := by
  induction s with
  | nil => rfl
  | cons c t ih =>
    unfold pMarks at ih ⊢
    simp only [List.map_cons, attrMarks_cons, ih]
    simp [pQuotedLit, PAttrChar.reduce]

theorem pMarks_param (v : List Char) :
    pMarks (v.map fun c => { value := c, origin := .softExpansion, isQuoted := false, isQuoting := false })
      = v.map fun c => (c, false) := by
  induction v with
  | nil => rfl
  | cons c t ih =>
    unfold pMarks at ih ⊢
    simp only [List.map_cons, attrMarks_cons, ih]
    simp [PAttrChar.reduce]

mutual
  theorem PTextUnit.marks_true : ∀ (u : PTextUnit), ∀ m ∈ u.marks true, m.2 = true
    | .lit c => by simp [PTextUnit.marks]
    | .bs c => by simp [PTextUnit.marks]
    | .param v => by simp [PTextUnit.marks]
    | .alt w => by simpa [PTextUnit.marks] using PWord.marks_true w
  theorem PText.marks_true : ∀ (t : PText), ∀ m ∈ t.marks true, m.2 = true
    | .nil => by simp [PText.marks]
    | .cons u t => by
      intro m hm
      simp only [PText.marks, List.mem_append] at hm
      rcases hm with h | h
      · exact PTextUnit.marks_true u m h
      · exact PText.marks_true t m h
  theorem PWordUnit.marks_true : ∀ (u : PWordUnit), ∀ m ∈ u.marks true, m.2 = true
    | .unq u => by simpa [PWordUnit.marks] using PTextUnit.marks_true u
    | .sq s => by simp [PWordUnit.marks]
    | .dq t => by simpa [PWordUnit.marks] using PText.marks_true t
  theorem PWord.marks_true : ∀ (w : PWord), ∀ m ∈ w.marks true, m.2 = true
    | .nil => by simp [PWord.marks]
    | .cons u w => by
      intro m hm
      simp only [PWord.marks, List.mem_append] at hm
      rcases hm with h | h
      · exact PWordUnit.marks_true u m h
      · exact PWord.marks_true w m h
end

theorem map_setTrue_of_all (l : List (Char × Bool)) (h : ∀ m ∈ l, m.2 = true) : l.map setTrue = l := by
  induction l with
  | nil => rfl
  | cons m t ih =>
    have h1 := h m (by simp)
    simp only [List.map_cons, setTrue]
    rw [ih (fun x hx => h x (by simp [hx]))]
    congr 1
    cases m; simp_all

mutual
  theorem PTextUnit.marks_quoted : ∀ (u : PTextUnit), (u.marks false).map setTrue = u.marks true
    | .lit c => by simp [PTextUnit.marks, setTrue]
    | .bs c => by simp [PTextUnit.marks, setTrue]
    | .param v => by simp [PTextUnit.marks, setTrue, Function.comp_def]
    | .alt w => by simpa [PTextUnit.marks] using PWord.marks_quoted w
  theorem PText.marks_quoted : ∀ (t : PText), (t.marks false).map setTrue = t.marks true
    | .nil => by simp [PText.marks]
    | .cons u t => by simp [PText.marks, PTextUnit.marks_quoted u, PText.marks_quoted t]
  theorem PWordUnit.marks_quoted : ∀ (u : PWordUnit), (u.marks false).map setTrue = u.marks true
    | .unq u => by simpa [PWordUnit.marks] using PTextUnit.marks_quoted u
    | .sq s => by simp [PWordUnit.marks, setTrue, Function.comp_def]
    | .dq t => by
      simp only [PWordUnit.marks]
      exact map_setTrue_of_all _ (PText.marks_true t)
  theorem PWord.marks_quoted : ∀ (w : PWord), (w.marks false).map setTrue = w.marks true
    | .nil => by simp [PWord.marks]
    | .cons u w => by simp [PWord.marks, PWordUnit.marks_quoted u, PWord.marks_quoted w]
end

mutual
  theorem PTextUnit.expand_marks : ∀ (u : PTextUnit), pMarks u.expand = u.marks false
    | .lit c => by simp [PTextUnit.expand, PTextUnit.marks, pMarks, attrMarks, PAttrChar.reduce]
    | .bs c => by
      simp [PTextUnit.expand, PTextUnit.marks, pMarks, attrMarks, PAttrChar.reduce, pQuoteChar, pQuotedLit]
    | .param v => by
      simp only [PTextUnit.expand, PTextUnit.marks, pMarks_param]
    | .alt w => by
      simp only [PTextUnit.expand, PTextUnit.marks, pMarks_attribute]
      exact PWord.expand_marks w
  theorem PText.expand_marks : ∀ (t : PText), pMarks t.expand = t.marks false
    | .nil => by simp [PText.expand, PText.marks, pMarks, attrMarks]
    | .cons u t => by
      simp only [PText.expand, PText.marks, pMarks_append, PTextUnit.expand_marks u, PText.expand_marks t]
  theorem PWordUnit.expand_marks : ∀ (u : PWordUnit), pMarks u.expand = u.marks false
    | .unq u => by simpa [PWordUnit.expand, PWordUnit.marks] using PTextUnit.expand_marks u
    | .sq s => by
      simp only [PWordUnit.expand, PWordUnit.marks, pMarks_append, pMarks_quote, pMarks_quotedLits]
      simp
    | .dq t => by
      simp only [PWordUnit.expand, PWordUnit.marks, pMarks_append, pMarks_quote, pMarks_setQuoted,
        PText.expand_marks t, PText.marks_quoted t]
      simp
  theorem PWord.expand_marks : ∀ (w : PWord), pMarks w.expand = w.marks false
    | .nil => by simp [PWord.expand, PWord.marks, pMarks, attrMarks]
    | .cons u w => by
      simp only [PWord.expand, PWord.marks, pMarks_append, PWordUnit.expand_marks u, PWord.expand_marks w]
end

/-- ★ quote removal on the attributed characters of a word = the Spec's marked characters -/
theorem attrMarks_wordAttrs (w : PWord) : attrMarks (wordAttrs w) = w.marks false :=
  PWord.expand_marks w

/-! ## where the hypothesis holds; wholly quoted words -/

theorem noEscapedMark_of_marks (cs : List AttrChar) (h : (attrMarks cs).all (fun m => !rawBackslash m) = true) :
    noEscapedMark cs = true := by
  induction cs with
  | nil => rfl
  | cons a t ih =>
    rw [attrMarks_cons] at h
    cases t with
    | nil => rfl
    | cons b t' =>
      cases haq : a.isQuoting with
      | true =>
        rw [haq] at h; simp only [if_true] at h
        simp [noEscapedMark, haq, ih h]
      | false =>
        rw [haq] at h; simp only [Bool.false_eq_true, if_false, List.all_cons, Bool.and_eq_true] at h
        have h1 := h.1
        simp only [rawBackslash] at h1
        simp only [noEscapedMark, ih h.2, Bool.and_true]
        cases hq : a.isQuoted <;> simp_all

theorem escapeMarked_no_raw (ms : List (Char × Bool)) (h : ms.all (fun m => !rawBackslash m) = true) :
    escapeMarked ms = ms.map markChar := by
  induction ms with
  | nil => rfl
  | cons m t ih =>
    simp only [List.all_cons, Bool.and_eq_true] at h
    cases t with
    | nil => rfl
    | cons d r =>
      have hm : ¬ (m.1 = '\\' ∧ m.2 = false) := by
        intro hh; have := h.1; simp [rawBackslash, hh.1, hh.2] at this
      rw [escapeMarked, if_neg hm, ih h.2]; rfl

theorem markChar_quoted (ms : List (Char × Bool)) (h : ∀ m ∈ ms, m.2 = true) :
    ms.map markChar = (ms.map Prod.fst).map PatternChar.literal := by
  induction ms with
  | nil => rfl
  | cons m t ih =>
    simp only [List.map_cons, ih (fun x hx => h x (by simp [hx]))]
    simp [markChar, h m (by simp)]

/-! ## the index loop of `apply_escapes` = the recursion -/

theorem markFirst_length (t : List AttrChar) : (markFirst t).length = t.length := by
  induction t with
  | nil => rfl
  | cons c r ih => unfold markFirst; split <;> simp [ih]

theorem applyEscapesAux_true (t : List AttrChar) :
    applyEscapesAux true t = applyEscapesAux false (markFirst t) := by
  induction t with
  | nil => rfl
  | cons c r ih =>
    by_cases hq : c.isQuoting = true
    · simp [applyEscapesAux, markFirst, hq, ih]
    · have hq : c.isQuoting = false := by cases h : c.isQuoting <;> simp_all
      simp [applyEscapesAux, markFirst, hq]

theorem escLoop : ∀ (n : Nat) (t : List AttrChar), t.length = n → ∀ (pre : List AttrChar),
    (List.range' pre.length t.length).foldl escStep (pre ++ t) = pre ++ applyEscapesAux false t := by
  intro n
  induction n with
  | zero =>
    intro t ht pre
    have : t = [] := List.eq_nil_of_length_eq_zero ht
    subst this; simp [applyEscapesAux]
  | succ n ih =>
    intro t ht pre
    cases t with
    | nil => simp at ht
    | cons a t' =>
    have hlen : t'.length = n := by simpa using ht
    have hr : List.range' pre.length (a :: t').length = pre.length :: List.range' (pre.length + 1) t'.length := by
      simp [List.range'_succ]
    rw [hr, List.foldl_cons]
    have ha : (pre ++ a :: t')[pre.length]? = some a := by simp
    have hd : (pre ++ a :: t').drop (pre.length + 1) = t' := by simp
    have htk : (pre ++ a :: t').take pre.length = pre := by simp
    by_cases hc : a.value = '\\' ∧ a.isQuoting = false ∧ a.isQuoted = false ∧ t'.any (fun c => !c.isQuoting) = true
    · have hs : escStep (pre ++ a :: t') pre.length = (pre ++ [{ a with isQuoting := true }]) ++ markFirst t' := by
        unfold escStep
        rw [ha]; simp only [hd, htk, if_pos hc]; simp
      have h2 := ih (markFirst t') (by rw [markFirst_length, hlen]) (pre ++ [{ a with isQuoting := true }])
      simp only [List.length_append, List.length_cons, List.length_nil, markFirst_length] at h2
      rw [hs, h2, ← applyEscapesAux_true]
      have e : applyEscapesAux false (a :: t') = { a with isQuoting := true } :: applyEscapesAux true t' := by
        rw [applyEscapesAux]
        simp only [hc.2.1, Bool.false_eq_true, if_false]
        rw [if_pos ⟨hc.1, hc.2.2.1, hc.2.2.2⟩]
      rw [e]; simp
    · have hs : escStep (pre ++ a :: t') pre.length = (pre ++ [a]) ++ t' := by
        unfold escStep
        rw [ha]; simp only [hd, htk, if_neg hc]; simp
      have h2 := ih t' hlen (pre ++ [a])
      simp only [List.length_append, List.length_cons, List.length_nil] at h2
      rw [hs, h2]
      have e : applyEscapesAux false (a :: t') = a :: applyEscapesAux false t' := by
        rw [applyEscapesAux]
        by_cases hq : a.isQuoting = true
        · simp [hq]
        · have hq : a.isQuoting = false := by cases h : a.isQuoting <;> simp_all
          simp only [hq, Bool.false_eq_true, if_false]
          rw [if_neg (fun h => hc ⟨h.1, hq, h.2.1, h.2.2⟩)]
      rw [e]; simp

/-- the index loop of the Rust code = the recursion of the model -/
theorem applyEscapesIdx_eq (cs : List AttrChar) : applyEscapesIdx cs = applyEscapes cs := by
  have := escLoop cs.length cs rfl []
  simpa [applyEscapesIdx, applyEscapes] using this

/-! ## `escapeMarked` on a quoted prefix and on a wholly unquoted text -/

theorem escapeMarked_unquoted : ∀ p : List Char, escapeMarked (p.map fun c => (c, false)) = escapeChars p
  | [] => rfl
  | [c] => by simp [escapeMarked, escapeChars, markChar]
  | c :: d :: t => by
    have ih1 := escapeMarked_unquoted t
    have ih2 := escapeMarked_unquoted (d :: t)
    by_cases hc : c = '\\'
    · simp [escapeMarked, escapeChars, hc, ih1]
    · simp only [List.map_cons] at ih2 ⊢
      rw [escapeMarked]
      simp [escapeChars, hc, markChar, ih2]

theorem escapeMarked_quoted_prefix (q : List Char) (ms : List (Char × Bool)) :
    escapeMarked ((q.map fun c => (c, true)) ++ ms) = q.map .literal ++ escapeMarked ms := by
  induction q with
  | nil => rfl
  | cons c t ih =>
    cases ht : (t.map fun c => (c, true)) ++ ms with
    | nil =>
      have : t = [] ∧ ms = [] := by simpa using ht
      obtain ⟨rfl, rfl⟩ := this
      simp [escapeMarked, markChar]
    | cons d r =>
      rw [ht] at ih
      simp only [List.map_cons, List.cons_append, ht]
      rw [escapeMarked]
      simp [markChar, ih]

end YashModel.Fnmatch
