/-
  C04 — Impl model of yash-fnmatch (pattern characters, parser, translation to regex text, the subset
  of the regex crate's syntax that the translation can emit, `Pattern::{is_match, find, rfind}`) and of
  `trim_value` / `apply_escapes` / `to_pattern_chars` of yash-semantics.

  Strings are `List Char`; positions are character indices (the driver converts to byte offsets).
  Import-free apart from the generated escaping tables.
-/
import YashModel.Generated.FnmatchTables

namespace YashModel.Fnmatch
open YashModel.Generated.FnmatchTables

/-! ## char_iter.rs -/

/-- `PatternChar` -/
inductive PatternChar where
  | normal (c : Char)
  | literal (c : Char)
  deriving DecidableEq, Repr

/-- `PatternChar::char_value` -/
def PatternChar.charValue : PatternChar → Char
  | .normal c => c
  | .literal c => c

/-- `with_escape`: a backslash makes the next character `Literal`; a trailing backslash yields nothing. -/
def withEscape : List Char → List PatternChar
  | [] => []
  | [c] => if c = '\\' then [] else [.normal c]
  | c :: d :: t => if c = '\\' then .literal d :: withEscape t else .normal c :: withEscape (d :: t)

/-- `without_escape` -/
def withoutEscape (s : List Char) : List PatternChar := s.map .normal

/-! ## ast.rs -/

inductive BracketAtom where
  | char (c : Char)
  | collating (v : List Char)
  | equiv (v : List Char)
  | cls (name : List Char)
  deriving DecidableEq, Repr

inductive BracketItem where
  | atom (a : BracketAtom)
  | range (s e : BracketAtom)
  deriving DecidableEq, Repr

structure Bracket where
  complement : Bool
  items : List BracketItem
  deriving DecidableEq, Repr

inductive Atom where
  | char (c : Char)
  | anyChar
  | anyString
  | bracket (b : Bracket)
  deriving DecidableEq, Repr

/-- `Ast { atoms }` -/
abbrev Ast := List Atom

/-! ## ast/parse.rs -/

/-- The scanning loop of `parse_inner`: the value ends just before the first adjacent pair
    `Normal d, Normal ']'` (the pair may not start at the very first character pushed... it may: the
    Rust loop pushes and then checks `ends_with`, so the pair can be the first two characters). -/
def scanClose (d : Char) : List PatternChar → Option (List PatternChar × List PatternChar)
  | [] => none
  | [_] => none
  | a :: b :: t =>
    if a = .normal d ∧ b = .normal ']' then some ([], t)
    else match scanClose d (b :: t) with
      | some (v, r) => some (a :: v, r)
      | none => none

/-- `BracketAtom::parse_inner` (input: what follows the `[`) -/
def parseInner : List PatternChar → Option (BracketAtom × List PatternChar)
  | [] => none
  | pc :: t =>
    if pc = .normal '.' then
      match scanClose '.' t with
      | some (v, r) => some (.collating (v.map PatternChar.charValue), r)
      | none => none
    else if pc = .normal '=' then
      match scanClose '=' t with
      | some (v, r) => some (.equiv (v.map PatternChar.charValue), r)
      | none => none
    else if pc = .normal ':' then
      match scanClose ':' t with
      | some (v, r) => some (.cls (v.map PatternChar.charValue), r)
      | none => none
    else none

theorem scanClose_length (d : Char) (cs : List PatternChar) (v r : List PatternChar)
    (h : scanClose d cs = some (v, r)) : r.length < cs.length := by
  fun_induction scanClose d cs generalizing v r
  all_goals (simp_all <;> try omega)
  all_goals (rename_i ih; obtain ⟨_, rfl⟩ := h; have := ih _ _ rfl; omega)

theorem parseInner_length (cs : List PatternChar) (a : BracketAtom) (r : List PatternChar)
    (h : parseInner cs = some (a, r)) : r.length < cs.length := by
  unfold parseInner at h
  split at h
  · simp at h
  · rename_i pc t
    split at h
    · split at h
      · rename_i v r' hs
        simp at h; obtain ⟨_, rfl⟩ := h
        have := scanClose_length _ _ _ _ hs; simp; omega
      · simp at h
    · split at h
      · split at h
        · rename_i v r' hs
          simp at h; obtain ⟨_, rfl⟩ := h
          have := scanClose_length _ _ _ _ hs; simp; omega
        · simp at h
      · split at h
        · split at h
          · rename_i v r' hs
            simp at h; obtain ⟨_, rfl⟩ := h
            have := scanClose_length _ _ _ _ hs; simp; omega
          · simp at h
        · simp at h

/-- The item stack of `Bracket::parse`, last item first; the second component is the parallel
    `hyphens: Vec<bool>` ("this item is an unquoted hyphen"). -/
abbrev ItemStack := List (BracketItem × Bool)

/-- `make_range`: `[.., start, '-', end]` with an *unquoted* hyphen in the middle and atoms at both ends
    becomes one range item (whose hyphen flag is `false`). -/
def makeRange : ItemStack → ItemStack
  | (.atom e, _) :: (_, true) :: (.atom s, _) :: rest => (.range s e, false) :: rest
  | st => st

/-- `Bracket::parse` (input: what follows the `[`).  `compl` = `bracket.complement`, `st` = items. -/
def bracketLoop (compl : Bool) (st : ItemStack) (cs : List PatternChar) :
    Option (Bracket × List PatternChar) :=
  match cs with
  | [] => none
  | pc :: t =>
    if pc = .normal ']' ∧ st ≠ [] then
      some ({ complement := compl, items := (st.reverse.map Prod.fst) }, t)
    else if (pc = .normal '!' ∨ pc = .normal '^') ∧ compl = false ∧ st = [] then
      bracketLoop true st t
    else if pc = .normal '[' then
      match h : parseInner t with
      | some (a, j) =>
        have : j.length < (pc :: t).length := by
          have := parseInner_length t a j h; simp; omega
        bracketLoop compl (makeRange ((.atom a, false) :: st)) j
      | none => bracketLoop compl (makeRange ((.atom (.char '['), false) :: st)) t
    else
      bracketLoop compl (makeRange ((.atom (.char pc.charValue), decide (pc = .normal '-')) :: st)) t
termination_by cs.length

def parseBracket (cs : List PatternChar) : Option (Bracket × List PatternChar) :=
  bracketLoop false [] cs

theorem bracketLoop_length (compl : Bool) (st : ItemStack) (cs : List PatternChar)
    (b : Bracket) (r : List PatternChar) (h : bracketLoop compl st cs = some (b, r)) :
    r.length < cs.length := by
  fun_induction bracketLoop compl st cs
  all_goals first
    | (simp at h; done)
    | (simp at h; obtain ⟨_, rfl⟩ := h; simp; done)
    | (rename_i ih; have := ih h; simp at *; omega)

/-- `Ast::new` / `Atom::parse` -/
def parseAtoms (cs : List PatternChar) : Ast :=
  match cs with
  | [] => []
  | pc :: t =>
    if pc = .normal '?' then .anyChar :: parseAtoms t
    else if pc = .normal '*' then .anyString :: parseAtoms t
    else if pc = .normal '[' then
      match h : parseBracket t with
      | some (b, j) =>
        have : j.length < (pc :: t).length := by
          have := bracketLoop_length _ _ _ _ _ h; simp; omega
        .bracket b :: parseAtoms j
      | none => .char '[' :: parseAtoms t
    else .char pc.charValue :: parseAtoms t
termination_by cs.length

/-- `Ast::to_literal` -/
def toLiteral : Ast → Option (List Char)
  | [] => some []
  | .char c :: r => match toLiteral r with
    | some l => some (c :: l)
    | none => none
  | _ :: _ => none

/-- `Ast::starts_with_literal_dot` -/
def startsWithLiteralDot : Ast → Bool
  | .char c :: _ => c == '.'
  | _ => false

/-! ## ASCII character classes (`regex_syntax::ast::ClassAsciiKind`, also the POSIX-locale classes) -/

inductive AsciiKind where
  | alnum | alpha | ascii | blank | cntrl | digit | graph | lower | print | punct | space | upper
  | word | xdigit
  deriving DecidableEq, Repr

def inR (lo hi : Nat) (c : Char) : Bool := lo ≤ c.toNat && c.toNat ≤ hi

def AsciiKind.mem : AsciiKind → Char → Bool
  | .alnum, c => inR 48 57 c || inR 65 90 c || inR 97 122 c
  | .alpha, c => inR 65 90 c || inR 97 122 c
  | .ascii, c => inR 0 127 c
  | .blank, c => c.toNat == 32 || c.toNat == 9
  | .cntrl, c => inR 0 31 c || c.toNat == 127
  | .digit, c => inR 48 57 c
  | .graph, c => inR 33 126 c
  | .lower, c => inR 97 122 c
  | .print, c => inR 32 126 c
  | .punct, c => inR 33 47 c || inR 58 64 c || inR 91 96 c || inR 123 126 c
  | .space, c => inR 9 13 c || c.toNat == 32
  | .upper, c => inR 65 90 c
  | .word, c => inR 48 57 c || inR 65 90 c || inR 97 122 c || c.toNat == 95
  | .xdigit, c => inR 48 57 c || inR 65 70 c || inR 97 102 c

def AsciiKind.name : AsciiKind → List Char
  | .alnum => ['a', 'l', 'n', 'u', 'm'] | .alpha => ['a', 'l', 'p', 'h', 'a'] | .ascii => ['a', 's', 'c', 'i', 'i']
  | .blank => ['b', 'l', 'a', 'n', 'k'] | .cntrl => ['c', 'n', 't', 'r', 'l'] | .digit => ['d', 'i', 'g', 'i', 't']
  | .graph => ['g', 'r', 'a', 'p', 'h'] | .lower => ['l', 'o', 'w', 'e', 'r'] | .print => ['p', 'r', 'i', 'n', 't']
  | .punct => ['p', 'u', 'n', 'c', 't'] | .space => ['s', 'p', 'a', 'c', 'e'] | .upper => ['u', 'p', 'p', 'e', 'r']
  | .word => ['w', 'o', 'r', 'd'] | .xdigit => ['x', 'd', 'i', 'g', 'i', 't']

def AsciiKind.all : List AsciiKind :=
  [.alnum, .alpha, .ascii, .blank, .cntrl, .digit, .graph, .lower, .print, .punct, .space, .upper,
   .word, .xdigit]

/-- `ClassAsciiKind::from_name` -/
def asciiKind (name : List Char) : Option AsciiKind :=
  AsciiKind.all.find? (fun k => k.name == name)

/-! ## ast/regex.rs — translation to regex text -/

/-- error classes of `yash_fnmatch::Error` -/
inductive Err where
  | emptyBracket | emptyCollating | undefinedClass | classInRange | regex
  deriving DecidableEq, Repr

/-- `BracketAtom::fmt_regex_char` -/
def fmtRegexChar (c : Char) : List Char :=
  if c ∈ bracketSpecialChars ∨ c ∈ specialChars then ['\\', c] else [c]

/-- `Atom::Char` arm of `Atom::fmt_regex` -/
def fmtTopChar (c : Char) : List Char :=
  if c ∈ specialChars then ['\\', c] else [c]

/-- `str::len` (UTF-8 bytes) -/
def utf8Len (v : List Char) : Nat := (v.map Char.utf8Size).sum

/-- `BracketAtom::matches_multi_character`: `value.chars().nth(1).is_some()` (two or more characters) -/
def BracketAtom.multi : BracketAtom → Bool
  | .collating v => decide (1 < v.length)
  | .equiv v => decide (1 < v.length)
  | _ => false

def BracketItem.multi : BracketItem → Bool
  | .atom a => a.multi
  | .range _ _ => false

def Bracket.multi (b : Bracket) : Bool := b.items.any BracketItem.multi

/-- `BracketAtom::fmt_regex` -/
def BracketAtom.fmt : BracketAtom → Except Err (List Char)
  | .char c => .ok (fmtRegexChar c)
  | .collating v => if v = [] then .error .emptyCollating else .ok (v.flatMap fmtRegexChar)
  | .equiv v => if v = [] then .error .emptyCollating else .ok (v.flatMap fmtRegexChar)
  | .cls name =>
    if (asciiKind name).isSome then .ok ('[' :: ':' :: name ++ [':', ']']) else .error .undefinedClass

/-- `BracketAtom::fmt_regex_single` -/
def BracketAtom.fmtSingle : BracketAtom → Except Err (List Char)
  | .char c => .ok (fmtRegexChar c)
  | .collating [] => .error .emptyCollating
  | .collating (c :: _) => .ok (fmtRegexChar c)
  | .equiv [] => .error .emptyCollating
  | .equiv (c :: _) => .ok (fmtRegexChar c)
  | .cls _ => .error .classInRange

/-- `BracketItem::fmt_regex` -/
def BracketItem.fmt : BracketItem → Except Err (List Char)
  | .atom a => a.fmt
  | .range s e =>
    match s.fmtSingle with
    | .error x => .error x
    | .ok a => match e.fmtSingle with
      | .error x => .error x
      | .ok b => .ok (a ++ '-' :: b)

/-- the plain loop `for item in &self.items { item.fmt_regex(regex)?; }` -/
def fmtItems : List BracketItem → Except Err (List Char)
  | [] => .ok []
  | it :: r =>
    match it.fmt with
    | .error x => .error x
    | .ok a => match fmtItems r with
      | .error x => .error x
      | .ok b => .ok (a ++ b)

/-- one alternative of the `(?: | )` form -/
def fmtAltItem (it : BracketItem) : Except Err (List Char) :=
  if it.multi then it.fmt
  else match it.fmt with
    | .error x => .error x
    | .ok a => .ok ('[' :: a ++ [']'])

/-- the loop of the `(?:` arm: alternatives separated by `|` -/
def fmtAltItems : List BracketItem → Except Err (List Char)
  | [] => .ok []
  | [it] => fmtAltItem it
  | it :: r =>
    match fmtAltItem it with
    | .error x => .error x
    | .ok a => match fmtAltItems r with
      | .error x => .error x
      | .ok b => .ok (a ++ '|' :: b)

/-- `Bracket::fmt_regex` -/
def Bracket.fmt (b : Bracket) : Except Err (List Char) :=
  if b.items = [] then .error .emptyBracket
  else if !b.multi then
    match fmtItems b.items with
    | .error x => .error x
    | .ok a => .ok ('[' :: (if b.complement then ['^'] else []) ++ a ++ [']'])
  else if !b.complement then
    match fmtAltItems b.items with
    | .error x => .error x
    | .ok a => .ok ('(' :: '?' :: ':' :: a ++ [')'])
  else if b.items.all BracketItem.multi then
    -- no single character is excluded, so any character matches (`[^]` would not be an empty complement)
    .ok ['.']
  else
    match fmtItems (b.items.filter (fun it => !it.multi)) with
    | .error x => .error x
    | .ok a => .ok ('[' :: '^' :: a ++ [']'])

/-- `Atom::fmt_regex` -/
def Atom.fmt : Atom → Except Err (List Char)
  | .char c => .ok (fmtTopChar c)
  | .anyChar => .ok ['.']
  | .anyString => .ok ['.', '*']
  | .bracket b => b.fmt

def fmtAtoms : List Atom → Except Err (List Char)
  | [] => .ok []
  | a :: r =>
    match a.fmt with
    | .error x => .error x
    | .ok x => match fmtAtoms r with
      | .error e => .error e
      | .ok y => .ok (x ++ y)

/-- `Config` (without `case_insensitive`, which is outside this model) -/
structure Config where
  anchorBegin : Bool := false
  anchorEnd : Bool := false
  literalPeriod : Bool := false
  shortest : Bool := false
  deriving DecidableEq, Repr

/-- `Ast::to_regex` -/
def toRegex (ast : Ast) (cfg : Config) : Except Err (List Char) :=
  match fmtAtoms ast with
  | .error e => .error e
  | .ok body =>
    .ok ((if cfg.anchorBegin then ['\\', 'A'] else []) ++ body ++ (if cfg.anchorEnd then ['\\', 'z'] else []))

/-! ## The regex crate: the syntax subset `toRegex` can emit, and its leftmost-first semantics -/

inductive ClassItem where
  | single (c : Char)
  | range (a b : Char)
  | ascii (k : AsciiKind)
  deriving DecidableEq, Repr

structure Cls where
  neg : Bool
  items : List ClassItem
  deriving DecidableEq, Repr

/-- an element that consumes exactly one character -/
inductive Simple where
  | lit (c : Char)
  | cls (k : Cls)
  deriving DecidableEq, Repr

inductive ReAtom where
  | bos                         -- `\A`
  | eos                         -- `\z`
  | any                         -- `.` (with `dot_matches_new_line`)
  | star                        -- `.*` (greedy unless `swap_greed`)
  | one (s : Simple)
  | alt (bs : List (List Simple))   -- `(?:b1|b2|…)`, each branch a sequence of one-character elements
  deriving Repr

/-- `regex_syntax::is_meta_character`: the characters a backslash may precede to denote themselves -/
def escapable : List Char :=
  ['\\', '.', '+', '*', '?', '(', ')', '|', '[', ']', '{', '}', '^', '$', '#', '&', '-', '~']

/-- characters with a meaning of their own outside a class (a raw occurrence is not a literal) -/
def reMeta : List Char :=
  ['\\', '.', '+', '*', '?', '(', ')', '|', '[', ']', '{', '}', '^', '$']

/-- characters with a meaning of their own inside a class: `[` nests / opens `[:name:]`, `]` closes,
    `\` escapes, `^` negates (first), `-` is the range operator, `&&` `--` `~~` are the set operators -/
def classMeta : List Char := ['\\', '[', ']', '^', '-', '&', '~']

/-- `[:name:]` right after a `[` inside a class: finds the kind whose `name:]` is a prefix -/
def parseAsciiName (s : List Char) : Option (AsciiKind × List Char) :=
  match AsciiKind.all.find? (fun k => (k.name ++ [':', ']']).isPrefixOf s) with
  | some k => some (k, s.drop (k.name.length + 2))
  | none => none

inductive ClassTok where
  | chr (c : Char)
  | kind (k : AsciiKind)

/-- one class atom: `\c` (c escapable), `[:name:]`, or a raw character that is not class-special.
    Anything else (nested class, raw `& - ~ ^`, unknown escape) is outside the modelled subset: `none`. -/
def classTok : List Char → Option (ClassTok × List Char)
  | [] => none
  | c :: t =>
    if c = '\\' then
      match t with
      | [] => none
      | d :: t' => if d ∈ escapable then some (.chr d, t') else none
    else if c = '[' then
      match t with
      | [] => none
      | d :: t' =>
        if d = ':' then
          match parseAsciiName t' with
          | some (k, r) => some (.kind k, r)
          | none => none
        else none
    else if c ∈ classMeta then none
    else some (.chr c, t)

/-- items of a class up to the closing `]`.  A `]` where an item is expected with no item yet, an
    inverted range, or a class as range bound is an error of the regex compiler (`none`).
    (In the regex crate a `]` right after `[` / `[^` is a literal and the class goes on; `toRegex` never emits
    that shape — an all-multi complemented bracket is `.` since fix 8f1328d — so the model answers `none`:
    outside the modelled subset.)
    `fuel`: one unit per item; the text length always suffices. -/
def classItems : Nat → List ClassItem → List Char → Option (List ClassItem × List Char)
  | 0, _, _ => none
  | fuel + 1, acc, s =>
    match s with
    | [] => none
    | c :: t =>
      if c = ']' then (if acc = [] then none else some (acc.reverse, t))
      else
        match classTok (c :: t) with
        | none => none
        | some (.kind k, r) => classItems fuel (.ascii k :: acc) r
        | some (.chr a, r) =>
          if r.head? = some '-' then
            match classTok r.tail with
            | some (.chr b, r'') =>
              if a.toNat ≤ b.toNat then classItems fuel (.range a b :: acc) r'' else none
            | _ => none
          else classItems fuel (.single a :: acc) r

/-- a class, after its `[` -/
def parseClass (fuel : Nat) (s : List Char) : Option (Cls × List Char) :=
  if s.head? = some '^' then
    match classItems fuel [] s.tail with
    | some (items, r) => some ({ neg := true, items := items }, r)
    | none => none
  else
    match classItems fuel [] s with
    | some (items, r) => some ({ neg := false, items := items }, r)
    | none => none

/-- one branch of `(?: | )`: one-character elements up to `|` or `)` (the delimiter is left in place) -/
def parseBranch : Nat → List Simple → List Char → Option (List Simple × List Char)
  | 0, _, _ => none
  | fuel + 1, acc, s =>
    match s with
    | [] => none
    | c :: t =>
      if c = '|' ∨ c = ')' then some (acc.reverse, c :: t)
      else if c = '\\' then
        match t with
        | [] => none
        | d :: t' => if d ∈ escapable then parseBranch fuel (.lit d :: acc) t' else none
      else if c = '[' then
        match parseClass fuel t with
        | some (k, r) => parseBranch fuel (.cls k :: acc) r
        | none => none
      else if c ∈ reMeta then none
      else parseBranch fuel (.lit c :: acc) t

/-- the branches of `(?: | )` after the `(?:`, up to and including the `)` -/
def parseBranches : Nat → List (List Simple) → List Char → Option (List (List Simple) × List Char)
  | 0, _, _ => none
  | fuel + 1, acc, s =>
    match parseBranch (fuel + 1) [] s with
    | none => none
    | some (_, []) => none
    | some (b, d :: r) =>
      if d = ')' then some ((b :: acc).reverse, r)
      else parseBranches fuel (b :: acc) r

/-- top level of the regex text -/
def parseTop : Nat → List Char → Option (List ReAtom)
  | 0, _ => none
  | fuel + 1, s =>
    match s with
    | [] => some []
    | c :: t =>
      if c = '\\' then
        match t with
        | [] => none
        | d :: t' =>
          if d ∈ escapable then (parseTop fuel t').map (.one (.lit d) :: ·)
          else if d = 'A' then (parseTop fuel t').map (.bos :: ·)
          else if d = 'z' then (parseTop fuel t').map (.eos :: ·)
          else none
      else if c = '.' then
        if t.head? = some '*' then (parseTop fuel t.tail).map (.star :: ·)
        else (parseTop fuel t).map (.any :: ·)
      else if c = '[' then
        match parseClass fuel t with
        | some (k, r) => (parseTop fuel r).map (.one (.cls k) :: ·)
        | none => none
      else if c = '(' then
        if t.head? = some '?' ∧ t.tail.head? = some ':' then
          match parseBranches fuel [] t.tail.tail with
          | some (bs, r) => (parseTop fuel r).map (.alt bs :: ·)
          | none => none
        else none
      else if c ∈ reMeta then none
      else (parseTop fuel t).map (.one (.lit c) :: ·)

/-- the regex compiler on the emitted subset (`none` = `regex::Error`) -/
def parseRe (s : List Char) : Option (List ReAtom) := parseTop (s.length + 1) s

def ClassItem.mem : ClassItem → Char → Bool
  | .single a, c => c == a
  | .range a b, c => a.toNat ≤ c.toNat && c.toNat ≤ b.toNat
  | .ascii k, c => k.mem c

def Cls.mem (k : Cls) (c : Char) : Bool := (k.items.any (·.mem c)) != k.neg

def Simple.mem : Simple → Char → Bool
  | .lit a, c => c == a
  | .cls k, c => k.mem c

/-- a sequence of one-character elements against a prefix; result: the rest -/
def matchSimples : List Simple → List Char → Option (List Char)
  | [], s => some s
  | _ :: _, [] => none
  | x :: r, c :: t => if x.mem c then matchSimples r t else none

/-- `.*`: greedy tries the longest first, lazy (`swap_greed`) the shortest first -/
def starLoop (g : Bool) (k : List Char → Option (List Char)) : List Char → Option (List Char)
  | [] => k []
  | c :: t =>
    if g then (match starLoop g k t with | some r => some r | none => k (c :: t))
    else (match k (c :: t) with | some r => some r | none => starLoop g k t)

/-- `(?:b1|b2|…)`: the first branch (in order) after which the continuation succeeds -/
def altLoop (k : List Char → Option (List Char)) (s : List Char) : List (List Simple) → Option (List Char)
  | [] => none
  | b :: bs =>
    match (match matchSimples b s with | some s' => k s' | none => none) with
    | some r => some r
    | none => altLoop k s bs

/-- Backtracking match of `re` at the suffix `s` of a text of `n` characters; the first success in
    priority order (= leftmost-first semantics of the regex crate); result: the unmatched rest. -/
def matchHere (g : Bool) (n : Nat) : List ReAtom → List Char → Option (List Char)
  | [], s => some s
  | .bos :: r, s => if s.length = n then matchHere g n r s else none
  | .eos :: r, s => if s = [] then matchHere g n r s else none
  | .any :: r, s => match s with
    | [] => none
    | _ :: t => matchHere g n r t
  | .one x :: r, s => match s with
    | [] => none
    | c :: t => if x.mem c then matchHere g n r t else none
  | .star :: r, s => starLoop g (matchHere g n r) s
  | .alt bs :: r, s => altLoop (matchHere g n r) s bs

/-- leftmost match starting at or after the suffix `s` (which begins at position `pos`) -/
def findFrom (g : Bool) (n : Nat) (re : List ReAtom) : Nat → List Char → Option (Nat × Nat)
  | pos, [] => match matchHere g n re [] with
    | some rest => some (pos, n - rest.length)
    | none => none
  | pos, c :: t => match matchHere g n re (c :: t) with
    | some rest => some (pos, n - rest.length)
    | none => findFrom g n re (pos + 1) t

/-- `Regex::find_at(text, at)` (`g` = greedy, i.e. not `swap_greed`) -/
def findAt (g : Bool) (re : List ReAtom) (text : List Char) (at_ : Nat) : Option (Nat × Nat) :=
  if at_ ≤ text.length then findFrom g text.length re at_ (text.drop at_) else none

/-! ## lib.rs — `Pattern` -/

inductive Body where
  | literal (s : List Char)
  | regex (re : List ReAtom) (startsWithLiteralDot : Bool)
  deriving Repr

structure Pattern where
  body : Body
  config : Config
  deriving Repr

/-- `Pattern::from_ast_and_config` -/
def Pattern.fromAst (ast : Ast) (cfg : Config) : Except Err Pattern :=
  match toLiteral ast with
  | some l => .ok { body := .literal l, config := cfg }
  | none =>
    match toRegex ast cfg with
    | .error e => .error e
    | .ok r =>
      match parseRe r with
      | none => .error .regex
      | some re => .ok { body := .regex re (startsWithLiteralDot ast), config := cfg }

/-- `Pattern::parse_with_config` -/
def Pattern.parse (pcs : List PatternChar) (cfg : Config) : Except Err Pattern :=
  Pattern.fromAst (parseAtoms pcs) cfg

/-- `str::find` of a substring: first index -/
def strFind (p : List Char) : Nat → List Char → Option Nat
  | pos, [] => if p = [] then some pos else none
  | pos, c :: t => if p.isPrefixOf (c :: t) then some pos else strFind p (pos + 1) t

/-- `str::rfind` of a substring: last index -/
def strRFind (p : List Char) : Nat → List Char → Option Nat
  | pos, [] => if p = [] then some pos else none
  | pos, c :: t => match strRFind p (pos + 1) t with
    | some i => some i
    | none => if p.isPrefixOf (c :: t) then some pos else none

def endsWith (text p : List Char) : Bool := p.reverse.isPrefixOf text.reverse

def Pattern.at0 (cfg : Config) (dot : Bool) (text : List Char) : Nat :=
  if cfg.literalPeriod && !dot && text.head? == some '.' then 1 else 0

/-- `Pattern::find` -/
def Pattern.find (p : Pattern) (text : List Char) : Option (Nat × Nat) :=
  match p.body with
  | .literal s =>
    match p.config.anchorBegin, p.config.anchorEnd with
    | false, false => (strFind s 0 text).map (fun i => (i, i + s.length))
    | true, false => if s.isPrefixOf text then some (0, s.length) else none
    | false, true => if endsWith text s then some (text.length - s.length, text.length) else none
    | true, true => if text = s then some (0, s.length) else none
  | .regex re dot => findAt (!p.config.shortest) re text (Pattern.at0 p.config dot text)

/-- `Pattern::is_match` -/
def Pattern.isMatch (p : Pattern) (text : List Char) : Bool :=
  match p.body with
  | .literal s =>
    match p.config.anchorBegin, p.config.anchorEnd with
    | false, false => (strFind s 0 text).isSome
    | true, false => s.isPrefixOf text
    | false, true => endsWith text s
    | true, true => decide (text = s)
  | .regex re dot => (findAt (!p.config.shortest) re text (Pattern.at0 p.config dot text)).isSome

/-- byte offset (in the UTF-8 encoding) of the character index `i` -/
def byteOffset (text : List Char) (i : Nat) : Nat := utf8Len (text.take i)

/-- `(start + 1 ..= text.len()).find(|&index| text.is_char_boundary(index))`, by walking the encoded
    characters (1–4 bytes each): the first char boundary strictly after byte offset `start`, as
    (character index, byte offset); `idx`/`off` = index and offset of the head of the remaining text. -/
def nextBoundaryFrom (idx off start : Nat) : List Char → Option (Nat × Nat)
  | [] => none
  | c :: t =>
    if start < off + c.utf8Size then some (idx + 1, off + c.utf8Size)
    else nextBoundaryFrom (idx + 1) (off + c.utf8Size) start t

def nextBoundary (text : List Char) (start : Nat) : Option (Nat × Nat) := nextBoundaryFrom 0 0 start text

/-- the `while let` loop of `Pattern::rfind`: from the start of the current match, step to the next char
    boundary (byte-wise, see `nextBoundary`) and search again -/
def rfindLoop (g : Bool) (re : List ReAtom) (text : List Char) : Nat → Nat × Nat → Nat × Nat
  | 0, cur => cur
  | fuel + 1, cur =>
    match nextBoundary text (byteOffset text cur.1) with
    | some (i, _) =>
      match findAt g re text i with
      | some r => rfindLoop g re text fuel r
      | none => cur
    | none => cur

/-- `Pattern::rfind` -/
def Pattern.rfind (p : Pattern) (text : List Char) : Option (Nat × Nat) :=
  match p.body with
  | .literal s =>
    match p.config.anchorBegin, p.config.anchorEnd with
    | false, false => (strRFind s 0 text).map (fun i => (i, i + s.length))
    | true, false => if s.isPrefixOf text then some (0, s.length) else none
    | false, true => if endsWith text s then some (text.length - s.length, text.length) else none
    | true, true => if text = s then some (0, s.length) else none
  | .regex re _ =>
    match p.find text with
    | none => none
    | some r => some (rfindLoop (!p.config.shortest) re text (text.length + 1) r)

/-! ## yash-semantics: trim.rs, attr_fnmatch.rs, case.rs -/

/-- `trim_value` -/
def trimValue (p : Pattern) (v : List Char) : List Char :=
  let r := if p.config.anchorEnd && p.config.shortest then p.rfind v else p.find v
  match r with
  | some (a, b) => v.take a ++ v.drop b
  | none => v

inductive TrimSide where | prefix | suffix deriving DecidableEq, Repr
inductive TrimLength where | shortest | longest deriving DecidableEq, Repr

def trimConfig (side : TrimSide) (len : TrimLength) : Config :=
  { anchorBegin := side == .prefix, anchorEnd := side == .suffix, shortest := len == .shortest }

/-- `trim::apply` on a scalar: a pattern that fails to compile leaves the value unchanged -/
def trimApply (side : TrimSide) (len : TrimLength) (pcs : List PatternChar) (v : List Char) : List Char :=
  match Pattern.parse pcs (trimConfig side len) with
  | .ok p => trimValue p v
  | .error _ => v

/-- `trim::apply` on an array value (`"${@#pat}"`): every element is trimmed by the same pattern -/
def trimArray (side : TrimSide) (len : TrimLength) (pcs : List PatternChar) (vs : List (List Char)) :
    List (List Char) :=
  vs.map (trimApply side len pcs)

/-- `case.rs config()` -/
def caseConfig : Config := { anchorBegin := true, anchorEnd := true }

/-- the pattern loop of `case`: index of the first pattern that compiles and matches -/
def caseFirst (pats : List (List PatternChar)) (subject : List Char) : Option Nat :=
  let rec go : Nat → List (List PatternChar) → Option Nat
    | _, [] => none
    | i, p :: r =>
      match Pattern.parse p caseConfig with
      | .ok pat => if pat.isMatch subject then some i else go (i + 1) r
      | .error _ => go (i + 1) r
  go 0 pats

/-- `case.rs matches`: does any `|`-alternative of one case item compile and match?  A pattern that
    does not compile is skipped (`continue`), the remaining alternatives are still tried. -/
def itemMatches (subject : List Char) : List (List PatternChar) → Bool
  | [] => false
  | p :: r =>
    match Pattern.parse p caseConfig with
    | .ok pat => if pat.isMatch subject then true else itemMatches subject r
    | .error _ => itemMatches subject r

/-- the item whose body `case` runs first: the first item one of whose alternatives compiles and matches -/
def caseSelect (items : List (List (List PatternChar))) (subject : List Char) : Option Nat :=
  let rec go : Nat → List (List (List PatternChar)) → Option Nat
    | _, [] => none
    | i, alts :: r => if itemMatches subject alts then some i else go (i + 1) r
  go 0 items

/-- `CaseContinuation`: `;;` / `;&` / `;;&` -/
inductive CaseCont where
  | brk | fallThrough | cont
  deriving DecidableEq, Repr

/-- `case.rs execute`: the indices of the items whose bodies run, in order (`falling` = `falling_through`) -/
def caseExecGo (subject : List Char) : Bool → Nat → List (List (List PatternChar) × CaseCont) → List Nat
  | _, _, [] => []
  | falling, i, (alts, c) :: rest =>
    if falling || itemMatches subject alts then
      i :: (match c with
        | .brk => []
        | .fallThrough => caseExecGo subject true (i + 1) rest
        | .cont => caseExecGo subject false (i + 1) rest)
    else caseExecGo subject false (i + 1) rest

def caseExec (items : List (List (List PatternChar) × CaseCont)) (subject : List Char) : List Nat :=
  caseExecGo subject false 0 items

/-- `matches` when the expansion of an alternative can fail (`expand_word_attr(env, pattern).await?`):
    `none` in the list = that alternative's expansion is an error; result `none` = the error propagates.
    Alternatives after a match are not expanded. -/
def itemMatchesE (subject : List Char) : List (Option (List PatternChar)) → Option Bool
  | [] => some false
  | none :: _ => none
  | some p :: r => if itemMatches subject [p] then some true else itemMatchesE subject r

/-- `execute` with failing expansions: (bodies run, aborted).  An item reached by `;&` is not tested, so its
    patterns are not expanded. -/
def caseExecEGo (subject : List Char) :
    Bool → Nat → List (List (Option (List PatternChar)) × CaseCont) → List Nat × Bool
  | _, _, [] => ([], false)
  | falling, i, (alts, c) :: rest =>
    let hit : Option Bool := if falling then some true else itemMatchesE subject alts
    match hit with
    | none => ([], true)
    | some false => caseExecEGo subject false (i + 1) rest
    | some true =>
      match c with
      | .brk => ([i], false)
      | .fallThrough => let r := caseExecEGo subject true (i + 1) rest; (i :: r.1, r.2)
      | .cont => let r := caseExecEGo subject false (i + 1) rest; (i :: r.1, r.2)

/-- `AttrChar` reduced to what `attr_fnmatch.rs` reads -/
structure AttrChar where
  value : Char
  isQuoted : Bool
  isQuoting : Bool
  deriving DecidableEq, Repr

/-- `apply_escapes` (after fix 9da0f0e), left to right: an unquoted non-quoting backslash that some NON-QUOTING
    character follows becomes quoting, and the NEXT non-quoting character becomes quoted (quoting characters in
    between are stepped over untouched; `quoteThis` = a backslash before is waiting for its character).  A backslash
    followed by quoting characters only, up to the end, stays what it was. -/
def applyEscapesAux (quoteThis : Bool) : List AttrChar → List AttrChar
  | [] => []
  | a :: t =>
    if a.isQuoting then a :: applyEscapesAux quoteThis t
    else
      let a' : AttrChar := if quoteThis then { a with isQuoted := true } else a
      if a'.value = '\\' ∧ a'.isQuoted = false ∧ t.any (fun c => !c.isQuoting) = true then
        { a' with isQuoting := true } :: applyEscapesAux true t
      else a' :: applyEscapesAux false t

def applyEscapes (cs : List AttrChar) : List AttrChar := applyEscapesAux false cs

/-- `to_pattern_chars` -/
def toPatternChars (cs : List AttrChar) : List PatternChar :=
  cs.filterMap fun c =>
    if c.isQuoting then none else if c.isQuoted then some (.literal c.value) else some (.normal c.value)

/-! ### the attributed characters of a shell word (extension round; used by the driver's shell legs) -/

/-- an ordinary character of an expansion result: quoted (from inside `"…"`) or not -/
def attrOf (quoted : Bool) (c : Char) : AttrChar := { value := c, isQuoted := quoted, isQuoting := false }

/-- the `"` of a double-quoted part: a quoting character, not part of the value -/
def quoteMark : AttrChar := { value := '"', isQuoted := false, isQuoting := true }

/-- what `expand_word_attr` yields for the word `"$q"$p` (no field splitting): quote, the characters of `q`
    quoted, quote, the characters of `p` unquoted -/
def shellWord (q p : List Char) : List AttrChar :=
  [quoteMark] ++ q.map (attrOf true) ++ [quoteMark] ++ p.map (attrOf false)

/-! ### `case.rs execute` with the exit status (wave 2) -/

/-- a case item as `execute` sees it: patterns, continuation, `item.body.0.is_empty()`, and what executing the
    body does to `$?` -/
structure CaseItemM where
  alts : List (List PatternChar)
  cont : CaseCont
  bodyEmpty : Bool
  body : Nat → Nat

/-- the `for item in items` loop of `execute`: state = (`falling_through`, `exit_status_updated`, `env.exit_status`);
    result = (indices of the bodies run, `env.exit_status`, `exit_status_updated`) -/
def caseExecuteGo (subject : List Char) : Bool → Bool → Nat → Nat → List CaseItemM → List Nat × Nat × Bool
  | _, upd, st, _, [] => ([], st, upd)
  | falling, upd, st, i, it :: rest =>
    if falling || itemMatches subject it.alts then
      match it.cont with
      | .brk => ([i], it.body st, !it.bodyEmpty)
      | .fallThrough =>
        let r := caseExecuteGo subject true (!it.bodyEmpty) (it.body st) (i + 1) rest
        (i :: r.1, r.2)
      | .cont =>
        let r := caseExecuteGo subject false (!it.bodyEmpty) (it.body st) (i + 1) rest
        (i :: r.1, r.2)
    else caseExecuteGo subject false upd st (i + 1) rest

/-- `execute` after the subject has been expanded: the bodies run and `$?` afterwards
    (`if !exit_status_updated { env.exit_status = ExitStatus::SUCCESS }`) -/
def caseExecute (items : List CaseItemM) (subject : List Char) (st0 : Nat) : List Nat × Nat :=
  let r := caseExecuteGo subject false false st0 0 items
  (r.1, if r.2.2 then r.2.1 else 0)

/-! ### `trim::apply` on a value (wave 2) -/

/-- `yash_env::variable::Value` as far as `trim::apply` reads it -/
inductive Value where
  | scalar (v : List Char)
  | array (vs : List (List Char))
  deriving DecidableEq, Repr

/-- `trim::apply` after `trim.pattern.expand(env)` and `ifs_join`: `apply_escapes`, the configuration by side and
    length, `parse_with_config(to_pattern_chars(..))` — on `Err` the value is left as it is — then `trim_value` on
    the scalar or on every element of the array -/
def trimApplyValue (side : TrimSide) (len : TrimLength) (pattern : List AttrChar) (value : Value) : Value :=
  match Pattern.parse (toPatternChars (applyEscapes pattern)) (trimConfig side len) with
  | .error _ => value
  | .ok p =>
    match value with
    | .scalar v => .scalar (trimValue p v)
    | .array vs => .array (vs.map (trimValue p))

end YashModel.Fnmatch
