/-
  C04 wave 3 — the `str` operations of the literal fast path of lib.rs by NAME (the names are what
  tools/tables/fnmatch.py reads out of the source; `literal_path_tables_agree` in Theorems.lean ties them to
  `Pattern.isMatch` / `find` / `rfind`).
-/
import YashModel.Fnmatch.Model

namespace YashModel.Fnmatch

/-- the `str` operations of the literal fast path, as the model has them (`contains` = `find(..).is_some()`) -/
def strOpMatch (op : String) (s text : List Char) : Option Bool :=
  if op = "contains" then some (strFind s 0 text).isSome
  else if op = "starts_with" then some (s.isPrefixOf text)
  else if op = "ends_with" then some (endsWith text s)
  else if op = "==" then some (decide (text = s))
  else none

def strOpFind (op : String) (s text : List Char) : Option (Option (Nat × Nat)) :=
  if op = "find" then some ((strFind s 0 text).map fun i => (i, i + s.length))
  else if op = "rfind" then some ((strRFind s 0 text).map fun i => (i, i + s.length))
  else if op = "starts_with" then some (if s.isPrefixOf text then some (0, s.length) else none)
  else if op = "ends_with" then some (if endsWith text s then some (text.length - s.length, text.length) else none)
  else if op = "==" then some (if text = s then some (0, s.length) else none)
  else none

/-- the Rust name of the constructor of a bracket atom (`parse_inner` picks it by the delimiter) -/
def atomCtorName : BracketAtom → String
  | .char _ => "Char"
  | .collating _ => "CollatingSymbol"
  | .equiv _ => "EquivalenceClass"
  | .cls _ => "CharClass"

end YashModel.Fnmatch
