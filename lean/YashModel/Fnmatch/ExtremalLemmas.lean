/-
  C04 — helper lemmas, part 4: for regexes without alternation (patterns without multi-character collating
  elements) the backtracking matcher returns an *extremal* rest: greedy the shortest rest (longest match),
  lazy (`swap_greed`) the longest rest (shortest match).
-/
import YashModel.Fnmatch.TopLemmas

namespace YashModel.Fnmatch

/-- atoms that consume characters without alternatives or anchors -/
def plainAtom : ReAtom → Bool
  | .any => true
  | .star => true
  | .one _ => true
  | _ => false

/-- `.*` : every rest the continuation allows at every suffix -/
def starRests (k : List Char → List (List Char)) : List Char → List (List Char)
  | [] => k []
  | c :: t => k (c :: t) ++ starRests k t

/-- `(?:b1|b2|…)`: the rests of the continuation after every branch that matches at the head -/
def altRests (k : List Char → List (List Char)) (s : List Char) : List (List Simple) → List (List Char)
  | [] => []
  | b :: bs =>
    (match matchSimples b s with
     | some s' => k s'
     | none => []) ++ altRests k s bs

/-- all rests a regex without anchors can leave when matched at the head of `s` -/
def rests : List ReAtom → List Char → List (List Char)
  | [], s => [s]
  | .any :: r, s => match s with
    | [] => []
    | _ :: t => rests r t
  | .one x :: r, s => match s with
    | [] => []
    | c :: t => if x.mem c then rests r t else []
  | .star :: r, s => starRests (rests r) s
  | .bos :: _, _ => []
  | .eos :: _, _ => []
  | .alt bs :: r, s => altRests (rests r) s bs

theorem mem_starRests (k : List Char → List (List Char)) (s x : List Char) :
    x ∈ starRests k s ↔ ∃ u, u <:+ s ∧ x ∈ k u := by
  induction s with
  | nil =>
    simp only [starRests]
    constructor
    · intro h; exact ⟨[], List.suffix_refl _, h⟩
    · rintro ⟨u, hu, hx⟩
      have : u = [] := List.eq_nil_of_suffix_nil hu
      subst this; exact hx
  | cons c t ih =>
    simp only [starRests, List.mem_append, ih]
    constructor
    · rintro (h | ⟨u, hu, hx⟩)
      · exact ⟨c :: t, List.suffix_refl _, h⟩
      · exact ⟨u, hu.trans (List.suffix_cons c t), hx⟩
    · rintro ⟨u, hu, hx⟩
      rcases List.suffix_cons_iff.mp hu with rfl | h
      · exact Or.inl hx
      · exact Or.inr ⟨u, h, hx⟩

theorem suffix_tail_of_cons {d c : Char} {t' s' : List Char} (h : d :: t' <:+ c :: s') : t' <:+ s' := by
  rcases List.suffix_cons_iff.mp h with e | h
  · injection e with _ e2; subst e2; exact List.suffix_refl _
  · exact (List.suffix_cons d t').trans h

/-! ### monotonicity of the rests along suffixes -/

/-- matching later never forces a longer rest (if it matches at all) -/
theorem rests_mono_le (re : List ReAtom) (hp : re.all plainAtom = true) :
    ∀ (s t ρ : List Char), t <:+ s → ρ ∈ rests re s → rests re t ≠ [] →
      ∃ ρ', ρ' ∈ rests re t ∧ ρ'.length ≤ ρ.length := by
  induction re with
  | nil =>
    intro s t ρ hts hρ _
    simp [rests] at hρ; subst hρ
    exact ⟨t, by simp [rests], hts.length_le⟩
  | cons a r ih =>
    simp only [List.all_cons, Bool.and_eq_true] at hp
    have ihr := ih hp.2
    intro s t ρ hts hρ hne
    cases a with
    | any =>
      cases s with
      | nil => simp [rests] at hρ
      | cons c s' =>
        cases t with
        | nil => simp [rests] at hne
        | cons d t' =>
          simp only [rests] at hρ hne ⊢
          exact ihr s' t' ρ (suffix_tail_of_cons hts) hρ hne
    | one x =>
      cases s with
      | nil => simp [rests] at hρ
      | cons c s' =>
        cases t with
        | nil => simp [rests] at hne
        | cons d t' =>
          simp only [rests] at hρ hne ⊢
          by_cases hc : x.mem c = true
          · by_cases hd : x.mem d = true
            · simp only [hc, hd, if_true] at hρ hne ⊢
              exact ihr s' t' ρ (suffix_tail_of_cons hts) hρ hne
            · simp [hd] at hne
          · simp [hc] at hρ
    | star =>
      simp only [rests] at hρ hne ⊢
      obtain ⟨u, hus, hρu⟩ := (mem_starRests _ _ _).mp hρ
      obtain ⟨y, hy⟩ := List.exists_mem_of_ne_nil _ hne
      obtain ⟨w, hwt, hyw⟩ := (mem_starRests _ _ _).mp hy
      by_cases hlen : u.length ≤ t.length
      · have hut : u <:+ t := List.suffix_of_suffix_length_le hus hts hlen
        exact ⟨ρ, (mem_starRests _ _ _).mpr ⟨u, hut, hρu⟩, Nat.le_refl _⟩
      · have htu : t <:+ u := List.suffix_of_suffix_length_le hts hus (by omega)
        obtain ⟨ρ', hρ', hle⟩ := ihr u w ρ (hwt.trans htu) hρu (List.ne_nil_of_mem hyw)
        exact ⟨ρ', (mem_starRests _ _ _).mpr ⟨w, hwt, hρ'⟩, hle⟩
    | bos => simp [plainAtom] at hp
    | eos => simp [plainAtom] at hp
    | alt bs => simp [plainAtom] at hp

/-- matching earlier never forces a shorter rest (if it matches at all) -/
theorem rests_mono_ge (re : List ReAtom) (hp : re.all plainAtom = true) :
    ∀ (s t ρ : List Char), t <:+ s → ρ ∈ rests re t → rests re s ≠ [] →
      ∃ ρ', ρ' ∈ rests re s ∧ ρ.length ≤ ρ'.length := by
  induction re with
  | nil =>
    intro s t ρ hts hρ _
    simp [rests] at hρ; subst hρ
    exact ⟨s, by simp [rests], hts.length_le⟩
  | cons a r ih =>
    simp only [List.all_cons, Bool.and_eq_true] at hp
    have ihr := ih hp.2
    intro s t ρ hts hρ hne
    cases a with
    | any =>
      cases t with
      | nil => simp [rests] at hρ
      | cons d t' =>
        cases s with
        | nil => simp [rests] at hne
        | cons c s' =>
          simp only [rests] at hρ hne ⊢
          exact ihr s' t' ρ (suffix_tail_of_cons hts) hρ hne
    | one x =>
      cases t with
      | nil => simp [rests] at hρ
      | cons d t' =>
        cases s with
        | nil => simp [rests] at hne
        | cons c s' =>
          simp only [rests] at hρ hne ⊢
          by_cases hc : x.mem c = true
          · by_cases hd : x.mem d = true
            · simp only [hc, hd, if_true] at hρ hne ⊢
              exact ihr s' t' ρ (suffix_tail_of_cons hts) hρ hne
            · simp [hd] at hρ
          · simp [hc] at hne
    | star =>
      simp only [rests] at hρ hne ⊢
      obtain ⟨u, hut, hρu⟩ := (mem_starRests _ _ _).mp hρ
      exact ⟨ρ, (mem_starRests _ _ _).mpr ⟨u, hut.trans hts, hρu⟩, Nat.le_refl _⟩
    | bos => simp [plainAtom] at hp
    | eos => simp [plainAtom] at hp
    | alt bs => simp [plainAtom] at hp

/-! ### `.*` against its rests -/

section Star
variable (K : List Char → Option (List Char)) (R : List Char → List (List Char))

theorem starLoop_sound (g : Bool) (hA : ∀ u ρ, K u = some ρ → ρ ∈ R u) :
    ∀ s ρ, starLoop g K s = some ρ → ρ ∈ starRests R s := by
  intro s
  induction s with
  | nil => intro ρ h; simp only [starLoop] at h; simp only [starRests]; exact hA _ _ h
  | cons c t ih =>
    intro ρ h
    simp only [starRests, List.mem_append]
    cases g with
    | true =>
      simp only [starLoop, if_true] at h
      cases h1 : starLoop true K t with
      | some r => rw [h1] at h; simp at h; subst h; exact Or.inr (ih _ h1)
      | none => rw [h1] at h; exact Or.inl (hA _ _ h)
    | false =>
      simp only [starLoop, Bool.false_eq_true, if_false] at h
      cases h1 : K (c :: t) with
      | some r => rw [h1] at h; simp at h; subst h; exact Or.inl (hA _ _ h1)
      | none => rw [h1] at h; exact Or.inr (ih _ h)

theorem starLoop_complete (g : Bool) (hB : ∀ u ρ, ρ ∈ R u → (K u).isSome = true) :
    ∀ s ρ, ρ ∈ starRests R s → (starLoop g K s).isSome = true := by
  intro s
  induction s with
  | nil => intro ρ h; simp only [starRests] at h; simp only [starLoop]; exact hB _ _ h
  | cons c t ih =>
    intro ρ h
    simp only [starRests, List.mem_append] at h
    cases g with
    | true =>
      simp only [starLoop, if_true]
      cases h1 : starLoop true K t with
      | some r => simp
      | none =>
        rcases h with h | h
        · simpa using hB _ _ h
        · have := ih _ h; rw [h1] at this; simp at this
    | false =>
      simp only [starLoop, Bool.false_eq_true, if_false]
      cases h1 : K (c :: t) with
      | some r => simp
      | none =>
        rcases h with h | h
        · have := hB _ _ h; rw [h1] at this; simp at this
        · simpa using ih _ h

theorem starLoop_greedy_min
    (hA : ∀ u ρ, K u = some ρ → ρ ∈ R u) (hB : ∀ u ρ, ρ ∈ R u → (K u).isSome = true)
    (hC : ∀ u ρ, K u = some ρ → ∀ ρ' ∈ R u, ρ.length ≤ ρ'.length)
    (hM : ∀ (s t ρ : List Char), t <:+ s → ρ ∈ R s → R t ≠ [] → ∃ ρ', ρ' ∈ R t ∧ ρ'.length ≤ ρ.length) :
    ∀ s ρ, starLoop true K s = some ρ → ∀ ρ' ∈ starRests R s, ρ.length ≤ ρ'.length := by
  intro s
  induction s with
  | nil => intro ρ h ρ' hρ'; simp only [starLoop] at h; simp only [starRests] at hρ'; exact hC _ _ h _ hρ'
  | cons c t ih =>
    intro ρ h ρ' hρ'
    simp only [starRests, List.mem_append] at hρ'
    simp only [starLoop, if_true] at h
    cases h1 : starLoop true K t with
    | some r =>
      rw [h1] at h; simp at h; subst h
      rcases hρ' with hρ' | hρ'
      · -- ρ' comes from the whole string: some later rest is at most as long
        have hin := starLoop_sound K R true hA t _ h1
        obtain ⟨w, hwt, hw⟩ := (mem_starRests _ _ _).mp hin
        obtain ⟨ρ'', hρ'', hle⟩ := hM (c :: t) w ρ' (hwt.trans (List.suffix_cons c t)) hρ' (List.ne_nil_of_mem hw)
        have := ih _ h1 ρ'' ((mem_starRests _ _ _).mpr ⟨w, hwt, hρ''⟩)
        omega
      · exact ih _ h1 _ hρ'
    | none =>
      rw [h1] at h
      rcases hρ' with hρ' | hρ'
      · exact hC _ _ h _ hρ'
      · have := starLoop_complete K R true hB t _ hρ'; rw [h1] at this; simp at this

theorem starLoop_lazy_max
    (hA : ∀ u ρ, K u = some ρ → ρ ∈ R u) (hB : ∀ u ρ, ρ ∈ R u → (K u).isSome = true)
    (hD : ∀ u ρ, K u = some ρ → ∀ ρ' ∈ R u, ρ'.length ≤ ρ.length)
    (hM : ∀ (s t ρ : List Char), t <:+ s → ρ ∈ R t → R s ≠ [] → ∃ ρ', ρ' ∈ R s ∧ ρ.length ≤ ρ'.length) :
    ∀ s ρ, starLoop false K s = some ρ → ∀ ρ' ∈ starRests R s, ρ'.length ≤ ρ.length := by
  intro s
  induction s with
  | nil => intro ρ h ρ' hρ'; simp only [starLoop] at h; simp only [starRests] at hρ'; exact hD _ _ h _ hρ'
  | cons c t ih =>
    intro ρ h ρ' hρ'
    simp only [starRests, List.mem_append] at hρ'
    simp only [starLoop, Bool.false_eq_true, if_false] at h
    cases h1 : K (c :: t) with
    | some r =>
      rw [h1] at h; simp at h; subst h
      rcases hρ' with hρ' | hρ'
      · exact hD _ _ h1 _ hρ'
      · obtain ⟨w, hwt, hw⟩ := (mem_starRests _ _ _).mp hρ'
        obtain ⟨ρ'', hρ'', hle⟩ := hM (c :: t) w ρ' (hwt.trans (List.suffix_cons c t)) hw
          (List.ne_nil_of_mem (hA _ _ h1))
        have := hD _ _ h1 _ hρ''
        omega
    | none =>
      rw [h1] at h
      rcases hρ' with hρ' | hρ'
      · have := hB _ _ hρ'; rw [h1] at this; simp at this
      · exact ih _ h _ hρ'

end Star

/-! ### the matcher against the rests -/

theorem matchHere_rests (n : Nat) (re : List ReAtom) (hp : re.all plainAtom = true) :
    (∀ g s ρ, matchHere g n re s = some ρ → ρ ∈ rests re s) ∧
    (∀ g s ρ, ρ ∈ rests re s → (matchHere g n re s).isSome = true) ∧
    (∀ s ρ, matchHere true n re s = some ρ → ∀ ρ' ∈ rests re s, ρ.length ≤ ρ'.length) ∧
    (∀ s ρ, matchHere false n re s = some ρ → ∀ ρ' ∈ rests re s, ρ'.length ≤ ρ.length) := by
  induction re with
  | nil =>
    refine ⟨?_, ?_, ?_, ?_⟩
    · intro g s ρ h; simp [matchHere] at h; simp [rests, h]
    · intro g s ρ _; simp [matchHere]
    · intro s ρ h ρ' hρ'; simp [matchHere] at h; simp [rests] at hρ'; subst h; subst hρ'; exact Nat.le_refl _
    · intro s ρ h ρ' hρ'; simp [matchHere] at h; simp [rests] at hρ'; subst h; subst hρ'; exact Nat.le_refl _
  | cons a r ih =>
    simp only [List.all_cons, Bool.and_eq_true] at hp
    obtain ⟨iA, iB, iC, iD⟩ := ih hp.2
    cases a with
    | any =>
      refine ⟨?_, ?_, ?_, ?_⟩
      · intro g s ρ h
        cases s with
        | nil => simp [matchHere] at h
        | cons c t => simp only [matchHere] at h; simp only [rests]; exact iA g t ρ h
      · intro g s ρ h
        cases s with
        | nil => simp [rests] at h
        | cons c t => simp only [rests] at h; simp only [matchHere]; exact iB g t ρ h
      · intro s ρ h ρ' hρ'
        cases s with
        | nil => simp [matchHere] at h
        | cons c t => simp only [matchHere] at h; simp only [rests] at hρ'; exact iC t ρ h ρ' hρ'
      · intro s ρ h ρ' hρ'
        cases s with
        | nil => simp [matchHere] at h
        | cons c t => simp only [matchHere] at h; simp only [rests] at hρ'; exact iD t ρ h ρ' hρ'
    | one x =>
      refine ⟨?_, ?_, ?_, ?_⟩
      · intro g s ρ h
        cases s with
        | nil => simp [matchHere] at h
        | cons c t =>
          simp only [matchHere] at h; simp only [rests]
          by_cases hc : x.mem c = true
          · simp only [hc, if_true] at h ⊢; exact iA g t ρ h
          · simp [hc] at h
      · intro g s ρ h
        cases s with
        | nil => simp [rests] at h
        | cons c t =>
          simp only [rests] at h; simp only [matchHere]
          by_cases hc : x.mem c = true
          · simp only [hc, if_true] at h ⊢; exact iB g t ρ h
          · simp [hc] at h
      · intro s ρ h ρ' hρ'
        cases s with
        | nil => simp [matchHere] at h
        | cons c t =>
          simp only [matchHere] at h; simp only [rests] at hρ'
          by_cases hc : x.mem c = true
          · simp only [hc, if_true] at h hρ'; exact iC t ρ h ρ' hρ'
          · simp [hc] at h
      · intro s ρ h ρ' hρ'
        cases s with
        | nil => simp [matchHere] at h
        | cons c t =>
          simp only [matchHere] at h; simp only [rests] at hρ'
          by_cases hc : x.mem c = true
          · simp only [hc, if_true] at h hρ'; exact iD t ρ h ρ' hρ'
          · simp [hc] at h
    | star =>
      refine ⟨?_, ?_, ?_, ?_⟩
      · intro g s ρ h
        simp only [matchHere] at h; simp only [rests]
        exact starLoop_sound _ _ g (fun u ρ => iA g u ρ) s ρ h
      · intro g s ρ h
        simp only [rests] at h; simp only [matchHere]
        exact starLoop_complete _ _ g (fun u ρ => iB g u ρ) s ρ h
      · intro s ρ h ρ' hρ'
        simp only [matchHere] at h; simp only [rests] at hρ'
        exact starLoop_greedy_min _ _ (fun u ρ => iA true u ρ) (fun u ρ => iB true u ρ) iC
          (rests_mono_le r hp.2) s ρ h ρ' hρ'
      · intro s ρ h ρ' hρ'
        simp only [matchHere] at h; simp only [rests] at hρ'
        exact starLoop_lazy_max _ _ (fun u ρ => iA false u ρ) (fun u ρ => iB false u ρ) iD
          (rests_mono_ge r hp.2) s ρ h ρ' hρ'
    | bos => simp [plainAtom] at hp
    | eos => simp [plainAtom] at hp
    | alt bs => simp [plainAtom] at hp

end YashModel.Fnmatch
