/-
  C04 — property theorems and their non-vacuity examples ONLY (proofs: Proofs.lean; lemmas: Lemmas,
  ClassLemmas, AltLemmas, TopLemmas).  `specialChars` / `bracketSpecialChars` are GENERATED from
  yash-fnmatch/src/ast/regex.rs on every run, so editing either constant re-checks (and can break)
  `meta_subset`, `escape_roundtrip` and `toRegex_correct`.
-/
import YashModel.Fnmatch.ErrorLemmas
import YashModel.Fnmatch.TableLemmas
import YashModel.Fnmatch.WordLemmas
import YashModel.Fnmatch.CaseErrorLemmas
import YashModel.Fnmatch.InnerLemmas
import YashModel.Fnmatch.DecisionLemmas
import YashModel.Generated.FnmatchDecisions

namespace YashModel.Fnmatch
open YashModel.Generated.FnmatchTables

/-! ## ★ escaping -/

/-- Every character with a meaning of its own in the regex syntax is in the escaping tables (outside a
    class: `SPECIAL_CHARS`; inside a class: `BRACKET_SPECIAL_CHARS ∪ SPECIAL_CHARS`), and every character
    the tables escape is one the regex crate lets a backslash precede. -/
theorem meta_subset :
    (∀ c ∈ reMeta, c ∈ specialChars) ∧
    (∀ c ∈ classMeta, c ∈ bracketSpecialChars ∨ c ∈ specialChars) ∧
    (∀ c ∈ specialChars, c ∈ escapable) ∧ (∀ c ∈ bracketSpecialChars, c ∈ escapable) :=
  Proofs.meta_subset

/-- ★ Every character escapes to itself: outside brackets the emitted text of a pattern character is
    the regex "literal c"; as a bracket member, inside `[. .]` and inside `[= =]` it is the class `{c}`. -/
theorem escape_roundtrip (c : Char) :
    parseRe (fmtTopChar c) = some [.one (.lit c)] ∧
    (∀ r, toRegex [.bracket ⟨false, [.atom (.char c)]⟩] {} = .ok r →
      parseRe r = some [.one (.cls ⟨false, [.single c]⟩)]) ∧
    (∀ r, toRegex [.bracket ⟨false, [.atom (.collating [c])]⟩] {} = .ok r →
      parseRe r = some [.one (.cls ⟨false, [.single c]⟩)]) ∧
    (∀ r, toRegex [.bracket ⟨false, [.atom (.equiv [c])]⟩] {} = .ok r →
      parseRe r = some [.one (.cls ⟨false, [.single c]⟩)]) ∧
    (∀ d, (ClassItem.single c).mem d = (d == c)) :=
  Proofs.escape_roundtrip c

/-- non-vacuity of the bracket clauses: the translation succeeds for every `c` -/
example (c : Char) :
    toRegex [.bracket ⟨false, [.atom (.char c)]⟩] {} = .ok ('[' :: fmtRegexChar c ++ [']']) ∧
    toRegex [.bracket ⟨false, [.atom (.collating [c])]⟩] {} = .ok ('[' :: fmtRegexChar c ++ [']']) :=
  Proofs.escape_roundtrip_nonvacuous c

/-! ## ★ the regex text denotes the glob language -/

/-- ★ Whenever the translation succeeds and the regex compiles, the compiled regex — fully anchored,
    greedy or lazy — accepts exactly the strings the pattern denotes.  Full strength: every syntax tree
    (any characters incl. all regex-special ones, ranges, complements, classes, collating symbols and
    equivalence classes, multi-character collating elements). -/
theorem toRegex_correct (ast : Ast) (cfg : Config) (hb : cfg.anchorBegin = true) (he : cfg.anchorEnd = true)
    (r : List Char) (h : toRegex ast cfg = .ok r) (re : List ReAtom) (hp : parseRe r = some re)
    (g : Bool) (s : List Char) :
    (findAt g re s 0).isSome = globMatch ast s :=
  Proofs.toRegex_correct ast cfg hb he r h re hp g s

/-- non-vacuity: `a[!b-d[.-.]]*` translates to `\Aa[^b-d\-].*\z`, which compiles -/
example :
    let ast : Ast := [.char 'a', .bracket ⟨true, [.range (.char 'b') (.char 'd'), .atom (.collating ['-'])]⟩,
      .anyString]
    (toRegex ast { anchorBegin := true, anchorEnd := true }).toOption = some "\\Aa[^b-d\\-].*\\z".toList ∧
    (parseRe "\\Aa[^b-d\\-].*\\z".toList).isSome = true := by decide

/-- ★ `Pattern::is_match` under the `case` configuration (both anchors), including the literal fast
    path: a pattern that compiles matches exactly the strings its syntax tree denotes. -/
theorem isMatch_correct (ast : Ast) (cfg : Config) (hb : cfg.anchorBegin = true) (he : cfg.anchorEnd = true)
    (hl : cfg.literalPeriod = false) (p : Pattern) (h : Pattern.fromAst ast cfg = .ok p) (s : List Char) :
    p.isMatch s = globMatch ast s :=
  Proofs.isMatch_correct ast cfg hb he hl p h s

/-- non-vacuity: `[a\-z]*` (quoted hyphen) compiles, matches `-x` and not `bx` -/
example :
    let ast : Ast := [.bracket ⟨false, [.atom (.char 'a'), .atom (.char '-'), .atom (.char 'z')]⟩, .anyString]
    (match Pattern.fromAst ast caseConfig with
     | .ok p => some (p.isMatch "-x".toList, p.isMatch "bx".toList)
     | .error _ => none) = some (true, false) := by decide

/-- non-vacuity: `[![.ch.]]` (all items multi-character, F8) compiles, matches `q` and not `ch` -/
example :
    (match Pattern.fromAst [.bracket ⟨true, [.atom (.collating ['c', 'h'])]⟩] caseConfig with
     | .ok p => some (p.isMatch "q".toList, p.isMatch "ch".toList)
     | .error _ => none) = some (true, false) := by decide

/-! ## ★ quoted characters match only themselves -/

/-- ★ A pattern made of quoted (`Literal`) characters only is the literal string: it always compiles (fast
    path) and, fully anchored, matches exactly that string — whatever the characters are. -/
theorem literal_is_literal (cs : List Char) (cfg : Config) (hb : cfg.anchorBegin = true)
    (he : cfg.anchorEnd = true) :
    parseAtoms (cs.map .literal) = cs.map .char ∧
    ∃ p, Pattern.parse (cs.map .literal) cfg = .ok p ∧ ∀ s, p.isMatch s = decide (s = cs) :=
  Proofs.literal_is_literal cs cfg hb he

/-- ★ Inside a bracket expression a quoted character is always a plain member: it never closes the
    bracket, never complements it, never opens `[. .]`, and its hyphen flag is `false` … -/
theorem literal_in_bracket_is_member (compl : Bool) (st : ItemStack) (c : Char) (t : List PatternChar) :
    bracketLoop compl st (.literal c :: t) =
      bracketLoop compl (makeRange ((.atom (.char c), false) :: st)) t :=
  Proofs.literal_in_bracket_is_member compl st c t

/-- … and an item whose hyphen flag is `false` is never taken as the range operator (so `[a\-z]` is the
    set {a, -, z}). -/
theorem quoted_hyphen_no_range (x y : BracketItem) (f : Bool) (rest : ItemStack) :
    makeRange ((x, f) :: (y, false) :: rest) = (x, f) :: (y, false) :: rest :=
  Proofs.quoted_hyphen_no_range x y f rest

/-- non-vacuity: the stack after `a`, quoted `-`, `z` stays three members; with an unquoted `-` it folds -/
example : makeRange [(.atom (.char 'z'), false), (.atom (.char '-'), false), (.atom (.char 'a'), false)]
      = [(.atom (.char 'z'), false), (.atom (.char '-'), false), (.atom (.char 'a'), false)] ∧
    makeRange [(.atom (.char 'z'), false), (.atom (.char '-'), true), (.atom (.char 'a'), false)]
      = [(.range (.char 'a') (.char 'z'), false)] := by decide

/-! ## ★ an unclosed `[` is literal -/

/-- ★ A `[` that no unquoted `]` follows is an ordinary character, and the characters after it are
    parsed as if the `[` were not special. -/
theorem unclosed_bracket_literal (t : List PatternChar) (h : ∀ pc ∈ t, pc ≠ .normal ']') :
    parseAtoms (.normal '[' :: t) = .char '[' :: parseAtoms t :=
  Proofs.unclosed_bracket_literal t h

/-- non-vacuity: `[b\]` (the `]` is quoted) meets the hypothesis -/
example : ∀ pc ∈ [PatternChar.normal 'b', .literal ']'], pc ≠ .normal ']' := by decide

/-! ## ★ patterns that do not compile -/

/-- ★ A pattern outside the defined notation (undefined class name, class as range bound, inverted range,
    empty symbol — whatever makes `parse_with_config` fail) makes a trim a no-op and makes `case` skip
    that pattern and go on with the next. -/
theorem invalid_pattern_fallbacks (pcs : List PatternChar) :
    (∀ side len e v, Pattern.parse pcs (trimConfig side len) = .error e → trimApply side len pcs v = v) ∧
    (∀ e i rest subj, Pattern.parse pcs caseConfig = .error e →
      caseFirst.go subj i (pcs :: rest) = caseFirst.go subj (i + 1) rest) :=
  Proofs.invalid_pattern_fallbacks pcs

/-- non-vacuity: `[[:nothing:]]`, `[z-a]`, `[[:digit:]-9]`, `[[..]]` do not compile -/
example :
    (Pattern.fromAst [.bracket ⟨false, [.atom (.cls "nothing".toList)]⟩] caseConfig).toOption.isNone ∧
    (Pattern.fromAst [.bracket ⟨false, [.range (.char 'z') (.char 'a')]⟩] caseConfig).toOption.isNone ∧
    (Pattern.fromAst [.bracket ⟨false, [.range (.cls "digit".toList) (.char '9')]⟩] caseConfig).toOption.isNone ∧
    (Pattern.fromAst [.bracket ⟨false, [.atom (.collating [])]⟩] caseConfig).toOption.isNone := by
  decide


/-! ## ★ prefix and suffix removal delete exactly the shortest / longest matching prefix / suffix -/

/-- `find_is_extremal` (design ☆, now proved).  Hypothesis `noMulti ast`: no bracket contains a
    multi-character collating element (`[.ab.]`) — the patterns POSIX defines for the POSIX locale; with such
    elements the alternation order, not the length, decides (second example below).
    For a compiled pattern of trim form `#`/`##`/`%`/`%%` the search `trim_value` runs (`rfind` for `%`, `find`
    otherwise; greedy or `swap_greed`; regex or literal fast path) returns exactly the range `0..k` with `k`
    the least/greatest matching prefix length, resp. `a..len` with `a` the greatest/least matching suffix
    start, and `none` when nothing matches. -/
theorem find_is_extremal (ast : Ast) (hn : noMulti ast = true) (side : TrimSide) (len : TrimLength)
    (p : Pattern) (h : Pattern.fromAst ast (trimConfig side len) = .ok p) (v : List Char) :
    trimSearch p v = specRange side len ast v :=
  Proofs.find_is_extremal ast hn side len p h v

/-- ★ hence `trim_value` = the Spec's shortest/longest prefix/suffix removal -/
theorem trim_correct (ast : Ast) (hn : noMulti ast = true) (side : TrimSide) (len : TrimLength)
    (p : Pattern) (h : Pattern.fromAst ast (trimConfig side len) = .ok p) (v : List Char) :
    trimValue p v = specTrim side len ast v :=
  Proofs.trim_correct ast hn side len p h v

/-- non-vacuity: `*a` against `banana`: `%` removes `a`, `%%` everything, `#` `ba`, `##` everything -/
example :
    let ast : Ast := [.anyString, .char 'a']
    noMulti ast = true ∧
    ([(TrimSide.prefix, TrimLength.shortest), (.prefix, .longest), (.suffix, .shortest), (.suffix, .longest)].all
      (fun x => (Pattern.fromAst ast (trimConfig x.1 x.2)).toOption.isSome) = true) ∧
    [specTrim .suffix .shortest ast "banana".toList, specTrim .suffix .longest ast "banana".toList,
     specTrim .prefix .shortest ast "banana".toList, specTrim .prefix .longest ast "banana".toList]
      = ["banan".toList, [], "nana".toList, []] := by decide

/-- the hypothesis is necessary: for `[a[.ab.]]` (alternation `(?:[a]|ab)`) `##` on `ab` removes only `a` -/
example :
    let ast : Ast := [.bracket ⟨false, [.atom (.char 'a'), .atom (.collating ['a', 'b'])]⟩]
    noMulti ast = false ∧
    (match Pattern.fromAst ast (trimConfig .prefix .longest) with
     | .ok p => some (trimValue p "ab".toList)
     | .error _ => none) = some "b".toList ∧
    specTrim .prefix .longest ast "ab".toList = [] := by decide

/-- ★ Suffix removal needs NO hypothesis on the pattern: for every syntax tree — including brackets with
    multi-character collating symbols / equivalence classes, whose matches have different lengths although the
    pattern has no `*` — `find` with `\z` returns the longest and the `rfind` loop the shortest matching suffix,
    so `%%` / `%` remove exactly those (the leftmost / rightmost matching start does not depend on which
    alternative of `(?:ch|[h])` is tried first). -/
theorem suffix_trim_correct (ast : Ast) (len : TrimLength)
    (p : Pattern) (h : Pattern.fromAst ast (trimConfig .suffix len) = .ok p) (v : List Char) :
    trimSearch p v = specRange .suffix len ast v ∧ trimValue p v = specTrim .suffix len ast v :=
  ⟨Proofs.find_is_extremal_suffix ast len p h v, Proofs.trim_correct_suffix ast len p h v⟩

/-- ★ `%` spelled out: either no suffix matches and nothing is removed, or what is removed is a matching
    suffix and no proper shorter suffix matches. -/
theorem percent_removes_shortest (ast : Ast) (p : Pattern)
    (h : Pattern.fromAst ast (trimConfig .suffix .shortest) = .ok p) (v : List Char) :
    (trimValue p v = v ∧ ∀ j, j ≤ v.length → globMatch ast (v.drop j) = false) ∨
    (∃ k, k ≤ v.length ∧ trimValue p v = v.take k ∧ globMatch ast (v.drop k) = true ∧
      ∀ j, k < j → j ≤ v.length → globMatch ast (v.drop j) = false) :=
  Proofs.percent_removes_shortest ast p h v

/-- non-vacuity with a bracket of variable match length: `[[.ch.]h]` has no `*`, is outside `noMulti`, and
    matches both `h` and `ch`; on `ach` `%` removes `h`, `%%` removes `ch`; `?[[.ch.]h]` on `bach`: `ch`→`ba`. -/
example :
    let b : Atom := .bracket ⟨false, [.atom (.collating ['c', 'h']), .atom (.char 'h')]⟩
    noMulti [b] = false ∧
    globMatch [b] "h".toList = true ∧ globMatch [b] "ch".toList = true ∧
    (match Pattern.fromAst [b] (trimConfig .suffix .shortest), Pattern.fromAst [b] (trimConfig .suffix .longest),
        Pattern.fromAst [.anyChar, b] (trimConfig .suffix .shortest) with
     | .ok p, .ok q, .ok r => some (trimValue p "ach".toList, trimValue q "ach".toList, trimValue r "bach".toList)
     | _, _, _ => none) = some ("ac".toList, "a".toList, "ba".toList) ∧
    specTrim .suffix .shortest [b] "ach".toList = "ac".toList := by decide

/-! ## ★ patterns inside the defined notation always compile -/

/-- ★ Converse of `invalid_pattern_fallbacks`: a syntax tree with defined class names, no class as range
    bound, no empty symbol, no inverted range (and no empty bracket, which the parser never produces) compiles
    under every configuration — the fallbacks can only ever hit patterns outside the defined notation. -/
theorem defined_compiles (ast : Ast) (h : astDefined ast = true) (cfg : Config) :
    ∃ p, Pattern.fromAst ast cfg = .ok p :=
  Proofs.defined_compiles ast h cfg

/-- ★ so for defined patterns without multi-character elements the shell-level trim is the Spec's -/
theorem trimApply_correct (pcs : List PatternChar) (hd : astDefined (parseAtoms pcs) = true)
    (hn : noMulti (parseAtoms pcs) = true) (side : TrimSide) (len : TrimLength) (v : List Char) :
    trimApply side len pcs v = specTrim side len (parseAtoms pcs) v := by
  obtain ⟨p, hp⟩ := defined_compiles (parseAtoms pcs) hd (trimConfig side len)
  unfold trimApply Pattern.parse
  rw [hp]
  exact trim_correct (parseAtoms pcs) hn side len p hp v

/-- ★ and the Array arm of `trim::apply` (`"${@#pat}"`): every element is trimmed, each exactly as the Spec says -/
theorem trimArray_correct (pcs : List PatternChar) (hd : astDefined (parseAtoms pcs) = true)
    (hn : noMulti (parseAtoms pcs) = true) (side : TrimSide) (len : TrimLength) (vs : List (List Char)) :
    trimArray side len pcs vs = vs.map (specTrim side len (parseAtoms pcs)) := by
  unfold trimArray
  exact List.map_congr_left (fun v _ => trimApply_correct pcs hd hn side len v)

/-- non-vacuity on pattern characters (the form `trimApply_correct` / `trimArray_correct` quantify over): the
    pattern text `a*\?` read with escapes meets both hypotheses; `#` removes `ab?`, `##` everything -/
example :
    astDefined (parseAtoms (withEscape ['a', '*', '\\', '?'])) = true ∧
    noMulti (parseAtoms (withEscape ['a', '*', '\\', '?'])) = true ∧
    trimApply .prefix .shortest (withEscape ['a', '*', '\\', '?']) "ab?x?".toList = "x?".toList ∧
    trimApply .prefix .longest (withEscape ['a', '*', '\\', '?']) "ab?x?".toList = [] := by
  have e : parseAtoms (withEscape ['a', '*', '\\', '?']) = [.char 'a', .anyString, .char '?'] := by
    simp [parseAtoms, withEscape, PatternChar.charValue]
  simp only [trimApply, Pattern.parse, e]
  decide

/-- non-vacuity: `[![:digit:]x-z]*[[.-.]]` is defined and has no multi-character element -/
example :
    let ast : Ast := [.bracket ⟨true, [.atom (.cls "digit".toList), .range (.char 'x') (.char 'z')]⟩, .anyString,
      .bracket ⟨false, [.atom (.collating ['-'])]⟩]
    astDefined ast = true ∧ noMulti ast = true := by decide


/-! ## ★★ end to end: pattern characters → POSIX notation → match (proof-deepening round) -/

/-- ★ The implementation's parser — item stack, hyphen flags, `make_range` after every push, `]`/`!`/`^`/`[`
    special only when unquoted and in position — computes exactly the grammar of the Spec (`specBracket`,
    `specParse`: member := elem `-` elem | elem, written without any stack), for every pattern-character string. -/
theorem parser_is_grammar (cs : List PatternChar) :
    parseBracket cs = specBracket cs ∧ parseAtoms cs = specParse cs :=
  ⟨parseBracket_eq_spec cs, parseAtoms_eq_spec cs.length cs (Nat.le_refl _)⟩

/-- ★★ `match_correct`: for EVERY pattern-character string (quoted and unquoted characters, any characters)
    and every subject: if the pattern compiles under the `case` configuration, `is_match` is exactly POSIX
    pattern matching as defined by the Spec from the characters up (`posixMatch` = grammar + `globMatch`), and
    every pattern inside the defined notation does compile.  The chain parser → regex text → regex-crate parse
    → leftmost-first search (or the literal fast path) is kernel-checked end to end. -/
theorem match_correct (pcs : List PatternChar) (cfg : Config) (hb : cfg.anchorBegin = true)
    (he : cfg.anchorEnd = true) (hl : cfg.literalPeriod = false) :
    (∀ p, Pattern.parse pcs cfg = .ok p → ∀ s, p.isMatch s = posixMatch pcs s) ∧
    (astDefined (specParse pcs) = true → ∃ p, Pattern.parse pcs cfg = .ok p) := by
  have hp := (parser_is_grammar pcs).2
  constructor
  · intro p h s
    unfold posixMatch
    rw [← hp]
    exact isMatch_correct (parseAtoms pcs) cfg hb he hl p h s
  · intro hd
    rw [← hp] at hd
    exact defined_compiles (parseAtoms pcs) hd cfg

/-- non-vacuity: the quoted pattern `a*` is inside the defined notation (so it compiles and `match_correct`
    speaks about it) -/
example : astDefined (specParse (List.map PatternChar.literal ['a', '*'])) = true := by
  rw [← (parser_is_grammar _).2, Proofs.parseAtoms_literals]; decide

/-- ★ Prefix removal for EVERY pattern (also with multi-character collating elements, where `noMulti` fails):
    what `#`/`##` remove is a matching prefix, and nothing is removed only when no prefix matches.  Which
    matching prefix: the first in the matcher's priority order (alternatives of a bracket in the order written,
    `*` lazy/greedy) — the least/greatest one exactly when `noMulti` (`trim_correct`). -/
theorem prefix_trim_sound (ast : Ast) (len : TrimLength) (p : Pattern)
    (h : Pattern.fromAst ast (trimConfig .prefix len) = .ok p) (v : List Char) :
    (trimValue p v = v ∧ ∀ k, k ≤ v.length → globMatch ast (v.take k) = false) ∨
    (∃ k, k ≤ v.length ∧ trimValue p v = v.drop k ∧ globMatch ast (v.take k) = true) :=
  Proofs.prefix_trim_sound ast len p h v

/-- non-vacuity outside `noMulti`: `[a[.ab.]]` compiles for `##` and removes the matching prefix `a` of `ab` -/
example :
    let ast : Ast := [.bracket ⟨false, [.atom (.char 'a'), .atom (.collating ['a', 'b'])]⟩]
    (match Pattern.fromAst ast (trimConfig .prefix .longest) with
     | .ok p => some (trimValue p "ab".toList)
     | .error _ => none) = some ("ab".toList.drop 1) ∧ globMatch ast ("ab".toList.take 1) = true := by decide

/-- ★ The shell-level suffix trims for every defined pattern, with no hypothesis on multi-character elements
    (the statement a wrong `shortest_match` in `trim::apply`'s configuration breaks — seeded change 3). -/
theorem trimApply_suffix_correct (pcs : List PatternChar) (hd : astDefined (parseAtoms pcs) = true)
    (len : TrimLength) (v : List Char) :
    trimApply .suffix len pcs v = specTrim .suffix len (parseAtoms pcs) v :=
  Proofs.trimApply_suffix_correct pcs hd len v

/-- ★ The Spec's searches meet their description: `leastUpTo` / `greatestUpTo` return the least / greatest
    `k ≤ n` with `p k`, and `none` exactly when there is none (so `specTrim` removes the shortest / longest
    matching prefix / suffix in the literal sense). -/
theorem specTrim_declarative (p : Nat → Bool) (n : Nat) :
    ((leastUpTo p n = none ∧ ∀ j, j ≤ n → p j = false) ∨
     (∃ k, leastUpTo p n = some k ∧ k ≤ n ∧ p k = true ∧ ∀ j, j < k → p j = false)) ∧
    ((greatestUpTo p n = none ∧ ∀ j, j ≤ n → p j = false) ∨
     (∃ k, greatestUpTo p n = some k ∧ k ≤ n ∧ p k = true ∧ ∀ j, k < j → j ≤ n → p j = false)) :=
  ⟨Proofs.leastUpTo_spec, Proofs.greatestUpTo_spec⟩

/-- ★ `rfind` steps by characters, not bytes (seeded change 1): from the match starting at character `i` the
    byte-wise probe `(start+1..=len).find(is_char_boundary)` lands exactly on character `i+1` — whatever the
    encoded length (1–4 bytes) of character `i` — and on nothing only at the end of the text; hence one round
    of the loop is "search again from the next character". -/
theorem rfind_step_is_next_char (text : List Char) (i : Nat) (g : Bool) (re : List ReAtom) (fuel : Nat)
    (cur : Nat × Nat) :
    (nextBoundary text (byteOffset text i)).map (·.1) = (if i + 1 ≤ text.length then some (i + 1) else none) ∧
    rfindLoop g re text (fuel + 1) cur =
      (if cur.1 + 1 ≤ text.length then
        (match findAt g re text (cur.1 + 1) with
         | some r => rfindLoop g re text fuel r
         | none => cur)
       else cur) :=
  ⟨nextBoundary_index text i, rfindLoop_unfold g re text fuel cur⟩

/-- non-vacuity: after the 4-byte character `𝄞` (bytes 0..4) the next boundary is byte 4 = character 1 -/
example : nextBoundary "𝄞a".toList (byteOffset "𝄞a".toList 0) = some (1, 4) := by decide

/-- ★ The whole `case` command (`case.rs execute` + `matches`: every item, every `|`-alternative, `;;` `;&`
    `;;&`): with all alternatives inside the defined notation, the bodies that run, in order, are the Spec's
    (`specCaseExec` over the grammar-parsed alternatives); the error-aware run the driver uses for failing
    expansions is the same run when nothing fails; and the Spec's run starts at the Spec's selected item. -/
theorem caseExec_spec (subj : List Char) (items : List (List (List PatternChar) × CaseCont))
    (hd : ∀ it ∈ items, ∀ p ∈ it.1, astDefined (parseAtoms p) = true) :
    caseExec items subj = specCaseExec subj false 0 (items.map fun it => (it.1.map specParse, it.2)) ∧
    caseExecEGo subj false 0 (items.map fun it => (it.1.map some, it.2)) = (caseExec items subj, false) ∧
    (specCaseExec subj false 0 (items.map fun it => (it.1.map specParse, it.2))).head? =
      specCaseSelect (items.map fun it => it.1.map specParse) subj := by
  have hfun : parseAtoms = specParse := funext fun cs => (parser_is_grammar cs).2
  refine ⟨?_, Proofs.caseExecEGo_no_error subj items false 0, ?_⟩
  · rw [← hfun]; exact Proofs.caseExecGo_spec subj items hd false 0
  · rw [Proofs.specCaseExec_head]
    unfold specCaseSelect
    simp only [List.map_map, List.findIdx?_map, Option.map_map]
    have : ∀ o : Option Nat, Option.map (fun x => x + 0) o = o := by intro o; cases o <;> rfl
    rw [this]
    rfl

/-- non-vacuity: an item list whose alternatives are quoted patterns meets the hypothesis -/
example : ∀ it ∈ [([List.map PatternChar.literal ['a']], CaseCont.brk)], ∀ p ∈ it.1,
    astDefined (parseAtoms p) = true := by
  intro it hi p hp
  simp at hi; subst hi
  simp at hp; subst hp
  have := Proofs.parseAtoms_literals ['a']
  simp only [List.map] at this
  rw [this]; decide

/-! ## ★ `case` runs the first item with a matching pattern -/

/-- ★ `case` selects the first pattern that compiles and whose syntax tree denotes the subject; when all
    patterns compile this is the Spec's "first item with a matching pattern". -/
theorem case_first_match (pats : List (List PatternChar)) (subj : List Char) :
    caseFirst pats subj = pats.findIdx? (fun p => compilesB p && globMatch (parseAtoms p) subj) ∧
    ((∀ p ∈ pats, compilesB p = true) → caseFirst pats subj = specCase (pats.map parseAtoms) subj) :=
  Proofs.case_first_match pats subj

/-- ★ `case` with `|`-alternatives (`case.rs matches` + the item loop): the item selected is the FIRST item
    having an alternative that compiles and denotes the subject — an alternative that does not compile is
    skipped and the remaining alternatives of the same item still count — and `none` if there is no such
    item; the first body `case` executes is that item's; and when every alternative is inside the defined
    notation this is the Spec's selection. -/
theorem caseSelect_first (items : List (List (List PatternChar))) (subj : List Char) :
    caseSelect items subj =
      items.findIdx? (fun alts => alts.any (fun p => compilesB p && globMatch (parseAtoms p) subj)) ∧
    (∀ its : List (List (List PatternChar) × CaseCont),
      (caseExec its subj).head? = caseSelect (its.map Prod.fst) subj) ∧
    ((∀ alts ∈ items, ∀ p ∈ alts, astDefined (parseAtoms p) = true) →
      caseSelect items subj = specCaseSelect (items.map (fun alts => alts.map parseAtoms)) subj) :=
  ⟨Proofs.caseSelect_first items subj, fun its => Proofs.caseExecGo_head subj its 0,
   Proofs.caseSelect_spec items subj⟩

/-- non-vacuity of the third clause: quoted patterns are inside the defined notation -/
example : astDefined (parseAtoms (List.map PatternChar.literal ['[', 'b', '-', 'a', ']'])) = true := by
  rw [Proofs.parseAtoms_literals]; decide

/-- non-vacuity of the second clause: literal patterns always compile -/
example : compilesB (List.map PatternChar.literal ['a', '*']) = true := by
  obtain ⟨p, hp, _⟩ := (literal_is_literal ['a', '*'] caseConfig rfl rfl).2
  unfold compilesB
  rw [hp]

/-! ## ★ extension round: every configuration, `literal_period`, the tables, the shell word -/

/-- ★ `Pattern::find` under EVERY configuration (four anchorings × greedy/lazy × `literal_period`, regex path and
    literal fast path, every syntax tree incl. multi-character elements): what it returns is an occurrence of the
    pattern (`occurs`: that part of the text is in the glob language and respects the anchors), it starts at the
    LEFTMOST position at or after the search start where any occurrence starts, and `None` means there is no
    occurrence at or after the search start.  (`searchStart` = 1 when `literal_period` rejects an initial dot on
    the regex path, else 0.)  Which end it takes at that start is the matcher's priority order — the shortest /
    longest one for patterns without multi-character elements (`find_is_extremal`). -/
theorem find_leftmost (ast : Ast) (cfg : Config) (p : Pattern) (h : Pattern.fromAst ast cfg = .ok p)
    (s : List Char) :
    match p.find s with
    | none => ∀ i j, searchStart ast cfg s ≤ i → ¬ occurs cfg.anchorBegin cfg.anchorEnd ast s i j
    | some (a, e) => searchStart ast cfg s ≤ a ∧ occurs cfg.anchorBegin cfg.anchorEnd ast s a e ∧
        ∀ i j, searchStart ast cfg s ≤ i → i < a → ¬ occurs cfg.anchorBegin cfg.anchorEnd ast s i j :=
  Proofs.find_leftmost ast cfg p h s

/-- ★ `Pattern::rfind` under every configuration: an occurrence that starts at the RIGHTMOST position where any
    occurrence starts (the byte-wise `while let` loop, with `rfind_step_is_next_char`), `None` iff `find` finds
    nothing. -/
theorem rfind_rightmost (ast : Ast) (cfg : Config) (p : Pattern) (h : Pattern.fromAst ast cfg = .ok p)
    (s : List Char) :
    match p.rfind s with
    | none => ∀ i j, searchStart ast cfg s ≤ i → ¬ occurs cfg.anchorBegin cfg.anchorEnd ast s i j
    | some (a, e) => searchStart ast cfg s ≤ a ∧ occurs cfg.anchorBegin cfg.anchorEnd ast s a e ∧
        ∀ i j, a < i → ¬ occurs cfg.anchorBegin cfg.anchorEnd ast s i j :=
  Proofs.rfind_rightmost ast cfg p h s

/-- ★ `Pattern::is_match` under every configuration = the Spec's "some part of the text admitted by the anchors is
    in the glob language" (`specIsMatchFrom`, the executable form of `∃ i j, occurs …`); `is_match` is
    `find(..).is_some()` on both paths. -/
theorem isMatch_any_config (ast : Ast) (cfg : Config) (p : Pattern) (h : Pattern.fromAst ast cfg = .ok p)
    (s : List Char) :
    p.isMatch s = specIsMatchFrom cfg.anchorBegin cfg.anchorEnd ast s (searchStart ast cfg s) ∧
    p.isMatch s = (p.find s).isSome ∧
    (p.isMatch s = true ↔ ∃ i j, searchStart ast cfg s ≤ i ∧ occurs cfg.anchorBegin cfg.anchorEnd ast s i j) :=
  ⟨Proofs.isMatch_any_config ast cfg p h s, isMatch_eq_find p s, Proofs.isMatch_iff ast cfg p h s⟩

/-- non-vacuity: `*a` unanchored and lazy (`swap_greed`) on `banana` compiles; `find` gives `0..2` (`ba`: leftmost
    start, shortest end), `rfind` `5..6`; with `literal_period` `?x` on `.x.x` is searched from index 1: `2..4`. -/
example :
    (match Pattern.fromAst [.anyString, .char 'a'] { shortest := true } with
     | .ok p => some (p.find "banana".toList, p.rfind "banana".toList, p.isMatch "bnn".toList)
     | .error _ => none) = some (some (0, 2), some (5, 6), false) ∧
    (match Pattern.fromAst [.anyChar, .char 'x'] { literalPeriod := true } with
     | .ok p => some (p.find ".x.x".toList)
     | .error _ => none) = some (some (2, 4)) ∧
    searchStart [.anyChar, .char 'x'] { literalPeriod := true } ".x.x".toList = 1 := by decide

/-- ★ glob's configuration (both anchors + `literal_period`): `is_match` is POSIX matching with the leading-period
    rule of XCU 2.13.3 — a leading period of the text is matched only by a period written as the first character of
    the pattern, never by `?`, `*` or a bracket expression. -/
theorem literal_period_correct (ast : Ast) (cfg : Config) (hb : cfg.anchorBegin = true)
    (he : cfg.anchorEnd = true) (hl : cfg.literalPeriod = true) (p : Pattern)
    (h : Pattern.fromAst ast cfg = .ok p) (s : List Char) :
    p.isMatch s = specPeriodMatch ast s :=
  Proofs.literal_period_correct ast cfg hb he hl p h s

/-- non-vacuity: under glob's configuration `*`, `?x`, `[.]x` do not match `.x`, `.*` and the literal `.x` do -/
example :
    let cfg : Config := { anchorBegin := true, anchorEnd := true, literalPeriod := true }
    let dotSet : Atom := .bracket ⟨false, [.atom (.char '.')]⟩
    ([[Atom.anyString], [.anyChar, .char 'x'], [dotSet, .char 'x'], [.char '.', .anyString],
      [.char '.', .char 'x']].map fun ast =>
      match Pattern.fromAst ast cfg with
      | .ok p => some (p.isMatch ".x".toList)
      | .error _ => none) = [some false, some false, some false, some true, some true] := by decide

/-- ★ The hand-written tables of the regex-crate model are the tables of the regex-syntax crate the harness links
    (re-extracted from its source on every run): the characters a backslash may precede
    (`is_meta_character`), the class names of `ClassAsciiKind::from_name` (same names, same order), and for every
    class and EVERY character membership by the byte ranges of `hir::translate::ascii_class`. -/
theorem regex_tables_agree :
    ((∀ c ∈ escapable, c ∈ Generated.FnmatchRegexSyntax.metaChars) ∧
     (∀ c ∈ Generated.FnmatchRegexSyntax.metaChars, c ∈ escapable)) ∧
    Generated.FnmatchRegexSyntax.asciiClasses.map (·.1.toList) = AsciiKind.all.map AsciiKind.name ∧
    ∀ (k : AsciiKind) (c : Char), k.mem c = inRanges (rangesOfKind k) c :=
  ⟨Proofs.escapable_agree, Proofs.names_agree, Proofs.kinds_mem_ranges⟩

/-- ★ The constants of /repo the model is built on, re-extracted on every run: `Config` has exactly the five flags
    (four modelled + `case_insensitive`), `Error` the five classes of `Err`, `from_ast_and_config` sets exactly
    `dot_matches_new_line(true)`, `swap_greed(shortest_match)`, `case_insensitive(case_insensitive)`; ast/regex.rs
    writes exactly the fourteen literals the model's `fmt` functions write; `trim::apply` sets for each side / length
    exactly the flags of `trimConfig`, and `case`'s `config()` exactly those of `caseConfig`; the only files of /repo
    that use yash-fnmatch are case.rs, trim.rs, glob.rs (C05) and attr_fnmatch.rs, and none of them touches
    `case_insensitive` (the one flag outside the model — the assumption is re-checked on every run). -/
theorem config_tables_agree :
    (Generated.FnmatchConfig.configFields =
        ["anchor_begin", "anchor_end", "case_insensitive", "literal_period", "shortest_match"] ∧
      Generated.FnmatchConfig.errorVariants =
        ["CharClassInRange", "EmptyBracket", "EmptyCollatingSymbol", "RegexError", "UndefinedCharClass"] ∧
      Generated.FnmatchConfig.regexBuilderFlags =
        [("case_insensitive", "config.case_insensitive"), ("dot_matches_new_line", "true"),
         ("swap_greed", "config.shortest_match")] ∧
      Generated.FnmatchConfig.emittedLiterals =
        ["(?:", ")", "-", ".", ".*", "[", "[^", "\\", "\\A", "\\z", "]", "^", "fmt:[:{class}:]", "|"]) ∧
    (∀ side len, trimConfig side len = cfgOfFlags (sideFlags side ++ lengthFlags len) ∧
      ∀ f ∈ sideFlags side ++ lengthFlags len, f ∈ modelledFlags) ∧
    (caseConfig = cfgOfFlags Generated.FnmatchConfig.caseConfigFlags ∧
      ∀ f ∈ Generated.FnmatchConfig.caseConfigFlags, f ∈ modelledFlags) ∧
    (Generated.FnmatchConfig.fnmatchCallers =
        ["yash-semantics/src/command/compound_command/case.rs", "yash-semantics/src/expansion/attr_fnmatch.rs",
         "yash-semantics/src/expansion/glob.rs", "yash-semantics/src/expansion/initial/param/trim.rs"] ∧
      Generated.FnmatchConfig.caseInsensitiveUsers = []) :=
  ⟨Proofs.config_tables, Proofs.trimConfig_table, Proofs.caseConfig_table, Proofs.callers_table⟩

/-- ★ The Spec's meaning of `[:name:]` is the POSIX locale's: for each of the twelve class names of XBD 9.3.5 a
    bracket member `[:name:]` contains exactly the characters the POSIX locale definition (XBD 7.3.1) lists for
    that class — for every character, not only ASCII — and such a class is inside the defined notation.  (The
    range tables `AsciiKind.mem` are therefore no longer a shared assumption of model and Spec.) -/
theorem posix_classes_agree (name members : List Char) (h : posixClass name = some members) (c : Char) :
    atomHas (.cls name) c = decide (c ∈ members) ∧ atomDefined (.cls name) = true := by
  obtain ⟨k, hk, hm⟩ := Proofs.posix_class_mem name members h
  simp only [atomHas, atomDefined, hk, hm c]
  exact ⟨trivial, rfl⟩

/-- non-vacuity: `punct` is one of the twelve, with the 32 characters of the POSIX locale -/
example : posixClass "punct".toList = some posixPunct ∧ posixPunct.length = 32 := by decide

/-- ★ The pattern characters of the shell word `"$q"$p` (`apply_escapes` then `to_pattern_chars` on what
    `expand_word_attr` yields): every character of the quoted part is a `Literal`, the quotation marks vanish, and
    in the unquoted part a backslash makes the next character a `Literal` (a last lone backslash stays itself). -/
theorem shell_word_chars (q p : List Char) :
    toPatternChars (applyEscapes (shellWord q p)) = q.map .literal ++ escapeChars p :=
  Proofs.shell_word_chars q p

/-- ★ "quoted characters match only themselves" at the level of the shell: the `case` pattern `"$q"` — whatever
    characters `q` consists of — compiles and matches exactly the subject `q`; so does the trim pattern. -/
theorem quoted_word_matches_only_itself (q : List Char) :
    (∀ subj, itemMatches subj [toPatternChars (applyEscapes (shellWord q []))] = decide (subj = q)) ∧
    (∃ pat, Pattern.parse (toPatternChars (applyEscapes (shellWord q []))) caseConfig = .ok pat ∧
      ∀ s, pat.isMatch s = decide (s = q)) := by
  have e : toPatternChars (applyEscapes (shellWord q [])) = q.map .literal := by
    rw [shell_word_chars]; simp [escapeChars]
  rw [e]
  obtain ⟨pat, hp, hm⟩ := (literal_is_literal q caseConfig rfl rfl).2
  refine ⟨?_, pat, hp, hm⟩
  intro subj
  simp only [itemMatches, hp, hm subj]
  cases decide (subj = q) <;> rfl

/-- ★ `Ast::to_literal` / `is_literal` (the switch to the literal fast path, and what `glob` asks): a pattern is a
    literal exactly when all its atoms are ordinary characters, and the literal is those characters. -/
theorem toLiteral_spec (ast : Ast) (l : List Char) : toLiteral ast = some l ↔ ast = l.map Atom.char :=
  Proofs.toLiteral_spec ast l

/-- ★ The scan of `parse_inner` that model and Spec grammar share, characterised without recursion: the value of
    `[.`…`.]` / `[=`…`=]` / `[:`…`:]` ends at the FIRST adjacent pair of an unquoted `d` and an unquoted `]` (quoted
    ones do not count), and there is no value when there is no such pair. -/
theorem scanClose_first (d : Char) (cs v r : List PatternChar) :
    (scanClose d cs = some (v, r) ↔
      (cs = v ++ .normal d :: .normal ']' :: r ∧
       ∀ v' r', cs = v' ++ .normal d :: .normal ']' :: r' → v.length ≤ v'.length)) ∧
    (scanClose d cs = none ↔ ¬ ∃ v' r', cs = v' ++ .normal d :: .normal ']' :: r') :=
  ⟨Proofs.scanClose_spec d cs v r, Proofs.scanClose_none d cs⟩

/-- non-vacuity: in `a\.].]x` the quoted `.` does not end the value: value `a.]`, rest `x` -/
example : scanClose '.' [.normal 'a', .literal '.', .normal ']', .normal '.', .normal ']', .normal 'x']
    = some ([.normal 'a', .literal '.', .normal ']'], [.normal 'x']) := by decide

/-! ## ★ wave 2: compile ⇔ defined; the regex model is textbook leftmost-first semantics -/

/-- ★ A syntax tree compiles — under whatever configuration — EXACTLY when it is inside the defined notation
    (non-empty brackets, defined class names, no class as range bound, no empty symbol, no inverted range).  So
    "the pattern is outside the defined notation" and "`Pattern::parse_with_config` returns an error" are the same
    thing, for every pattern-character string (through the grammar `specParse`), and then the trim is a no-op and
    `case` skips the alternative.  (What C01 needs to compose: undefined ⇒ error ⇒ value unchanged.) -/
theorem compiles_iff_defined (ast : Ast) (cfg : Config) :
    ((∃ p, Pattern.fromAst ast cfg = .ok p) ↔ astDefined ast = true) ∧
    (astDefined ast = false → ∃ e, Pattern.fromAst ast cfg = .error e) :=
  ⟨Proofs.compiles_iff_defined ast cfg, Proofs.undefined_error ast cfg⟩

theorem undefined_pattern_is_error (pcs : List PatternChar) (h : astDefined (specParse pcs) = false) :
    (∀ cfg, ∃ e, Pattern.parse pcs cfg = .error e) ∧
    (∀ side len v, trimApply side len pcs v = v) ∧
    (∀ subj rest, itemMatches subj (pcs :: rest) = itemMatches subj rest) := by
  rw [← (parser_is_grammar pcs).2] at h
  have herr : ∀ cfg, ∃ e, Pattern.parse pcs cfg = .error e := fun cfg => Proofs.undefined_error _ cfg h
  refine ⟨herr, ?_, ?_⟩
  · intro side len v
    obtain ⟨e, he⟩ := herr (trimConfig side len)
    simp [trimApply, he]
  · intro subj rest
    obtain ⟨e, he⟩ := herr caseConfig
    simp [itemMatches, he]

/-- non-vacuity: `[[:foo:]]`, `[b-a]`, `[[..]]x` (as pattern characters, through the grammar) are outside the
    defined notation; the tree with an empty bracket (only buildable through `from_ast`) too -/
example :
    astDefined [.bracket ⟨false, [.atom (.cls "foo".toList)]⟩] = false ∧
    astDefined [.bracket ⟨false, [.range (.char 'b') (.char 'a')]⟩] = false ∧
    astDefined [.bracket ⟨true, [.atom (.collating [])]⟩, .char 'x'] = false ∧
    astDefined [.bracket ⟨false, []⟩] = false := by decide

/-- ★ The regex-crate model IS textbook semantics on the fragment `to_regex` emits.  (1) What `to_regex` emits
    parses to anchors only at the two ends around an anchor-free body (`cfgRe` of the compiled atoms).  (2) The
    backtracking matcher returns the FIRST entry of the priority-ordered enumeration `reEnum` (greedy `.*`: longest
    continuation first, lazy: shortest first; alternatives in the order written) — the definition of leftmost-first
    semantics.  (3) That enumeration lists exactly the rests of the order-free denotation `reDenotes` (clause by
    clause: `.` one character, `.*` any suffix, a class one member, `(?:…|…)` some branch, `\A` / `\z` the two
    ends), whatever the greed; hence the matcher is sound and complete for the denotation — for EVERY regex of the
    fragment, anchors anywhere.  (4) `find_at` returns the leftmost start at which the denotation is non-empty. -/
theorem regex_model_is_textbook (g : Bool) (n : Nat) (re : List ReAtom) (s : List Char) :
    matchHere g n re s = (reEnum g n re s).head? ∧
    (∀ ρ, ρ ∈ reEnum g n re s ↔ reDenotes n re s ρ) ∧
    (∀ ρ, matchHere g n re s = some ρ → reDenotes n re s ρ) ∧
    (∀ ρ, reDenotes n re s ρ → (matchHere g n re s).isSome = true) :=
  ⟨Proofs.matchHere_head g n re s, Proofs.mem_reEnum g n re s, Proofs.matchHere_sound g n re s,
   Proofs.matchHere_complete g n re s⟩

theorem emitted_fragment (ast : Ast) (cfg : Config) (r : List Char) (h : toRegex ast cfg = .ok r)
    (re : List ReAtom) (hp : parseRe r = some re) :
    ∃ res, cAtoms ast = some res ∧ re = cfgRe cfg.anchorBegin cfg.anchorEnd res ∧ res.all noAnchor = true := by
  rw [toRegex_parse ast cfg r h] at hp
  cases hc : cAtoms ast with
  | none => simp [hc] at hp
  | some res =>
    simp [hc] at hp
    refine ⟨res, rfl, ?_, cAtoms_noAnchor ast res hc⟩
    rw [← hp]; unfold cfgRe; rw [List.append_assoc]

theorem findAt_is_leftmost (g : Bool) (re : List ReAtom) (text : List Char) (a0 : Nat) (h0 : a0 ≤ text.length) :
    match findAt g re text a0 with
    | none => ∀ i, a0 ≤ i → i ≤ text.length → ∀ ρ, ¬ reDenotes text.length re (text.drop i) ρ
    | some (a, e) => a0 ≤ a ∧ a ≤ text.length ∧
        (∃ ρ, (reEnum g text.length re (text.drop a)).head? = some ρ ∧ e = text.length - ρ.length) ∧
        ∀ i, a0 ≤ i → i < a → ∀ ρ, ¬ reDenotes text.length re (text.drop i) ρ :=
  Proofs.findAt_is_leftmost g re text a0 h0

/-- non-vacuity: `(?:ab|[a]).*\z` on `abc`: greedy and lazy take the first branch first; the enumeration of the
    anchored regex has one entry per branch that can be completed -/
example :
    let re : List ReAtom := [.alt [[.lit 'a', .lit 'b'], [.cls ⟨false, [.single 'a']⟩]], .star, .eos]
    reEnum true 3 re "abc".toList = [[], []] ∧ matchHere false 3 re "abc".toList = some [] ∧
    reEnum true 3 [.alt [[.lit 'a', .lit 'b'], [.cls ⟨false, [.single 'a']⟩]], .star] "abc".toList
      = [[], ['c'], [], ['c'], ['b', 'c']] := by decide

/-- ★ The whole loop of `case.rs execute`, exit status included (`falling_through`, `exit_status_updated`, the final
    "`if !exit_status_updated { $? = 0 }`"): the bodies run are those of `caseExec` (hence, by `caseExec_spec`, the
    Spec's), and `$?` afterwards is XCU 2.9.4.3's: zero if no body ran, zero if the LAST body run is empty, otherwise
    what running those bodies in order leaves — whatever `$?` was on entry and whatever the bodies do to it.  (Was:
    a hand-written `caseStatus` in the driver, compared in the run only.) -/
theorem caseExecute_spec (items : List CaseItemM) (subj : List Char) (st0 : Nat) :
    (caseExecute items subj st0).1 = caseExec (items.map fun it => (it.alts, it.cont)) subj ∧
    (caseExecute items subj st0).2 =
      specCaseStatus (items.map (·.body)) (items.map (·.bodyEmpty)) st0
        (caseExec (items.map fun it => (it.alts, it.cont)) subj) :=
  Proofs.caseExecute_spec items subj st0

/-- non-vacuity: `case a in (a) st 5 ;& (b) ;; (*) echo ;; esac` entered with `$?` = 7: bodies 0 and 1 run, the
    last one is empty, so `$?` = 0; with `;;&` instead of `;&` bodies 0 and 2 run and `$?` is what `echo` leaves -/
example :
    let a : List PatternChar := [.normal 'a']
    let b : List PatternChar := [.normal 'b']
    let star : List PatternChar := [.normal '*']
    caseExecute [⟨[a], .fallThrough, false, fun _ => 5⟩, ⟨[b], .brk, true, id⟩, ⟨[star], .brk, false, fun _ => 0⟩]
      ['a'] 7 = ([0, 1], 0) ∧
    caseExecute [⟨[a], .cont, false, fun _ => 5⟩, ⟨[b], .brk, true, id⟩, ⟨[star], .brk, false, fun s => s + 1⟩]
      ['a'] 7 = ([0, 2], 6) := by
  refine ⟨?_, ?_⟩ <;> simp [caseExecute, caseExecuteGo, itemMatches, Pattern.parse, parseAtoms, PatternChar.charValue] <;> decide

/-- ★ Where `literal_period` can be observed at all: the table of every function of /repo (outside the crate) that
    sets it, with ALL the flags it sets, is re-extracted on every run; each such configuration has both anchors, so
    `literal_period_correct` applies to it on both paths — in particular the literal fast path, which does not look
    at `literal_period`, cannot be told apart there (`text == s` with a leading period in `text` forces one in `s`).
    The one place where the fast path differs from the regex path (no anchor: the empty pattern finds `0..0` in `.x`,
    the regex path would search from index 1) is not a reachable configuration. -/
theorem literal_period_reachable :
    (∀ e ∈ Generated.FnmatchConfig.literalPeriodConfigs,
      (cfgOfFlags e.2).anchorBegin = true ∧ (cfgOfFlags e.2).anchorEnd = true ∧
      (cfgOfFlags e.2).literalPeriod = true ∧ ∀ f ∈ e.2, f ∈ modelledFlags) ∧
    (∀ e ∈ Generated.FnmatchConfig.literalPeriodConfigs, ∀ ast p,
      Pattern.fromAst ast (cfgOfFlags e.2) = .ok p → ∀ s, p.isMatch s = specPeriodMatch ast s) := by
  have h1 : ∀ e ∈ Generated.FnmatchConfig.literalPeriodConfigs,
      (cfgOfFlags e.2).anchorBegin = true ∧ (cfgOfFlags e.2).anchorEnd = true ∧
      (cfgOfFlags e.2).literalPeriod = true ∧ ∀ f ∈ e.2, f ∈ modelledFlags := by decide
  refine ⟨h1, ?_⟩
  intro e he ast p hp s
  obtain ⟨hb, hE, hl, _⟩ := h1 e he
  exact literal_period_correct ast _ hb hE hl p hp s

/-- the table is not empty (glob's `to_pattern`), and the unreachable difference is real -/
example :
    Generated.FnmatchConfig.literalPeriodConfigs.length = 1 ∧
    (match Pattern.fromAst [] { literalPeriod := true }, Pattern.fromAst [.anyString] { literalPeriod := true, shortest := true } with
     | .ok p, .ok q => some (p.find ".x".toList, q.find ".x".toList)
     | _, _ => none) = some (some (0, 0), some (1, 1)) := by decide

/-- ★ `trim::apply` end to end for the pattern word `"$q"$p` (after expansion): escapes applied, configuration chosen
    by side and length, pattern parsed, value trimmed — scalar or every array element.  With `pcs` the pattern
    characters the Spec assigns to the word (`q` literal, then `p` with backslash escapes): outside the defined
    notation the value is unchanged; inside it the result is the Spec's shortest / longest prefix / suffix removal —
    on the suffix side for every pattern, on the prefix side without multi-character collating elements. -/
theorem trimApplyValue_correct (q p : List Char) (side : TrimSide) (len : TrimLength) (value : Value) :
    (astDefined (specParse (q.map PatternChar.literal ++ escapeChars p)) = false →
      trimApplyValue side len (shellWord q p) value = value) ∧
    (astDefined (specParse (q.map PatternChar.literal ++ escapeChars p)) = true →
      (side = .suffix ∨ noMulti (specParse (q.map PatternChar.literal ++ escapeChars p)) = true) →
      trimApplyValue side len (shellWord q p) value =
        value.map (specTrim side len (specParse (q.map PatternChar.literal ++ escapeChars p)))) := by
  have hg := (parser_is_grammar (q.map PatternChar.literal ++ escapeChars p)).2
  obtain ⟨hs, ha⟩ := Proofs.trimApplyValue_eq side len (shellWord q p)
  simp only [shell_word_chars] at hs ha
  constructor
  · intro hu
    have hno := (undefined_pattern_is_error _ hu).2.1 side len
    cases value with
    | scalar v => rw [hs, hno]
    | array vs =>
      rw [ha]; unfold trimArray
      rw [List.map_congr_left (fun v _ => hno v)]; simp
  · intro hd hside
    rw [← hg] at hd hside ⊢
    have hone : ∀ v, trimApply side len (q.map PatternChar.literal ++ escapeChars p) v =
        specTrim side len (parseAtoms (q.map PatternChar.literal ++ escapeChars p)) v := by
      intro v
      rcases hside with rfl | hn
      · exact trimApply_suffix_correct _ hd len v
      · exact trimApply_correct _ hd hn side len v
    cases value with
    | scalar v => rw [hs, hone]; rfl
    | array vs =>
      rw [ha]; unfold trimArray
      rw [List.map_congr_left (fun v _ => hone v)]; rfl

/-- non-vacuity: the word `"*"\*` — a quoted star then an escaped star: the pattern is the two literal characters `**` -/
example : (List.map PatternChar.literal ['*'] ++ escapeChars ['\\', '*']) = [.literal '*', .literal '*'] := by
  decide

/-- ★ WHICH end `find` takes at its (leftmost) start, for EVERY configuration — completing `find_leftmost`: for a
    pattern without multi-character collating elements the end is the greatest one any occurrence at that start has
    when greedy, and the least one under `shortest_match` (regex path: greedy / `swap_greed` star; literal path and
    `anchor_end`: there is only one).  `find_is_extremal` was this for the four trim configurations only.  With
    multi-character elements the alternation order decides instead (example below: `[a[.ab.]]` greedy finds `0..1`
    in `ab` although `0..2` is an occurrence). -/
theorem find_end_extremal (ast : Ast) (hn : noMulti ast = true) (cfg : Config) (p : Pattern)
    (h : Pattern.fromAst ast cfg = .ok p) (s : List Char) (a e : Nat) (hf : p.find s = some (a, e)) :
    ∀ j, occurs cfg.anchorBegin cfg.anchorEnd ast s a j → if cfg.shortest then e ≤ j else j ≤ e :=
  Proofs.find_end_extremal ast hn cfg p h s a e hf

/-- non-vacuity: `a*` unanchored on `xaab`: greedy `1..4`, lazy `1..2`; and the hypothesis is necessary -/
example :
    (match Pattern.fromAst [.char 'a', .anyString] {}, Pattern.fromAst [.char 'a', .anyString] { shortest := true } with
     | .ok p, .ok q => some (p.find "xaab".toList, q.find "xaab".toList)
     | _, _ => none) = some (some (1, 4), some (1, 2)) ∧
    (let ast : Ast := [.bracket ⟨false, [.atom (.char 'a'), .atom (.collating ['a', 'b'])]⟩]
     noMulti ast = false ∧
     (match Pattern.fromAst ast {} with
      | .ok p => some (p.find "ab".toList)
      | .error _ => none) = some (some (0, 1)) ∧ occursB false false ast "ab".toList 0 2 = true) := by decide

/-- ★ The error class `RegexError` has exactly one source: a range whose end lies before its start.  Everything else
    outside the defined notation (empty bracket, empty symbol, undefined class, class as range bound) is refused by
    the translation itself with its own error class, and a text the translation does emit can fail in the regex
    compiler ONLY because of an inverted range — in particular never because a special character was left
    unescaped.  (The harness checks the same on the real crate: every `RegexError` observed must carry the regex
    crate's "invalid character class range" complaint, anything else is reported as its own class.) -/
theorem regex_error_is_inverted_range (ast : Ast) (cfg : Config) (h : Pattern.fromAst ast cfg = .error .regex) :
    hasInvertedRange ast = true ∧ astDefined ast = false := by
  refine ⟨Proofs.regex_error_inverted ast cfg h, ?_⟩
  cases hd : astDefined ast with
  | false => rfl
  | true =>
    obtain ⟨p, hp⟩ := defined_compiles ast hd cfg
    rw [hp] at h; cases h

/-- non-vacuity: `[z-a]` and `[![.ch.]b-a]` (complement with a multi-character element) give the class `regex` -/
example :
    [Pattern.fromAst [.bracket ⟨false, [.range (.char 'z') (.char 'a')]⟩] caseConfig,
     Pattern.fromAst [.bracket ⟨true, [.atom (.collating ['c', 'h']), .range (.char 'b') (.char 'a')]⟩] caseConfig].map
      (fun r => match r with | .error e => some e | .ok _ => none) = [some .regex, some .regex] := by decide

/-! ## ★ wave 3: pattern WORDS — every quoting mechanism of the shell -/

/-- ★ `to_pattern_chars` after `apply_escapes`, for EVERY sequence of attributed characters (no exception since fix
    9da0f0e; before it, a backslash directly before a quoting character quoted that character): the result is what XCU 2.13.1 says about the sequence after
    quote removal — a QUOTING character contributes nothing (also one that is quoted at the same time: the backslash of
    `"\$"`, the inner quotes of `"${x+"a"}"`), a quoted character is `Literal` whatever it is, an unquoted one keeps its
    meaning, an unquoted backslash quotes its successor.  So no more pattern characters come out than non-quoting
    characters went in.  (Seeded change round 7: "quoted wins over quoting" emits the backslash of `"\$"`.) -/
theorem attr_pattern_chars (cs : List AttrChar) :
    toPatternChars (applyEscapes cs) = escapeMarked (attrMarks cs) ∧
    (toPatternChars (applyEscapes cs)).length ≤ (cs.filter fun c => !c.isQuoting).length := by
  have e := toPatternChars_applyEscapes cs
  refine ⟨e, ?_⟩
  rw [e]
  have hl : ∀ ms : List (Char × Bool), (escapeMarked ms).length ≤ ms.length := by
    intro ms
    induction ms using escapeMarked.induct with
    | case1 => simp [escapeMarked]
    | case2 m => simp [escapeMarked]
    | case3 m d t hc ih => rw [escapeMarked, if_pos hc]; simp only [List.length_cons]; omega
    | case4 m d t hc ih => rw [escapeMarked, if_neg hc]; simp only [List.length_cons] at ih ⊢; omega
  have := hl (attrMarks cs)
  simpa [attrMarks] using this

/-- non-vacuity, and the two characters that are quoting AND quoted: `"\$"` is the one literal `$`; in `"${1+"a"}"`
    the inner quotes vanish -/
example :
    let w1 : PWord := .cons (.dq (.cons (.bs '$') .nil)) .nil
    let w2 : PWord := .cons (.dq (.cons (.alt (.cons (.dq (.cons (.lit 'a') .nil)) .nil)) .nil)) .nil
    (wordAttrs w1).map (fun c => (c.isQuoted, c.isQuoting)) = [(false, true), (true, true), (true, false), (false, true)] ∧
    noEscapedMark (wordAttrs w1) = true ∧ patternOfWord w1 = [.literal '$'] ∧
    noEscapedMark (wordAttrs w2) = true ∧ patternOfWord w2 = [.literal 'a'] := by decide

/-- ★ The pattern characters of a pattern WORD — unquoted text, `\c`, `'…'`, `"…"` with `\c` and parameters inside,
    `${N+word}` nested either way — are the Spec's: quote removal on what the expansion yields gives exactly the
    characters the word denotes, each marked quoted iff some quoting mechanism of the word covers it (`PWord.marks`, a
    recursion on the word with one flag); then XCU 2.13.1 — for every word, no hypothesis (since fix 9da0f0e).  When
    no UNQUOTED backslash is left after quote removal the pattern is the marked characters one for one; and the corner
    the fix defines: a word whose last character after quote removal is an unquoted backslash (`$p""` with `p` = `\`,
    however many quotation marks follow it) keeps that backslash as an ordinary trailing character. -/
theorem word_pattern_chars (w : PWord) :
    attrMarks (wordAttrs w) = w.marks false ∧
    patternOfWord w = specWordChars w ∧
    ((w.marks false).all (fun m => !rawBackslash m) = true → patternOfWord w = (w.marks false).map markChar) ∧
    (∀ ms, w.marks false = ms ++ [('\\', false)] → (ms.all (fun m => !rawBackslash m) = true) →
      patternOfWord w = ms.map markChar ++ [.normal '\\']) := by
  have hm := attrMarks_wordAttrs w
  have h1 : patternOfWord w = specWordChars w := by
    unfold patternOfWord specWordChars
    rw [toPatternChars_applyEscapes, hm]
  refine ⟨hm, h1, ?_, ?_⟩
  · intro hr
    rw [h1]; exact escapeMarked_no_raw _ hr
  · intro ms he hr
    rw [h1]; unfold specWordChars; rw [he]
    clear he h1 hm
    induction ms with
    | nil => simp [escapeMarked, markChar]
    | cons m t ih =>
      simp only [List.all_cons, Bool.and_eq_true] at hr
      have hm : ¬ (m.1 = '\\' ∧ m.2 = false) := by
        intro hh; have := hr.1; simp [rawBackslash, hh.1, hh.2] at this
      cases ht : t ++ [('\\', false)] with
      | nil => simp at ht
      | cons d r =>
        rw [ht] at ih
        simp only [List.cons_append, ht]
        rw [escapeMarked, if_neg hm, ih hr.2]
        simp

/-- non-vacuity: `\*"a"$p` with `p` = `?` — literal `*`, literal `a`, and the `?` of the value keeps its meaning;
    and a word outside the hypothesis: `$p""x` with `p` = `\` -/
example :
    let w : PWord := .cons (.unq (.bs '*')) (.cons (.dq (.cons (.lit 'a') .nil)) (.cons (.unq (.param ['?'])) .nil))
    (w.marks false).all (fun m => !rawBackslash m) = true ∧
    patternOfWord w = [.literal '*', .literal 'a', .normal '?'] ∧
    patternOfWord (.cons (.unq (.param ['\\'])) (.cons (.dq .nil) (.cons (.unq (.lit 'x')) .nil))) = [.literal 'x'] ∧
    patternOfWord (.cons (.unq (.param ['a', '\\'])) (.cons (.dq .nil) (.cons (.sq []) .nil))) =
      [.normal 'a', .normal '\\'] := by
  decide

/-- ★ "quoted or backslash-escaped characters match only themselves", for every quoting mechanism: a word all of whose
    characters are covered by some quoting (`"\$"`, `'*'`, `\[`, `"$v"`, `"${1+"a"}"`, any concatenation) is the
    literal string it denotes after quote removal — as a `case` pattern it matches exactly that subject, as a trim
    pattern it removes exactly that prefix / suffix. -/
theorem quoted_word_only_itself (w : PWord) (h : ∀ m ∈ w.marks false, m.2 = true) :
    patternOfWord w = (wordValue w).map .literal ∧
    (∀ subj, itemMatches subj [patternOfWord w] = decide (subj = wordValue w)) ∧
    (∀ side len v, trimApplyValue side len (wordAttrs w) (.scalar v) =
      .scalar (specTrim side len ((wordValue w).map Atom.char) v)) := by
  have hr : (w.marks false).all (fun m => !rawBackslash m) = true := by
    rw [List.all_eq_true]; intro m hm; simp [rawBackslash, h m hm]
  have e : patternOfWord w = (wordValue w).map .literal := by
    rw [(word_pattern_chars w).2.2.1 hr, markChar_quoted _ h]; rfl
  refine ⟨e, ?_, ?_⟩
  · intro subj
    rw [e]
    obtain ⟨pat, hp, hm⟩ := (literal_is_literal (wordValue w) caseConfig rfl rfl).2
    simp only [itemMatches, hp, hm subj]
    cases decide (subj = wordValue w) <;> rfl
  · intro side len v
    have hpa := Proofs.parseAtoms_literals (wordValue w)
    have hd : astDefined (parseAtoms ((wordValue w).map PatternChar.literal)) = true := by
      rw [hpa]; simp [astDefined, atomOk]
    have hn : noMulti (parseAtoms ((wordValue w).map PatternChar.literal)) = true := by
      rw [hpa]; simp [noMulti, noMultiAtom]
    rw [(Proofs.trimApplyValue_eq side len (wordAttrs w)).1 v]
    show Value.scalar (trimApply side len (patternOfWord w) v) = _
    rw [e, trimApply_correct _ hd hn side len v, hpa]

/-- non-vacuity: `"\$"'*'` is covered, denotes `$*` -/
example :
    let w : PWord := .cons (.dq (.cons (.bs '$') .nil)) (.cons (.sq ['*']) .nil)
    (∀ m ∈ w.marks false, m.2 = true) ∧ wordValue w = ['$', '*'] := by decide

/-- ★ The three small decisions of yash-semantics the model transcribes, re-derived from the source on every run by
    EVALUATING the Rust expression on every combination of the flags it reads (`tools/tables/fnmatch.py`
    `fnmatch_decisions`; an if-chain, a `match` on a tuple, reordered or nested forms read the same, anything else is
    refused): (1) `to_pattern_chars` on one character — quoting ↦ nothing (also when quoted), quoted ↦ `Literal`,
    otherwise `Normal` — is `toPatternChars`; (2) the body of the `apply_escapes` loop runs exactly for a backslash that
    is neither quoting nor quoted and has a non-quoting character somewhere after it, and sets `is_quoting` on it and
    `is_quoted` on the NEXT NON-QUOTING character (fix 9da0f0e) — `applyEscapes` on two and three characters, incl. the
    corner "only a quoting character follows: nothing changes"; (3) `trim_value` searches with `rfind` exactly under `anchor_end ∧ shortest_match`, for all sixteen
    combinations of the modelled flags, as `trimValue` does.  (Seeded change round 7 alters table (1): this theorem
    then fails before any case runs.) -/
theorem decision_tables_agree :
    (∀ (v : Char) (q g : Bool),
      Generated.FnmatchDecisions.patternCharTable.lookup (q, g) =
        some (match toPatternChars [⟨v, q, g⟩] with
              | [] => "None" | [.literal _] => "Literal" | [.normal _] => "Normal" | _ => "?")) ∧
    (∀ (a b c : AttrChar), c.isQuoting = false →
      (applyEscapes [a, c] =
        if (a.value == '\\', a.isQuoting, a.isQuoted) ∈ Generated.FnmatchDecisions.escapeWhen
        then [{ a with isQuoting := true }, { c with isQuoted := true }] else [a, c]) ∧
      (b.isQuoting = true → a.isQuoting = false →
        (applyEscapes [a, b, c] =
          if (a.value == '\\', a.isQuoting, a.isQuoted) ∈ Generated.FnmatchDecisions.escapeWhen
          then [{ a with isQuoting := true }, b, { c with isQuoted := true }] else [a, b, c]) ∧
        applyEscapes [a, b] = [a, b])) ∧
    Generated.FnmatchDecisions.escapeTarget = "chars[i+1..].iter().position(|c|!c.is_quoting)" ∧
    Generated.FnmatchDecisions.escapeEffects = ["chars[i+1+offset].is_quoted=true", "chars[i].is_quoting=true"] ∧
    (Generated.FnmatchDecisions.trimValueSearch.length = 16 ∧ (Generated.FnmatchDecisions.trimValueSearch.map (·.1)).Nodup ∧
      ∀ row ∈ Generated.FnmatchDecisions.trimValueSearch, (∀ f ∈ row.1, f ∈ modelledFlags) ∧
        (if (cfgOfFlags row.1).anchorEnd && (cfgOfFlags row.1).shortest then "rfind" else "find") = row.2) := by
  refine ⟨?_, ?_, by decide, by decide, by decide, by decide, by decide⟩
  · intro v q g
    cases q <;> cases g <;> simp [toPatternChars] <;> decide
  · intro a b c hc
    rcases a with ⟨av, aq, ag⟩
    rcases b with ⟨bv, bq, bg⟩
    rcases c with ⟨cv, cq, cg⟩
    simp only at hc; subst hc
    refine ⟨?_, ?_⟩
    · by_cases hv : av = '\\' <;> cases aq <;> cases ag <;>
        simp [applyEscapes, applyEscapesAux, Generated.FnmatchDecisions.escapeWhen, hv]
    · intro hb ha
      simp only at hb ha; subst hb; subst ha
      by_cases hv : av = '\\' <;> cases aq <;>
        simp [applyEscapes, applyEscapesAux, Generated.FnmatchDecisions.escapeWhen, hv]

/-- ★ lib.rs, re-derived on every run by evaluating the source: on the literal fast path `is_match` / `find` / `rfind`
    apply, for each of the four anchorings, the `str` operation the model applies (`contains` / `find` / `rfind` without
    anchor, `starts_with`, `ends_with`, `==`); on the regex path `is_match` and `find` start at index 1 exactly when
    `literal_period` is set, the pattern does not start with a literal period and the text does (`Pattern.at0`). -/
theorem literal_path_tables_agree :
    (∀ (cfg : Config) (s text : List Char),
      (∃ op, Generated.FnmatchDecisions.literalArms.lookup ("is_match", cfg.anchorBegin, cfg.anchorEnd) = some op ∧
        strOpMatch op s text = some ((⟨.literal s, cfg⟩ : Pattern).isMatch text)) ∧
      (∃ op, Generated.FnmatchDecisions.literalArms.lookup ("find", cfg.anchorBegin, cfg.anchorEnd) = some op ∧
        strOpFind op s text = some ((⟨.literal s, cfg⟩ : Pattern).find text)) ∧
      (∃ op, Generated.FnmatchDecisions.literalArms.lookup ("rfind", cfg.anchorBegin, cfg.anchorEnd) = some op ∧
        strOpFind op s text = some ((⟨.literal s, cfg⟩ : Pattern).rfind text))) ∧
    (∀ fn ∈ ["is_match", "find"], ∃ l, Generated.FnmatchDecisions.rejectInitialDotWhen.lookup fn = some l ∧
      ∀ (cfg : Config) (dot : Bool) (text : List Char),
        Pattern.at0 cfg dot text = if (cfg.literalPeriod, dot, text.head? == some '.') ∈ l then 1 else 0) := by
  constructor
  · intro cfg s text
    rcases cfg with ⟨ab, ae, lp, sh⟩
    cases ab <;> cases ae <;>
      exact ⟨⟨_, rfl, rfl⟩, ⟨_, rfl, rfl⟩, ⟨_, rfl, rfl⟩⟩
  · intro fn hfn
    simp only [List.mem_cons, List.not_mem_nil, or_false] at hfn
    rcases hfn with rfl | rfl <;>
    · refine ⟨_, rfl, ?_⟩
      intro cfg dot text
      rcases cfg with ⟨ab, ae, lp, sh⟩
      cases lp <;> cases dot <;> cases h : (text.head? == some '.') <;> simp [Pattern.at0, h]

/-- ★ `BracketAtom::parse_inner`, the function model parser and Spec grammar share, characterised without recursion
    (closing the item "the same function on both sides"): after a `[` inside a bracket expression an inner element is
    read exactly when an unquoted `.`, `=` or `:` follows, and somewhere after it the SAME delimiter, unquoted,
    directly before an unquoted `]`; its value is everything up to the FIRST such pair (quoted characters included,
    as characters), the rest is what follows the pair, and the delimiter alone decides between collating symbol,
    equivalence class and character class. -/
theorem parseInner_spec (cs : List PatternChar) (a : BracketAtom) (r : List PatternChar) :
    parseInner cs = some (a, r) ↔
      ∃ d v, cs = .normal d :: (v ++ .normal d :: .normal ']' :: r) ∧
        (∀ v' r', v ++ .normal d :: .normal ']' :: r = v' ++ .normal d :: .normal ']' :: r' → v.length ≤ v'.length) ∧
        innerKind d (v.map PatternChar.charValue) = some a :=
  Proofs.parseInner_spec cs a r

/-- non-vacuity: `=a\=]=]x` — the quoted `=` does not close: the equivalence class `a=]`, rest `x`; `.a:]` is nothing -/
example :
    parseInner [.normal '=', .normal 'a', .literal '=', .normal ']', .normal '=', .normal ']', .normal 'x']
      = some (.equiv ['a', '=', ']'], [.normal 'x']) ∧
    parseInner [.normal '.', .normal 'a', .normal ':', .normal ']'] = none := by decide

/-- ★ ast/parse.rs gives a meaning to exactly the unquoted characters the model's parser tests for (re-extracted per
    function on every run): outside that list an unquoted character is an ordinary character at the top level, and
    cannot open an inner bracket element. -/
theorem parser_specials_agree :
    Generated.FnmatchDecisions.parserSpecials =
      [("parse", ['!', '*', '-', '?', '[', ']', '^']), ("parse_inner", ['.', ':', '=', ']'])] ∧
    (∀ l, Generated.FnmatchDecisions.parserSpecials.lookup "parse" = some l → ∀ c, c ∉ l → ∀ t,
      parseAtoms (.normal c :: t) = .char c :: parseAtoms t) ∧
    (∀ l, Generated.FnmatchDecisions.parserSpecials.lookup "parse_inner" = some l → ∀ c, c ∉ l → ∀ t,
      parseInner (.normal c :: t) = none) := by
  refine ⟨by decide, ?_, ?_⟩
  · intro l hl c hc t
    have : l = ['!', '*', '-', '?', '[', ']', '^'] := by
      have h : Generated.FnmatchDecisions.parserSpecials.lookup "parse" = some ['!', '*', '-', '?', '[', ']', '^'] := by decide
      rw [h] at hl; exact (Option.some.inj hl).symm
    subst this
    simp only [List.mem_cons, List.not_mem_nil, or_false, not_or] at hc
    rw [parseAtoms]
    simp [hc.2.1, hc.2.2.2.1, hc.2.2.2.2.1, PatternChar.charValue]
  · intro l hl c hc t
    have : l = ['.', ':', '=', ']'] := by
      have h : Generated.FnmatchDecisions.parserSpecials.lookup "parse_inner" = some ['.', ':', '=', ']'] := by decide
      rw [h] at hl; exact (Option.some.inj hl).symm
    subst this
    simp only [List.mem_cons, List.not_mem_nil, or_false, not_or] at hc
    simp [parseInner, hc.1, hc.2.1, hc.2.2.1]

/-- ★ `apply_escapes` is modelled twice: `applyEscapesIdx` is the Rust loop as written (after fix 9da0f0e:
    `for i in 0..chars.len()`, the test on `chars[i]`, `chars[i + 1..].iter().position(|c| !c.is_quoting)`, the two
    assignments under `if let Some(offset)`; header, test, target and assignments are re-extracted:
    `decision_tables_agree`), `applyEscapes` the left-to-right recursion every other theorem speaks about.  They are
    the same function on every sequence — in particular a backslash followed by quoting characters only stays what it
    was, and a character quoted by a backslash before it no longer escapes its successor. -/
theorem applyEscapes_is_index_loop (cs : List AttrChar) : applyEscapesIdx cs = applyEscapes cs :=
  applyEscapesIdx_eq cs

/-- non-vacuity: `\\\\\\` + `x` (three unquoted backslashes from an expansion, then `x`): the first quotes the second,
    the third quotes `x` -/
example :
    let c (v : Char) : AttrChar := { value := v, isQuoted := false, isQuoting := false }
    (applyEscapesIdx [c '\\', c '\\', c '\\', c 'x']).map (fun a => (a.isQuoted, a.isQuoting)) =
      [(false, true), (true, false), (false, true), (true, false)] ∧
    (applyEscapesIdx [c 'a', c '\\']).map (fun a => (a.isQuoted, a.isQuoting)) = [(false, false), (false, false)] ∧
    (applyEscapesIdx [c '\\', quoteMark, quoteMark, c '*']).map (fun a => (a.isQuoted, a.isQuoting)) =
      [(false, true), (false, true), (false, true), (true, false)] ∧
    (applyEscapesIdx [c '\\', quoteMark, quoteMark]).map (fun a => (a.isQuoted, a.isQuoting)) =
      [(false, false), (false, true), (false, true)] := by
  decide

/-- ★ `case` when expansions of alternatives can fail (case.rs: `expand_word_attr(..).await?` inside `matches`,
    `Err(error) => return error.handle(env)` in `execute`) — was: compared in the run only.  (1) `matches`: a match
    among the alternatives BEFORE the first failing one wins (later alternatives are not expanded); otherwise the
    failure propagates if there is one; otherwise no match.  (2) `execute`: the bodies run before an abort are the first
    bodies of the error-free reading over the alternatives actually reached (`reachedAlts`), and a run that does not
    abort IS that reading — in particular an item entered by `;&` expands none of its patterns.  (A `continue` in place
    of the `?`, or a `return Ok(false)`, breaks (1).) -/
theorem caseExecE_spec (subj : List Char) :
    (∀ alts : List (Option (List PatternChar)),
      itemMatchesE subj alts =
        if itemMatches subj (reachedAlts alts) then some true
        else if alts.any Option.isNone then none else some false) ∧
    (∀ (items : List (List (Option (List PatternChar)) × CaseCont)) (falling : Bool) (i : Nat),
      (caseExecEGo subj falling i items).1 <+:
        caseExecGo subj falling i (items.map fun it => (reachedAlts it.1, it.2)) ∧
      ((caseExecEGo subj falling i items).2 = false →
        (caseExecEGo subj falling i items).1 =
          caseExecGo subj falling i (items.map fun it => (reachedAlts it.1, it.2)))) :=
  ⟨Proofs.itemMatchesE_spec subj, fun items => Proofs.caseExecEGo_spec subj items⟩

/-- non-vacuity: `case a in (a|${u?}) 1 ;& (${u?}) 2 ;; esac` runs both bodies without an abort; with the failing
    alternative first it aborts before any body; `(b|${u?}) 1 ;; (a) 2` aborts too, the error-free reading would run 2 -/
example :
    let a : List PatternChar := [.normal 'a']
    let b : List PatternChar := [.normal 'b']
    caseExecEGo ['a'] false 0 [([some a, none], .fallThrough), ([none], .brk)] = ([0, 1], false) ∧
    caseExecEGo ['a'] false 0 [([none, some a], .brk)] = ([], true) ∧
    caseExecEGo ['a'] false 0 [([some b, none], .brk), ([some a], .brk)] = ([], true) ∧
    caseExecGo ['a'] false 0 [(reachedAlts [some b, none], .brk), (reachedAlts [some a], .brk)] = [1] := by
  refine ⟨?_, ?_, ?_, ?_⟩ <;>
    simp [caseExecEGo, caseExecGo, itemMatchesE, itemMatches, reachedAlts, Pattern.parse, parseAtoms,
      PatternChar.charValue] <;> decide

/-- ★ The stand-in of the extension round is an instance of the word model: `shellWord q p` — the attributed characters
    assumed for `"$q"$p` — is what `PWord.expand` yields for the word `"${N}"${M}` with the parameters set to `q` and
    `p`; so `shell_word_chars`, `quoted_word_matches_only_itself`, `trimApplyValue_correct` speak about a word of the
    transcribed expansion, not about a separately assumed list. -/
theorem shellWord_is_word (q p : List Char) :
    shellWord q p = wordAttrs (.cons (.dq (.cons (.param q) .nil)) (.cons (.unq (.param p)) .nil)) ∧
    specWordChars (.cons (.dq (.cons (.param q) .nil)) (.cons (.unq (.param p)) .nil)) =
      q.map .literal ++ escapeChars p := by
  constructor
  · simp [shellWord, wordAttrs, PWord.expand, PWordUnit.expand, PText.expand, PTextUnit.expand, quoteMark,
      pQuoteChar, pSetQuoted, PAttrChar.reduce, Function.comp_def]
    rfl
  · simp only [specWordChars, PWord.marks, PWordUnit.marks, PText.marks, PTextUnit.marks, List.append_nil]
    rw [escapeMarked_quoted_prefix, escapeMarked_unquoted]

/-- ★ Prefix removal for EVERY pattern, exactly (replacing the hypothesis `noMulti` of `find_is_extremal` /
    `trim_correct` on the prefix side by a characterisation): with `re` the regex the pattern compiles to under the
    configuration of `#` / `##` (`\A` followed by the translation of the atoms: `emitted_fragment`), what `${v#p}` /
    `${v##p}` leave is the FIRST rest in the priority-ordered enumeration `reEnum` of the matches at the beginning of
    `v` — atoms left to right; a `*` offers its longest continuation first for `##` and its shortest first for `#`; a
    bracket with multi-character collating elements offers its members in the ORDER THEY ARE WRITTEN (neither the
    longest nor the shortest: the `decide` examples) — and `v` itself iff the enumeration is empty, i.e. iff no prefix
    matches (`regex_model_is_textbook`).  Without multi-character elements the first entry is the extremal one
    (`find_is_extremal`). -/
theorem prefix_trim_exact (ast : Ast) (len : TrimLength) (p : Pattern) (re : List ReAtom) (dot : Bool)
    (h : Pattern.fromAst ast (trimConfig .prefix len) = .ok p) (hb : p.body = .regex re dot) (v : List Char) :
    (∃ res, cAtoms ast = some res ∧ re = .bos :: res) ∧
    trimValue p v =
      match (reEnum (len == .longest) v.length re v).head? with
      | some ρ => v.drop (v.length - ρ.length)
      | none => v := by
  -- the compiled regex
  have hre : ∃ res, cAtoms ast = some res ∧ re = .bos :: res ∧ p.config = trimConfig .prefix len := by
    unfold Pattern.fromAst at h
    cases hl : toLiteral ast with
    | some l => simp [hl] at h; subst h; simp at hb
    | none =>
      simp only [hl] at h
      cases ht : toRegex ast (trimConfig .prefix len) with
      | error e => simp [ht] at h
      | ok r =>
        simp only [ht] at h
        cases hp : parseRe r with
        | none => simp [hp] at h
        | some re' =>
          simp only [hp, Except.ok.injEq] at h
          subst h
          simp only [Body.regex.injEq] at hb
          obtain ⟨rfl, -⟩ := hb
          obtain ⟨res, hc, hre, -⟩ := emitted_fragment ast _ r ht re' hp
          refine ⟨res, hc, ?_, rfl⟩
          rw [hre]; cases len <;> simp [cfgRe, trimConfig]
  obtain ⟨res, hc, rfl, hcfg⟩ := hre
  refine ⟨⟨res, hc, rfl⟩, ?_⟩
  have hg : (!p.config.shortest) = (len == .longest) := by rw [hcfg]; cases len <;> rfl
  have hfind : p.find v = (matchHere (len == .longest) v.length (.bos :: res) v).map
      (fun ρ => (0, v.length - ρ.length)) := by
    unfold Pattern.find
    rw [hb]
    simp only [hg]
    have hat : Pattern.at0 p.config dot v = 0 := by rw [hcfg]; cases len <;> simp [Pattern.at0, trimConfig]
    rw [hat]
    unfold findAt
    simp only [Nat.zero_le, if_true, List.drop_zero]
    cases v with
    | nil => simp only [findFrom]; cases matchHere (len == .longest) 0 (.bos :: res) [] <;> rfl
    | cons c t =>
      simp only [findFrom]
      cases hm : matchHere (len == .longest) (c :: t).length (.bos :: res) (c :: t) with
      | some ρ => rfl
      | none =>
        simp only [Option.map_none]
        exact findFrom_bos_short _ _ _ t 1 (by simp)
  have hside : (p.config.anchorEnd && p.config.shortest) = false := by rw [hcfg]; cases len <;> rfl
  unfold trimValue
  simp only [hside, Bool.false_eq_true, if_false, hfind, Proofs.matchHere_head]
  cases (reEnum (len == .longest) v.length (.bos :: res) v).head? with
  | none => rfl
  | some ρ => simp

/-- the order in which the members are written decides, not their length: `[a[.ab.]]` vs `[[.ab.]a]`, `##` on `abc` -/
example :
    let t (ast : Ast) : Option (List Char) := match Pattern.fromAst ast (trimConfig .prefix .longest) with
      | .ok p => some (trimValue p "abc".toList)
      | .error _ => none
    t [.bracket ⟨false, [.atom (.char 'a'), .atom (.collating ['a', 'b'])]⟩] = some "bc".toList ∧
    t [.bracket ⟨false, [.atom (.collating ['a', 'b']), .atom (.char 'a')]⟩] = some "c".toList := by decide

/-- ★ The three users of this model inside the shell — `case` (case.rs `config()`), pathname expansion (glob.rs
    `to_pattern`, C05 imports this area) and the trims (trim.rs `apply`) — build their configurations from flag
    lists re-extracted on every run, and these differ ONLY there: glob's flags are `case`'s plus `literal_period`, a
    trim sets one anchor (and `shortest_match` for `#` / `%`).  On a FULL match they agree, for every pattern (brackets
    included): whenever the tree compiles, `case` accepts `s` iff the glob language contains `s`; pathname expansion
    accepts `s` iff `case` does and the leading-period rule allows it — so they coincide on every `s` that does not
    start with a period and for every pattern that starts with an explicit one; and `%%` removes the whole of `s`
    whenever `case` accepts it. -/
theorem callers_agree :
    (caseConfig = cfgOfFlags Generated.FnmatchConfig.caseConfigFlags ∧
     ∀ e ∈ Generated.FnmatchConfig.literalPeriodConfigs,
       e.2.filter (· != "literal_period") = Generated.FnmatchConfig.caseConfigFlags ∧ "literal_period" ∈ e.2) ∧
    (∀ (ast : Ast) (pc : Pattern), Pattern.fromAst ast caseConfig = .ok pc →
      (∀ s, pc.isMatch s = globMatch ast s) ∧
      (∀ e ∈ Generated.FnmatchConfig.literalPeriodConfigs, ∀ pg, Pattern.fromAst ast (cfgOfFlags e.2) = .ok pg →
        ∀ s, pg.isMatch s = (pc.isMatch s && (s.head? != some '.' || explicitDot ast))) ∧
      (∀ pt, Pattern.fromAst ast (trimConfig .suffix .longest) = .ok pt →
        ∀ s, pc.isMatch s = true → trimValue pt s = [])) := by
  refine ⟨⟨by decide, by decide⟩, ?_⟩
  intro ast pc hpc
  have hc : ∀ s, pc.isMatch s = globMatch ast s := isMatch_correct ast caseConfig rfl rfl rfl pc hpc
  refine ⟨hc, ?_, ?_⟩
  · intro e he pg hpg s
    rw [(literal_period_reachable.2 e he ast pg hpg s), hc s]; rfl
  · intro pt hpt s hm
    rw [(suffix_trim_correct ast .longest pt hpt s).2]
    rw [hc s] at hm
    unfold specTrim
    simp only []
    have hd := (specTrim_declarative (fun k => globMatch ast (s.drop k)) s.length).1
    rcases hd with ⟨-, hnone⟩ | ⟨k, hk, -, -, hmin⟩
    · have := hnone 0 (Nat.zero_le _); simp [hm] at this
    · rw [hk]
      cases k with
      | zero => simp
      | succ k' => have := hmin 0 (Nat.succ_pos _); simp [hm] at this

/-- ★ What the model of the regex crate ASSUMES, read on every run from the sources of the crates the harness links
    (versions from harness/Cargo.lock): `Regex` is built with match kind `LeftmostFirst`; `\\A` / `\\z` are the
    assertions `StartText` / `EndText`, translated to `Look::Start` / `Look::End`, which hold exactly at offset 0 / at
    the end of the haystack (so `find_at(text, k)` with `\\A` fails for k > 0: the model's `bos`); `swap_greed` negates
    the greediness of every repetition (flag letter `U`); `.` under `dot_matches_new_line` is any character.  A new
    version of any of the three crates, or a changed line, fails HERE — the facts have to be read again. -/
theorem regex_crate_facts :
    Generated.FnmatchRegexSyntax.crateVersions =
      [("regex", "1.13.1"), ("regex-automata", "0.4.18"), ("regex-syntax", "0.8.11")] ∧
    Generated.FnmatchRegexSyntax.regexFacts =
      [("Regex is built with match kind", "LeftmostFirst"),
       ("escape A is the assertion", "StartText"), ("escape z is the assertion", "EndText"),
       ("StartText translates to", "Look::Start"), ("EndText translates to", "Look::End"),
       ("Look::Start holds when", "at == 0"), ("Look::End holds when", "at == haystack.len()"),
       ("greediness of a repetition", "if self.flags().swap_greed() { !rep.greedy } else { rep.greedy }"),
       ("flag letter of swap_greed", "U"),
       ("dot with dot_matches_new_line and unicode", "Dot::AnyChar")] := by decide

/-- the class fix 9da0f0e repaired (witnesses `w … P5c/D/L2a` in corpus/C04/words.txt): in `$p""*` with `p` = `\\` the
    backslash quotes the `*` (before the fix it quoted the quotation mark and the `*` stayed a wildcard); model and
    Spec agree, although `noEscapedMark` — the description of the class — is false -/
example :
    let w : PWord := .cons (.unq (.param ['\\'])) (.cons (.dq .nil) (.cons (.unq (.lit '*')) .nil))
    patternOfWord w = [.literal '*'] ∧ specWordChars w = [.literal '*'] ∧ noEscapedMark (wordAttrs w) = false := by
  decide

/-- ★ ast/parse.rs `parse_inner`, read per form from the source (three loops, or one helper parameterised by the
    delimiter — same table): each inner element closes on ITS OWN delimiter directly before `]`, and the delimiter
    picks the constructor the model's `parseInner` / `innerKind` picks (`parseInner_spec`).  (Calling the helper with
    `'.'` for the `=` form changes the table.) -/
theorem inner_forms_agree :
    Generated.FnmatchDecisions.innerForms =
      [('.', '.', "CollatingSymbol"), (':', ':', "CharClass"), ('=', '=', "EquivalenceClass")] ∧
    ∀ row ∈ Generated.FnmatchDecisions.innerForms,
      row.1 = row.2.1 ∧ (innerKind row.1 ['x']).map atomCtorName = some row.2.2 := by decide

end YashModel.Fnmatch
