/-
  C04 — property theorems and their non-vacuity examples ONLY (proofs: Proofs.lean; lemmas: Lemmas,
  ClassLemmas, AltLemmas, TopLemmas).  `specialChars` / `bracketSpecialChars` are GENERATED from
  yash-fnmatch/src/ast/regex.rs on every run, so editing either constant re-checks (and can break)
  `meta_subset`, `escape_roundtrip` and `toRegex_correct`.
-/
import YashModel.Fnmatch.CaseLemmas

namespace YashModel.Fnmatch
open YashModel.Generated.FnmatchTables

/-! ## ★ escaping -/

/-- Every character with a meaning of its own in the regex syntax is in the escaping tables (outside a
    class: `SPECIAL_CHARS`; inside a class: `BRACKET_SPECIAL_CHARS ∪ SPECIAL_CHARS`), and every character
    the tables escape is one the regex crate lets a backslash precede. -/
theorem meta_subset :
    (∀ c ∈ reMeta, c ∈ specialChars) ∧
    (∀ c ∈ classMeta, c ∈ bracketSpecialChars ∨ c ∈ specialChars) ∧
    (∀ c ∈ specialChars, c ∈ escapable) ∧ (∀ c ∈ bracketSpecialChars, c ∈ escapable) :=
  Proofs.meta_subset

/-- ★ Every character escapes to itself: outside brackets the emitted text of a pattern character is
    the regex "literal c"; as a bracket member, inside `[. .]` and inside `[= =]` it is the class `{c}`. -/
theorem escape_roundtrip (c : Char) :
    parseRe (fmtTopChar c) = some [.one (.lit c)] ∧
    (∀ r, toRegex [.bracket ⟨false, [.atom (.char c)]⟩] {} = .ok r →
      parseRe r = some [.one (.cls ⟨false, [.single c]⟩)]) ∧
    (∀ r, toRegex [.bracket ⟨false, [.atom (.collating [c])]⟩] {} = .ok r →
      parseRe r = some [.one (.cls ⟨false, [.single c]⟩)]) ∧
    (∀ r, toRegex [.bracket ⟨false, [.atom (.equiv [c])]⟩] {} = .ok r →
      parseRe r = some [.one (.cls ⟨false, [.single c]⟩)]) ∧
    (∀ d, (ClassItem.single c).mem d = (d == c)) :=
  Proofs.escape_roundtrip c

/-- non-vacuity of the bracket clauses: the translation succeeds for every `c` -/
example (c : Char) :
    toRegex [.bracket ⟨false, [.atom (.char c)]⟩] {} = .ok ('[' :: fmtRegexChar c ++ [']']) ∧
    toRegex [.bracket ⟨false, [.atom (.collating [c])]⟩] {} = .ok ('[' :: fmtRegexChar c ++ [']']) :=
  Proofs.escape_roundtrip_nonvacuous c

/-! ## ★ the regex text denotes the glob language -/

/-- ★ Whenever the translation succeeds and the regex compiles, the compiled regex — fully anchored,
    greedy or lazy — accepts exactly the strings the pattern denotes.  Full strength: every syntax tree
    (any characters incl. all regex-special ones, ranges, complements, classes, collating symbols and
    equivalence classes, multi-character collating elements). -/
theorem toRegex_correct (ast : Ast) (cfg : Config) (hb : cfg.anchorBegin = true) (he : cfg.anchorEnd = true)
    (r : List Char) (h : toRegex ast cfg = .ok r) (re : List ReAtom) (hp : parseRe r = some re)
    (g : Bool) (s : List Char) :
    (findAt g re s 0).isSome = globMatch ast s :=
  Proofs.toRegex_correct ast cfg hb he r h re hp g s

/-- non-vacuity: `a[!b-d[.-.]]*` translates to `\Aa[^b-d\-].*\z`, which compiles -/
example :
    let ast : Ast := [.char 'a', .bracket ⟨true, [.range (.char 'b') (.char 'd'), .atom (.collating ['-'])]⟩,
      .anyString]
    (toRegex ast { anchorBegin := true, anchorEnd := true }).toOption = some "\\Aa[^b-d\\-].*\\z".toList ∧
    (parseRe "\\Aa[^b-d\\-].*\\z".toList).isSome = true := by decide

/-- ★ `Pattern::is_match` under the `case` configuration (both anchors), including the literal fast
    path: a pattern that compiles matches exactly the strings its syntax tree denotes. -/
theorem isMatch_correct (ast : Ast) (cfg : Config) (hb : cfg.anchorBegin = true) (he : cfg.anchorEnd = true)
    (hl : cfg.literalPeriod = false) (p : Pattern) (h : Pattern.fromAst ast cfg = .ok p) (s : List Char) :
    p.isMatch s = globMatch ast s :=
  Proofs.isMatch_correct ast cfg hb he hl p h s

/-- non-vacuity: `[a\-z]*` (quoted hyphen) compiles, matches `-x` and not `bx` -/
example :
    let ast : Ast := [.bracket ⟨false, [.atom (.char 'a'), .atom (.char '-'), .atom (.char 'z')]⟩, .anyString]
    (match Pattern.fromAst ast caseConfig with
     | .ok p => some (p.isMatch "-x".toList, p.isMatch "bx".toList)
     | .error _ => none) = some (true, false) := by decide

/-- non-vacuity: `[![.ch.]]` (all items multi-character, F8) compiles, matches `q` and not `ch` -/
example :
    (match Pattern.fromAst [.bracket ⟨true, [.atom (.collating ['c', 'h'])]⟩] caseConfig with
     | .ok p => some (p.isMatch "q".toList, p.isMatch "ch".toList)
     | .error _ => none) = some (true, false) := by decide

/-! ## ★ quoted characters match only themselves -/

/-- ★ A pattern made of quoted (`Literal`) characters only is the literal string: it always compiles (fast
    path) and, fully anchored, matches exactly that string — whatever the characters are. -/
theorem literal_is_literal (cs : List Char) (cfg : Config) (hb : cfg.anchorBegin = true)
    (he : cfg.anchorEnd = true) :
    parseAtoms (cs.map .literal) = cs.map .char ∧
    ∃ p, Pattern.parse (cs.map .literal) cfg = .ok p ∧ ∀ s, p.isMatch s = decide (s = cs) :=
  Proofs.literal_is_literal cs cfg hb he

/-- ★ Inside a bracket expression a quoted character is always a plain member: it never closes the
    bracket, never complements it, never opens `[. .]`, and its hyphen flag is `false` … -/
theorem literal_in_bracket_is_member (compl : Bool) (st : ItemStack) (c : Char) (t : List PatternChar) :
    bracketLoop compl st (.literal c :: t) =
      bracketLoop compl (makeRange ((.atom (.char c), false) :: st)) t :=
  Proofs.literal_in_bracket_is_member compl st c t

/-- … and an item whose hyphen flag is `false` is never taken as the range operator (so `[a\-z]` is the
    set {a, -, z}). -/
theorem quoted_hyphen_no_range (x y : BracketItem) (f : Bool) (rest : ItemStack) :
    makeRange ((x, f) :: (y, false) :: rest) = (x, f) :: (y, false) :: rest :=
  Proofs.quoted_hyphen_no_range x y f rest

/-- non-vacuity: the stack after `a`, quoted `-`, `z` stays three members; with an unquoted `-` it folds -/
example : makeRange [(.atom (.char 'z'), false), (.atom (.char '-'), false), (.atom (.char 'a'), false)]
      = [(.atom (.char 'z'), false), (.atom (.char '-'), false), (.atom (.char 'a'), false)] ∧
    makeRange [(.atom (.char 'z'), false), (.atom (.char '-'), true), (.atom (.char 'a'), false)]
      = [(.range (.char 'a') (.char 'z'), false)] := by decide

/-! ## ★ an unclosed `[` is literal -/

/-- ★ A `[` that no unquoted `]` follows is an ordinary character, and the characters after it are
    parsed as if the `[` were not special. -/
theorem unclosed_bracket_literal (t : List PatternChar) (h : ∀ pc ∈ t, pc ≠ .normal ']') :
    parseAtoms (.normal '[' :: t) = .char '[' :: parseAtoms t :=
  Proofs.unclosed_bracket_literal t h

/-- non-vacuity: `[b\]` (the `]` is quoted) meets the hypothesis -/
example : ∀ pc ∈ [PatternChar.normal 'b', .literal ']'], pc ≠ .normal ']' := by decide

/-! ## ★ patterns that do not compile -/

/-- ★ A pattern outside the defined notation (undefined class name, class as range bound, inverted range,
    empty symbol — whatever makes `parse_with_config` fail) makes a trim a no-op and makes `case` skip
    that pattern and go on with the next. -/
theorem invalid_pattern_fallbacks (pcs : List PatternChar) :
    (∀ side len e v, Pattern.parse pcs (trimConfig side len) = .error e → trimApply side len pcs v = v) ∧
    (∀ e i rest subj, Pattern.parse pcs caseConfig = .error e →
      caseFirst.go subj i (pcs :: rest) = caseFirst.go subj (i + 1) rest) :=
  Proofs.invalid_pattern_fallbacks pcs

/-- non-vacuity: `[[:nothing:]]`, `[z-a]`, `[[:digit:]-9]`, `[[..]]` do not compile -/
example :
    (Pattern.fromAst [.bracket ⟨false, [.atom (.cls "nothing".toList)]⟩] caseConfig).toOption.isNone ∧
    (Pattern.fromAst [.bracket ⟨false, [.range (.char 'z') (.char 'a')]⟩] caseConfig).toOption.isNone ∧
    (Pattern.fromAst [.bracket ⟨false, [.range (.cls "digit".toList) (.char '9')]⟩] caseConfig).toOption.isNone ∧
    (Pattern.fromAst [.bracket ⟨false, [.atom (.collating [])]⟩] caseConfig).toOption.isNone := by
  decide


/-! ## ★ prefix and suffix removal delete exactly the shortest / longest matching prefix / suffix -/

/-- `find_is_extremal` (design ☆, now proved).  Hypothesis `noMulti ast`: no bracket contains a
    multi-character collating element (`[.ab.]`) — the patterns POSIX defines for the POSIX locale; with such
    elements the alternation order, not the length, decides (second example below).
    For a compiled pattern of trim form `#`/`##`/`%`/`%%` the search `trim_value` runs (`rfind` for `%`, `find`
    otherwise; greedy or `swap_greed`; regex or literal fast path) returns exactly the range `0..k` with `k`
    the least/greatest matching prefix length, resp. `a..len` with `a` the greatest/least matching suffix
    start, and `none` when nothing matches. -/
theorem find_is_extremal (ast : Ast) (hn : noMulti ast = true) (side : TrimSide) (len : TrimLength)
    (p : Pattern) (h : Pattern.fromAst ast (trimConfig side len) = .ok p) (v : List Char) :
    trimSearch p v = specRange side len ast v :=
  Proofs.find_is_extremal ast hn side len p h v

/-- ★ hence `trim_value` = the Spec's shortest/longest prefix/suffix removal -/
theorem trim_correct (ast : Ast) (hn : noMulti ast = true) (side : TrimSide) (len : TrimLength)
    (p : Pattern) (h : Pattern.fromAst ast (trimConfig side len) = .ok p) (v : List Char) :
    trimValue p v = specTrim side len ast v :=
  Proofs.trim_correct ast hn side len p h v

/-- non-vacuity: `*a` against `banana`: `%` removes `a`, `%%` everything, `#` `ba`, `##` everything -/
example :
    let ast : Ast := [.anyString, .char 'a']
    noMulti ast = true ∧
    ([(TrimSide.prefix, TrimLength.shortest), (.prefix, .longest), (.suffix, .shortest), (.suffix, .longest)].all
      (fun x => (Pattern.fromAst ast (trimConfig x.1 x.2)).toOption.isSome) = true) ∧
    [specTrim .suffix .shortest ast "banana".toList, specTrim .suffix .longest ast "banana".toList,
     specTrim .prefix .shortest ast "banana".toList, specTrim .prefix .longest ast "banana".toList]
      = ["banan".toList, [], "nana".toList, []] := by decide

/-- the hypothesis is necessary: for `[a[.ab.]]` (alternation `(?:[a]|ab)`) `##` on `ab` removes only `a` -/
example :
    let ast : Ast := [.bracket ⟨false, [.atom (.char 'a'), .atom (.collating ['a', 'b'])]⟩]
    noMulti ast = false ∧
    (match Pattern.fromAst ast (trimConfig .prefix .longest) with
     | .ok p => some (trimValue p "ab".toList)
     | .error _ => none) = some "b".toList ∧
    specTrim .prefix .longest ast "ab".toList = [] := by decide

/-- ★ Suffix removal needs NO hypothesis on the pattern: for every syntax tree — including brackets with
    multi-character collating symbols / equivalence classes, whose matches have different lengths although the
    pattern has no `*` — `find` with `\z` returns the longest and the `rfind` loop the shortest matching suffix,
    so `%%` / `%` remove exactly those (the leftmost / rightmost matching start does not depend on which
    alternative of `(?:ch|[h])` is tried first). -/
theorem suffix_trim_correct (ast : Ast) (len : TrimLength)
    (p : Pattern) (h : Pattern.fromAst ast (trimConfig .suffix len) = .ok p) (v : List Char) :
    trimSearch p v = specRange .suffix len ast v ∧ trimValue p v = specTrim .suffix len ast v :=
  ⟨Proofs.find_is_extremal_suffix ast len p h v, Proofs.trim_correct_suffix ast len p h v⟩

/-- ★ `%` spelled out: either no suffix matches and nothing is removed, or what is removed is a matching
    suffix and no proper shorter suffix matches. -/
theorem percent_removes_shortest (ast : Ast) (p : Pattern)
    (h : Pattern.fromAst ast (trimConfig .suffix .shortest) = .ok p) (v : List Char) :
    (trimValue p v = v ∧ ∀ j, j ≤ v.length → globMatch ast (v.drop j) = false) ∨
    (∃ k, k ≤ v.length ∧ trimValue p v = v.take k ∧ globMatch ast (v.drop k) = true ∧
      ∀ j, k < j → j ≤ v.length → globMatch ast (v.drop j) = false) :=
  Proofs.percent_removes_shortest ast p h v

/-- non-vacuity with a bracket of variable match length: `[[.ch.]h]` has no `*`, is outside `noMulti`, and
    matches both `h` and `ch`; on `ach` `%` removes `h`, `%%` removes `ch`; `?[[.ch.]h]` on `bach`: `ch`→`ba`. -/
example :
    let b : Atom := .bracket ⟨false, [.atom (.collating ['c', 'h']), .atom (.char 'h')]⟩
    noMulti [b] = false ∧
    globMatch [b] "h".toList = true ∧ globMatch [b] "ch".toList = true ∧
    (match Pattern.fromAst [b] (trimConfig .suffix .shortest), Pattern.fromAst [b] (trimConfig .suffix .longest),
        Pattern.fromAst [.anyChar, b] (trimConfig .suffix .shortest) with
     | .ok p, .ok q, .ok r => some (trimValue p "ach".toList, trimValue q "ach".toList, trimValue r "bach".toList)
     | _, _, _ => none) = some ("ac".toList, "a".toList, "ba".toList) ∧
    specTrim .suffix .shortest [b] "ach".toList = "ac".toList := by decide

/-! ## ★ patterns inside the defined notation always compile -/

/-- ★ Converse of `invalid_pattern_fallbacks`: a syntax tree with defined class names, no class as range
    bound, no empty symbol, no inverted range (and no empty bracket, which the parser never produces) compiles
    under every configuration — the fallbacks can only ever hit patterns outside the defined notation. -/
theorem defined_compiles (ast : Ast) (h : astDefined ast = true) (cfg : Config) :
    ∃ p, Pattern.fromAst ast cfg = .ok p :=
  Proofs.defined_compiles ast h cfg

/-- ★ so for defined patterns without multi-character elements the shell-level trim is the Spec's -/
theorem trimApply_correct (pcs : List PatternChar) (hd : astDefined (parseAtoms pcs) = true)
    (hn : noMulti (parseAtoms pcs) = true) (side : TrimSide) (len : TrimLength) (v : List Char) :
    trimApply side len pcs v = specTrim side len (parseAtoms pcs) v := by
  obtain ⟨p, hp⟩ := defined_compiles (parseAtoms pcs) hd (trimConfig side len)
  unfold trimApply Pattern.parse
  rw [hp]
  exact trim_correct (parseAtoms pcs) hn side len p hp v

/-- ★ and the Array arm of `trim::apply` (`"${@#pat}"`): every element is trimmed, each exactly as the Spec says -/
theorem trimArray_correct (pcs : List PatternChar) (hd : astDefined (parseAtoms pcs) = true)
    (hn : noMulti (parseAtoms pcs) = true) (side : TrimSide) (len : TrimLength) (vs : List (List Char)) :
    trimArray side len pcs vs = vs.map (specTrim side len (parseAtoms pcs)) := by
  unfold trimArray
  exact List.map_congr_left (fun v _ => trimApply_correct pcs hd hn side len v)

/-- non-vacuity: `[![:digit:]x-z]*[[.-.]]` is defined and has no multi-character element -/
example :
    let ast : Ast := [.bracket ⟨true, [.atom (.cls "digit".toList), .range (.char 'x') (.char 'z')]⟩, .anyString,
      .bracket ⟨false, [.atom (.collating ['-'])]⟩]
    astDefined ast = true ∧ noMulti ast = true := by decide

/-! ## ★ `case` runs the first item with a matching pattern -/

/-- ★ `case` selects the first pattern that compiles and whose syntax tree denotes the subject; when all
    patterns compile this is the Spec's "first item with a matching pattern". -/
theorem case_first_match (pats : List (List PatternChar)) (subj : List Char) :
    caseFirst pats subj = pats.findIdx? (fun p => compilesB p && globMatch (parseAtoms p) subj) ∧
    ((∀ p ∈ pats, compilesB p = true) → caseFirst pats subj = specCase (pats.map parseAtoms) subj) :=
  Proofs.case_first_match pats subj

/-- ★ `case` with `|`-alternatives (`case.rs matches` + the item loop): the item selected is the FIRST item
    having an alternative that compiles and denotes the subject — an alternative that does not compile is
    skipped and the remaining alternatives of the same item still count — and `none` if there is no such
    item; the first body `case` executes is that item's; and when every alternative is inside the defined
    notation this is the Spec's selection. -/
theorem caseSelect_first (items : List (List (List PatternChar))) (subj : List Char) :
    caseSelect items subj =
      items.findIdx? (fun alts => alts.any (fun p => compilesB p && globMatch (parseAtoms p) subj)) ∧
    (∀ its : List (List (List PatternChar) × CaseCont),
      (caseExec its subj).head? = caseSelect (its.map Prod.fst) subj) ∧
    ((∀ alts ∈ items, ∀ p ∈ alts, astDefined (parseAtoms p) = true) →
      caseSelect items subj = specCaseSelect (items.map (fun alts => alts.map parseAtoms)) subj) :=
  ⟨Proofs.caseSelect_first items subj, fun its => Proofs.caseExecGo_head subj its 0,
   Proofs.caseSelect_spec items subj⟩

/-- non-vacuity of the third clause: quoted patterns are inside the defined notation -/
example : astDefined (parseAtoms (List.map PatternChar.literal ['[', 'b', '-', 'a', ']'])) = true := by
  rw [Proofs.parseAtoms_literals]; decide

/-- non-vacuity of the second clause: literal patterns always compile -/
example : compilesB (List.map PatternChar.literal ['a', '*']) = true := by
  obtain ⟨p, hp, _⟩ := (literal_is_literal ['a', '*'] caseConfig rfl rfl).2
  unfold compilesB
  rw [hp]

end YashModel.Fnmatch
