/-
  C04 — helper lemmas, part 13 (wave 2): a syntax tree compiles ONLY IF it is inside the defined notation
  (converse of `defined_compiles`), so "compiles" and `astDefined` are the same predicate.
-/
import YashModel.Fnmatch.ShellLemmas

namespace YashModel.Fnmatch

theorem cItem_defined {it : BracketItem} {ci : ClassItem} (h : cItem it = some ci) : itemDefined it = true := by
  cases it with
  | atom a =>
    cases a with
    | char c => rfl
    | collating v =>
      match v, h with
      | [c], _ => rfl
    | equiv v =>
      match v, h with
      | [c], _ => rfl
    | cls name =>
      simp only [cItem, cAtom1, Option.map_eq_some_iff] at h
      obtain ⟨k, hk, _⟩ := h
      simp [itemDefined, atomDefined, hk]
  | range s e =>
    simp only [cItem] at h
    simp only [itemDefined]
    split at h
    · rename_i lo hi hlo hhi
      rw [hlo, hhi]
      split at h
      · rename_i hle; simpa using hle
      · simp at h
    · simp at h

theorem multi_defined {it : BracketItem} (h : it.multi = true) : itemDefined it = true := by
  cases it with
  | atom a =>
    cases a with
    | char c => simp [BracketItem.multi, BracketAtom.multi] at h
    | collating v =>
      simp only [BracketItem.multi, BracketAtom.multi, decide_eq_true_eq] at h
      cases v with
      | nil => simp at h
      | cons c t => rfl
    | equiv v =>
      simp only [BracketItem.multi, BracketAtom.multi, decide_eq_true_eq] at h
      cases v with
      | nil => simp at h
      | cons c t => rfl
    | cls name => simp [BracketItem.multi, BracketAtom.multi] at h
  | range s e => simp [BracketItem.multi] at h

theorem cItems_defined : ∀ (items : List BracketItem) (cis : List ClassItem), cItems items = some cis →
    ∀ it ∈ items, itemDefined it = true := by
  intro items
  induction items with
  | nil => intro _ _ it hit; simp at hit
  | cons x r ih =>
    intro cis h it hit
    simp only [cItems] at h
    split at h
    · rename_i a b ha hb
      rcases List.mem_cons.mp hit with rfl | hr
      · exact cItem_defined ha
      · exact ih b hb it hr
    · simp at h

theorem cAlt_defined {it : BracketItem} {b : List Simple} (h : cAlt it = some b) : itemDefined it = true := by
  unfold cAlt at h
  by_cases hm : it.multi = true
  · exact multi_defined hm
  · rw [if_neg hm] at h
    simp only [Option.map_eq_some_iff] at h
    obtain ⟨ci, hci, _⟩ := h
    exact cItem_defined hci

theorem cAlts_defined : ∀ (items : List BracketItem) (bs : List (List Simple)), cAlts items = some bs →
    ∀ it ∈ items, itemDefined it = true := by
  intro items
  induction items with
  | nil => intro _ _ it hit; simp at hit
  | cons x r ih =>
    intro bs h it hit
    rw [cAlts_cons] at h
    split at h
    · rename_i a b ha hb
      rcases List.mem_cons.mp hit with rfl | hr
      · exact cAlt_defined ha
      · exact ih b hb it hr
    · simp at h

theorem cBracket_defined {b : Bracket} {ra : ReAtom} (h : cBracket b = some ra) :
    b.items ≠ [] ∧ ∀ it ∈ b.items, itemDefined it = true := by
  unfold cBracket at h
  split at h
  · simp at h
  · rename_i hne
    refine ⟨hne, ?_⟩
    split at h
    · simp only [Option.map_eq_some_iff] at h
      obtain ⟨ci, hci, _⟩ := h
      exact cItems_defined _ _ hci
    · split at h
      · simp only [Option.map_eq_some_iff] at h
        obtain ⟨bs, hbs, _⟩ := h
        exact cAlts_defined _ _ hbs
      · split at h
        · rename_i hall
          intro it hit
          exact multi_defined (List.all_eq_true.mp hall it hit)
        · simp only [Option.map_eq_some_iff] at h
          obtain ⟨ci, hci, _⟩ := h
          intro it hit
          by_cases hm : it.multi = true
          · exact multi_defined hm
          · exact cItems_defined _ _ hci it (List.mem_filter.mpr ⟨hit, by simpa using hm⟩)

theorem cAtoms_defined : ∀ (ast : Ast) (res : List ReAtom), cAtoms ast = some res → astDefined ast = true := by
  intro ast
  induction ast with
  | nil => intro _ _; rfl
  | cons a r ih =>
    intro res h
    simp only [cAtoms] at h
    split at h
    · rename_i x y hx hy
      simp only [astDefined, List.all_cons, Bool.and_eq_true]
      refine ⟨?_, by simpa [astDefined] using ih y hy⟩
      cases a with
      | char c => rfl
      | anyChar => rfl
      | anyString => rfl
      | bracket b =>
        obtain ⟨hne, hall⟩ := cBracket_defined (by simpa [cAtom] using hx)
        simp only [atomOk, Bool.and_eq_true, bne_iff_ne, ne_eq, List.all_eq_true]
        exact ⟨hne, hall⟩
    · simp at h

namespace Proofs

theorem compiles_defined (ast : Ast) (cfg : Config) (p : Pattern) (h : Pattern.fromAst ast cfg = .ok p) :
    astDefined ast = true := by
  rcases fromAst_cases ast cfg p h with ⟨l, hl, _⟩ | ⟨_, res, hres, _⟩
  · rw [(toLiteral_spec ast l).mp hl]
    simp [astDefined, atomOk]
  · exact cAtoms_defined ast res hres

theorem compiles_iff_defined (ast : Ast) (cfg : Config) :
    (∃ p, Pattern.fromAst ast cfg = .ok p) ↔ astDefined ast = true :=
  ⟨fun ⟨p, h⟩ => compiles_defined ast cfg p h, fun h => defined_compiles ast h cfg⟩

theorem undefined_error (ast : Ast) (cfg : Config) (h : astDefined ast = false) :
    ∃ e, Pattern.fromAst ast cfg = .error e := by
  cases hf : Pattern.fromAst ast cfg with
  | error e => exact ⟨e, rfl⟩
  | ok p =>
    have := compiles_defined ast cfg p hf
    rw [h] at this; cases this

end Proofs
end YashModel.Fnmatch
