/-
  C04 — helper lemmas, part 15 (wave 2): the whole loop of `case.rs execute` including `exit_status_updated`:
  the bodies run are those of `caseExec`, and `$?` afterwards is the Spec's.
-/
import YashModel.Fnmatch.RegexSemLemmas

namespace YashModel.Fnmatch
namespace Proofs

theorem getLast?_cons_of_ne {α : Type} (a : α) (l : List α) (h : l ≠ []) : (a :: l).getLast? = l.getLast? := by
  cases l with
  | nil => exact absurd rfl h
  | cons b t => simp [List.getLast?_cons_cons]

/-- the loop, from any position `pre.length` of the full item list `pre ++ items` -/
theorem caseExecuteGo_spec (subj : List Char) : ∀ (items pre : List CaseItemM) (falling upd : Bool) (st : Nat),
    let full := pre ++ items
    let ex := caseExecGo subj falling pre.length (items.map fun it => (it.alts, it.cont))
    let r := caseExecuteGo subj falling upd st pre.length items
    r.1 = ex ∧
    r.2.1 = statusAfter (full.map (·.body)) st ex ∧
    r.2.2 = (match ex.getLast? with
      | none => upd
      | some j => !((full.map (·.bodyEmpty))[j]?.getD true)) := by
  intro items
  induction items with
  | nil => intro pre falling upd st; simp [caseExecuteGo, caseExecGo, statusAfter]
  | cons it rest ih =>
    intro pre falling upd st
    have hfull : pre ++ it :: rest = (pre ++ [it]) ++ rest := by simp
    have hlen : (pre ++ [it]).length = pre.length + 1 := by simp
    have hb : ((pre ++ it :: rest).map (·.body))[pre.length]? = some it.body := by simp
    have he : ((pre ++ it :: rest).map (·.bodyEmpty))[pre.length]? = some it.bodyEmpty := by simp
    simp only [List.map_cons, caseExecuteGo, caseExecGo]
    by_cases hhit : (falling || itemMatches subj it.alts) = true
    · simp only [hhit, if_true]
      cases hc : it.cont with
      | brk =>
        simp only [statusAfter, List.foldl_cons, List.foldl_nil, hb, List.getLast?_singleton, he,
          Option.getD_some]
        refine ⟨?_, ?_, ?_⟩ <;> first | rfl | trivial
      | fallThrough =>
        have := ih (pre ++ [it]) true (!it.bodyEmpty) (it.body st)
        rw [hlen, ← hfull] at this
        obtain ⟨h1, h2, h3⟩ := this
        simp only []
        refine ⟨by rw [h1], ?_, ?_⟩
        · rw [h2]; simp only [statusAfter, List.foldl_cons, hb]
        · rw [h3]
          cases hex : caseExecGo subj true (pre.length + 1) (rest.map fun it => (it.alts, it.cont)) with
          | nil => simp [he]
          | cons a l =>
            rw [List.getLast?_cons_cons]
            cases hgl : (a :: l).getLast? with
            | none => simp at hgl
            | some j => rfl
      | cont =>
        have := ih (pre ++ [it]) false (!it.bodyEmpty) (it.body st)
        rw [hlen, ← hfull] at this
        obtain ⟨h1, h2, h3⟩ := this
        simp only []
        refine ⟨by rw [h1], ?_, ?_⟩
        · rw [h2]; simp only [statusAfter, List.foldl_cons, hb]
        · rw [h3]
          cases hex : caseExecGo subj false (pre.length + 1) (rest.map fun it => (it.alts, it.cont)) with
          | nil => simp [he]
          | cons a l =>
            rw [List.getLast?_cons_cons]
            cases hgl : (a :: l).getLast? with
            | none => simp at hgl
            | some j => rfl
    · simp only [hhit, Bool.false_eq_true, if_false]
      have := ih (pre ++ [it]) false upd st
      rw [hlen, ← hfull] at this
      exact this

theorem caseExecute_spec (items : List CaseItemM) (subj : List Char) (st0 : Nat) :
    (caseExecute items subj st0).1 = caseExec (items.map fun it => (it.alts, it.cont)) subj ∧
    (caseExecute items subj st0).2 =
      specCaseStatus (items.map (·.body)) (items.map (·.bodyEmpty)) st0
        (caseExec (items.map fun it => (it.alts, it.cont)) subj) := by
  have := caseExecuteGo_spec subj items [] false false st0
  simp only [List.nil_append, List.length_nil] at this
  obtain ⟨h1, h2, h3⟩ := this
  unfold caseExecute caseExec specCaseStatus
  refine ⟨h1, ?_⟩
  simp only [h2, h3]
  cases caseExecGo subj false 0 (items.map fun it => (it.alts, it.cont)) |>.getLast? with
  | none => simp
  | some j =>
    simp only []
    split <;> split <;> simp_all

/-- `trim::apply` on a value = the element-wise model functions the earlier theorems speak about -/
theorem trimApplyValue_eq (side : TrimSide) (len : TrimLength) (pattern : List AttrChar) :
    (∀ v, trimApplyValue side len pattern (.scalar v) =
      .scalar (trimApply side len (toPatternChars (applyEscapes pattern)) v)) ∧
    (∀ vs, trimApplyValue side len pattern (.array vs) =
      .array (trimArray side len (toPatternChars (applyEscapes pattern)) vs)) := by
  constructor
  · intro v
    unfold trimApplyValue trimApply
    cases Pattern.parse (toPatternChars (applyEscapes pattern)) (trimConfig side len) <;> rfl
  · intro vs
    unfold trimApplyValue trimArray trimApply
    cases hp : Pattern.parse (toPatternChars (applyEscapes pattern)) (trimConfig side len) with
    | error e => simp
    | ok p => simp

end Proofs
end YashModel.Fnmatch
