/-
  C04 — Impl model, second file (wave 3): the attributed characters of a PATTERN WORD, i.e. what
  `expand_word_attr` (case.rs `matches`) / `trim.pattern.expand(env)` + `ifs_join` (trim.rs `apply`) hand to
  `apply_escapes` and `to_pattern_chars`, for words built from the quoting mechanisms of the shell:

    yash-env/src/semantics/expansion/attr.rs              AttrChar (all four fields), Origin
    yash-semantics/src/expansion/initial/text.rs          TextUnit::expand: Literal, Backslashed, parameter
    yash-semantics/src/expansion/initial/word.rs          WordUnit::expand: Unquoted, SingleQuote, DoubleQuote
                                                          (`single_quote`, `double_quote`)
    yash-semantics/src/expansion/initial/param/switch.rs  `${N+word}` on a set parameter: `attribute`

  Environment-free: a parameter is given by its (set, scalar) value, so every phrase is one field and
  `ifs_join` / the field of `expand_word_attr` is that field.  The full expansion (environment, switches,
  `$@`, splitting) is C01's `YashModel.Expansion.Model`, which imports this area and therefore cannot be
  imported here; `Expansion.pattern_chars_compose` ties its characters to `applyEscapes` / `toPatternChars`.

  The point of this file: a character can be BOTH quoting and quoted — a backslash inside double quotes that
  escapes one of `$` `` ` `` `"` `\`, or the inner quotes of `"${x+"a"}"` — because `double_quote` sets
  `is_quoted` on every character of the inner phrase, quoting characters included.
-/
import YashModel.Fnmatch.Model

namespace YashModel.Fnmatch

/-- `attr.rs` `Origin` -/
inductive POrigin | literal | hardExpansion | softExpansion
  deriving DecidableEq, Repr

/-- `attr.rs` `AttrChar` with all four fields (`AttrChar` of Model.lean is what attr_fnmatch.rs reads of it) -/
structure PAttrChar where
  value : Char
  origin : POrigin
  isQuoted : Bool
  isQuoting : Bool
  deriving DecidableEq, Repr

/-- the three fields `apply_escapes` / `to_pattern_chars` read -/
def PAttrChar.reduce (c : PAttrChar) : AttrChar :=
  { value := c.value, isQuoted := c.isQuoted, isQuoting := c.isQuoting }

mutual
  /-- `yash_syntax::syntax::TextUnit` as far as a pattern word is concerned -/
  inductive PTextUnit
    | lit (c : Char)
    | bs (c : Char)
    /-- `$N` / `${N}` of a parameter set to the scalar `v` -/
    | param (v : List Char)
    /-- `${N+w}` of a set parameter: the switch `Alter` on an occupied value expands the word `w` -/
    | alt (w : PWord)
  inductive PText
    | nil
    | cons (u : PTextUnit) (t : PText)
  /-- `WordUnit` -/
  inductive PWordUnit
    | unq (u : PTextUnit)
    | sq (s : List Char)
    | dq (t : PText)
  inductive PWord
    | nil
    | cons (u : PWordUnit) (w : PWord)
end

/-- a quoting character written in the script (`'`, `"`, `\`): `SINGLE_QUOTE`, `QUOTE`, `bs` -/
def pQuoteChar (c : Char) : PAttrChar :=
  { value := c, origin := .literal, isQuoted := false, isQuoting := true }

/-- a literal character quoted by a backslash or single quotes -/
def pQuotedLit (c : Char) : PAttrChar :=
  { value := c, origin := .literal, isQuoted := true, isQuoting := false }

/-- `double_quote::quote_field`: `c.is_quoted = true` for EVERY character of the inner field — also the quoting
    ones (the backslash of `\$`, the quotes of an inner `"…"`) -/
def pSetQuoted (c : PAttrChar) : PAttrChar := { c with isQuoted := true }

/-- switch.rs `attribute`: `Literal` becomes `SoftExpansion`, nothing else changes -/
def pAttribute (c : PAttrChar) : PAttrChar :=
  match c.origin with
  | .literal => { c with origin := .softExpansion }
  | _ => c

mutual
  /-- text.rs `impl Expand for TextUnit` -/
  def PTextUnit.expand : PTextUnit → List PAttrChar
    | .lit c => [{ value := c, origin := .literal, isQuoted := false, isQuoting := false }]
    | .bs c => [pQuoteChar '\\', pQuotedLit c]
    | .param v => v.map fun c => { value := c, origin := .softExpansion, isQuoted := false, isQuoting := false }
    | .alt w => w.expand.map pAttribute
  /-- `impl Expand for Text` -/
  def PText.expand : PText → List PAttrChar
    | .nil => []
    | .cons u t => u.expand ++ t.expand
  /-- word.rs `impl Expand for WordUnit` -/
  def PWordUnit.expand : PWordUnit → List PAttrChar
    | .unq u => u.expand
    | .sq s => [pQuoteChar '\''] ++ s.map pQuotedLit ++ [pQuoteChar '\'']
    | .dq t => [pQuoteChar '"'] ++ t.expand.map pSetQuoted ++ [pQuoteChar '"']
  /-- `impl Expand for Word` -/
  def PWord.expand : PWord → List PAttrChar
    | .nil => []
    | .cons u w => u.expand ++ w.expand
end

/-- the attributed characters `apply_escapes` receives for the pattern word `w` -/
def wordAttrs (w : PWord) : List AttrChar := w.expand.map PAttrChar.reduce

/-- case.rs `matches` / trim.rs `apply`: `to_pattern_chars(&{ apply_escapes(&mut pattern); pattern })` -/
def patternOfWord (w : PWord) : List PatternChar := toPatternChars (applyEscapes (wordAttrs w))

/-! ### `apply_escapes` as the index loop it is in attr_fnmatch.rs (after fix 9da0f0e; `applyEscapes` of Model.lean is
    the equivalent recursion: `applyEscapesIdx_eq`, WordLemmas.lean) -/

/-- `chars[i + 1..].iter().position(|c| !c.is_quoting)` followed by `chars[i + 1 + offset].is_quoted = true`, on the
    slice `chars[i + 1..]`: the first character that is not a quoting character becomes quoted -/
def markFirst : List AttrChar → List AttrChar
  | [] => []
  | c :: t => if c.isQuoting then c :: markFirst t else { c with isQuoted := true } :: t

/-- one iteration of `for i in 0..chars.len()`: an unquoted non-quoting backslash at `i` with a non-quoting
    character somewhere after it (`if let Some(offset) = next`) becomes quoting and that character quoted -/
def escStep (cs : List AttrChar) (i : Nat) : List AttrChar :=
  match cs[i]? with
  | some a =>
    if a.value = '\\' ∧ a.isQuoting = false ∧ a.isQuoted = false ∧
        (cs.drop (i + 1)).any (fun c => !c.isQuoting) = true then
      cs.take i ++ { a with isQuoting := true } :: markFirst (cs.drop (i + 1))
    else cs
  | none => cs

/-- `apply_escapes` as the index loop the Rust code is -/
def applyEscapesIdx (cs : List AttrChar) : List AttrChar :=
  (List.range' 0 cs.length).foldl escStep cs

end YashModel.Fnmatch
