/-
  C04 — helper lemmas, part 3: the whole regex text parses back to the expected atoms (`atoms_emit`,
  `toRegex_parse`) and the backtracking matcher on those atoms decides the glob language
  (`matchHere_glob`).
-/
import YashModel.Fnmatch.AltLemmas

namespace YashModel.Fnmatch
open YashModel.Generated.FnmatchTables

/-! ### the regex atoms a pattern atom stands for -/

def cBracket (b : Bracket) : Option ReAtom :=
  if b.items = [] then none
  else if !b.multi then (cItems b.items).map (fun ci => .one (.cls { neg := b.complement, items := ci }))
  else if !b.complement then (cAlts b.items).map .alt
  else if b.items.all BracketItem.multi then some .any
  else (cItems (b.items.filter (fun it => !it.multi))).map
    (fun ci => .one (.cls { neg := true, items := ci }))

def cAtom : Atom → Option ReAtom
  | .char c => some (.one (.lit c))
  | .anyChar => some .any
  | .anyString => some .star
  | .bracket b => cBracket b

def cAtoms : List Atom → Option (List ReAtom)
  | [] => some []
  | a :: r =>
    match cAtom a, cAtoms r with
    | some x, some y => some (x :: y)
    | _, _ => none

/-! ### lengths and heads of emitted text -/

theorem fmtItems_length {items : List BracketItem} {x : List Char}
    (hm : ∀ it ∈ items, it.multi = false) (h : fmtItems items = .ok x) : items.length ≤ x.length := by
  induction items generalizing x with
  | nil => simp
  | cons it rest ih =>
    obtain ⟨a, b, ha, hb, rfl⟩ := fmtItems_cons_ok h
    have := ih (fun i hi => hm i (by simp [hi])) hb
    obtain ⟨c, t, hc, _⟩ := (item_emit (hm it (by simp)) ha).1 []
    have hl : 0 < a.length := by
      have := congrArg List.length hc; simp at this; omega
    simp; omega

theorem fmtAtoms_cons_ok {a : Atom} {r : List Atom} {x : List Char}
    (h : fmtAtoms (a :: r) = .ok x) : ∃ p q, a.fmt = .ok p ∧ fmtAtoms r = .ok q ∧ x = p ++ q := by
  simp only [fmtAtoms] at h
  split at h
  · simp at h
  · rename_i p hp
    split at h
    · simp at h
    · rename_i q hq
      simp at h
      exact ⟨p, q, hp, hq, h.symm⟩

theorem bracket_fmt_cases {b : Bracket} {x : List Char} (h : b.fmt = .ok x) :
    b.items ≠ [] ∧
    ((b.multi = false ∧ ∃ a, fmtItems b.items = .ok a ∧
        x = '[' :: ((if b.complement then ['^'] else []) ++ a ++ ']' :: [])) ∨
     (b.multi = true ∧ b.complement = false ∧ ∃ a, fmtAltItems b.items = .ok a ∧
        x = '(' :: '?' :: ':' :: (a ++ [')'])) ∨
     (b.multi = true ∧ b.complement = true ∧ b.items.all BracketItem.multi = true ∧ x = ['.']) ∨
     (b.multi = true ∧ b.complement = true ∧ b.items.all BracketItem.multi = false ∧ ∃ a,
        fmtItems (b.items.filter (fun it => !it.multi)) = .ok a ∧ x = '[' :: '^' :: (a ++ [']']))) := by
  unfold Bracket.fmt at h
  split at h
  · simp at h
  · rename_i hne
    refine ⟨hne, ?_⟩
    split at h
    · rename_i hm
      split at h
      · simp at h
      · rename_i a ha
        simp at h
        exact Or.inl ⟨by simpa using hm, a, ha, by rw [← h]; simp⟩
    · rename_i hm
      have hm' : b.multi = true := by simpa using hm
      split at h
      · rename_i hc
        split at h
        · simp at h
        · rename_i a ha
          simp at h
          exact Or.inr (Or.inl ⟨hm', by simpa using hc, a, ha, by rw [← h]⟩)
      · rename_i hc
        split at h
        · rename_i hall
          simp at h
          exact Or.inr (Or.inr (Or.inl ⟨hm', by simpa using hc, hall, h.symm⟩))
        · rename_i hall
          split at h
          · simp at h
          · rename_i a ha
            simp at h
            exact Or.inr (Or.inr (Or.inr ⟨hm', by simpa using hc, by simpa using hall, a, ha, by rw [← h]⟩))

/-- the first character of an emitted atom is never a raw `*` -/
theorem atom_fmt_head {a : Atom} {x : List Char} (h : a.fmt = .ok x) (r : List Char) :
    ∃ c t, x ++ r = c :: t ∧ c ≠ '*' := by
  cases a with
  | char c =>
    simp [Atom.fmt] at h; subst h
    unfold fmtTopChar
    split
    · exact ⟨'\\', _, rfl, by decide⟩
    · rename_i hs
      exact ⟨c, r, rfl, ne_of_not_mem (not_special_not_meta hs) star_mem⟩
  | anyChar => simp [Atom.fmt] at h; subst h; exact ⟨'.', _, rfl, by decide⟩
  | anyString => simp [Atom.fmt] at h; subst h; exact ⟨'.', _, rfl, by decide⟩
  | bracket b =>
    simp only [Atom.fmt] at h
    obtain ⟨_, h1 | h2 | h3 | h4⟩ := bracket_fmt_cases h
    · obtain ⟨_, a, _, rfl⟩ := h1; exact ⟨'[', _, rfl, by decide⟩
    · obtain ⟨_, _, a, _, rfl⟩ := h2; exact ⟨'(', _, rfl, by decide⟩
    · obtain ⟨_, _, _, rfl⟩ := h3; exact ⟨'.', _, rfl, by decide⟩
    · obtain ⟨_, _, _, a, _, rfl⟩ := h4; exact ⟨'[', _, rfl, by decide⟩

theorem atoms_fmt_head {ast : List Atom} {x : List Char} (h : fmtAtoms ast = .ok x) (tail : List Char)
    (ht : tail.head? ≠ some '*') : (x ++ tail).head? ≠ some '*' := by
  cases ast with
  | nil => simp [fmtAtoms] at h; subst h; simpa using ht
  | cons a r =>
    obtain ⟨p, q, hp, _, rfl⟩ := fmtAtoms_cons_ok h
    obtain ⟨c, t, hc, hne⟩ := atom_fmt_head hp (q ++ tail)
    rw [List.append_assoc, hc]
    simp [hne]

/-! ### one atom -/

theorem filter_not_multi (items : List BracketItem) :
    ∀ it ∈ items.filter (fun it => !it.multi), it.multi = false := by
  intro it hi
  have := (List.mem_filter.mp hi).2
  simpa using this

theorem atom_emit {a : Atom} {x : List Char} (h : a.fmt = .ok x) (r : List Char) (fuel : Nat)
    (hfuel : (x ++ r).length ≤ fuel) (hr : r.head? ≠ some '*') :
    parseTop (fuel + 1) (x ++ r) =
      match cAtom a with
      | some ra => (parseTop fuel r).map (ra :: ·)
      | none => none := by
  cases a with
  | char c => simp [Atom.fmt] at h; subst h; simp [parseTop_char, cAtom]
  | anyChar => simp [Atom.fmt] at h; subst h; simp [parseTop, hr, cAtom]
  | anyString => simp [Atom.fmt] at h; subst h; simp [parseTop, cAtom]
  | bracket b =>
    simp only [Atom.fmt] at h
    obtain ⟨hne, h1 | h2 | h3 | h4⟩ := bracket_fmt_cases h
    · obtain ⟨hm, a, ha, rfl⟩ := h1
      have hmi : ∀ it ∈ b.items, it.multi = false := by
        intro it hi
        have : b.items.any BracketItem.multi = false := hm
        rw [List.any_eq_false] at this
        simpa using this it hi
      have hl := fmtItems_length hmi ha
      have e : ('[' :: ((if b.complement then ['^'] else []) ++ a ++ [']'])) ++ r
          = '[' :: ((if b.complement then ['^'] else []) ++ a ++ ']' :: r) := by simp
      have hfl : b.items.length < fuel := by
        rw [e] at hfuel; simp at hfuel; omega
      rw [e]
      simp only [parseTop]
      simp only [show ('[' : Char) ≠ '\\' by decide, show ('[' : Char) ≠ '.' by decide, if_false, if_true]
      rw [parseClass_emit b.complement b.items a hmi ha hne r fuel hfl]
      simp only [cAtom, cBracket, hne, if_false, hm]
      cases cItems b.items <;> simp
    · obtain ⟨hm, hc, a, ha, rfl⟩ := h2
      have e : ('(' :: '?' :: ':' :: (a ++ [')'])) ++ r = '(' :: '?' :: ':' :: (a ++ ')' :: r) := by simp
      rw [e]
      simp only [parseTop]
      simp only [show ('(' : Char) ≠ '\\' by decide, show ('(' : Char) ≠ '.' by decide,
        show ('(' : Char) ≠ '[' by decide, if_false, if_true, List.head?_cons, List.tail_cons, and_self]
      have hfl : (a ++ ')' :: r).length < fuel := by rw [e] at hfuel; simp at hfuel ⊢; omega
      rw [parseBranches_emit b.items hne a ha r fuel hfl]
      simp only [cAtom, cBracket, hne, if_false, hm, hc]
      cases cAlts b.items <;> simp
    · obtain ⟨hm, hc, hall, rfl⟩ := h3
      simp [parseTop, hr, cAtom, cBracket, hne, hm, hc, hall]
    · obtain ⟨hm, hc, hall, a, ha, rfl⟩ := h4
      have hmi := filter_not_multi b.items
      have hl := fmtItems_length hmi ha
      have e : ('[' :: '^' :: (a ++ [']'])) ++ r = '[' :: '^' :: (a ++ ']' :: r) := by simp
      have hfl : (b.items.filter (fun it => !it.multi)).length < fuel := by
        rw [e] at hfuel; simp at hfuel; omega
      have hf : b.items.filter (fun it => !it.multi) ≠ [] := by
        intro hnil
        have : b.items.all BracketItem.multi = true := by
          rw [List.all_eq_true]
          intro it hi
          by_cases hm1 : it.multi = true
          · exact hm1
          · have : it ∈ b.items.filter (fun it => !it.multi) := by
              rw [List.mem_filter]; exact ⟨hi, by simpa using hm1⟩
            rw [hnil] at this; simp at this
        rw [this] at hall; simp at hall
      rw [e]
      simp only [parseTop]
      simp only [show ('[' : Char) ≠ '\\' by decide, show ('[' : Char) ≠ '.' by decide, if_false, if_true]
      simp only [cAtom, cBracket, hne, if_false, hm, hc, hall]
      have := parseClass_emit true _ a hmi ha hf r fuel hfl
      simp only [if_true] at this
      have e2 : '^' :: (a ++ ']' :: r) = ['^'] ++ a ++ ']' :: r := by simp
      rw [e2, this]
      cases hci : cItems (b.items.filter (fun it => !it.multi)) <;> simp

/-! ### all atoms -/

theorem atom_fmt_length_pos {a : Atom} {x : List Char} (h : a.fmt = .ok x) : 0 < x.length := by
  obtain ⟨c, t, hc, _⟩ := atom_fmt_head h []
  have := congrArg List.length hc
  simp at this; omega

theorem atoms_emit (ast : List Atom) :
    ∀ (x : List Char), fmtAtoms ast = .ok x →
    ∀ (tail : List Char) (tailRe : List ReAtom), tail.head? ≠ some '*' →
      (∀ f, tail.length < f → parseTop f tail = some tailRe) →
    ∀ fuel, (x ++ tail).length < fuel →
      parseTop fuel (x ++ tail) = (cAtoms ast).map (· ++ tailRe) := by
  induction ast with
  | nil =>
    intro x h tail tailRe _ htail fuel hfuel
    simp [fmtAtoms] at h; subst h
    simp at hfuel
    simp [cAtoms, htail fuel hfuel]
  | cons a r ih =>
    intro x h tail tailRe ht htail fuel hfuel
    obtain ⟨p, q, hp, hq, rfl⟩ := fmtAtoms_cons_ok h
    obtain ⟨f, rfl⟩ : ∃ f, fuel = f + 1 := ⟨fuel - 1, by omega⟩
    have hpos := atom_fmt_length_pos hp
    rw [List.append_assoc]
    rw [atom_emit hp (q ++ tail) f (by simp at hfuel ⊢; omega) (atoms_fmt_head hq tail ht)]
    have ihq := ih q hq tail tailRe ht htail f (by simp at hfuel ⊢; omega)
    cases hca : cAtom a with
    | none => simp [cAtoms, hca]
    | some ra =>
      simp only []
      rw [ihq]
      cases hcr : cAtoms r with
      | none => simp [cAtoms, hca, hcr]
      | some rr => simp [cAtoms, hca, hcr]

theorem parseTop_nil (f : Nat) (h : 0 < f) : parseTop f [] = some [] := by
  obtain ⟨k, rfl⟩ : ∃ k, f = k + 1 := ⟨f - 1, by omega⟩
  simp [parseTop]

theorem parseTop_eos (f : Nat) (h : 2 < f) : parseTop f ['\\', 'z'] = some [.eos] := by
  obtain ⟨k, rfl⟩ : ∃ k, f = k + 2 := ⟨f - 2, by omega⟩
  have : ('z' : Char) ∉ escapable := by decide
  simp [parseTop, this]

theorem parseTop_bos (f : Nat) (rest : List Char) :
    parseTop (f + 1) ('\\' :: 'A' :: rest) = (parseTop f rest).map (.bos :: ·) := by
  have hA : ('A' : Char) ∉ escapable := by decide
  simp [parseTop, hA]

/-- the regex text of a whole pattern parses to the expected atoms -/
theorem toRegex_parse (ast : Ast) (cfg : Config) (r : List Char) (h : toRegex ast cfg = .ok r) :
    parseRe r = (cAtoms ast).map (fun res =>
      (if cfg.anchorBegin then [ReAtom.bos] else []) ++ res ++ (if cfg.anchorEnd then [ReAtom.eos] else [])) := by
  unfold toRegex at h
  split at h
  · simp at h
  · rename_i body hb
    simp at h
    subst h
    unfold parseRe
    have tailLemma : ∀ fuel, ((body ++ if cfg.anchorEnd = true then ['\\', 'z'] else []).length < fuel) →
        parseTop fuel (body ++ if cfg.anchorEnd = true then ['\\', 'z'] else []) =
          (cAtoms ast).map (· ++ (if cfg.anchorEnd then [ReAtom.eos] else [])) := by
      intro fuel hfuel
      cases he : cfg.anchorEnd with
      | true =>
        simp only [he, if_true] at hfuel ⊢
        exact atoms_emit ast body hb ['\\', 'z'] [.eos] (by simp)
          (fun f hf => parseTop_eos f (by simpa using hf)) fuel hfuel
      | false =>
        simp only [he] at hfuel ⊢
        exact atoms_emit ast body hb [] [] (by simp)
          (fun f hf => parseTop_nil f (by omega)) fuel (by simpa using hfuel)
    cases hab : cfg.anchorBegin with
    | true =>
      have hA : ('A' : Char) ∉ escapable := by decide
      simp only [if_true, List.cons_append, List.nil_append, List.append_assoc, List.length_cons]
      rw [parseTop_bos, tailLemma _ (by omega)]
      cases cAtoms ast <;> simp
    | false =>
      simp only [Bool.false_eq_true, if_false, List.nil_append]
      rw [tailLemma _ (by omega)]
      try (cases cAtoms ast <;> simp)

/-! ### semantics: the matcher on the expected atoms decides the glob language -/

theorem starLoop_isSome (g : Bool) (k : List Char → Option (List Char)) (s : List Char) :
    (starLoop g k s).isSome = (List.range (s.length + 1)).any fun i => (k (s.drop i)).isSome := by
  induction s with
  | nil => simp [starLoop]
  | cons c t ih =>
    rw [List.length_cons, List.range_succ_eq_map, List.any_cons, List.any_map]
    simp only [List.drop_zero, Function.comp_def, List.drop_succ_cons]
    rw [← ih]
    cases g with
    | true =>
      simp only [starLoop, if_true]
      cases h1 : starLoop true k t <;> cases h2 : k (c :: t) <;> simp
    | false =>
      simp only [starLoop, Bool.false_eq_true, if_false]
      cases h1 : starLoop false k t <;> cases h2 : k (c :: t) <;> simp

theorem any_filter_not_multi (items : List BracketItem) (c : Char) :
    (items.filter (fun it => !it.multi)).any (itemHas · c) = items.any (itemHas · c) := by
  induction items with
  | nil => rfl
  | cons it rest ih =>
    cases hm : it.multi with
    | true => simp [List.filter, hm, ih, itemHas_of_multi hm]
    | false => simp [List.filter, hm, ih]

theorem seq_filterMap_nil {b : Bracket} (hmi : ∀ it ∈ b.items, it.multi = false) (s : List Char) :
    (if b.complement = true then []
     else b.items.filterMap fun it =>
        match itemSeq it with
        | some v => if v.isPrefixOf s then some (s.drop v.length) else none
        | none => none) = [] := by
  split
  · rfl
  · rw [List.filterMap_eq_nil_iff]
    intro it hi
    simp [noSeq_of_not_multi (hmi it hi)]

theorem bracketRests_plain_nil {b : Bracket} (hmi : ∀ it ∈ b.items, it.multi = false) :
    bracketRests b [] = [] := by
  simp only [bracketRests, List.nil_append]
  exact seq_filterMap_nil hmi []

theorem bracketRests_plain_cons {b : Bracket} (hmi : ∀ it ∈ b.items, it.multi = false) (c : Char)
    (t : List Char) :
    bracketRests b (c :: t) = if (b.items.any (itemHas · c) != b.complement) then [t] else [] := by
  simp only [bracketRests]
  rw [List.append_right_eq_self]
  exact seq_filterMap_nil hmi (c :: t)

/-- the key semantic lemma for one bracket: the emitted atom followed by a continuation `k` succeeds
    exactly when the continuation succeeds on one of the rests the Spec allows -/
theorem bracket_sem {b : Bracket} {ra : ReAtom} (h : cBracket b = some ra) (g : Bool) (n : Nat)
    (rest : List ReAtom) (s : List Char) :
    (matchHere g n (ra :: rest) s).isSome =
      (bracketRests b s).any (fun s' => (matchHere g n rest s').isSome) := by
  unfold cBracket at h
  split at h
  · simp at h
  · rename_i hne
    split at h
    · -- plain class
      rename_i hm
      have hm' : b.multi = false := by simpa using hm
      have hmi : ∀ it ∈ b.items, it.multi = false := by
        intro it hi
        have : b.items.any BracketItem.multi = false := hm'
        rw [List.any_eq_false] at this
        simpa using this it hi
      cases hci : cItems b.items with
      | none => simp [hci] at h
      | some ci =>
        simp [hci] at h
        subst h
        cases s with
        | nil => rw [bracketRests_plain_nil hmi]; simp [matchHere]
        | cons c t =>
          rw [bracketRests_plain_cons hmi]
          simp only [matchHere, Simple.mem, Cls.mem, cItems_mem hci c]
          cases hx : (b.items.any (itemHas · c) != b.complement) <;> simp
    · rename_i hm
      have hm' : b.multi = true := by simpa using hm
      split at h
      · -- alternation
        rename_i hc
        have hc' : b.complement = false := by simpa using hc
        cases hca : cAlts b.items with
        | none => simp [hca] at h
        | some bs =>
          simp [hca] at h
          subst h
          simp only [matchHere]
          rw [altLoop_isSome, alts_sem hca]
          exact (bracketRests_pos hc' _ s).symm
      · -- complemented bracket with multi-character elements dropped
        rename_i hc
        have hc' : b.complement = true := by simpa using hc
        split at h
        · -- all items are multi-character: `.`
          rename_i hall
          simp at h
          subst h
          have hnone : ∀ c, b.items.any (itemHas · c) = false := by
            intro c
            rw [List.any_eq_false]
            intro it hi
            have : it.multi = true := by
              have h' := hall
              rw [List.all_eq_true] at h'
              exact h' it hi
            simp [itemHas_of_multi this c]
          cases s with
          | nil => simp [matchHere, bracketRests, hc']
          | cons c t => simp [matchHere, bracketRests, hc', hnone c]
        · cases hci : cItems (b.items.filter (fun it => !it.multi)) with
          | none => simp [hci] at h
          | some ci =>
            simp [hci] at h
            subst h
            cases s with
            | nil => simp [matchHere, bracketRests, hc']
            | cons c t =>
              simp only [matchHere, bracketRests, Simple.mem, Cls.mem, hc', cItems_mem hci c,
                any_filter_not_multi]
              cases hx : (b.items.any (itemHas · c) != true) <;> simp

theorem matchHere_glob (g : Bool) (n : Nat) (atoms : List Atom) :
    ∀ res, cAtoms atoms = some res →
    ∀ s, (matchHere g n (res ++ [.eos]) s).isSome = globAtoms atoms s := by
  induction atoms with
  | nil =>
    intro res h s
    simp [cAtoms] at h; subst h
    cases s <;> simp [matchHere, globAtoms]
  | cons a r ih =>
    intro res h s
    simp only [cAtoms] at h
    split at h
    · rename_i ra rr hra hrr
      simp at h; subst h
      have ihr := ih rr hrr
      cases a with
      | char c =>
        simp [cAtom] at hra; subst hra
        cases s with
        | nil => simp [matchHere, globAtoms]
        | cons c' t =>
          simp only [List.cons_append, matchHere, globAtoms, Simple.mem]
          by_cases hcc : c' = c
          · subst hcc; simp [ihr]
          · simp [hcc]
      | anyChar =>
        simp [cAtom] at hra; subst hra
        cases s with
        | nil => simp [matchHere, globAtoms]
        | cons c' t => simp [matchHere, globAtoms, ihr]
      | anyString =>
        simp [cAtom] at hra; subst hra
        simp only [List.cons_append, matchHere, globAtoms]
        rw [starLoop_isSome]
        simp [ihr]
      | bracket b =>
        simp only [cAtom] at hra
        simp only [List.cons_append, globAtoms]
        rw [bracket_sem hra]
        congr 1
        funext s'
        exact ihr s'
    · simp at h

/-! ### fully anchored search -/

theorem findFrom_bos_short (g : Bool) (n : Nat) (re : List ReAtom) :
    ∀ (s : List Char) (pos : Nat), s.length < n → findFrom g n (.bos :: re) pos s = none := by
  intro s
  induction s with
  | nil =>
    intro pos h
    have h1 : ([] : List Char).length ≠ n := by simp at h ⊢; omega
    simp only [findFrom, matchHere]
    rw [if_neg h1]
  | cons c t ih =>
    intro pos h
    have h1 : (c :: t).length ≠ n := by omega
    have h2 : t.length < n := by simp at h; omega
    simp only [findFrom, matchHere]
    rw [if_neg h1]
    exact ih (pos + 1) h2

theorem findAt_anchored_isSome (g : Bool) (re : List ReAtom) (s : List Char) :
    (findAt g (.bos :: re) s 0).isSome = (matchHere g s.length re s).isSome := by
  unfold findAt
  simp only [Nat.zero_le, if_true, List.drop_zero]
  cases s with
  | nil =>
    simp only [findFrom, matchHere, List.length_nil, if_true]
    cases matchHere g 0 re [] <;> simp
  | cons c t =>
    simp only [findFrom, matchHere, if_true]
    cases hm : matchHere g (c :: t).length re (c :: t) with
    | some r => simp
    | none =>
      simp only []
      rw [findFrom_bos_short g _ re t 1 (by simp)]
      simp

end YashModel.Fnmatch
