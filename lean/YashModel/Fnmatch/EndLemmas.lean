/-
  C04 — helper lemmas, part 16 (wave 2): WHICH end `find` takes at the leftmost start, for every configuration:
  without multi-character collating elements the greatest one (greedy) / the least one (`shortest_match`).
-/
import YashModel.Fnmatch.CaseStatusLemmas

namespace YashModel.Fnmatch
namespace Proofs

theorem findAt_some_matchHere (g : Bool) (re : List ReAtom) (s : List Char) (a0 a e : Nat)
    (h : findAt g re s a0 = some (a, e)) :
    a ≤ s.length ∧ ∃ ρ, matchHere g s.length re (s.drop a) = some ρ ∧ e = s.length - ρ.length := by
  unfold findAt at h
  split at h
  · rename_i h0
    have hspec := findFrom_spec g s.length re (s.drop a0) a0
    rw [h] at hspec
    obtain ⟨j, ρ, hj, ha, hm, he, _⟩ := hspec
    simp at hj
    rw [List.drop_drop] at hm
    subst ha
    exact ⟨by omega, ρ, hm, he⟩
  · simp at h

theorem find_end_extremal (ast : Ast) (hn : noMulti ast = true) (cfg : Config) (p : Pattern)
    (h : Pattern.fromAst ast cfg = .ok p) (s : List Char) (a e : Nat) (hf : p.find s = some (a, e)) :
    ∀ j, occurs cfg.anchorBegin cfg.anchorEnd ast s a j → if cfg.shortest then e ≤ j else j ≤ e := by
  intro j hocc
  have hfl := find_leftmost ast cfg p h s
  rw [hf] at hfl
  obtain ⟨_, hoe, _⟩ := hfl
  rcases fromAst_cases ast cfg p h with ⟨l, hl, rfl⟩ | ⟨hnone, res, hres, rfl⟩
  · -- literal: every occurrence at `a` has the length of the literal
    obtain ⟨h1, h2, _, _, hm⟩ := (occurs_literal ast l hl _ _ s a j).mp hocc
    obtain ⟨h1', h2', _, _, hm'⟩ := (occurs_literal ast l hl _ _ s a e).mp hoe
    have e1 := ((mid_eq_iff s l a j h1 h2).mp hm).2
    have e2 := ((mid_eq_iff s l a e h1' h2').mp hm').2
    split <;> omega
  · cases hae : cfg.anchorEnd with
    | true =>
      rw [hae] at hocc hoe
      have := hocc.2.2.2.1 rfl
      have := hoe.2.2.2.1 rfl
      split <;> omega
    | false =>
      simp only [Pattern.find] at hf
      obtain ⟨hal, ρ, hm, he⟩ := findAt_some_matchHere _ _ s _ a e hf
      -- strip `\A`
      have hm' : matchHere (!cfg.shortest) s.length res (s.drop a) = some ρ := by
        unfold cfgRe at hm
        rw [hae] at hm
        simp only [Bool.false_eq_true, if_false, List.append_nil] at hm
        cases hab : cfg.anchorBegin with
        | true =>
          rw [hab] at hm
          simp only [if_true, List.singleton_append, matchHere] at hm
          split at hm
          · exact hm
          · simp at hm
        | false =>
          rw [hab] at hm
          simpa using hm
      have hplain := cAtoms_plain ast res hres hn
      obtain ⟨_, _, hC, hD⟩ := matchHere_rests s.length res hplain
      have hrg := rests_glob ast res hres hn
      obtain ⟨hij, hj, _, _, hg⟩ := hocc
      have hmem : s.drop j ∈ rests res (s.drop a) :=
        (hrg _ _).mpr ⟨(s.take j).drop a, drop_split hij hj, by simpa [globMatch] using hg⟩
      -- `ρ` is a suffix of `s.drop a`
      obtain ⟨pre, hu, _⟩ := (hrg _ _).mp ((matchHere_rests s.length res hplain).1 _ _ _ hm')
      have hρ : ρ.length ≤ s.length := by
        have := congrArg List.length hu
        simp at this; omega
      cases hsh : cfg.shortest with
      | true =>
        rw [hsh] at hm'
        have := hD _ _ hm' _ hmem
        simp at this
        simp only [if_true]; omega
      | false =>
        rw [hsh] at hm'
        have := hC _ _ hm' _ hmem
        simp at this
        simp only [Bool.false_eq_true, if_false]; omega

end Proofs
end YashModel.Fnmatch
