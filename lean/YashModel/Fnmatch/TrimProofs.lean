/-
  C04 — helper lemmas, part 6: `find` / `rfind` of the four trim configurations are extremal, on the regex
  path and on the literal fast path.
-/
import YashModel.Fnmatch.TrimLemmas
import YashModel.Fnmatch.Proofs

namespace YashModel.Fnmatch

/-- what `trim_value` does with the range it gets -/
def cut (v : List Char) : Option (Nat × Nat) → List Char
  | some (a, b) => v.take a ++ v.drop b
  | none => v

/-- remove the prefix of the given length, if any -/
def dropAt (v : List Char) : Option Nat → List Char
  | some k => v.drop k
  | none => v

/-- remove the suffix that starts at the given index, if any -/
def takeAt (v : List Char) : Option Nat → List Char
  | some k => v.take k
  | none => v

/-! ### prefix side: `\A` + plain regex -/

theorem findAt_bos (g : Bool) (re : List ReAtom) (v : List Char) :
    findAt g (.bos :: re) v 0 = (matchHere g v.length re v).map (fun ρ => (0, v.length - ρ.length)) := by
  unfold findAt
  simp only [Nat.zero_le, if_true, List.drop_zero]
  cases v with
  | nil =>
    simp only [findFrom, matchHere, List.length_nil, if_true]
    cases matchHere g 0 re [] <;> rfl
  | cons c t =>
    simp only [findFrom, matchHere, if_true]
    cases hm : matchHere g (c :: t).length re (c :: t) with
    | some r => rfl
    | none =>
      simp only [Option.map_none]
      exact findFrom_bos_short g _ re t 1 (by simp)

theorem take_length_of_append (pre ρ : List Char) : (pre ++ ρ).take pre.length = pre := by simp
theorem drop_length_of_append (pre ρ : List Char) : (pre ++ ρ).drop pre.length = ρ := by simp

/-- `find` with `\A`: greedy finds the longest, lazy the shortest matching prefix -/
theorem prefix_find_regex (ast : Ast) (res : List ReAtom) (hres : cAtoms ast = some res)
    (hn : noMulti ast = true) (g : Bool) (v : List Char) :
    findAt g (.bos :: res) v 0 =
      (if g then greatestUpTo (fun k => globAtoms ast (v.take k)) v.length
       else leastUpTo (fun k => globAtoms ast (v.take k)) v.length).map (fun k => (0, k)) := by
  have hplain := cAtoms_plain ast res hres hn
  obtain ⟨hA, hB, hC, hD⟩ := matchHere_rests v.length res hplain
  have hrg := rests_glob ast res hres hn
  have hmem : ∀ j, j ≤ v.length → globAtoms ast (v.take j) = true → v.drop j ∈ rests res v :=
    fun j _ hj => (hrg v (v.drop j)).mpr ⟨v.take j, (List.take_append_drop j v).symm, hj⟩
  rw [findAt_bos]
  cases hm : matchHere g v.length res v with
  | none =>
    have hnone : ∀ j, j ≤ v.length → globAtoms ast (v.take j) = false := by
      intro j hj
      cases hg : globAtoms ast (v.take j) with
      | false => rfl
      | true => have := hB g v _ (hmem j hj hg); rw [hm] at this; simp at this
    cases g <;> simp [leastUpTo_none hnone, greatestUpTo_none hnone]
  | some ρ =>
    obtain ⟨pre, hv, hpre⟩ := (hrg v ρ).mp (hA g v ρ hm)
    have hlen : v.length - ρ.length = pre.length := by rw [hv]; simp
    have hP : globAtoms ast (v.take pre.length) = true := by rw [hv, take_length_of_append]; exact hpre
    have hle : pre.length ≤ v.length := by rw [hv]; simp
    have hdrop : v.drop pre.length = ρ := by rw [hv, drop_length_of_append]
    simp only [Option.map_some, hlen]
    cases g with
    | true =>
      have hmax : ∀ j, j ≤ v.length → globAtoms ast (v.take j) = true → j ≤ pre.length := by
        intro j hj hgj
        have := hC v ρ hm _ (hmem j hj hgj)
        simp at this; omega
      simp [greatestUpTo_some hP hle hmax]
    | false =>
      have hmin : ∀ j, j ≤ v.length → globAtoms ast (v.take j) = true → pre.length ≤ j := by
        intro j hj hgj
        have := hD v ρ hm _ (hmem j hj hgj)
        simp at this; omega
      simp [leastUpTo_some hP hle hmin]

/-! ### suffix side: plain or not, regex + `\z` -/

theorem matchHere_eos_none_iff (g : Bool) (n : Nat) (ast : Ast) (res : List ReAtom)
    (hres : cAtoms ast = some res) (u : List Char) :
    matchHere g n (res ++ [.eos]) u = none ↔ globAtoms ast u = false := by
  have := matchHere_glob g n ast res hres u
  cases hm : matchHere g n (res ++ [.eos]) u <;> simp [hm] at this <;> simp [this]

theorem findAt_eos_spec (g : Bool) (ast : Ast) (res : List ReAtom) (hres : cAtoms ast = some res)
    (v : List Char) (a0 : Nat) (h0 : a0 ≤ v.length) :
    match findAt g (res ++ [.eos]) v a0 with
    | none => ∀ j, a0 ≤ j → j ≤ v.length → globAtoms ast (v.drop j) = false
    | some (a, e) => e = v.length ∧ a0 ≤ a ∧ a ≤ v.length ∧ globAtoms ast (v.drop a) = true ∧
        ∀ j, a0 ≤ j → j < a → globAtoms ast (v.drop j) = false := by
  unfold findAt
  rw [if_pos h0]
  have hspec := findFrom_spec g v.length (res ++ [.eos]) (v.drop a0) a0
  cases hf : findFrom g v.length (res ++ [.eos]) a0 (v.drop a0) with
  | none =>
    rw [hf] at hspec
    intro j hj1 hj2
    have := hspec (j - a0) (by simp; omega)
    rw [List.drop_drop] at this
    have e : a0 + (j - a0) = j := by omega
    rw [e] at this
    exact (matchHere_eos_none_iff g _ ast res hres _).mp this
  | some ae =>
    obtain ⟨a, e⟩ := ae
    rw [hf] at hspec
    obtain ⟨j, ρ, hj, ha, hm, he, hmin⟩ := hspec
    rw [List.drop_drop] at hm
    have hρ := matchHere_eos_nil g _ res _ _ hm
    subst hρ
    simp at hj
    refine ⟨by simpa using he, by omega, by omega, ?_, ?_⟩
    · have := matchHere_glob g v.length ast res hres (v.drop (a0 + j))
      rw [hm] at this
      rw [ha]; simpa using this.symm
    · intro j' h1 h2
      have := hmin (j' - a0) (by omega)
      rw [List.drop_drop] at this
      have e' : a0 + (j' - a0) = j' := by omega
      rw [e'] at this
      exact (matchHere_eos_none_iff g _ ast res hres _).mp this

theorem rfindLoop_eos (g : Bool) (ast : Ast) (res : List ReAtom) (hres : cAtoms ast = some res)
    (v : List Char) :
    ∀ fuel i, i ≤ v.length → v.length - i < fuel →
      ∃ m, rfindLoop g (res ++ [.eos]) v fuel (i, v.length) = (m, v.length) ∧ i ≤ m ∧ m ≤ v.length ∧
        (globAtoms ast (v.drop i) = true → globAtoms ast (v.drop m) = true) ∧
        ∀ j, i < j → j ≤ v.length → globAtoms ast (v.drop j) = true → j ≤ m := by
  intro fuel
  induction fuel with
  | zero => intro i _ h; omega
  | succ f ih =>
    intro i hi hf
    rw [rfindLoop_unfold]
    simp only []
    by_cases hlt : i + 1 ≤ v.length
    · rw [if_pos hlt]
      have hspec := findAt_eos_spec g ast res hres v (i + 1) hlt
      cases hfa : findAt g (res ++ [.eos]) v (i + 1) with
      | none =>
        rw [hfa] at hspec
        refine ⟨i, rfl, Nat.le_refl _, hi, id, ?_⟩
        intro j h1 h2 h3
        have := hspec j (by omega) h2
        rw [this] at h3; simp at h3
      | some ae =>
        obtain ⟨a, e⟩ := ae
        rw [hfa] at hspec
        obtain ⟨he, h1, h2, h3, h4⟩ := hspec
        subst he
        simp only []
        obtain ⟨m, hm, hm1, hm2, hm3, hm4⟩ := ih a h2 (by omega)
        refine ⟨m, hm, by omega, hm2, fun _ => hm3 h3, ?_⟩
        intro j hj1 hj2 hj3
        by_cases hja : j < a
        · have := h4 j (by omega) hja
          rw [this] at hj3; simp at hj3
        · by_cases hje : j = a
          · omega
          · exact hm4 j (by omega) hj2 hj3
    · rw [if_neg hlt]
      exact ⟨i, rfl, Nat.le_refl _, hi, id, by intro j h1 h2; omega⟩

/-- `find` with `\z` finds the longest matching suffix (either greed) -/
theorem suffix_longest_regex (ast : Ast) (res : List ReAtom) (hres : cAtoms ast = some res) (g : Bool)
    (v : List Char) :
    findAt g (res ++ [.eos]) v 0 =
      (leastUpTo (fun k => globAtoms ast (v.drop k)) v.length).map (fun a => (a, v.length)) := by
  have hspec := findAt_eos_spec g ast res hres v 0 (Nat.zero_le _)
  cases hf : findAt g (res ++ [.eos]) v 0 with
  | none =>
    rw [hf] at hspec
    simp [leastUpTo_none (fun j hj => hspec j (Nat.zero_le _) hj)]
  | some ae =>
    obtain ⟨a, e⟩ := ae
    rw [hf] at hspec
    obtain ⟨he, _, h2, h3, h4⟩ := hspec
    subst he
    have hmin : ∀ j, j ≤ v.length → globAtoms ast (v.drop j) = true → a ≤ j := by
      intro j _ hj
      by_cases hja : j < a
      · have := h4 j (Nat.zero_le _) hja; rw [this] at hj; simp at hj
      · omega
    simp [leastUpTo_some h3 h2 hmin]

/-- the `rfind` loop with `\z` finds the shortest matching suffix -/
theorem suffix_shortest_regex (ast : Ast) (res : List ReAtom) (hres : cAtoms ast = some res) (g : Bool)
    (v : List Char) :
    (findAt g (res ++ [.eos]) v 0).map (rfindLoop g (res ++ [.eos]) v (v.length + 1)) =
      (greatestUpTo (fun k => globAtoms ast (v.drop k)) v.length).map (fun a => (a, v.length)) := by
  have hspec := findAt_eos_spec g ast res hres v 0 (Nat.zero_le _)
  cases hf : findAt g (res ++ [.eos]) v 0 with
  | none =>
    rw [hf] at hspec
    simp [greatestUpTo_none (fun j hj => hspec j (Nat.zero_le _) hj)]
  | some ae =>
    obtain ⟨a, e⟩ := ae
    rw [hf] at hspec
    obtain ⟨he, _, h2, h3, h4⟩ := hspec
    subst he
    obtain ⟨m, hm, hm1, hm2, hm3, hm4⟩ := rfindLoop_eos g ast res hres v (v.length + 1) a h2 (by omega)
    have hmax : ∀ j, j ≤ v.length → globAtoms ast (v.drop j) = true → j ≤ m := by
      intro j hj1 hj2
      by_cases hja : a < j
      · exact hm4 j hja hj1 hj2
      · omega
    simp only [Option.map_some, hm]
    simp [greatestUpTo_some (hm3 h3) hm2 hmax]

/-! ### the literal fast path -/

theorem literal_prefix_find (ast : Ast) (l : List Char) (hl : toLiteral ast = some l) (v : List Char) :
    (if l.isPrefixOf v then some (0, l.length) else none : Option (Nat × Nat)) =
      (leastUpTo (fun k => globAtoms ast (v.take k)) v.length).map (fun k => (0, k)) ∧
    (if l.isPrefixOf v then some (0, l.length) else none : Option (Nat × Nat)) =
      (greatestUpTo (fun k => globAtoms ast (v.take k)) v.length).map (fun k => (0, k)) := by
  have hP : ∀ k, globAtoms ast (v.take k) = decide (v.take k = l) := fun k => toLiteral_glob' ast l hl _
  by_cases hp : l.isPrefixOf v = true
  · have hpre : l <+: v := List.isPrefixOf_iff_prefix.mp hp
    have htake : v.take l.length = l := (List.prefix_iff_eq_take.mp hpre).symm
    have hle : l.length ≤ v.length := hpre.length_le
    have hk : globAtoms ast (v.take l.length) = true := by rw [hP]; simp [htake]
    have huniq : ∀ j, j ≤ v.length → globAtoms ast (v.take j) = true → j = l.length := by
      intro j hj hgj
      rw [hP] at hgj
      have : v.take j = l := by simpa using hgj
      have := congrArg List.length this
      simp at this; omega
    simp only [hp, if_true]
    rw [leastUpTo_some hk hle (fun j hj hg => by have := huniq j hj hg; omega),
      greatestUpTo_some hk hle (fun j hj hg => by have := huniq j hj hg; omega)]
    exact ⟨rfl, rfl⟩
  · have hnone : ∀ j, j ≤ v.length → globAtoms ast (v.take j) = false := by
      intro j _
      rw [hP]
      simp only [decide_eq_false_iff_not]
      intro h
      apply hp
      rw [List.isPrefixOf_iff_prefix, ← h]
      exact List.take_prefix j v
    simp only [hp, Bool.false_eq_true, if_false]
    rw [leastUpTo_none hnone, greatestUpTo_none hnone]
    exact ⟨rfl, rfl⟩

theorem literal_suffix_find (ast : Ast) (l : List Char) (hl : toLiteral ast = some l) (v : List Char) :
    (if endsWith v l then some (v.length - l.length, v.length) else none : Option (Nat × Nat)) =
      (leastUpTo (fun k => globAtoms ast (v.drop k)) v.length).map (fun a => (a, v.length)) ∧
    (if endsWith v l then some (v.length - l.length, v.length) else none : Option (Nat × Nat)) =
      (greatestUpTo (fun k => globAtoms ast (v.drop k)) v.length).map (fun a => (a, v.length)) := by
  have hP : ∀ k, globAtoms ast (v.drop k) = decide (v.drop k = l) := fun k => toLiteral_glob' ast l hl _
  have hends : endsWith v l = true ↔ l <:+ v := by
    unfold endsWith
    rw [List.isPrefixOf_iff_prefix, List.reverse_prefix]
  by_cases hp : endsWith v l = true
  · have hsuf : l <:+ v := hends.mp hp
    have hdrop : v.drop (v.length - l.length) = l := (List.suffix_iff_eq_drop.mp hsuf).symm
    have hle : l.length ≤ v.length := hsuf.length_le
    have hk : globAtoms ast (v.drop (v.length - l.length)) = true := by rw [hP]; simp [hdrop]
    have huniq : ∀ j, j ≤ v.length → globAtoms ast (v.drop j) = true → j = v.length - l.length := by
      intro j hj hgj
      rw [hP] at hgj
      have : v.drop j = l := by simpa using hgj
      have := congrArg List.length this
      simp at this; omega
    simp only [hp, if_true]
    rw [leastUpTo_some hk (by omega) (fun j hj hg => by have := huniq j hj hg; omega),
      greatestUpTo_some hk (by omega) (fun j hj hg => by have := huniq j hj hg; omega)]
    exact ⟨rfl, rfl⟩
  · have hnone : ∀ j, j ≤ v.length → globAtoms ast (v.drop j) = false := by
      intro j _
      rw [hP]
      simp only [decide_eq_false_iff_not]
      intro h
      apply hp
      rw [hends, ← h]
      exact List.drop_suffix j v
    simp only [hp, Bool.false_eq_true, if_false]
    rw [leastUpTo_none hnone, greatestUpTo_none hnone]
    exact ⟨rfl, rfl⟩

end YashModel.Fnmatch
