/-
  C04 — helper lemmas, part 12 (extension round): `apply_escapes` / `to_pattern_chars` on a shell word,
  `to_literal`, and the scan of `parse_inner` characterised declaratively.
-/
import YashModel.Fnmatch.AnchorLemmas

namespace YashModel.Fnmatch
namespace Proofs

/-! ### `to_literal` -/

theorem toLiteral_spec (ast : Ast) (l : List Char) : toLiteral ast = some l ↔ ast = l.map Atom.char := by
  induction ast generalizing l with
  | nil => cases l <;> simp [toLiteral]
  | cons a r ih =>
    cases a with
    | char c =>
      simp only [toLiteral]
      cases hr : toLiteral r with
      | none =>
        simp only []
        constructor
        · intro h; cases h
        · intro h
          cases l with
          | nil => simp at h
          | cons d t =>
            simp at h
            have := (ih t).mpr h.2
            rw [hr] at this; cases this
      | some l' =>
        simp only [Option.some.injEq]
        have := (ih l').mp hr
        constructor
        · intro h; subst h; simp [this]
        · intro h
          cases l with
          | nil => simp at h
          | cons d t =>
            simp at h
            have h2 := (ih t).mpr h.2
            rw [hr] at h2
            simp at h2
            rw [h.1, h2]
    | anyChar => cases l <;> simp [toLiteral]
    | anyString => cases l <;> simp [toLiteral]
    | bracket b => cases l <;> simp [toLiteral]

/-! ### `parse_inner`'s scan: the value ends at the FIRST adjacent unquoted `d` `]` -/

theorem scanClose_spec (d : Char) (cs v r : List PatternChar) :
    scanClose d cs = some (v, r) ↔
      (cs = v ++ .normal d :: .normal ']' :: r ∧
       ∀ v' r', cs = v' ++ .normal d :: .normal ']' :: r' → v.length ≤ v'.length) := by
  fun_induction scanClose d cs generalizing v r with
  | case1 =>
    simp only [reduceCtorEq, false_iff]
    rintro ⟨h, _⟩
    cases v <;> simp at h
  | case2 x =>
    simp only [reduceCtorEq, false_iff]
    rintro ⟨h, _⟩
    cases v with
    | nil => simp at h
    | cons y v => cases v <;> simp at h
  | case3 a b t hab =>
    obtain ⟨ha, hb⟩ := hab
    subst ha; subst hb
    simp only [Option.some.injEq, Prod.mk.injEq]
    constructor
    · rintro ⟨rfl, rfl⟩
      exact ⟨rfl, fun v' r' _ => Nat.zero_le _⟩
    · rintro ⟨h, hmin⟩
      have := hmin [] t rfl
      have hv : v = [] := by cases v with | nil => rfl | cons _ _ => simp at this
      subst hv
      simp at h
      exact ⟨rfl, h⟩
  | case4 a b t hab v0 r0 hrec ih =>
    simp only [Option.some.injEq, Prod.mk.injEq]
    constructor
    · rintro ⟨rfl, rfl⟩
      obtain ⟨h1, h2⟩ := (ih v0 r0).mp hrec
      refine ⟨by rw [h1]; rfl, ?_⟩
      intro v' r' h
      cases v' with
      | nil => simp at h; exact absurd ⟨h.1, h.2.1⟩ hab
      | cons y v'' =>
        simp at h
        have := h2 v'' r' h.2
        simp; omega
    · rintro ⟨h, hmin⟩
      cases v with
      | nil => simp at h; exact absurd ⟨h.1, h.2.1⟩ hab
      | cons y v1 =>
        simp at h
        obtain ⟨rfl, h'⟩ := h
        have hsome : scanClose d (b :: t) = some (v1, r) := by
          rw [ih v1 r]
          refine ⟨h', ?_⟩
          intro v' r' hh
          have := hmin (a :: v') r' (by rw [hh]; rfl)
          simp at this; omega
        rw [hrec] at hsome
        simp at hsome
        exact ⟨by rw [hsome.1], hsome.2⟩
  | case5 a b t hab hrec ih =>
    simp only [reduceCtorEq, false_iff]
    rintro ⟨h, hmin⟩
    cases v with
    | nil => simp at h; exact absurd ⟨h.1, h.2.1⟩ hab
    | cons y v1 =>
      simp at h
      obtain ⟨rfl, h'⟩ := h
      have hsome : scanClose d (b :: t) = some (v1, r) := by
        rw [ih v1 r]
        refine ⟨h', ?_⟩
        intro v' r' hh
        have := hmin (a :: v') r' (by rw [hh]; rfl)
        simp at this; omega
      rw [hrec] at hsome
      cases hsome

theorem scanClose_none (d : Char) (cs : List PatternChar) :
    scanClose d cs = none ↔ ¬ ∃ v' r', cs = v' ++ .normal d :: .normal ']' :: r' := by
  constructor
  · intro h ⟨v', r', hc⟩
    -- among all decompositions take one with the shortest `v'`
    have : ∀ n (v' r' : List PatternChar), v'.length = n → cs = v' ++ .normal d :: .normal ']' :: r' → False := by
      intro n
      induction n using Nat.strongRecOn with
      | _ n ih =>
        intro v' r' hn hc
        by_cases hmin : ∀ v'' r'', cs = v'' ++ .normal d :: .normal ']' :: r'' → v'.length ≤ v''.length
        · have := (scanClose_spec d cs v' r').mpr ⟨hc, hmin⟩
          rw [h] at this; cases this
        · have ⟨v'', hv⟩ := Classical.not_forall.mp hmin
          have ⟨r'', hr⟩ := Classical.not_forall.mp hv
          have ⟨hc2, hlt⟩ := Classical.not_imp.mp hr
          exact ih v''.length (by omega) v'' r'' rfl hc2
    exact this _ v' r' rfl hc
  · intro h
    cases hs : scanClose d cs with
    | none => rfl
    | some vr =>
      obtain ⟨v, r⟩ := vr
      exact absurd ⟨v, r, ((scanClose_spec d cs v r).mp hs).1⟩ h

/-! ### `apply_escapes` + `to_pattern_chars` on the word `"$q"$p` -/

theorem aux_quoted (q : List Char) (rest : List AttrChar) :
    applyEscapesAux false (q.map (attrOf true) ++ rest) = q.map (attrOf true) ++ applyEscapesAux false rest := by
  induction q with
  | nil => rfl
  | cons c t ih =>
    simp only [List.map_cons, List.cons_append, applyEscapesAux, attrOf]
    simp [ih, attrOf]

theorem aux_mark (rest : List AttrChar) :
    applyEscapesAux false (quoteMark :: rest) = quoteMark :: applyEscapesAux false rest := by
  simp [applyEscapesAux, quoteMark]

theorem toPatternChars_append (a b : List AttrChar) :
    toPatternChars (a ++ b) = toPatternChars a ++ toPatternChars b := by
  simp [toPatternChars, List.filterMap_append]

theorem toPatternChars_quoted (q : List Char) : toPatternChars (q.map (attrOf true)) = q.map .literal := by
  induction q with
  | nil => rfl
  | cons c t ih =>
    simp only [toPatternChars, List.map_cons, List.filterMap_cons, attrOf] at ih ⊢
    simp [ih]

theorem aux_unquoted : ∀ p : List Char,
    toPatternChars (applyEscapesAux false (p.map (attrOf false))) = escapeChars p
  | [] => rfl
  | [c] => by simp [applyEscapesAux, toPatternChars, attrOf, escapeChars]
  | c :: d :: t => by
    have ih1 := aux_unquoted t
    have ih2 := aux_unquoted (d :: t)
    by_cases hc : c = '\\'
    · subst hc
      simp only [escapeChars, if_true]
      rw [← ih1]
      simp [applyEscapesAux, toPatternChars, attrOf]
    · simp only [escapeChars, if_neg hc]
      rw [← ih2]
      simp [applyEscapesAux, toPatternChars, attrOf, hc]

theorem shell_word_chars (q p : List Char) :
    toPatternChars (applyEscapes (shellWord q p)) = q.map .literal ++ escapeChars p := by
  have e : shellWord q p = quoteMark :: (q.map (attrOf true) ++ quoteMark :: p.map (attrOf false)) := by
    simp [shellWord]
  unfold applyEscapes
  rw [e, aux_mark, aux_quoted, aux_mark]
  have hm : toPatternChars [quoteMark] = [] := by simp [toPatternChars, quoteMark]
  rw [show quoteMark :: (q.map (attrOf true) ++ quoteMark :: applyEscapesAux false (p.map (attrOf false)))
      = [quoteMark] ++ (q.map (attrOf true) ++ ([quoteMark] ++ applyEscapesAux false (p.map (attrOf false))))
      from rfl]
  simp only [toPatternChars_append, hm, toPatternChars_quoted, aux_unquoted, List.nil_append]

end Proofs
end YashModel.Fnmatch
