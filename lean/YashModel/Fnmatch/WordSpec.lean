/-
  C04 — Spec, second file (wave 3): which pattern characters a pattern WORD denotes (XCU 2.13.1 with 2.2 and 2.6.7).

  Quote removal takes the quoting characters away; a character quoted by ANY mechanism (backslash, single
  quotes, double quotes — nested or not) stands for itself; an unquoted character keeps its special meaning;
  an unquoted backslash that an expansion produced quotes the next character.  Stated by direct recursion on
  the word with one flag ("inside double quotes"), with no attributed characters and no flags to combine.
-/
import YashModel.Fnmatch.Spec
import YashModel.Fnmatch.Word

namespace YashModel.Fnmatch

mutual
  /-- the characters a text unit contributes after quote removal, each with "is it quoted"; `q` = the unit stands
      inside double quotes -/
  def PTextUnit.marks (q : Bool) : PTextUnit → List (Char × Bool)
    | .lit c => [(c, q)]
    | .bs c => [(c, true)]
    | .param v => v.map fun c => (c, q)
    | .alt w => w.marks q
  def PText.marks (q : Bool) : PText → List (Char × Bool)
    | .nil => []
    | .cons u t => u.marks q ++ t.marks q
  def PWordUnit.marks (q : Bool) : PWordUnit → List (Char × Bool)
    | .unq u => u.marks q
    | .sq s => s.map fun c => (c, true)
    | .dq t => t.marks true
  def PWord.marks (q : Bool) : PWord → List (Char × Bool)
    | .nil => []
    | .cons u w => u.marks q ++ w.marks q
end

/-- one marked character as a pattern character -/
def markChar (m : Char × Bool) : PatternChar := if m.2 then .literal m.1 else .normal m.1

/-- XCU 2.13.1 on the marked characters: a quoted character is literal; an UNQUOTED backslash quotes the character
    after it and disappears; an unquoted backslash with nothing after it stands for itself (`escapeChars` of
    Spec.lean is this on a wholly unquoted text) -/
def escapeMarked : List (Char × Bool) → List PatternChar
  | [] => []
  | [m] => [markChar m]
  | m :: d :: t =>
    if m.1 = '\\' ∧ m.2 = false then .literal d.1 :: escapeMarked t else markChar m :: escapeMarked (d :: t)

/-- the pattern characters of a pattern word -/
def specWordChars (w : PWord) : List PatternChar := escapeMarked (w.marks false)

/-- the string the word denotes after quote removal -/
def wordValue (w : PWord) : List Char := (w.marks false).map Prod.fst

/-- quote removal on attributed characters, keeping "is it quoted" -/
def attrMarks (cs : List AttrChar) : List (Char × Bool) :=
  (cs.filter fun c => !c.isQuoting).map fun c => (c.value, c.isQuoted)

/-- no unquoted (expansion-made) backslash stands directly before a quoting character.  Before fix 9da0f0e the
    implementation let such a backslash quote the quotation mark (`$p""*` with `p` = `\` was read as `*`); since the
    fix the theorems need no such hypothesis.  Kept (name unchanged) as the description of the class the fix changed. -/
def noEscapedMark : List AttrChar → Bool
  | a :: b :: t =>
    !(a.value == '\\' && !a.isQuoting && !a.isQuoted && b.isQuoting) && noEscapedMark (b :: t)
  | _ => true

/-- a marked character that is an UNQUOTED backslash (only a parameter value can bring one: the lexer turns every
    backslash it reads into a quoting character or, inside double quotes before an ordinary character, a quoted one) -/
def rawBackslash (m : Char × Bool) : Bool := m.1 == '\\' && !m.2

end YashModel.Fnmatch
