/-
  Driver for C04.  stdin: one case per line, stdout: `<model observation>\t<spec verdict>`.

  `m <e|n> <pattern hex> <text hex>`   Pattern API: `e` = `with_escape`, `n` = `without_escape`
  `a <ast> <text hex>`                  Pattern API on a hand-built syntax tree (`from_ast*`), encoding below
  `k <subject hex> <item> …`            shell leg: `st 7; case …`; item = `<b|f|c><e|z|s>:<alt>,<alt>…`
                                        (`;;` `;&` `;;&`), alt = `v<hex>` `$N` | `q<hex>` `"$N"` | `l<hex>` text in the
                                        script | `s<hex>` `'text'` | `m<hex>_<hex>` `"$N"$M` | `w<word>` a pattern word (below)
  `w <subject hex> <word>`              shell leg: `case $1 in (WORD) …;; (*) …` and `${1#WORD}` `##` `%` `%%` for a pattern word
                                        built from every quoting mechanism; word = units joined by `/`:
                                        `L<hex>` unquoted text | `B<hex>` `\c` | `S<hex>` `'…'` | `P<hex>` `${N}` with that value |
                                        `A<word'>` `${1+word'}` | `D<text>` `"…"`, text = `l<hex>` | `b<hex>` `\c` | `p<hex>` | `a<word'>`
                                        joined by `;` (inside an `A`/`a` word the separators are `+` and `~`)
  `s <subject hex> <q1> <p1> <q2> <p2>` shell leg: `case $1 in ("$2"$3) …;; ("$4"$5) …;; (*) …` and
                                        `${1#"$2"$3}` `##` `%` `%%`
-/
import YashModel.Common.Proto
import YashModel.Fnmatch.Model
import YashModel.Fnmatch.Spec
import YashModel.Fnmatch.Word
import YashModel.Fnmatch.WordSpec
open YashModel YashModel.Fnmatch YashModel.Proto

def showErr : Err → String
  | .emptyBracket => "emptyBracket"
  | .emptyCollating => "emptyCollating"
  | .undefinedClass => "undefinedClass"
  | .classInRange => "classInRange"
  | .regex => "regex"

def bit (b : Bool) : String := if b then "1" else "0"

/-- byte offset of character index `i` -/
def byteOff (text : List Char) (i : Nat) : Nat := utf8Len (text.take i)

def showRange (text : List Char) : Option (Nat × Nat) → String
  | some (a, b) => s!"{byteOff text a}-{byteOff text b}"
  | none => "x"

def mkCfg (ab ae sh lp : Bool) : Config :=
  { anchorBegin := ab, anchorEnd := ae, shortest := sh, literalPeriod := lp }

/-- the (anchor_begin, anchor_end, shortest_match) configurations observed for find/rfind:
    `#` `##` `%` `%%`, unanchored greedy/lazy, fully anchored -/
def findConfigs : List (Bool × Bool × Bool) :=
  [(true, false, true), (true, false, false), (false, true, true), (false, true, false),
   (false, false, false), (false, false, true), (true, true, false)]

def trims : List (TrimSide × TrimLength) :=
  [(.prefix, .shortest), (.prefix, .longest), (.suffix, .shortest), (.suffix, .longest)]

def hasSeq (ast : Ast) : Bool :=
  ast.any fun
    | .bracket b => b.items.any (fun it => (itemSeq it).isSome)
    | _ => false

def substrings (s : List Char) : List (List Char) :=
  (List.range (s.length + 1)).flatMap fun i =>
    (List.range (s.length - i + 1)).map fun l => (s.drop i).take l

/-- `trim::apply` on a scalar for an already parsed pattern (`trimApply` = this after `parseAtoms`) -/
def trimAst (sd : TrimSide) (ln : TrimLength) (ast : Ast) (v : List Char) : List Char :=
  match Pattern.fromAst ast (trimConfig sd ln) with
  | .ok p => trimValue p v
  | .error _ => v

/-! canonical text of a syntax tree in the notation of the `a` cases (inverse of `parseAst` below) -/

def showBAtom : BracketAtom → String
  | .char c => "c" ++ encChars [c]
  | .collating v => "s" ++ encChars v
  | .equiv v => "e" ++ encChars v
  | .cls v => "k" ++ encChars v

def showBItem : BracketItem → String
  | .atom a => "a" ++ showBAtom a
  | .range s e => "r" ++ showBAtom s ++ "~" ++ showBAtom e

def showAtom : Atom → String
  | .char c => "c" ++ encChars [c]
  | .anyChar => "?"
  | .anyString => "*"
  | .bracket b => s!"b{bit b.complement}({";".intercalate (b.items.map showBItem)})"

def showAst (ast : Ast) : String :=
  if ast.isEmpty then "-" else ",".intercalate (ast.map showAtom)

/-- the intermediate stages: parser output and translator output (`Ast::to_regex` under both anchors and none) -/
def showStages (ast : Ast) : String :=
  let re (cfg : Config) : String := match toRegex ast cfg with
    | .ok r => encChars r
    | .error e => "!" ++ showErr e
  s!" S={showAst ast} R={re (mkCfg true true false false)},{re (mkCfg false false false false)}"

/-- `ast`: what the model parser produced (model column); `sast`: what the Spec grammar `specParse` produced
    (Spec column) — equal by `parser_is_grammar`, computed independently here -/
def observe (ast : Ast) (sast : Ast) (text : List Char) : String × String :=
  match Pattern.fromAst ast (mkCfg true true false false) with
  | .error e =>
    let spec := if astDefined sast then "FAIL:defined-pattern-rejected" else "-"
    (s!"E={showErr e}{showStages ast}", spec)
  | .ok p0 =>
    let pat (ab ae sh lp : Bool) : Pattern :=
      match Pattern.fromAst ast (mkCfg ab ae sh lp) with
      | .ok p => p
      | .error _ => p0
    let lit := match p0.body with | .literal _ => true | _ => false
    let m := [(true, true), (false, false), (true, false), (false, true)].map
      fun (ab, ae) => bit ((pat ab ae false false).isMatch text)
    let f := findConfigs.map fun (ab, ae, sh) =>
      let p := pat ab ae sh false
      s!"{showRange text (p.find text)}:{showRange text (p.rfind text)}"
    let lp := [(true, true), (false, false), (true, false)].map fun (ab, ae) =>
      let p := pat ab ae false true
      s!"{bit (p.isMatch text)}{showRange text (p.find text)}"
    let t := trims.map fun (sd, ln) => encChars (trimAst sd ln ast text)
    let obs := s!"E=ok L={bit lit} M={"".intercalate m} F={",".intercalate f} P={",".intercalate lp} T={",".intercalate t}{showStages ast}"
    -- Spec
    let gm := globMatch sast text
    let spec :=
      if !astDefined sast then "-"
      else if gm != (pat true true false false).isMatch text then "FAIL:is_match-vs-glob"
      else if ((substrings text).any (globMatch sast)) != (pat false false false false).isMatch text then
        "FAIL:unanchored-vs-glob"
      -- every anchoring (`isMatch_any_config`) and glob's `literal_period` configuration (`literal_period_correct`)
      else if [(false, false), (true, false), (false, true), (true, true)].any
          (fun (ab, ae) => specIsMatch ab ae sast text != (pat ab ae false false).isMatch text) then
        "FAIL:anchoring-vs-occurs"
      else if specPeriodMatch sast text != (pat true true false true).isMatch text then
        "FAIL:literal-period"
      -- shortest/longest with multi-character collating elements is outside the defined notation
      -- (POSIX locale has none; which of `a` / `ab` a bracket takes first is unspecified): not compared
      -- … on the PREFIX side; suffix removal is exact for every pattern (`suffix_trim_correct`)
      else match (if hasSeq sast then trims.filter (fun x => x.1 == TrimSide.suffix) else trims).find?
          (fun (sd, ln) => specTrim sd ln sast text != trimAst sd ln ast text) with
        | some (sd, ln) => s!"FAIL:trim-{repr sd}-{repr ln}"
        | none => "ok"
    (obs, spec)

/-- the pattern characters of the shell word `"$q"$p` (`shellWord`: Model.lean; `shell_word_chars` proves this is
    `q` as literal characters followed by `escapeChars p`) -/
def shellPattern (q p : List Char) : List PatternChar :=
  toPatternChars (applyEscapes (shellWord q p))

def observeShell (subj q1 p1 q2 p2 : List Char) : String × String :=
  let pa := shellPattern q1 p1
  let pb := shellPattern q2 p2
  let star := [PatternChar.normal '*']
  let arm := match caseFirst [pa, pb, star] subj with
    | some 0 => "1" | some 1 => "2" | some _ => "0" | none => "none"
  -- `trim::apply` on the expanded word (`trimApplyValue`, Model.lean): scalar and array arm
  let scalarOf : Value → List Char
    | .scalar v => v
    | .array _ => []
  let arrayOf : Value → List (List Char)
    | .array vs => vs
    | .scalar _ => []
  let t := trims.map fun (sd, ln) => encChars (scalarOf (trimApplyValue sd ln (shellWord q1 p1) (.scalar subj)))
  -- `set -- "$s" "x$s" "$s$s" ""` then `"${@#"$q"$p}"` …: the Array arm of `trim::apply`
  let arr := [subj, 'x' :: subj, subj ++ subj, []]
  let a := trims.map fun (sd, ln) =>
    ",".intercalate ((arrayOf (trimApplyValue sd ln (shellWord q1 p1) (.array arr))).map encChars)
  let obs := s!"arm={arm} T={",".intercalate t} A={"/".intercalate a}"
  let a1 := specParse pa
  let a2 := specParse pb
  let spec :=
    if !(astDefined a1 && astDefined a2) then "-"
    else if hasSeq a1 || hasSeq a2 then
      -- multi-character elements: only the suffix trims (exact for every pattern) are judged
      let sfx := trims.filter (fun x => x.1 == TrimSide.suffix)
      if sfx.any (fun (sd, ln) => (subj :: arr).any fun v => specTrim sd ln a1 v != trimApply sd ln pa v)
      then "FAIL:suffix-trim" else "ok"
    else
      let sarm := match specCase [a1, a2, [Atom.anyString]] subj with
        | some 0 => "1" | some 1 => "2" | some _ => "0" | none => "none"
      let st := trims.map fun (sd, ln) => encChars (specTrim sd ln a1 subj)
      let sa := trims.map fun (sd, ln) => ",".intercalate (arr.map fun v => encChars (specTrim sd ln a1 v))
      s!"=arm={sarm} T={",".intercalate st} A={"/".intercalate sa}"
  (obs, spec)

/-! pattern words (`w` cases): the encoding of the header comment -/

def litsW (cs : List Char) (rest : PWord) : PWord := cs.foldr (fun c w => .cons (.unq (.lit c)) w) rest
def litsT (cs : List Char) (rest : PText) : PText := cs.foldr (fun c t => .cons (.lit c) t) rest

def oneChar (h : List Char) : Option Char := do
  match ← decChars (String.ofList h) with
  | [c] => some c
  | _ => none

/-- `lvl` 0: the word of the case (separators `/` and `;`); 1: the word of a `${1+…}` (separators `+` and `~`);
    an `A`/`a` unit is only accepted at level 0 -/
def wordSep (lvl : Nat) : String := if lvl = 0 then "/" else "+"
def textSep (lvl : Nat) : String := if lvl = 0 then ";" else "~"

def appendW : PWord → PWord → PWord
  | .nil, r => r
  | .cons u w, r => .cons u (appendW w r)

mutual
  def parseTUnit (fuel : Nat) (lvl : Nat) (t : String) (rest : PText) : Option PText :=
    match fuel with
    | 0 => none
    | fuel + 1 =>
      match t.toList with
      | 'l' :: h => do pure (litsT (← decChars (String.ofList h)) rest)
      | 'b' :: h => do pure (.cons (.bs (← oneChar h)) rest)
      | 'p' :: h => do pure (.cons (.param (← decChars (String.ofList h))) rest)
      | 'a' :: h => if lvl = 0 then do pure (.cons (.alt (← parseWordL fuel 1 (String.ofList h))) rest) else none
      | _ => none
  def parseTextL (fuel : Nat) (lvl : Nat) (s : String) : Option PText :=
    match fuel with
    | 0 => none
    | fuel + 1 =>
      if s.isEmpty then some .nil
      else (s.splitOn (textSep lvl)).foldr (fun t acc => acc.bind (parseTUnit fuel lvl t)) (some .nil)
  def parseWUnit (fuel : Nat) (lvl : Nat) (t : String) (rest : PWord) : Option PWord :=
    match fuel with
    | 0 => none
    | fuel + 1 =>
      match t.toList with
      | 'L' :: h => do pure (litsW (← decChars (String.ofList h)) rest)
      | 'B' :: h => do pure (.cons (.unq (.bs (← oneChar h))) rest)
      | 'S' :: h => do pure (.cons (.sq (← decChars (String.ofList h))) rest)
      | 'P' :: h => do pure (.cons (.unq (.param (← decChars (String.ofList h)))) rest)
      | 'A' :: h => if lvl = 0 then do pure (.cons (.unq (.alt (← parseWordL fuel 1 (String.ofList h)))) rest) else none
      | 'D' :: h => do pure (.cons (.dq (← parseTextL fuel lvl (String.ofList h))) rest)
      | _ => none
  def parseWordL (fuel : Nat) (lvl : Nat) (s : String) : Option PWord :=
    match fuel with
    | 0 => none
    | fuel + 1 =>
      if s.isEmpty then some .nil
      else (s.splitOn (wordSep lvl)).foldr (fun t acc => acc.bind (parseWUnit fuel lvl t)) (some .nil)
end

def parseWord (s : String) : Option PWord := parseWordL 8 0 s

/-- pattern characters of one `case` alternative, by the way it is written in the script -/
def altChars (t : String) : Option (List PatternChar) :=
  match t.toList with
  | 'v' :: h => do pure (shellPattern [] (← decChars (String.ofList h)))
  | 'q' :: h => do pure ((← decChars (String.ofList h)).map .literal)
  | 's' :: h => do pure ((← decChars (String.ofList h)).map .literal)
  -- unquoted text in the script: the lexer makes a backslash quote the next character
  | 'l' :: h => do pure (withEscape (← decChars (String.ofList h)))
  | 'w' :: h => do pure (patternOfWord (← parseWord (String.ofList h)))
  | 'm' :: h =>
    match (String.ofList h).splitOn "_" with
    | [a, b] => do pure (shellPattern (← decChars a) (← decChars b))
    | _ => none
  | _ => none

/-- body of a case item in the generated script: `echo N`, nothing, or `echo N; st 5` -/
inductive CaseBody where
  | echo | empty | status
  deriving DecidableEq

/-- `x` = an alternative whose expansion fails (`${u?}`): `some none` -/
def altCharsE (t : String) : Option (Option (List PatternChar)) :=
  if t == "x" then some none else (altChars t).map some

def parseItem (t : String) : Option ((List (Option (List PatternChar)) × CaseCont) × CaseBody) :=
  match t.splitOn ":" with
  | [c, alts] => do
    let (c, b) ← (match c.toList with
      | [c] => some (c, 'e')
      | [c, b] => some (c, b)
      | _ => none)
    let c ← (match c with | 'b' => some CaseCont.brk | 'f' => some .fallThrough | 'c' => some .cont | _ => none)
    let b ← (match b with | 'e' => some CaseBody.echo | 'z' => some .empty | 's' => some .status | _ => none)
    let as ← (alts.splitOn ",").mapM altCharsE
    pure ((as, c), b)
  | _ => none

def showRun (l : List Nat) : String :=
  if l.isEmpty then "-" else ".".intercalate (l.map fun i => toString (i + 1))

/-- `$?` after the `case` command, which is entered with `$?` = 7 (`case.rs execute`: `exit_status_updated` is
    overwritten by every executed item with "its body is non-empty"; if the last executed body was empty, or
    none ran, the status becomes 0; otherwise it is what the body left: `echo` 0, `st 5` 5) -/
def caseStatus (bodies : List CaseBody) (executed : List Nat) : Nat :=
  match executed.getLast? with
  | none => 0
  | some i => match bodies[i]? with
    | some .status => 5
    | _ => 0

def showCase (bodies : List CaseBody) (executed : List Nat) : String :=
  let shown := executed.filter fun i => bodies[i]? != some CaseBody.empty
  s!"run={showRun shown} st={caseStatus bodies executed}"

def showCaseE (bodies : List CaseBody) (r : List Nat × Bool) : String :=
  let shown := r.1.filter fun i => bodies[i]? != some CaseBody.empty
  if r.2 then s!"run={showRun shown} st=?" else s!"run={showRun shown} st={caseStatus bodies r.1}"

/-- `subj = none`: the subject's own expansion fails (`case ${u?} in`) -/
def observeCase (subj : Option (List Char))
    (itemsB : List ((List (Option (List PatternChar)) × CaseCont) × CaseBody)) : String × String :=
  let itemsE := itemsB.map Prod.fst
  let bodies := itemsB.map Prod.snd
  match subj with
  | none => ("run=- st=?", "-")
  | some subj =>
    if itemsE.any (fun it => it.1.any Option.isNone) then
      (showCaseE bodies (caseExecEGo subj false 0 itemsE), "-")
    else
      let items := itemsE.map fun (as, c) => (as.filterMap id, c)
      -- the whole loop of `case.rs execute` incl. `exit_status_updated` (Model.lean `caseExecute`); the command is
      -- entered with `$?` = 7; `echo N` leaves 0, `echo N; st 5` leaves 5, an empty body leaves `$?` alone
      let effect : CaseBody → Nat → Nat
        | .echo => fun _ => 0
        | .empty => id
        | .status => fun _ => 5
      let itemsM : List CaseItemM := itemsB.map fun ((as, c), b) =>
        { alts := as.filterMap id, cont := c, bodyEmpty := b == .empty, body := effect b }
      let r := caseExecute itemsM subj 7
      let shown := r.1.filter fun i => bodies[i]? != some CaseBody.empty
      let obs := s!"run={showRun shown} st={r.2}"
      -- Spec: bodies by the grammar-parsed alternatives, status by XCU 2.9.4.3
      let sitems := items.map fun (as, c) => (as.map specParse, c)
      let sex := specCaseExec subj false 0 sitems
      let sshown := sex.filter fun i => bodies[i]? != some CaseBody.empty
      let sst := specCaseStatus (bodies.map effect) (bodies.map (· == .empty)) 7 sex
      let spec := s!"=run={showRun sshown} st={sst}"
      (obs, spec)

/-! hand-built syntax trees (`a` cases): atoms joined by `,`; atom = `c<hex>` | `?` | `*` | `b<0|1>(<item>;…)`;
    item = `a<batom>` | `r<batom>~<batom>`; batom = `c<hex>` char | `s<hex>` `[. .]` | `e<hex>` `[= =]` | `k<hex>` `[: :]` -/

def parseBAtom (t : String) : Option BracketAtom :=
  match t.toList with
  | 'c' :: h => do
    match ← decChars (String.ofList h) with
    | [c] => some (.char c)
    | _ => none
  | 's' :: h => do pure (.collating (← decChars (String.ofList h)))
  | 'e' :: h => do pure (.equiv (← decChars (String.ofList h)))
  | 'k' :: h => do pure (.cls (← decChars (String.ofList h)))
  | _ => none

def parseBItem (t : String) : Option BracketItem :=
  match t.toList with
  | 'a' :: r => do pure (.atom (← parseBAtom (String.ofList r)))
  | 'r' :: r =>
    match (String.ofList r).splitOn "~" with
    | [a, b] => do pure (.range (← parseBAtom a) (← parseBAtom b))
    | _ => none
  | _ => none

def parseAstAtom (t : String) : Option Atom :=
  match t.toList with
  | ['?'] => some .anyChar
  | ['*'] => some .anyString
  | 'c' :: h => do
    match ← decChars (String.ofList h) with
    | [c] => some (.char c)
    | _ => none
  | 'b' :: n :: '(' :: r =>
    let body := String.ofList (r.takeWhile (· != ')'))
    let items := if body.isEmpty then some [] else (body.splitOn ";").mapM parseBItem
    items.map fun is => .bracket { complement := n == '1', items := is }
  | _ => none

def parseAst (t : String) : Option Ast :=
  if t == "-" then some [] else (t.splitOn ",").mapM parseAstAtom

def hexNat (n : Nat) : String := String.ofList (Nat.toDigits 16 n)

/-- the attributed characters as the harness prints those of the real `expand_word_attr` -/
def showAttrs (cs : List PAttrChar) : String :=
  if cs.isEmpty then "-" else ".".intercalate (cs.map fun c =>
    let o := match c.origin with | .literal => "L" | .hardExpansion => "H" | .softExpansion => "S"
    s!"{hexNat c.value.toNat}{o}{bit c.isQuoted}{bit c.isQuoting}")

mutual
  /-- the harness's `text_safe`: the word reads back as the same tree in the lexer's TEXT context -/
  def tuSafe : PTextUnit → Bool
    | .lit _ => true
    | .bs _ => true
    | .param _ => true
    | .alt w => wSafe w
  def tSafe : PText → Bool
    | .nil => true
    | .cons u t => tuSafe u && tSafe t
  def wuSafe : PWordUnit → Bool
    | .unq (.bs c) => ['$', '`', '"', '\\', '}'].contains c
    | .unq (.alt w) => wSafe w
    | .unq _ => true
    | .sq _ => false
    | .dq t => tSafe t
  def wSafe : PWord → Bool
    | .nil => true
    | .cons u w => wuSafe u && wSafe w
end

mutual
  /-- the values of the word's `${N}` units in the order the harness numbers them (`$2`, `$3`, …) -/
  def tuParams : PTextUnit → List (List Char)
    | .param v => [v]
    | .alt w => wParams w
    | _ => []
  def tParams : PText → List (List Char)
    | .nil => []
    | .cons u t => tuParams u ++ tParams t
  def wuParams : PWordUnit → List (List Char)
    | .unq u => tuParams u
    | .sq _ => []
    | .dq t => tParams t
  def wParams : PWord → List (List Char)
    | .nil => []
    | .cons u w => wuParams u ++ wParams w
end

def observeWord (subj : List Char) (w : PWord) : String × String :=
  let scalarOf : Value → List Char
    | .scalar v => v
    | .array _ => []
  -- the `case` arm goes through the index loop `applyEscapesIdx` (the Rust loop as written), the trims through the
  -- recursion inside `trimApplyValue`; `applyEscapes_is_index_loop` proves them equal
  let arm := if itemMatches subj [toPatternChars (applyEscapesIdx (wordAttrs w))] then "1" else "0"
  let t := trims.map fun (sd, ln) => encChars (scalarOf (trimApplyValue sd ln (wordAttrs w) (.scalar subj)))
  -- the Array arm of `trim::apply`: every positional parameter (subject, then the values of the word's `${N}`)
  let arrayOf : Value → List (List Char)
    | .array vs => vs
    | .scalar _ => []
  let arr := subj :: wParams w
  let arrays := wSafe w
  let a := trims.map fun (sd, ln) =>
    ",".intercalate ((arrayOf (trimApplyValue sd ln (wordAttrs w) (.array arr))).map encChars)
  let obs := if arrays then s!"arm={arm} T={",".intercalate t} A={"/".intercalate a} X={showAttrs w.expand}"
    else s!"arm={arm} T={",".intercalate t} X={showAttrs w.expand}"
  -- Spec: the word's pattern characters by XCU 2.13.1 (`specWordChars`), the notation by the grammar, the match by
  -- the glob semantics, the trims by `specTrim`
  let ast := specParse (specWordChars w)
  let spec :=
    -- a raw backslash directly before a quotation mark (`noEscapedMark` false) is judged like everything else:
    -- the backslash quotes the next character quote removal leaves (XCU 2.13.1)
    if !astDefined ast then "-"
    else
      let sarm := if globMatch ast subj then "1" else "0"
      let ts := if hasSeq ast then trims.filter (fun x => x.1 == TrimSide.suffix) else trims
      if sarm != arm then "FAIL:case-vs-spec-word"
      else match ts.find? (fun (sd, ln) =>
          specTrim sd ln ast subj != scalarOf (trimApplyValue sd ln (wordAttrs w) (.scalar subj))) with
        | some (sd, ln) => s!"FAIL:trim-{repr sd}-{repr ln}"
        | none =>
          if arrays && ts.any (fun (sd, ln) =>
              arr.map (specTrim sd ln ast) != arrayOf (trimApplyValue sd ln (wordAttrs w) (.array arr)))
          then "FAIL:array-trim" else "ok"
  (obs, spec)

/-! `f` cases: `Regex::find_at` at every start offset, for the four configurations whose regex has no `\A` -/

def observeFindAt (ast : Ast) (text : List Char) : String × String :=
  let cfgs : List (Bool × Bool) := [(false, false), (false, true), (true, false), (true, true)]
  match Pattern.fromAst ast (mkCfg false false false false) with
  | .error e => (s!"E={showErr e}", "-")
  | .ok p0 =>
    match p0.body with
    | .literal _ => ("L", "-")
    | .regex _ _ =>
      let groups := cfgs.map fun (ae, sh) =>
        match Pattern.fromAst ast (mkCfg false ae sh false) with
        | .ok { body := .regex re _, .. } =>
          ",".intercalate ((List.range (text.length + 1)).map fun k => showRange text (findAt (!sh) re text k))
        | _ => "?"
      (s!"W={"/".intercalate groups}", "-")

/-! `t` cases: `*a` × k ++ `*b` against `a` × n ++ tail.  Up to n = 8 the driver runs the model; beyond, the closed form
    (which it checks against the model on the small sizes: `bad-formula`). -/

def timeFamilyFormula (k n : Nat) (tail : List Char) : Option (Bool × List Nat) :=
  let len := n + tail.length
  if tail = [] then some (false, [len, len, len, len])
  else if tail = ['b'] then
    if k ≤ n then some (true, [0, 0, n - k, 0]) else some (false, [len, len, len, len])
  else if tail = ['b', 'a'] then
    if k ≤ n then some (false, [1, 1, len, len]) else some (false, [len, len, len, len])
  else none

def observeTime (k n : Nat) (tail : List Char) : String × String :=
  let show_ (r : Bool × List Nat) : String := s!"M={bit r.1} T={",".intercalate (r.2.map toString)}"
  match timeFamilyFormula k n tail with
  | none => ("bad-case", "-")
  | some f =>
    if n ≤ 8 then
      let ast : Ast := ((List.replicate k [Atom.anyString, Atom.char 'a']).flatten) ++ [.anyString, .char 'b']
      let text := List.replicate n 'a' ++ tail
      let full := match Pattern.fromAst ast (mkCfg true true false false) with
        | .ok p => p.isMatch text
        | .error _ => false
      let r := (full, trims.map fun (sd, ln) => (trimAst sd ln ast text).length)
      if r != f then ("bad-formula", "-") else (show_ r, "-")
    else (show_ f, "-")

def runLine (line : String) : String :=
  let r : Option (String × String) :=
    match words line with
    | ["m", esc, p, t] => do
      let p ← decChars p
      let t ← decChars t
      let pcs := if esc == "e" then withEscape p else withoutEscape p
      pure (observe (parseAtoms pcs) (specParse pcs) t)
    | ["s", s, q1, p1, q2, p2] => do
      pure (observeShell (← decChars s) (← decChars q1) (← decChars p1) (← decChars q2) (← decChars p2))
    | ["f", esc, p, t] => do
      let p ← decChars p
      let t ← decChars t
      let pcs := if esc == "e" then withEscape p else withoutEscape p
      pure (observeFindAt (parseAtoms pcs) t)
    | ["t", k, n, tail] => do
      pure (observeTime (← k.toNat?) (← n.toNat?) (← decChars tail))
    | ["w", s, wd] => do
      pure (observeWord (← decChars s) (← parseWord wd))
    | ["a", ast, t] => do
      let a ← parseAst ast
      pure (observe a a (← decChars t))
    | "k" :: subj :: items => do
      let sj ← (if subj == "!" then some none else (decChars subj).map some)
      pure (observeCase sj (← items.mapM parseItem))
    | _ => none
  match r with
  | some (o, s) => o ++ "\t" ++ s
  | none => "bad-case\t-"

def main : IO Unit := mainLoop runLine
