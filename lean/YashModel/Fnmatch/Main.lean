/-
  Driver for C04.  stdin: one case per line, stdout: `<model observation>\t<spec verdict>`.

  `m <e|n> <pattern hex> <text hex>`   Pattern API: `e` = `with_escape`, `n` = `without_escape`
  `k <subject hex> <item> …`            shell leg: a whole `case` command; item = `<b|f|c>:<alt>,<alt>…`
                                        (`;;` `;&` `;;&`), alt = `v<hex>` `$N` | `q<hex>` `"$N"` | `l<hex>` text in the
                                        script | `s<hex>` `'text'` | `m<hex>_<hex>` `"$N"$M`
  `s <subject hex> <q1> <p1> <q2> <p2>` shell leg: `case $1 in ("$2"$3) …;; ("$4"$5) …;; (*) …` and
                                        `${1#"$2"$3}` `##` `%` `%%`
-/
import YashModel.Common.Proto
import YashModel.Fnmatch.Model
import YashModel.Fnmatch.Spec
open YashModel YashModel.Fnmatch YashModel.Proto

def showErr : Err → String
  | .emptyBracket => "emptyBracket"
  | .emptyCollating => "emptyCollating"
  | .undefinedClass => "undefinedClass"
  | .classInRange => "classInRange"
  | .regex => "regex"

def bit (b : Bool) : String := if b then "1" else "0"

/-- byte offset of character index `i` -/
def byteOff (text : List Char) (i : Nat) : Nat := utf8Len (text.take i)

def showRange (text : List Char) : Option (Nat × Nat) → String
  | some (a, b) => s!"{byteOff text a}-{byteOff text b}"
  | none => "x"

def mkCfg (ab ae sh lp : Bool) : Config :=
  { anchorBegin := ab, anchorEnd := ae, shortest := sh, literalPeriod := lp }

/-- the (anchor_begin, anchor_end, shortest_match) configurations observed for find/rfind:
    `#` `##` `%` `%%`, unanchored greedy/lazy, fully anchored -/
def findConfigs : List (Bool × Bool × Bool) :=
  [(true, false, true), (true, false, false), (false, true, true), (false, true, false),
   (false, false, false), (false, false, true), (true, true, false)]

def trims : List (TrimSide × TrimLength) :=
  [(.prefix, .shortest), (.prefix, .longest), (.suffix, .shortest), (.suffix, .longest)]

def hasSeq (ast : Ast) : Bool :=
  ast.any fun
    | .bracket b => b.items.any (fun it => (itemSeq it).isSome)
    | _ => false

def substrings (s : List Char) : List (List Char) :=
  (List.range (s.length + 1)).flatMap fun i =>
    (List.range (s.length - i + 1)).map fun l => (s.drop i).take l

def observe (pcs : List PatternChar) (text : List Char) : String × String :=
  let ast := parseAtoms pcs
  match Pattern.fromAst ast (mkCfg true true false false) with
  | .error e =>
    let spec := if astDefined ast then "FAIL:defined-pattern-rejected" else "-"
    (s!"E={showErr e}", spec)
  | .ok p0 =>
    let pat (ab ae sh lp : Bool) : Pattern :=
      match Pattern.fromAst ast (mkCfg ab ae sh lp) with
      | .ok p => p
      | .error _ => p0
    let lit := match p0.body with | .literal _ => true | _ => false
    let m := [(true, true), (false, false), (true, false), (false, true)].map
      fun (ab, ae) => bit ((pat ab ae false false).isMatch text)
    let f := findConfigs.map fun (ab, ae, sh) =>
      let p := pat ab ae sh false
      s!"{showRange text (p.find text)}:{showRange text (p.rfind text)}"
    let lp := [(true, true), (false, false), (true, false)].map fun (ab, ae) =>
      let p := pat ab ae false true
      s!"{bit (p.isMatch text)}{showRange text (p.find text)}"
    let t := trims.map fun (sd, ln) => encChars (trimApply sd ln pcs text)
    let obs := s!"E=ok L={bit lit} M={"".intercalate m} F={",".intercalate f} P={",".intercalate lp} T={",".intercalate t}"
    -- Spec
    let gm := globMatch ast text
    let spec :=
      if !astDefined ast then "-"
      else if gm != (pat true true false false).isMatch text then "FAIL:is_match-vs-glob"
      else if ((substrings text).any (globMatch ast)) != (pat false false false false).isMatch text then
        "FAIL:unanchored-vs-glob"
      -- shortest/longest with multi-character collating elements is outside the defined notation
      -- (POSIX locale has none; which of `a` / `ab` a bracket takes first is unspecified): not compared
      else if hasSeq ast then "ok"
      else match trims.find? (fun (sd, ln) => specTrim sd ln ast text != trimApply sd ln pcs text) with
        | some (sd, ln) => s!"FAIL:trim-{repr sd}-{repr ln}"
        | none => "ok"
    (obs, spec)

def attrOf (quoted : Bool) (c : Char) : AttrChar := { value := c, isQuoted := quoted, isQuoting := false }
def quoteMark : AttrChar := { value := '"', isQuoted := false, isQuoting := true }

/-- the pattern characters of the shell word `"$q"$p` -/
def shellPattern (q p : List Char) : List PatternChar :=
  toPatternChars (applyEscapes ([quoteMark] ++ q.map (attrOf true) ++ [quoteMark] ++ p.map (attrOf false)))

def observeShell (subj q1 p1 q2 p2 : List Char) : String × String :=
  let pa := shellPattern q1 p1
  let pb := shellPattern q2 p2
  let star := [PatternChar.normal '*']
  let arm := match caseFirst [pa, pb, star] subj with
    | some 0 => "1" | some 1 => "2" | some _ => "0" | none => "none"
  let t := trims.map fun (sd, ln) => encChars (trimApply sd ln pa subj)
  let obs := s!"arm={arm} T={",".intercalate t}"
  let a1 := parseAtoms pa
  let a2 := parseAtoms pb
  let spec :=
    if !(astDefined a1 && astDefined a2) || hasSeq a1 || hasSeq a2 then "-"
    else
      let sarm := match specCase [a1, a2, [Atom.anyString]] subj with
        | some 0 => "1" | some 1 => "2" | some _ => "0" | none => "none"
      let st := trims.map fun (sd, ln) => encChars (specTrim sd ln a1 subj)
      s!"=arm={sarm} T={",".intercalate st}"
  (obs, spec)

/-- pattern characters of one `case` alternative, by the way it is written in the script -/
def altChars (t : String) : Option (List PatternChar) :=
  match t.toList with
  | 'v' :: h => do pure (shellPattern [] (← decChars (String.ofList h)))
  | 'q' :: h => do pure ((← decChars (String.ofList h)).map .literal)
  | 's' :: h => do pure ((← decChars (String.ofList h)).map .literal)
  -- unquoted text in the script: the lexer makes a backslash quote the next character
  | 'l' :: h => do pure (withEscape (← decChars (String.ofList h)))
  | 'm' :: h =>
    match (String.ofList h).splitOn "_" with
    | [a, b] => do pure (shellPattern (← decChars a) (← decChars b))
    | _ => none
  | _ => none

def parseItem (t : String) : Option (List (List PatternChar) × CaseCont) :=
  match t.splitOn ":" with
  | [c, alts] => do
    let c ← (match c with | "b" => some CaseCont.brk | "f" => some .fallThrough | "c" => some .cont | _ => none)
    let as ← (alts.splitOn ",").mapM altChars
    pure (as, c)
  | _ => none

def showRun (l : List Nat) : String :=
  if l.isEmpty then "-" else ".".intercalate (l.map fun i => toString (i + 1))

def observeCase (subj : List Char) (items : List (List (List PatternChar) × CaseCont)) : String × String :=
  let obs := s!"run={showRun (caseExec items subj)} st=0"
  let sitems := items.map fun (as, c) => (as.map parseAtoms, c)
  let spec := s!"=run={showRun (specCaseExec subj false 0 sitems)} st=0"
  (obs, spec)

def runLine (line : String) : String :=
  let r : Option (String × String) :=
    match words line with
    | ["m", esc, p, t] => do
      let p ← decChars p
      let t ← decChars t
      let pcs := if esc == "e" then withEscape p else withoutEscape p
      pure (observe pcs t)
    | ["s", s, q1, p1, q2, p2] => do
      pure (observeShell (← decChars s) (← decChars q1) (← decChars p1) (← decChars q2) (← decChars p2))
    | "k" :: subj :: items => do
      pure (observeCase (← decChars subj) (← items.mapM parseItem))
    | _ => none
  match r with
  | some (o, s) => o ++ "\t" ++ s
  | none => "bad-case\t-"

def main : IO Unit := mainLoop runLine
