/-
  C04 — helper lemmas, part 8: for EVERY compiled pattern (also with multi-character collating elements) the
  matcher is sound and complete for the rests `rests`, and the rests are exactly the decompositions
  `s = pre ++ ρ` with `pre` in the glob language.
-/
import YashModel.Fnmatch.CaseLemmas

namespace YashModel.Fnmatch

def noAnchor : ReAtom → Bool
  | .bos => false
  | .eos => false
  | _ => true

/-! ### alternation -/

theorem mem_altRests (R : List Char → List (List Char)) (s ρ : List Char) (bs : List (List Simple)) :
    ρ ∈ altRests R s bs ↔ ∃ b ∈ bs, ∃ s', matchSimples b s = some s' ∧ ρ ∈ R s' := by
  induction bs with
  | nil => simp [altRests]
  | cons b r ih =>
    simp only [altRests, List.mem_append, ih, List.mem_cons]
    constructor
    · rintro (h | ⟨b', hb', s', hm, hr⟩)
      · cases hm : matchSimples b s with
        | none => rw [hm] at h; simp at h
        | some s' => rw [hm] at h; exact ⟨b, Or.inl rfl, s', hm, h⟩
      · exact ⟨b', Or.inr hb', s', hm, hr⟩
    · rintro ⟨b', hb' | hb', s', hm, hr⟩
      · subst hb'; left; rw [hm]; exact hr
      · exact Or.inr ⟨b', hb', s', hm, hr⟩

theorem altLoop_sound (K : List Char → Option (List Char)) (R : List Char → List (List Char))
    (hA : ∀ u ρ, K u = some ρ → ρ ∈ R u) (s : List Char) :
    ∀ bs ρ, altLoop K s bs = some ρ → ρ ∈ altRests R s bs := by
  intro bs
  induction bs with
  | nil => intro ρ h; simp [altLoop] at h
  | cons b r ih =>
    intro ρ h
    simp only [altLoop] at h
    simp only [altRests, List.mem_append]
    cases hm : matchSimples b s with
    | none => rw [hm] at h; simp at h; exact Or.inr (ih _ h)
    | some s' =>
      rw [hm] at h
      simp only [] at h
      cases hk : K s' with
      | none => rw [hk] at h; simp at h; exact Or.inr (ih _ h)
      | some x => rw [hk] at h; simp at h; subst h; exact Or.inl (hA _ _ hk)

theorem altLoop_complete (K : List Char → Option (List Char)) (R : List Char → List (List Char))
    (hB : ∀ u ρ, ρ ∈ R u → (K u).isSome = true) (s : List Char) :
    ∀ bs ρ, ρ ∈ altRests R s bs → (altLoop K s bs).isSome = true := by
  intro bs
  induction bs with
  | nil => intro ρ h; simp [altRests] at h
  | cons b r ih =>
    intro ρ h
    simp only [altRests, List.mem_append] at h
    simp only [altLoop]
    cases hm : matchSimples b s with
    | none =>
      rw [hm] at h; simp at h
      simpa using ih _ h
    | some s' =>
      rw [hm] at h
      simp only [] at h ⊢
      cases hk : K s' with
      | some x => simp
      | none =>
        rcases h with h | h
        · have := hB _ _ h; rw [hk] at this; simp at this
        · simpa using ih _ h

/-- soundness and completeness of the matcher for the rests, for every regex without anchors -/
theorem matchHere_rests_general (n : Nat) (re : List ReAtom) (hp : re.all noAnchor = true) :
    (∀ g s ρ, matchHere g n re s = some ρ → ρ ∈ rests re s) ∧
    (∀ g s ρ, ρ ∈ rests re s → (matchHere g n re s).isSome = true) := by
  induction re with
  | nil =>
    refine ⟨?_, ?_⟩
    · intro g s ρ h; simp [matchHere] at h; simp [rests, h]
    · intro g s ρ _; simp [matchHere]
  | cons a r ih =>
    simp only [List.all_cons, Bool.and_eq_true] at hp
    obtain ⟨iA, iB⟩ := ih hp.2
    cases a with
    | any =>
      refine ⟨?_, ?_⟩
      · intro g s ρ h
        cases s with
        | nil => simp [matchHere] at h
        | cons c t => simp only [matchHere] at h; simp only [rests]; exact iA g t ρ h
      · intro g s ρ h
        cases s with
        | nil => simp [rests] at h
        | cons c t => simp only [rests] at h; simp only [matchHere]; exact iB g t ρ h
    | one x =>
      refine ⟨?_, ?_⟩
      · intro g s ρ h
        cases s with
        | nil => simp [matchHere] at h
        | cons c t =>
          simp only [matchHere] at h; simp only [rests]
          by_cases hc : x.mem c = true
          · simp only [hc, if_true] at h ⊢; exact iA g t ρ h
          · simp [hc] at h
      · intro g s ρ h
        cases s with
        | nil => simp [rests] at h
        | cons c t =>
          simp only [rests] at h; simp only [matchHere]
          by_cases hc : x.mem c = true
          · simp only [hc, if_true] at h ⊢; exact iB g t ρ h
          · simp [hc] at h
    | star =>
      refine ⟨?_, ?_⟩
      · intro g s ρ h
        simp only [matchHere] at h; simp only [rests]
        exact starLoop_sound _ _ g (fun u ρ => iA g u ρ) s ρ h
      · intro g s ρ h
        simp only [rests] at h; simp only [matchHere]
        exact starLoop_complete _ _ g (fun u ρ => iB g u ρ) s ρ h
    | alt bs =>
      refine ⟨?_, ?_⟩
      · intro g s ρ h
        simp only [matchHere] at h; simp only [rests]
        exact altLoop_sound _ _ (fun u ρ => iA g u ρ) s bs ρ h
      · intro g s ρ h
        simp only [rests] at h; simp only [matchHere]
        exact altLoop_complete _ _ (fun u ρ => iB g u ρ) s bs ρ h
    | bos => simp [noAnchor] at hp
    | eos => simp [noAnchor] at hp

/-! ### what a bracket expression takes at the head -/

/-- `h` is something the bracket can match at the head of a string: one character of (or, complemented, not
    of) its set, or the character sequence of one of its multi-character elements -/
def bracketHead (b : Bracket) (h : List Char) : Prop :=
  (∃ c, h = [c] ∧ (b.items.any (itemHas · c) != b.complement) = true) ∨
  (b.complement = false ∧ ∃ it ∈ b.items, itemSeq it = some h)

theorem mem_bracketRests (b : Bracket) (x x' : List Char) :
    x' ∈ bracketRests b x ↔ ∃ h, x = h ++ x' ∧ bracketHead b h := by
  unfold bracketRests bracketHead
  rw [List.mem_append]
  constructor
  · rintro (h | h)
    · cases x with
      | nil => simp at h
      | cons c t =>
        simp only [] at h
        split at h
        · rename_i hc
          simp at h; subst h
          exact ⟨[c], rfl, Or.inl ⟨c, rfl, hc⟩⟩
        · simp at h
    · split at h
      · simp at h
      · rename_i hc
        rw [List.mem_filterMap] at h
        obtain ⟨it, hit, hx⟩ := h
        cases hs : itemSeq it with
        | none => rw [hs] at hx; simp at hx
        | some v =>
          rw [hs] at hx
          simp only [] at hx
          split at hx
          · rename_i hp
            simp at hx; subst hx
            obtain ⟨t, ht⟩ := List.isPrefixOf_iff_prefix.mp hp
            refine ⟨v, ?_, Or.inr ⟨by simpa using hc, it, hit, hs⟩⟩
            rw [← ht]; simp
          · simp at hx
  · rintro ⟨h, hx, hh | ⟨hc, it, hit, hs⟩⟩
    · obtain ⟨c, rfl, hc⟩ := hh
      left
      subst hx
      simp [hc]
    · right
      rw [hc]
      simp only [Bool.false_eq_true, if_false]
      rw [List.mem_filterMap]
      refine ⟨it, hit, ?_⟩
      rw [hs]
      subst hx
      simp

/-- the emitted atom followed by `rr`: its rests are the rests of `rr` after what the bracket takes -/
theorem bracket_rests {b : Bracket} {ra : ReAtom} (h : cBracket b = some ra) (rr : List ReAtom)
    (s ρ : List Char) :
    ρ ∈ rests (ra :: rr) s ↔ ∃ s', s' ∈ bracketRests b s ∧ ρ ∈ rests rr s' := by
  -- through the Boolean form already proved for the matcher (`bracket_sem` works for any continuation)
  let K : List Char → Option (List Char) := fun s' => if ρ ∈ rests rr s' then some [] else none
  have hK : ∀ s', (K s').isSome = decide (ρ ∈ rests rr s') := by
    intro s'; simp only [K]; split <;> simp [*]
  have hany : (∃ s', s' ∈ bracketRests b s ∧ ρ ∈ rests rr s') ↔
      (bracketRests b s).any (fun s' => (K s').isSome) = true := by
    rw [List.any_eq_true]
    constructor
    · rintro ⟨s', h1, h2⟩; exact ⟨s', h1, by rw [hK]; simpa using h2⟩
    · rintro ⟨s', h1, h2⟩; rw [hK] at h2; exact ⟨s', h1, by simpa using h2⟩
  rw [hany]
  unfold cBracket at h
  split at h
  · simp at h
  · rename_i hne
    split at h
    · rename_i hm
      have hm' : b.multi = false := by simpa using hm
      have hmi := not_multi_items hm'
      cases hci : cItems b.items with
      | none => simp [hci] at h
      | some ci =>
        simp [hci] at h; subst h
        cases s with
        | nil => rw [bracketRests_plain_nil hmi]; simp [rests]
        | cons c t =>
          rw [bracketRests_plain_cons hmi]
          simp only [rests, Simple.mem, Cls.mem, cItems_mem hci c]
          cases hx : (b.items.any (itemHas · c) != b.complement) <;> simp [hK]
    · rename_i hm
      split at h
      · rename_i hc
        have hc' : b.complement = false := by simpa using hc
        cases hca : cAlts b.items with
        | none => simp [hca] at h
        | some bs =>
          simp [hca] at h; subst h
          simp only [rests]
          rw [bracketRests_pos hc' _ s, ← alts_sem hca K s, mem_altRests, List.any_eq_true]
          constructor
          · rintro ⟨bb, hb, s', hm1, hr⟩
            exact ⟨bb, hb, by rw [hm1]; simp only []; rw [hK]; simpa using hr⟩
          · rintro ⟨bb, hb, hx⟩
            cases hm1 : matchSimples bb s with
            | none => rw [hm1] at hx; simp at hx
            | some s' =>
              rw [hm1] at hx; simp only [] at hx; rw [hK] at hx
              exact ⟨bb, hb, s', hm1, by simpa using hx⟩
      · rename_i hc
        have hc' : b.complement = true := by simpa using hc
        split at h
        · rename_i hall
          simp at h; subst h
          have hnone : ∀ c, b.items.any (itemHas · c) = false := by
            intro c
            rw [List.any_eq_false]
            intro it hi
            have : it.multi = true := by
              have h' := hall
              rw [List.all_eq_true] at h'
              exact h' it hi
            simp [itemHas_of_multi this c]
          cases s with
          | nil => simp [rests, bracketRests, hc']
          | cons c t => simp [rests, bracketRests, hc', hnone c, hK]
        · cases hci : cItems (b.items.filter (fun it => !it.multi)) with
          | none => simp [hci] at h
          | some ci =>
            simp [hci] at h; subst h
            cases s with
            | nil => simp [rests, bracketRests, hc']
            | cons c t =>
              simp only [rests, bracketRests, Simple.mem, Cls.mem, hc', cItems_mem hci c,
                any_filter_not_multi]
              cases hx : (b.items.any (itemHas · c) != true) <;> simp [hK]

theorem cAtoms_noAnchor (ast : List Atom) : ∀ res, cAtoms ast = some res → res.all noAnchor = true := by
  induction ast with
  | nil => intro res h; simp [cAtoms] at h; subst h; rfl
  | cons a r ih =>
    intro res h
    simp only [cAtoms] at h
    split at h
    · rename_i ra rr hra hrr
      simp at h; subst h
      simp only [List.all_cons, Bool.and_eq_true]
      refine ⟨?_, ih rr hrr⟩
      cases a with
      | char c => simp [cAtom] at hra; subst hra; rfl
      | anyChar => simp [cAtom] at hra; subst hra; rfl
      | anyString => simp [cAtom] at hra; subst hra; rfl
      | bracket b =>
        simp only [cAtom, cBracket] at hra
        split at hra
        · simp at hra
        · split at hra
          · cases hci : cItems b.items with
            | none => simp [hci] at hra
            | some ci => simp [hci] at hra; subst hra; rfl
          · split at hra
            · cases hca : cAlts b.items with
              | none => simp [hca] at hra
              | some bs => simp [hca] at hra; subst hra; rfl
            · split at hra
              · simp at hra; subst hra; rfl
              · cases hci : cItems (b.items.filter (fun it => !it.multi)) with
                | none => simp [hci] at hra
                | some ci => simp [hci] at hra; subst hra; rfl
    · simp at h

/-- rests of the compiled regex = decompositions of `s` whose first part is in the glob language, for EVERY
    pattern -/
theorem rests_glob_general (ast : List Atom) : ∀ res, cAtoms ast = some res →
    ∀ s ρ, ρ ∈ rests res s ↔ ∃ pre, s = pre ++ ρ ∧ globAtoms ast pre = true := by
  induction ast with
  | nil =>
    intro res h s ρ
    simp [cAtoms] at h; subst h
    simp only [rests, List.mem_singleton, globAtoms]
    constructor
    · intro h; exact ⟨[], by simp [h], rfl⟩
    · rintro ⟨pre, hs, hg⟩
      have : pre = [] := by simpa using hg
      subst this; simpa using hs.symm
  | cons a r ih =>
    intro res h
    simp only [cAtoms] at h
    split at h
    · rename_i ra rr hra hrr
      simp at h; subst h
      have ihr := ih rr hrr
      cases a with
      | char c =>
        simp [cAtom] at hra; subst hra
        exact one_step_iff (fun c' => c' == c) _ (globAtoms r) _ (rests rr)
          (by simp [rests]) (by intro c' t; simp [rests, Simple.mem])
          (by simp [globAtoms]) (by intro c' p; simp [globAtoms]) ihr
      | anyChar =>
        simp [cAtom] at hra; subst hra
        exact one_step_iff (fun _ => true) _ (globAtoms r) _ (rests rr)
          (by simp [rests]) (by intro c' t; simp [rests])
          (by simp [globAtoms]) (by intro c' p; simp [globAtoms]) ihr
      | anyString =>
        simp [cAtom] at hra; subst hra
        intro s ρ
        simp only [rests, mem_starRests, globAtoms]
        constructor
        · rintro ⟨u, ⟨p0, hp0⟩, hu⟩
          obtain ⟨p1, hu1, hg⟩ := (ihr u ρ).mp hu
          refine ⟨p0 ++ p1, by rw [← hp0, hu1, List.append_assoc], ?_⟩
          rw [List.any_eq_true]
          exact ⟨p0.length, by simp [List.mem_range]; omega, by simpa using hg⟩
        · rintro ⟨pre, hs, hg⟩
          rw [List.any_eq_true] at hg
          obtain ⟨k, _, hgk⟩ := hg
          refine ⟨pre.drop k ++ ρ, ⟨pre.take k, ?_⟩, (ihr _ ρ).mpr ⟨pre.drop k, rfl, hgk⟩⟩
          rw [hs, ← List.append_assoc, List.take_append_drop]
      | bracket b =>
        simp only [cAtom] at hra
        intro s ρ
        rw [bracket_rests hra rr s ρ]
        simp only [globAtoms, List.any_eq_true]
        constructor
        · rintro ⟨s', hs', hρ⟩
          obtain ⟨hd, hs, hh⟩ := (mem_bracketRests b s s').mp hs'
          obtain ⟨p', hp', hg⟩ := (ihr s' ρ).mp hρ
          refine ⟨hd ++ p', by rw [hs, hp', List.append_assoc], p', ?_, hg⟩
          exact (mem_bracketRests b _ p').mpr ⟨hd, rfl, hh⟩
        · rintro ⟨pre, hs, p', hp', hg⟩
          obtain ⟨hd, hpre, hh⟩ := (mem_bracketRests b pre p').mp hp'
          refine ⟨p' ++ ρ, ?_, (ihr _ ρ).mpr ⟨p', rfl, hg⟩⟩
          exact (mem_bracketRests b s _).mpr ⟨hd, by rw [hs, hpre, List.append_assoc], hh⟩
    · simp at h

end YashModel.Fnmatch
