/-
  C04 — helper lemmas, part 17 (wave 2): the error class `RegexError` arises from an inverted range and from nothing
  else: every other way of being outside the defined notation is caught by the translation itself.
-/
import YashModel.Fnmatch.EndLemmas

namespace YashModel.Fnmatch

theorem atom_fmt_defined {a : BracketAtom} {x : List Char} (h : a.fmt = .ok x) : atomDefined a = true := by
  cases a with
  | char c => rfl
  | collating v =>
    simp only [BracketAtom.fmt] at h
    split at h
    · simp at h
    · rename_i hv; simpa [atomDefined] using hv
  | equiv v =>
    simp only [BracketAtom.fmt] at h
    split at h
    · simp at h
    · rename_i hv; simpa [atomDefined] using hv
  | cls name =>
    simp only [BracketAtom.fmt] at h
    split at h
    · rename_i hk; simpa [atomDefined] using hk
    · simp at h

theorem fmtSingle_bound {a : BracketAtom} {x : List Char} (h : a.fmtSingle = .ok x) :
    ∃ c, atomBound a = some c := by
  cases a with
  | char c => exact ⟨c, rfl⟩
  | collating v => cases v with
    | nil => simp [BracketAtom.fmtSingle] at h
    | cons c t => exact ⟨c, rfl⟩
  | equiv v => cases v with
    | nil => simp [BracketAtom.fmtSingle] at h
    | cons c t => exact ⟨c, rfl⟩
  | cls name => simp [BracketAtom.fmtSingle] at h

theorem item_fmt_defined_or_inverted {it : BracketItem} {x : List Char} (h : it.fmt = .ok x) :
    itemDefined it = true ∨ itemInverted it = true := by
  cases it with
  | atom a => exact Or.inl (atom_fmt_defined h)
  | range s e =>
    simp only [BracketItem.fmt] at h
    split at h
    · simp at h
    · rename_i a ha
      split at h
      · simp at h
      · rename_i b hb
        obtain ⟨lo, hlo⟩ := fmtSingle_bound ha
        obtain ⟨hi, hhi⟩ := fmtSingle_bound hb
        simp only [itemDefined, itemInverted, hlo, hhi, decide_eq_true_eq]
        omega

theorem fmtItems_all {items : List BracketItem} : ∀ {x : List Char}, fmtItems items = .ok x →
    ∀ it ∈ items, itemDefined it = true ∨ itemInverted it = true := by
  induction items with
  | nil => intro _ _ it hit; simp at hit
  | cons y r ih =>
    intro x h it hit
    obtain ⟨a, b, ha, hb, _⟩ := fmtItems_cons_ok h
    rcases List.mem_cons.mp hit with rfl | hr
    · exact item_fmt_defined_or_inverted ha
    · exact ih hb it hr

theorem fmtAltItem_fmt {it : BracketItem} {x : List Char} (h : fmtAltItem it = .ok x) : ∃ y, it.fmt = .ok y := by
  unfold fmtAltItem at h
  split at h
  · exact ⟨x, h⟩
  · split at h
    · simp at h
    · rename_i a ha; exact ⟨a, ha⟩

theorem fmtAltItems_all : ∀ (items : List BracketItem) (x : List Char), fmtAltItems items = .ok x →
    ∀ it ∈ items, itemDefined it = true ∨ itemInverted it = true
  | [], _, _ => by intro it hit; simp at hit
  | [y], x, h => by
    intro it hit
    simp only [fmtAltItems] at h
    obtain ⟨z, hz⟩ := fmtAltItem_fmt h
    simp at hit; subst hit
    exact item_fmt_defined_or_inverted hz
  | y :: y2 :: r, x, h => by
    intro it hit
    obtain ⟨a, b, ha, hb, _⟩ := fmtAltItems_cons_ok h
    rcases List.mem_cons.mp hit with rfl | hr
    · obtain ⟨z, hz⟩ := fmtAltItem_fmt ha
      exact item_fmt_defined_or_inverted hz
    · exact fmtAltItems_all (y2 :: r) b hb it hr

theorem bracket_fmt_all {b : Bracket} {x : List Char} (h : b.fmt = .ok x) :
    b.items ≠ [] ∧ ∀ it ∈ b.items, itemDefined it = true ∨ itemInverted it = true := by
  obtain ⟨hne, hc⟩ := bracket_fmt_cases h
  refine ⟨hne, ?_⟩
  rcases hc with ⟨_, a, ha, _⟩ | ⟨_, _, a, ha, _⟩ | ⟨_, _, hall, _⟩ | ⟨_, _, _, a, ha, _⟩
  · exact fmtItems_all ha
  · exact fmtAltItems_all _ _ ha
  · intro it hit
    exact Or.inl (multi_defined (List.all_eq_true.mp hall it hit))
  · intro it hit
    by_cases hm : it.multi = true
    · exact Or.inl (multi_defined hm)
    · exact fmtItems_all ha it (List.mem_filter.mpr ⟨hit, by simpa using hm⟩)

theorem fmtAtoms_defined_of_no_inverted : ∀ (ast : Ast) (x : List Char), fmtAtoms ast = .ok x →
    hasInvertedRange ast = false → astDefined ast = true := by
  intro ast
  induction ast with
  | nil => intro _ _ _; rfl
  | cons a r ih =>
    intro x h hinv
    obtain ⟨p, q, hp, hq, _⟩ := fmtAtoms_cons_ok h
    simp only [hasInvertedRange, List.any_cons, Bool.or_eq_false_iff] at hinv
    simp only [astDefined, List.all_cons, Bool.and_eq_true]
    refine ⟨?_, by simpa [astDefined] using ih q hq (by simpa [hasInvertedRange] using hinv.2)⟩
    cases a with
    | char c => rfl
    | anyChar => rfl
    | anyString => rfl
    | bracket b =>
      obtain ⟨hne, hall⟩ := bracket_fmt_all (by simpa [Atom.fmt] using hp)
      have hni : b.items.any itemInverted = false := by simpa using hinv.1
      simp only [atomOk, Bool.and_eq_true, bne_iff_ne, ne_eq, List.all_eq_true]
      refine ⟨hne, ?_⟩
      intro it hit
      rcases hall it hit with hd | hi
      · exact hd
      · have := List.any_eq_false.mp hni it hit
        rw [hi] at this; simp at this

/-! the translation never reports the class `regex` -/

theorem atom_fmt_err {a : BracketAtom} {e : Err} (h : a.fmt = .error e) : e ≠ .regex := by
  cases a with
  | char c => simp [BracketAtom.fmt] at h
  | collating v => simp only [BracketAtom.fmt] at h; split at h <;> simp at h; subst h; simp
  | equiv v => simp only [BracketAtom.fmt] at h; split at h <;> simp at h; subst h; simp
  | cls name => simp only [BracketAtom.fmt] at h; split at h <;> simp at h; subst h; simp

theorem fmtSingle_err {a : BracketAtom} {e : Err} (h : a.fmtSingle = .error e) : e ≠ .regex := by
  cases a with
  | char c => simp [BracketAtom.fmtSingle] at h
  | collating v => cases v <;> simp [BracketAtom.fmtSingle] at h; subst h; simp
  | equiv v => cases v <;> simp [BracketAtom.fmtSingle] at h; subst h; simp
  | cls name => simp [BracketAtom.fmtSingle] at h; subst h; simp

theorem item_fmt_err {it : BracketItem} {e : Err} (h : it.fmt = .error e) : e ≠ .regex := by
  cases it with
  | atom a => exact atom_fmt_err h
  | range s t =>
    simp only [BracketItem.fmt] at h
    split at h
    · rename_i x hx; simp at h; subst h; exact fmtSingle_err hx
    · split at h
      · rename_i x hx; simp at h; subst h; exact fmtSingle_err hx
      · simp at h

theorem fmtItems_err : ∀ {items : List BracketItem} {e : Err}, fmtItems items = .error e → e ≠ .regex := by
  intro items
  induction items with
  | nil => intro e h; simp [fmtItems] at h
  | cons y r ih =>
    intro e h
    simp only [fmtItems] at h
    split at h
    · rename_i x hx; simp at h; subst h; exact item_fmt_err hx
    · split at h
      · rename_i x hx; simp at h; subst h; exact ih hx
      · simp at h

theorem fmtAltItem_err {it : BracketItem} {e : Err} (h : fmtAltItem it = .error e) : e ≠ .regex := by
  unfold fmtAltItem at h
  split at h
  · exact item_fmt_err h
  · split at h
    · rename_i x hx; simp at h; subst h; exact item_fmt_err hx
    · simp at h

theorem fmtAltItems_err : ∀ (items : List BracketItem) (e : Err), fmtAltItems items = .error e → e ≠ .regex
  | [], _, h => by simp [fmtAltItems] at h
  | [y], e, h => by simp only [fmtAltItems] at h; exact fmtAltItem_err h
  | y :: y2 :: r, e, h => by
    simp only [fmtAltItems] at h
    split at h
    · rename_i x hx; simp at h; subst h; exact fmtAltItem_err hx
    · split at h
      · rename_i x hx; simp at h; subst h; exact fmtAltItems_err (y2 :: r) _ hx
      · simp at h

theorem bracket_fmt_err {b : Bracket} {e : Err} (h : b.fmt = .error e) : e ≠ .regex := by
  unfold Bracket.fmt at h
  split at h
  · simp at h; subst h; simp
  · split at h
    · split at h
      · rename_i x hx; simp at h; subst h; exact fmtItems_err hx
      · simp at h
    · split at h
      · split at h
        · rename_i x hx; simp at h; subst h; exact fmtAltItems_err _ _ hx
        · simp at h
      · split at h
        · simp at h
        · split at h
          · rename_i x hx; simp at h; subst h; exact fmtItems_err hx
          · simp at h

theorem fmtAtoms_err : ∀ {ast : Ast} {e : Err}, fmtAtoms ast = .error e → e ≠ .regex := by
  intro ast
  induction ast with
  | nil => intro e h; simp [fmtAtoms] at h
  | cons a r ih =>
    intro e h
    simp only [fmtAtoms] at h
    split at h
    · rename_i x hx
      simp at h; subst h
      cases a with
      | char c => simp [Atom.fmt] at hx
      | anyChar => simp [Atom.fmt] at hx
      | anyString => simp [Atom.fmt] at hx
      | bracket b => exact bracket_fmt_err (by simpa [Atom.fmt] using hx)
    · split at h
      · rename_i x hx; simp at h; subst h; exact ih hx
      · simp at h

namespace Proofs

theorem regex_error_inverted (ast : Ast) (cfg : Config) (h : Pattern.fromAst ast cfg = .error .regex) :
    hasInvertedRange ast = true := by
  unfold Pattern.fromAst at h
  split at h
  · simp at h
  · split at h
    · rename_i e he
      simp at h; subst h
      unfold toRegex at he
      split at he
      · rename_i e' he'; simp at he; subst he; exact absurd rfl (fmtAtoms_err he')
      · simp at he
    · rename_i r hr
      split at h
      · rename_i hre
        rw [toRegex_parse ast cfg r hr] at hre
        cases hinv : hasInvertedRange ast with
        | true => rfl
        | false =>
          have hx : ∃ x, fmtAtoms ast = .ok x := by
            unfold toRegex at hr
            split at hr
            · simp at hr
            · rename_i body hb; exact ⟨body, hb⟩
          obtain ⟨x, hx⟩ := hx
          have hd := fmtAtoms_defined_of_no_inverted ast x hx hinv
          obtain ⟨_, ⟨res, hres⟩⟩ := atoms_ok ast hd
          rw [hres] at hre
          simp at hre
      · simp at h

end Proofs
end YashModel.Fnmatch
