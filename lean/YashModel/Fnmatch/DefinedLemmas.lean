/-
  C04 — helper lemmas, part 7: a pattern inside the defined notation (`astDefined`) always compiles.
-/
import YashModel.Fnmatch.TrimTheorems

namespace YashModel.Fnmatch

theorem atom_fmt_ok {a : BracketAtom} (h : atomDefined a = true) : ∃ x, a.fmt = .ok x := by
  cases a with
  | char c => exact ⟨_, rfl⟩
  | collating v =>
    have : v ≠ [] := by simpa [atomDefined] using h
    simp [BracketAtom.fmt, this]
  | equiv v =>
    have : v ≠ [] := by simpa [atomDefined] using h
    simp [BracketAtom.fmt, this]
  | cls name =>
    have : (asciiKind name).isSome = true := by simpa [atomDefined] using h
    simp [BracketAtom.fmt, this]

theorem fmtSingle_ok_of_bound {a : BracketAtom} {c : Char} (h : atomBound a = some c) :
    a.fmtSingle = .ok (fmtRegexChar c) := by
  cases a with
  | char d => simp [atomBound] at h; subst h; rfl
  | collating v =>
    cases v with
    | nil => simp [atomBound] at h
    | cons d t => simp [atomBound] at h; subst h; rfl
  | equiv v =>
    cases v with
    | nil => simp [atomBound] at h
    | cons d t => simp [atomBound] at h; subst h; rfl
  | cls n => simp [atomBound] at h

theorem range_defined {s e : BracketAtom} (h : itemDefined (.range s e) = true) :
    ∃ lo hi, atomBound s = some lo ∧ atomBound e = some hi ∧ lo.toNat ≤ hi.toNat := by
  simp only [itemDefined] at h
  split at h
  · rename_i lo hi hlo hhi
    exact ⟨lo, hi, hlo, hhi, by simpa using h⟩
  · simp at h

theorem item_fmt_ok {it : BracketItem} (h : itemDefined it = true) : ∃ x, it.fmt = .ok x := by
  cases it with
  | atom a => exact atom_fmt_ok (by simpa [itemDefined] using h)
  | range s e =>
    obtain ⟨lo, hi, hlo, hhi, _⟩ := range_defined h
    simp [BracketItem.fmt, fmtSingle_ok_of_bound hlo, fmtSingle_ok_of_bound hhi]

theorem cItem_some {it : BracketItem} (h : itemDefined it = true) (hm : it.multi = false) :
    ∃ ci, cItem it = some ci := by
  cases it with
  | atom a =>
    have ha : atomDefined a = true := by simpa [itemDefined] using h
    cases a with
    | char c => exact ⟨_, rfl⟩
    | collating v =>
      have hne : v ≠ [] := by simpa [atomDefined] using ha
      obtain ⟨c, rfl⟩ := single_of_not_multi hne (by simpa [BracketItem.multi, BracketAtom.multi] using hm)
      exact ⟨_, rfl⟩
    | equiv v =>
      have hne : v ≠ [] := by simpa [atomDefined] using ha
      obtain ⟨c, rfl⟩ := single_of_not_multi hne (by simpa [BracketItem.multi, BracketAtom.multi] using hm)
      exact ⟨_, rfl⟩
    | cls name =>
      have : (asciiKind name).isSome = true := by simpa [atomDefined] using ha
      obtain ⟨k, hk⟩ := Option.isSome_iff_exists.mp this
      exact ⟨.ascii k, by simp [cItem, cAtom1, hk]⟩
  | range s e =>
    obtain ⟨lo, hi, hlo, hhi, hle⟩ := range_defined h
    exact ⟨.range lo hi, by simp [cItem, hlo, hhi, hle]⟩

theorem fmtItems_ok (items : List BracketItem) (h : ∀ it ∈ items, itemDefined it = true) :
    ∃ x, fmtItems items = .ok x := by
  induction items with
  | nil => exact ⟨[], rfl⟩
  | cons it rest ih =>
    obtain ⟨a, ha⟩ := item_fmt_ok (h it (by simp))
    obtain ⟨b, hb⟩ := ih (fun i hi => h i (by simp [hi]))
    exact ⟨a ++ b, by simp [fmtItems, ha, hb]⟩

theorem cItems_some (items : List BracketItem)
    (h : ∀ it ∈ items, itemDefined it = true ∧ it.multi = false) : ∃ ci, cItems items = some ci := by
  induction items with
  | nil => exact ⟨[], rfl⟩
  | cons it rest ih =>
    obtain ⟨a, ha⟩ := cItem_some (h it (by simp)).1 (h it (by simp)).2
    obtain ⟨b, hb⟩ := ih (fun i hi => h i (by simp [hi]))
    exact ⟨a :: b, by simp [cItems, ha, hb]⟩

theorem fmtAltItem_ok {it : BracketItem} (h : itemDefined it = true) : ∃ x, fmtAltItem it = .ok x := by
  obtain ⟨a, ha⟩ := item_fmt_ok h
  unfold fmtAltItem
  split
  · exact ⟨a, ha⟩
  · simp [ha]

theorem fmtAltItems_ok (items : List BracketItem) (h : ∀ it ∈ items, itemDefined it = true) :
    ∃ x, fmtAltItems items = .ok x := by
  induction items with
  | nil => exact ⟨[], rfl⟩
  | cons it rest ih =>
    obtain ⟨a, ha⟩ := fmtAltItem_ok (h it (by simp))
    cases rest with
    | nil => exact ⟨a, by simp [fmtAltItems, ha]⟩
    | cons it2 rest2 =>
      obtain ⟨b, hb⟩ := ih (fun i hi => h i (by simp [hi]))
      exact ⟨a ++ '|' :: b, by simp [fmtAltItems, ha, hb]⟩

theorem cAlt_some {it : BracketItem} (h : itemDefined it = true) : ∃ b, cAlt it = some b := by
  unfold cAlt
  split
  · rename_i hm
    cases it with
    | atom a =>
      cases a with
      | char c => simp [BracketItem.multi, BracketAtom.multi] at hm
      | collating v => exact ⟨_, rfl⟩
      | equiv v => exact ⟨_, rfl⟩
      | cls n => simp [BracketItem.multi, BracketAtom.multi] at hm
    | range s e => simp [BracketItem.multi] at hm
  · rename_i hm
    obtain ⟨ci, hci⟩ := cItem_some h (by simpa using hm)
    simp [hci]

theorem cAlts_some (items : List BracketItem) (h : ∀ it ∈ items, itemDefined it = true) :
    ∃ bs, cAlts items = some bs := by
  induction items with
  | nil => exact ⟨[], rfl⟩
  | cons it rest ih =>
    obtain ⟨a, ha⟩ := cAlt_some (h it (by simp))
    obtain ⟨b, hb⟩ := ih (fun i hi => h i (by simp [hi]))
    exact ⟨a :: b, by simp [cAlts, ha, hb]⟩

theorem bracket_ok {b : Bracket} (hne : b.items ≠ []) (h : ∀ it ∈ b.items, itemDefined it = true) :
    (∃ x, b.fmt = .ok x) ∧ (∃ ra, cBracket b = some ra) := by
  have hfilt : ∀ it ∈ b.items.filter (fun it => !it.multi), itemDefined it = true ∧ it.multi = false := by
    intro it hi
    have := List.mem_filter.mp hi
    exact ⟨h it this.1, by simpa using this.2⟩
  unfold Bracket.fmt cBracket
  simp only [hne, if_false]
  by_cases hm : b.multi = true
  · simp only [hm, Bool.not_true, Bool.false_eq_true, if_false]
    by_cases hc : b.complement = true
    · simp only [hc, Bool.not_true, Bool.false_eq_true, if_false]
      by_cases hall : b.items.all BracketItem.multi = true
      · simp [hall]
      · simp only [hall, if_false]
        obtain ⟨x, hx⟩ := fmtItems_ok _ (fun it hi => (hfilt it hi).1)
        obtain ⟨ci, hci⟩ := cItems_some _ hfilt
        simp [hx, hci]
    · have hc' : b.complement = false := by simpa using hc
      simp only [hc', Bool.not_false, if_true]
      obtain ⟨x, hx⟩ := fmtAltItems_ok _ h
      obtain ⟨bs, hbs⟩ := cAlts_some _ h
      simp [hx, hbs]
  · have hm' : b.multi = false := by simpa using hm
    simp only [hm', Bool.not_false, if_true]
    obtain ⟨x, hx⟩ := fmtItems_ok _ h
    obtain ⟨ci, hci⟩ := cItems_some _ (fun it hi => ⟨h it hi, not_multi_items hm' it hi⟩)
    simp [hx, hci]

theorem atoms_ok (ast : Ast) (h : astDefined ast = true) :
    (∃ x, fmtAtoms ast = .ok x) ∧ (∃ res, cAtoms ast = some res) := by
  induction ast with
  | nil => exact ⟨⟨[], rfl⟩, ⟨[], rfl⟩⟩
  | cons a r ih =>
    simp only [astDefined, List.all_cons, Bool.and_eq_true] at h
    obtain ⟨⟨y, hy⟩, ⟨rr, hrr⟩⟩ := ih (by simpa [astDefined] using h.2)
    have hone : (∃ x, a.fmt = .ok x) ∧ (∃ ra, cAtom a = some ra) := by
      cases a with
      | char c => exact ⟨⟨_, rfl⟩, ⟨_, rfl⟩⟩
      | anyChar => exact ⟨⟨_, rfl⟩, ⟨_, rfl⟩⟩
      | anyString => exact ⟨⟨_, rfl⟩, ⟨_, rfl⟩⟩
      | bracket b =>
        have hb := h.1
        simp only [atomOk, Bool.and_eq_true, bne_iff_ne, ne_eq, List.all_eq_true] at hb
        exact bracket_ok hb.1 hb.2
    obtain ⟨⟨x, hx⟩, ⟨ra, hra⟩⟩ := hone
    exact ⟨⟨x ++ y, by simp [fmtAtoms, hx, hy]⟩, ⟨ra :: rr, by simp [cAtoms, hra, hrr]⟩⟩

namespace Proofs

/-- converse of the fallback theorem -/
theorem defined_compiles (ast : Ast) (h : astDefined ast = true) (cfg : Config) :
    ∃ p, Pattern.fromAst ast cfg = .ok p := by
  obtain ⟨⟨x, hx⟩, ⟨res, hres⟩⟩ := atoms_ok ast h
  unfold Pattern.fromAst
  split
  · exact ⟨_, rfl⟩
  · have hr : ∃ r, toRegex ast cfg = .ok r := by simp [toRegex, hx]
    obtain ⟨r, hr⟩ := hr
    have hp := toRegex_parse ast cfg r hr
    rw [hres] at hp
    simp only [Option.map_some] at hp
    simp [hr, hp]

end Proofs
end YashModel.Fnmatch
