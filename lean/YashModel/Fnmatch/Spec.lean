/-
  C04 — Spec: what POSIX pattern-matching notation (XCU 2.13, XBD 9.3.5) denotes, by direct recursion on
  the syntax tree.  `?` one character, `*` any string, a bracket expression one character of its set
  (ranges by code point = POSIX-locale collation, `!`/`^` complement, classes by the ASCII tables,
  collating symbols / equivalence classes = their literal characters), other characters themselves.

  Choices where POSIX leaves the POSIX locale undefined, taken from the yash-fnmatch crate documentation
  ("collating symbols and equivalence classes only match the specified character sequence itself"):
  a symbol of two or more characters matches that character sequence (and, matching no single character,
  is irrelevant to a complemented bracket); as a range bound it stands for its first character.
-/
import YashModel.Fnmatch.Model

namespace YashModel.Fnmatch

/-- does a bracket atom, as a set member, contain the single character `c`? -/
def atomHas : BracketAtom → Char → Bool
  | .char a, c => c == a
  | .collating v, c => v == [c]
  | .equiv v, c => v == [c]
  | .cls name, c => match asciiKind name with
    | some k => k.mem c
    | none => false

/-- a range bound -/
def atomBound : BracketAtom → Option Char
  | .char a => some a
  | .collating v => v.head?
  | .equiv v => v.head?
  | .cls _ => none

def itemHas : BracketItem → Char → Bool
  | .atom a, c => atomHas a c
  | .range s e, c => match atomBound s, atomBound e with
    | some lo, some hi => lo.toNat ≤ c.toNat && c.toNat ≤ hi.toNat
    | _, _ => false

/-- the character sequence of a multi-character collating element -/
def itemSeq : BracketItem → Option (List Char)
  | .atom (.collating v) => if 2 ≤ v.length then some v else none
  | .atom (.equiv v) => if 2 ≤ v.length then some v else none
  | _ => none

/-- all ways a bracket expression can match at the head of `s`: the possible rests -/
def bracketRests (b : Bracket) (s : List Char) : List (List Char) :=
  (match s with
   | [] => []
   | c :: t => if b.items.any (itemHas · c) != b.complement then [t] else [])
  ++ (if b.complement then []
      else b.items.filterMap fun it =>
        match itemSeq it with
        | some v => if v.isPrefixOf s then some (s.drop v.length) else none
        | none => none)

/-- does the whole of `s` match the atoms? -/
def globAtoms : List Atom → List Char → Bool
  | [], s => s.isEmpty
  | .char a :: r, s => match s with
    | [] => false
    | c :: t => c == a && globAtoms r t
  | .anyChar :: r, s => match s with
    | [] => false
    | _ :: t => globAtoms r t
  | .anyString :: r, s => (List.range (s.length + 1)).any fun k => globAtoms r (s.drop k)
  | .bracket b :: r, s => (bracketRests b s).any (globAtoms r)

/-- the glob language -/
def globMatch (ast : Ast) (s : List Char) : Bool := globAtoms ast s

/-- patterns inside the notation POSIX defines (for the POSIX locale): class names are defined, no class
    as range bound, no empty symbol, ranges not inverted (and no empty bracket, which the parser never
    produces) -/
def atomDefined : BracketAtom → Bool
  | .char _ => true
  | .collating v => v != []
  | .equiv v => v != []
  | .cls name => (asciiKind name).isSome

def itemDefined : BracketItem → Bool
  | .atom a => atomDefined a
  | .range s e => match atomBound s, atomBound e with
    | some lo, some hi => decide (lo.toNat ≤ hi.toNat)
    | _, _ => false

def atomOk : Atom → Bool
  | .bracket b => b.items != [] && b.items.all itemDefined
  | _ => true

def astDefined (ast : Ast) : Bool := ast.all atomOk

/-! ## The notation itself: from pattern characters to the syntax tree, by the grammar of XBD 9.3.5 / XCU 2.13.1
    (independent of the implementation's item stack and `make_range`)

    bracket  := `[` [`!`|`^`] member+ `]`          — the first member may be `]`
    member   := elem `-` elem   (a range; the second elem is not the closing `]`)
              | elem
    elem     := `[.`…`.]` | `[=`…`=]` | `[:`…`:]` | any other character (quoted or not)
    Only unquoted `]` closes, only an unquoted `-` is the range operator, only unquoted `!`/`^` right after
    the `[` complement, only an unquoted `[` opens an inner element (`parseInner`, shared with the model, scans
    to the first adjacent unquoted `.]` / `=]` / `:]`). -/

/-- one element at the head of `pc :: t`, and what follows it -/
def specElem (pc : PatternChar) (t : List PatternChar) : BracketAtom × List PatternChar :=
  if pc = .normal '[' then
    match parseInner t with
    | some (a, j) => (a, j)
    | none => (.char '[', t)
  else (.char pc.charValue, t)

theorem specElem_length (pc : PatternChar) (t : List PatternChar) : (specElem pc t).2.length ≤ t.length := by
  unfold specElem
  split
  · split
    · rename_i a j h
      have := parseInner_length t a j h
      simp; omega
    · simp
  · simp

/-- the members up to the closing bracket (`acc`: members read so far, last first) -/
def specItems (acc : List BracketItem) (cs : List PatternChar) :
    Option (List BracketItem × List PatternChar) :=
  match cs with
  | [] => none
  | pc :: t =>
    if pc = .normal ']' ∧ acc ≠ [] then some (acc.reverse, t)
    else
      match hr : (specElem pc t).2 with
      | [] => none
      | h :: r1 =>
        if h = .normal '-' then
          match hr1 : r1 with
          | [] => none
          | x :: r2 =>
            if x = .normal ']' then
              -- a `-` right before the closing bracket is a member
              some ((BracketItem.atom (.char '-') :: .atom (specElem pc t).1 :: acc).reverse, r2)
            else
              have : (specElem x r2).2.length < t.length + 1 := by
                have h1 := specElem_length pc t
                have h2 := specElem_length x r2
                rw [hr] at h1
                subst hr1
                simp at h1; omega
              specItems (.range (specElem pc t).1 (specElem x r2).1 :: acc) (specElem x r2).2
        else
          have : r1.length < t.length := by
            have h1 := specElem_length pc t
            rw [hr] at h1
            simp at h1; omega
          specItems (.atom (specElem pc t).1 :: acc) (h :: r1)
termination_by cs.length

/-- a bracket expression, after its `[` -/
def specBracket (cs : List PatternChar) : Option (Bracket × List PatternChar) :=
  match cs with
  | [] => none
  | pc :: t =>
    if pc = .normal '!' ∨ pc = .normal '^' then
      (specItems [] t).map fun x => ({ complement := true, items := x.1 }, x.2)
    else (specItems [] (pc :: t)).map fun x => ({ complement := false, items := x.1 }, x.2)

theorem specElem_length' {pc : PatternChar} {t l : List PatternChar} (h : (specElem pc t).2 = l) :
    l.length ≤ t.length := h ▸ specElem_length pc t

theorem specItems_length (acc : List BracketItem) (cs : List PatternChar) (is : List BracketItem)
    (r : List PatternChar) (h : specItems acc cs = some (is, r)) : r.length < cs.length := by
  fun_induction specItems acc cs
  all_goals first
    | (simp at h; done)
    | (simp at h; obtain ⟨_, rfl⟩ := h; simp; done)
    | (rename_i hr
       simp at h; obtain ⟨_, rfl⟩ := h
       have h1 := specElem_length' hr
       simp at h1 ⊢; omega)
    | (rename_i hthis ih
       have h2 := ih h
       simp at hthis h2 ⊢; omega)

theorem specBracket_length (cs : List PatternChar) (b : Bracket) (r : List PatternChar)
    (h : specBracket cs = some (b, r)) : r.length < cs.length := by
  unfold specBracket at h
  split at h
  · simp at h
  · rename_i pc t
    split at h
    · cases hs : specItems [] t with
      | none => rw [hs] at h; simp at h
      | some x =>
        rw [hs] at h; simp at h
        obtain ⟨_, rfl⟩ := h
        have := specItems_length [] t x.1 x.2 hs
        simp; omega
    · cases hs : specItems [] (pc :: t) with
      | none => rw [hs] at h; simp at h
      | some x =>
        rw [hs] at h; simp at h
        obtain ⟨_, rfl⟩ := h
        exact specItems_length [] (pc :: t) x.1 x.2 hs

/-- the whole pattern: unquoted `?` `*` and a closed bracket expression are special, everything else — quoted
    characters, an unquoted `[` that no bracket expression follows — is an ordinary character -/
def specParse (cs : List PatternChar) : Ast :=
  match cs with
  | [] => []
  | pc :: t =>
    if pc = .normal '?' then .anyChar :: specParse t
    else if pc = .normal '*' then .anyString :: specParse t
    else if pc = .normal '[' then
      match h : specBracket t with
      | some (b, j) =>
        have : j.length < (pc :: t).length := by
          have := specBracket_length _ _ _ h; simp; omega
        .bracket b :: specParse j
      | none => .char '[' :: specParse t
    else .char pc.charValue :: specParse t
termination_by cs.length

/-- POSIX pattern matching on pattern characters: the declarative top of the Spec -/
def posixMatch (pcs : List PatternChar) (s : List Char) : Bool := globMatch (specParse pcs) s

/-- no bracket expression contains a multi-character collating element (`[.ab.]`, `[=ab=]`): the
    patterns inside POSIX's defined notation for the POSIX locale, which has no such elements -/
def noMultiAtom : Atom → Bool
  | .bracket b => !b.multi
  | _ => true

def noMulti (ast : Ast) : Bool := ast.all noMultiAtom

/-- the least `k ≤ n` with `p k` -/
def leastUpTo (p : Nat → Bool) : Nat → Option Nat
  | 0 => if p 0 then some 0 else none
  | n + 1 => match leastUpTo p n with
    | some k => some k
    | none => if p (n + 1) then some (n + 1) else none

/-- the greatest `k ≤ n` with `p k` -/
def greatestUpTo (p : Nat → Bool) : Nat → Option Nat
  | 0 => if p 0 then some 0 else none
  | n + 1 => if p (n + 1) then some (n + 1) else greatestUpTo p n

/-- prefix / suffix removal: `#` `##` `%` `%%` delete the shortest / longest matching prefix / suffix:
    the least / greatest prefix length `k` with `v.take k` matching, the greatest / least suffix start `k`
    with `v.drop k` matching; nothing is removed when there is none -/
def specTrim (side : TrimSide) (len : TrimLength) (ast : Ast) (v : List Char) : List Char :=
  match side, len with
  | .prefix, .shortest => match leastUpTo (fun k => globMatch ast (v.take k)) v.length with
    | some k => v.drop k
    | none => v
  | .prefix, .longest => match greatestUpTo (fun k => globMatch ast (v.take k)) v.length with
    | some k => v.drop k
    | none => v
  | .suffix, .shortest => match greatestUpTo (fun k => globMatch ast (v.drop k)) v.length with
    | some k => v.take k
    | none => v
  | .suffix, .longest => match leastUpTo (fun k => globMatch ast (v.drop k)) v.length with
    | some k => v.take k
    | none => v

/-- `case`: the first item one of whose patterns matches -/
def specCase (asts : List Ast) (subject : List Char) : Option Nat :=
  asts.findIdx? (fun a => globMatch a subject)

/-- `case` with `|`-alternatives: an alternative counts when it is inside the defined notation and denotes
    the subject; the first item with such an alternative is selected -/
def altMatches (subject : List Char) (a : Ast) : Bool := astDefined a && globMatch a subject

def specCaseSelect (items : List (List Ast)) (subject : List Char) : Option Nat :=
  items.findIdx? (fun alts => alts.any (altMatches subject))

/-- which bodies run: from the selected item on, `;&` runs the next body unconditionally, `;;&` goes on
    testing, `;;` stops -/
def specCaseExec (subject : List Char) : Bool → Nat → List (List Ast × CaseCont) → List Nat
  | _, _, [] => []
  | falling, i, (alts, c) :: rest =>
    if falling || alts.any (altMatches subject) then
      i :: (match c with
        | .brk => []
        | .fallThrough => specCaseExec subject true (i + 1) rest
        | .cont => specCaseExec subject false (i + 1) rest)
    else specCaseExec subject false (i + 1) rest

/-! ## every configuration (extension round): which parts of the text a configuration lets the pattern match,
    and the leading-period rule of XCU 2.13.3 -/

/-- `s[i..j]` is an occurrence of the pattern under the anchoring `(ab, ae)`: that part of the text is in the
    glob language; it starts at 0 if the pattern is anchored at the beginning and ends at the end of `s` if it
    is anchored at the end -/
def occurs (ab ae : Bool) (ast : Ast) (s : List Char) (i j : Nat) : Prop :=
  i ≤ j ∧ j ≤ s.length ∧ (ab = true → i = 0) ∧ (ae = true → j = s.length) ∧
    globMatch ast ((s.take j).drop i) = true

/-- executable form of `occurs` -/
def occursB (ab ae : Bool) (ast : Ast) (s : List Char) (i j : Nat) : Bool :=
  decide (i ≤ j) && decide (j ≤ s.length) && (!ab || i == 0) && (!ae || j == s.length) &&
    globMatch ast ((s.take j).drop i)

/-- `is_match` under a configuration: some occurrence starting at or after `from` -/
def specIsMatchFrom (ab ae : Bool) (ast : Ast) (s : List Char) (start : Nat) : Bool :=
  (List.range (s.length + 1)).any fun i => decide (start ≤ i) &&
    (List.range (s.length + 1)).any fun j => occursB ab ae ast s i j

def specIsMatch (ab ae : Bool) (ast : Ast) (s : List Char) : Bool := specIsMatchFrom ab ae ast s 0

/-- the pattern begins with an explicit period -/
def explicitDot : Ast → Bool
  | .char c :: _ => c == '.'
  | _ => false

/-- XCU 2.13.3, first rule for file names: a leading period of the name is matched only by a period written as the
    first character of the pattern (not by `?`, `*` or a bracket expression) -/
def specPeriodMatch (ast : Ast) (s : List Char) : Bool :=
  globMatch ast s && (s.head? != some '.' || explicitDot ast)

/-! ## the character classes of the POSIX locale (XBD 7.3.1 "LC_CTYPE" of the POSIX locale definition), written as
    the standard lists them — independent of the range tables `AsciiKind.mem` that the model shares with the regex
    crate.  `posix_classes_agree` (Theorems.lean) shows that `atomHas` on `[:name:]` is membership in these lists. -/

def posixUpper : List Char := "ABCDEFGHIJKLMNOPQRSTUVWXYZ".toList
def posixLower : List Char := "abcdefghijklmnopqrstuvwxyz".toList
def posixDigit : List Char := "0123456789".toList
/-- `<space> <form-feed> <newline> <carriage-return> <tab> <vertical-tab>` -/
def posixSpace : List Char := [' ', Char.ofNat 12, '\n', '\r', '\t', Char.ofNat 11]
/-- `<space> <tab>` -/
def posixBlank : List Char := [' ', '\t']
/-- `<NUL>` … `<US>` (the 32 C0 controls) and `<DEL>` -/
def posixCntrl : List Char := (List.range 32).map Char.ofNat ++ [Char.ofNat 127]
def posixPunct : List Char := "!\"#$%&'()*+,-./:;<=>?@[\\]^_`{|}~".toList
def posixXdigit : List Char := posixDigit ++ "ABCDEFabcdef".toList
def posixAlpha : List Char := posixUpper ++ posixLower
def posixAlnum : List Char := posixAlpha ++ posixDigit
def posixGraph : List Char := posixAlnum ++ posixPunct
def posixPrint : List Char := posixGraph ++ [' ']

/-- the twelve class names XBD 9.3.5 requires, with their members in the POSIX locale -/
def posixClass (name : List Char) : Option (List Char) :=
  if name = "alnum".toList then some posixAlnum
  else if name = "alpha".toList then some posixAlpha
  else if name = "blank".toList then some posixBlank
  else if name = "cntrl".toList then some posixCntrl
  else if name = "digit".toList then some posixDigit
  else if name = "graph".toList then some posixGraph
  else if name = "lower".toList then some posixLower
  else if name = "print".toList then some posixPrint
  else if name = "punct".toList then some posixPunct
  else if name = "space".toList then some posixSpace
  else if name = "upper".toList then some posixUpper
  else if name = "xdigit".toList then some posixXdigit
  else none

/-! ## backslash in a pattern that results from an expansion (XCU 2.13.1): a backslash quotes the next character;
    a backslash with nothing after it stands for itself (POSIX leaves that case unspecified; yash's choice) -/

def escapeChars : List Char → List PatternChar
  | [] => []
  | [c] => [.normal c]
  | c :: d :: t => if c = '\\' then .literal d :: escapeChars t else .normal c :: escapeChars (d :: t)

/-! ## textbook semantics of the regex fragment `to_regex` can emit (wave 2)

    The fragment: `\A`, `\z`, `.`, `.*`, one-character elements (a literal or a class) and `(?:b1|b2|…)` whose
    branches are sequences of one-character elements.  `reDenotes n re s ρ`: the regex, applied at the suffix `s` of
    a text of `n` characters, can consume a prefix of `s` and leave `ρ` — the usual denotation, clause by clause,
    with no reference to any search order.  `reEnum g n re s`: the same rests listed in PRIORITY order (a greedy
    `.*` offers the longest continuation first, a lazy one the shortest; alternatives in the order written) —
    "leftmost-first" (Perl-style) semantics says: the match is the first entry. -/

def reDenotes (n : Nat) : List ReAtom → List Char → List Char → Prop
  | [], s, ρ => ρ = s
  | .bos :: r, s, ρ => s.length = n ∧ reDenotes n r s ρ
  | .eos :: r, s, ρ => s = [] ∧ reDenotes n r s ρ
  | .any :: r, s, ρ => ∃ c t, s = c :: t ∧ reDenotes n r t ρ
  | .one x :: r, s, ρ => ∃ c t, s = c :: t ∧ x.mem c = true ∧ reDenotes n r t ρ
  | .star :: r, s, ρ => ∃ u, u <:+ s ∧ reDenotes n r u ρ
  | .alt bs :: r, s, ρ => ∃ b ∈ bs, ∃ s', matchSimples b s = some s' ∧ reDenotes n r s' ρ

/-- where a `.*` may stop, in priority order: the suffixes of `s`, shortest first when greedy -/
def starChoices (g : Bool) : List Char → List (List Char)
  | [] => [[]]
  | c :: t => if g then starChoices g t ++ [c :: t] else (c :: t) :: starChoices g t

def reEnum (g : Bool) (n : Nat) : List ReAtom → List Char → List (List Char)
  | [], s => [s]
  | .bos :: r, s => if s.length = n then reEnum g n r s else []
  | .eos :: r, s => if s = [] then reEnum g n r s else []
  | .any :: r, s => match s with
    | [] => []
    | _ :: t => reEnum g n r t
  | .one x :: r, s => match s with
    | [] => []
    | c :: t => if x.mem c then reEnum g n r t else []
  | .star :: r, s => (starChoices g s).flatMap (reEnum g n r)
  | .alt bs :: r, s => (bs.filterMap (fun b => matchSimples b s)).flatMap (reEnum g n r)

/-! ## exit status of `case` (XCU 2.9.4.3): zero if no body was executed, otherwise the exit status of the last
    body executed — zero if that body is empty (wave 2) -/

/-- `$?` after running the bodies with the given indices one after the other, starting from `st` -/
def statusAfter (bodies : List (Nat → Nat)) (st : Nat) (executed : List Nat) : Nat :=
  executed.foldl (fun st j => match bodies[j]? with | some f => f st | none => st) st

def specCaseStatus (bodies : List (Nat → Nat)) (empties : List Bool) (st0 : Nat) (executed : List Nat) : Nat :=
  match executed.getLast? with
  | none => 0
  | some j => if empties[j]?.getD true then 0 else statusAfter bodies st0 executed

/-- a trim acts on a scalar value, or on every element of an array value (XCU 2.6.2 with `$@` / `$*`) -/
def Value.map (f : List Char → List Char) : Value → Value
  | .scalar v => .scalar (f v)
  | .array vs => .array (vs.map f)

/-- a range whose end collates before its start (`[z-a]`) -/
def itemInverted : BracketItem → Bool
  | .range s e => match atomBound s, atomBound e with
    | some lo, some hi => decide (hi.toNat < lo.toNat)
    | _, _ => false
  | .atom _ => false

def hasInvertedRange (ast : Ast) : Bool :=
  ast.any fun
    | .bracket b => b.items.any itemInverted
    | _ => false

end YashModel.Fnmatch
