/-
  C04 — Spec: what POSIX pattern-matching notation (XCU 2.13, XBD 9.3.5) denotes, by direct recursion on
  the syntax tree.  `?` one character, `*` any string, a bracket expression one character of its set
  (ranges by code point = POSIX-locale collation, `!`/`^` complement, classes by the ASCII tables,
  collating symbols / equivalence classes = their literal characters), other characters themselves.

  Choices where POSIX leaves the POSIX locale undefined, taken from the yash-fnmatch crate documentation
  ("collating symbols and equivalence classes only match the specified character sequence itself"):
  a symbol of two or more characters matches that character sequence (and, matching no single character,
  is irrelevant to a complemented bracket); as a range bound it stands for its first character.
-/
import YashModel.Fnmatch.Model

namespace YashModel.Fnmatch

/-- does a bracket atom, as a set member, contain the single character `c`? -/
def atomHas : BracketAtom → Char → Bool
  | .char a, c => c == a
  | .collating v, c => v == [c]
  | .equiv v, c => v == [c]
  | .cls name, c => match asciiKind name with
    | some k => k.mem c
    | none => false

/-- a range bound -/
def atomBound : BracketAtom → Option Char
  | .char a => some a
  | .collating v => v.head?
  | .equiv v => v.head?
  | .cls _ => none

def itemHas : BracketItem → Char → Bool
  | .atom a, c => atomHas a c
  | .range s e, c => match atomBound s, atomBound e with
    | some lo, some hi => lo.toNat ≤ c.toNat && c.toNat ≤ hi.toNat
    | _, _ => false

/-- the character sequence of a multi-character collating element -/
def itemSeq : BracketItem → Option (List Char)
  | .atom (.collating v) => if 2 ≤ v.length then some v else none
  | .atom (.equiv v) => if 2 ≤ v.length then some v else none
  | _ => none

/-- all ways a bracket expression can match at the head of `s`: the possible rests -/
def bracketRests (b : Bracket) (s : List Char) : List (List Char) :=
  (match s with
   | [] => []
   | c :: t => if b.items.any (itemHas · c) != b.complement then [t] else [])
  ++ (if b.complement then []
      else b.items.filterMap fun it =>
        match itemSeq it with
        | some v => if v.isPrefixOf s then some (s.drop v.length) else none
        | none => none)

/-- does the whole of `s` match the atoms? -/
def globAtoms : List Atom → List Char → Bool
  | [], s => s.isEmpty
  | .char a :: r, s => match s with
    | [] => false
    | c :: t => c == a && globAtoms r t
  | .anyChar :: r, s => match s with
    | [] => false
    | _ :: t => globAtoms r t
  | .anyString :: r, s => (List.range (s.length + 1)).any fun k => globAtoms r (s.drop k)
  | .bracket b :: r, s => (bracketRests b s).any (globAtoms r)

/-- the glob language -/
def globMatch (ast : Ast) (s : List Char) : Bool := globAtoms ast s

/-- patterns inside the notation POSIX defines (for the POSIX locale): class names are defined, no class
    as range bound, no empty symbol, ranges not inverted (and no empty bracket, which the parser never
    produces) -/
def atomDefined : BracketAtom → Bool
  | .char _ => true
  | .collating v => v != []
  | .equiv v => v != []
  | .cls name => (asciiKind name).isSome

def itemDefined : BracketItem → Bool
  | .atom a => atomDefined a
  | .range s e => match atomBound s, atomBound e with
    | some lo, some hi => decide (lo.toNat ≤ hi.toNat)
    | _, _ => false

def atomOk : Atom → Bool
  | .bracket b => b.items != [] && b.items.all itemDefined
  | _ => true

def astDefined (ast : Ast) : Bool := ast.all atomOk

/-- no bracket expression contains a multi-character collating element (`[.ab.]`, `[=ab=]`): the
    patterns inside POSIX's defined notation for the POSIX locale, which has no such elements -/
def noMultiAtom : Atom → Bool
  | .bracket b => !b.multi
  | _ => true

def noMulti (ast : Ast) : Bool := ast.all noMultiAtom

/-- the least `k ≤ n` with `p k` -/
def leastUpTo (p : Nat → Bool) : Nat → Option Nat
  | 0 => if p 0 then some 0 else none
  | n + 1 => match leastUpTo p n with
    | some k => some k
    | none => if p (n + 1) then some (n + 1) else none

/-- the greatest `k ≤ n` with `p k` -/
def greatestUpTo (p : Nat → Bool) : Nat → Option Nat
  | 0 => if p 0 then some 0 else none
  | n + 1 => if p (n + 1) then some (n + 1) else greatestUpTo p n

/-- prefix / suffix removal: `#` `##` `%` `%%` delete the shortest / longest matching prefix / suffix:
    the least / greatest prefix length `k` with `v.take k` matching, the greatest / least suffix start `k`
    with `v.drop k` matching; nothing is removed when there is none -/
def specTrim (side : TrimSide) (len : TrimLength) (ast : Ast) (v : List Char) : List Char :=
  match side, len with
  | .prefix, .shortest => match leastUpTo (fun k => globMatch ast (v.take k)) v.length with
    | some k => v.drop k
    | none => v
  | .prefix, .longest => match greatestUpTo (fun k => globMatch ast (v.take k)) v.length with
    | some k => v.drop k
    | none => v
  | .suffix, .shortest => match greatestUpTo (fun k => globMatch ast (v.drop k)) v.length with
    | some k => v.take k
    | none => v
  | .suffix, .longest => match leastUpTo (fun k => globMatch ast (v.drop k)) v.length with
    | some k => v.take k
    | none => v

/-- `case`: the first item one of whose patterns matches -/
def specCase (asts : List Ast) (subject : List Char) : Option Nat :=
  asts.findIdx? (fun a => globMatch a subject)

/-- `case` with `|`-alternatives: an alternative counts when it is inside the defined notation and denotes
    the subject; the first item with such an alternative is selected -/
def altMatches (subject : List Char) (a : Ast) : Bool := astDefined a && globMatch a subject

def specCaseSelect (items : List (List Ast)) (subject : List Char) : Option Nat :=
  items.findIdx? (fun alts => alts.any (altMatches subject))

/-- which bodies run: from the selected item on, `;&` runs the next body unconditionally, `;;&` goes on
    testing, `;;` stops -/
def specCaseExec (subject : List Char) : Bool → Nat → List (List Ast × CaseCont) → List Nat
  | _, _, [] => []
  | falling, i, (alts, c) :: rest =>
    if falling || alts.any (altMatches subject) then
      i :: (match c with
        | .brk => []
        | .fallThrough => specCaseExec subject true (i + 1) rest
        | .cont => specCaseExec subject false (i + 1) rest)
    else specCaseExec subject false (i + 1) rest

end YashModel.Fnmatch
