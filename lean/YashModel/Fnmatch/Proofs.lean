/-
  C04 — proofs of the property theorems (restated, with their non-vacuity examples, in Theorems.lean) and
  the last helper lemmas they need.
-/
import YashModel.Fnmatch.TopLemmas

namespace YashModel.Fnmatch
open YashModel.Generated.FnmatchTables

/-- does the pattern compile under the `case` configuration? -/
def compilesB (p : List PatternChar) : Bool :=
  match Pattern.parse p caseConfig with
  | .ok _ => true
  | .error _ => false

namespace Proofs

/-! ## ★ escaping -/

/-- Every character with a meaning of its own in the regex syntax is in the escaping tables (outside a
    class: `SPECIAL_CHARS`; inside a class: `BRACKET_SPECIAL_CHARS ∪ SPECIAL_CHARS`), and every character
    the tables escape is one the regex crate lets a backslash precede. -/
theorem meta_subset :
    (∀ c ∈ reMeta, c ∈ specialChars) ∧
    (∀ c ∈ classMeta, c ∈ bracketSpecialChars ∨ c ∈ specialChars) ∧
    (∀ c ∈ specialChars, c ∈ escapable) ∧ (∀ c ∈ bracketSpecialChars, c ∈ escapable) :=
  ⟨reMeta_sub_special, classMeta_sub_special, special_sub_escapable, bracketSpecial_sub_escapable⟩

/-- ★ Every character escapes to itself: outside brackets the emitted text of a pattern character is
    the regex "literal c"; as a bracket member, inside `[. .]` and inside `[= =]` it is the class `{c}`. -/
theorem escape_roundtrip (c : Char) :
    parseRe (fmtTopChar c) = some [.one (.lit c)] ∧
    (∀ r, toRegex [.bracket ⟨false, [.atom (.char c)]⟩] {} = .ok r →
      parseRe r = some [.one (.cls ⟨false, [.single c]⟩)]) ∧
    (∀ r, toRegex [.bracket ⟨false, [.atom (.collating [c])]⟩] {} = .ok r →
      parseRe r = some [.one (.cls ⟨false, [.single c]⟩)]) ∧
    (∀ r, toRegex [.bracket ⟨false, [.atom (.equiv [c])]⟩] {} = .ok r →
      parseRe r = some [.one (.cls ⟨false, [.single c]⟩)]) ∧
    (∀ d, (ClassItem.single c).mem d = (d == c)) := by
  refine ⟨?_, ?_, ?_, ?_, fun d => rfl⟩
  · have h := parseTop_char c [] (fmtTopChar c).length
    rw [List.append_nil] at h
    unfold parseRe
    rw [h, parseTop_nil _ (by unfold fmtTopChar; split <;> simp)]
    rfl
  · intro r h
    rw [toRegex_parse _ _ _ h]
    simp [cAtoms, cAtom, cBracket, Bracket.multi, BracketItem.multi, BracketAtom.multi, cItems, cItem, cAtom1]
  · intro r h
    rw [toRegex_parse _ _ _ h]
    simp [cAtoms, cAtom, cBracket, Bracket.multi, BracketItem.multi, BracketAtom.multi, cItems, cItem, cAtom1]
  · intro r h
    rw [toRegex_parse _ _ _ h]
    simp [cAtoms, cAtom, cBracket, Bracket.multi, BracketItem.multi, BracketAtom.multi, cItems, cItem, cAtom1]

/-- the bracket forms of `escape_roundtrip` are not vacuous: the translation succeeds for every `c` -/
theorem escape_roundtrip_nonvacuous (c : Char) :
    toRegex [.bracket ⟨false, [.atom (.char c)]⟩] {} = .ok ('[' :: fmtRegexChar c ++ [']']) ∧
    toRegex [.bracket ⟨false, [.atom (.collating [c])]⟩] {} = .ok ('[' :: fmtRegexChar c ++ [']']) := by
  constructor <;>
    simp [toRegex, fmtAtoms, Atom.fmt, Bracket.fmt, Bracket.multi, BracketItem.multi, BracketAtom.multi,
      fmtItems, BracketItem.fmt, BracketAtom.fmt]

/-! ## ★ the regex text denotes the glob language -/

/-- ★ Whenever the translation succeeds and the regex compiles, the compiled regex — fully anchored,
    greedy or lazy — accepts exactly the strings the pattern denotes.  Full strength: every syntax tree
    (any characters incl. all regex-special ones, ranges, complements, classes, collating symbols and
    equivalence classes, multi-character collating elements). -/
theorem toRegex_correct (ast : Ast) (cfg : Config) (hb : cfg.anchorBegin = true) (he : cfg.anchorEnd = true)
    (r : List Char) (h : toRegex ast cfg = .ok r) (re : List ReAtom) (hp : parseRe r = some re)
    (g : Bool) (s : List Char) :
    (findAt g re s 0).isSome = globMatch ast s := by
  rw [toRegex_parse ast cfg r h] at hp
  cases hc : cAtoms ast with
  | none => simp [hc] at hp
  | some res =>
    simp [hc, hb, he] at hp
    subst hp
    rw [findAt_anchored_isSome]
    exact matchHere_glob g s.length ast res hc s


theorem toLiteral_glob (ast : Ast) (l : List Char) (h : toLiteral ast = some l) (s : List Char) :
    globAtoms ast s = decide (s = l) := by
  induction ast generalizing l s with
  | nil => simp [toLiteral] at h; subst h; cases s <;> simp [globAtoms]
  | cons a r ih =>
    cases a with
    | char c =>
      simp only [toLiteral] at h
      split at h
      · rename_i l' hl
        simp at h; subst h
        cases s with
        | nil => simp [globAtoms]
        | cons c' t =>
          simp only [globAtoms, ih l' hl t]
          by_cases hcc : c' = c <;> simp [hcc]
      · simp at h
    | anyChar => simp [toLiteral] at h
    | anyString => simp [toLiteral] at h
    | bracket b => simp [toLiteral] at h

/-- ★ `Pattern::is_match` under the `case` configuration (both anchors), including the literal fast
    path: a pattern that compiles matches exactly the strings its syntax tree denotes. -/
theorem isMatch_correct (ast : Ast) (cfg : Config) (hb : cfg.anchorBegin = true) (he : cfg.anchorEnd = true)
    (hl : cfg.literalPeriod = false) (p : Pattern) (h : Pattern.fromAst ast cfg = .ok p) (s : List Char) :
    p.isMatch s = globMatch ast s := by
  unfold Pattern.fromAst at h
  split at h
  · rename_i l hlit
    simp at h; subst h
    simp only [Pattern.isMatch, hb, he, globMatch]
    rw [toLiteral_glob ast l hlit s]
  · split at h
    · simp at h
    · rename_i r hr
      split at h
      · simp at h
      · rename_i re hre
        simp at h; subst h
        simp only [Pattern.isMatch, Pattern.at0, hl, Bool.false_and, Bool.false_eq_true, if_false]
        exact toRegex_correct ast cfg hb he r hr re hre _ s


/-! ## ★ quoted characters match only themselves -/

theorem parseAtoms_literals (cs : List Char) : parseAtoms (cs.map .literal) = cs.map .char := by
  induction cs with
  | nil => simp [parseAtoms]
  | cons c t ih => rw [List.map_cons, parseAtoms]; simp [ih, PatternChar.charValue]

theorem toLiteral_chars (cs : List Char) : toLiteral (cs.map Atom.char) = some cs := by
  induction cs with
  | nil => rfl
  | cons c t ih => simp [toLiteral, ih]

/-- ★ A pattern made of quoted (`Literal`) characters only is the literal string: it always compiles (fast
    path) and, fully anchored, matches exactly that string — whatever the characters are. -/
theorem literal_is_literal (cs : List Char) (cfg : Config) (hb : cfg.anchorBegin = true)
    (he : cfg.anchorEnd = true) :
    parseAtoms (cs.map .literal) = cs.map .char ∧
    ∃ p, Pattern.parse (cs.map .literal) cfg = .ok p ∧ ∀ s, p.isMatch s = decide (s = cs) := by
  have h1 := parseAtoms_literals cs
  have h2 := toLiteral_chars cs
  refine ⟨h1, ⟨.literal cs, cfg⟩, ?_, ?_⟩
  · simp [Pattern.parse, Pattern.fromAst, h1, h2]
  · intro s; simp [Pattern.isMatch, hb, he]

/-- ★ Inside a bracket expression a quoted character is always a plain member: it never closes the
    bracket, never complements it, never opens `[. .]`, and its hyphen flag is `false` … -/
theorem literal_in_bracket_is_member (compl : Bool) (st : ItemStack) (c : Char) (t : List PatternChar) :
    bracketLoop compl st (.literal c :: t) =
      bracketLoop compl (makeRange ((.atom (.char c), false) :: st)) t := by
  rw [bracketLoop]
  simp [PatternChar.charValue]

/-- … and an item whose hyphen flag is `false` is never taken as the range operator (so `[a\-z]` is the
    set {a, -, z}). -/
theorem quoted_hyphen_no_range (x y : BracketItem) (f : Bool) (rest : ItemStack) :
    makeRange ((x, f) :: (y, false) :: rest) = (x, f) :: (y, false) :: rest := by
  unfold makeRange
  split
  · rename_i heq; simp at heq
  · rfl


/-! ## ★ an unclosed `[` is literal -/

theorem scanClose_mem (d : Char) (cs : List PatternChar) (v r : List PatternChar)
    (h : scanClose d cs = some (v, r)) : PatternChar.normal ']' ∈ cs := by
  fun_induction scanClose d cs generalizing v r
  all_goals first
    | (simp at h; done)
    | (rename_i hc; simp [hc.2]; done)
    | (rename_i hs ih; have := ih _ _ hs; simp at this ⊢
       rcases this with h' | h'
       · exact Or.inr (Or.inl h')
       · exact Or.inr (Or.inr h'))
    | (simp_all; done)

theorem parseInner_mem (cs : List PatternChar) (a : BracketAtom) (r : List PatternChar)
    (h : parseInner cs = some (a, r)) : PatternChar.normal ']' ∈ cs := by
  unfold parseInner at h
  split at h
  · simp at h
  · rename_i pc t
    have key : ∀ d v r', scanClose d t = some (v, r') → PatternChar.normal ']' ∈ pc :: t :=
      fun d v r' hs => List.mem_cons_of_mem _ (scanClose_mem d t v r' hs)
    split at h
    · split at h
      · rename_i v r' hs; exact key _ _ _ hs
      · simp at h
    · split at h
      · split at h
        · rename_i v r' hs; exact key _ _ _ hs
        · simp at h
      · split at h
        · split at h
          · rename_i v r' hs; exact key _ _ _ hs
          · simp at h
        · simp at h

theorem bracketLoop_unclosed (compl : Bool) (st : ItemStack) (cs : List PatternChar)
    (h : ∀ pc ∈ cs, pc ≠ .normal ']') : bracketLoop compl st cs = none := by
  fun_induction bracketLoop compl st cs
  all_goals first
    | rfl
    | (rename_i hc; exact absurd hc.1 (h _ (by simp)))
    | (rename_i hp _ _ _ _
       exact absurd (parseInner_mem _ _ _ hp) (fun hm => h _ (List.mem_cons_of_mem _ hm) rfl))
    | (rename_i ih; exact ih (fun pc hpc => h pc (List.mem_cons_of_mem _ hpc)))

/-- ★ A `[` that no unquoted `]` follows is an ordinary character, and the characters after it are
    parsed as if the `[` were not special. -/
theorem unclosed_bracket_literal (t : List PatternChar) (h : ∀ pc ∈ t, pc ≠ .normal ']') :
    parseAtoms (.normal '[' :: t) = .char '[' :: parseAtoms t := by
  rw [parseAtoms]
  simp only [show (PatternChar.normal '[' ≠ .normal '?') by decide,
    show (PatternChar.normal '[' ≠ .normal '*') by decide, if_false, if_true]
  split
  · rename_i b j hb
    unfold parseBracket at hb
    rw [bracketLoop_unclosed false [] t h] at hb
    simp at hb
  · rfl


/-! ## ★ patterns that do not compile -/

/-- ★ A pattern outside the defined notation (undefined class name, class as range bound, inverted range,
    empty symbol — whatever makes `parse_with_config` fail) makes a trim a no-op and makes `case` skip
    that pattern and go on with the next. -/
theorem invalid_pattern_fallbacks (pcs : List PatternChar) :
    (∀ side len e v, Pattern.parse pcs (trimConfig side len) = .error e → trimApply side len pcs v = v) ∧
    (∀ e i rest subj, Pattern.parse pcs caseConfig = .error e →
      caseFirst.go subj i (pcs :: rest) = caseFirst.go subj (i + 1) rest) := by
  constructor
  · intro side len e v h; simp [trimApply, h]
  · intro e i rest subj h; simp [caseFirst.go, h]


/-! ## ★ `case` runs the first item with a matching pattern -/

theorem go_error {p : List PatternChar} {e : Err} (h : Pattern.parse p caseConfig = .error e)
    (subj : List Char) (i : Nat) (rest : List (List PatternChar)) :
    caseFirst.go subj i (p :: rest) = caseFirst.go subj (i + 1) rest := by
  simp [caseFirst.go, h]

theorem go_ok {p : List PatternChar} {pat : Pattern} (h : Pattern.parse p caseConfig = .ok pat)
    (subj : List Char) (i : Nat) (rest : List (List PatternChar)) :
    caseFirst.go subj i (p :: rest) = if pat.isMatch subj then some i else caseFirst.go subj (i + 1) rest := by
  simp [caseFirst.go, h]

theorem caseFirst_go (subj : List Char) (pats : List (List PatternChar)) (i : Nat) :
    caseFirst.go subj i pats =
      (pats.findIdx? (fun p => compilesB p && globMatch (parseAtoms p) subj)).map (· + i) := by
  induction pats generalizing i with
  | nil => simp [caseFirst.go]
  | cons p rest ih =>
    rw [List.findIdx?_cons]
    cases hp : Pattern.parse p caseConfig with
    | error e =>
      have hc : compilesB p = false := by simp [compilesB, hp]
      rw [go_error hp, hc, ih (i + 1)]
      simp only [Bool.false_and, Bool.false_eq_true, if_false]
      cases List.findIdx? _ rest <;> simp; omega
    | ok pat =>
      have hc : compilesB p = true := by simp [compilesB, hp]
      have hm := isMatch_correct (parseAtoms p) caseConfig rfl rfl rfl pat hp subj
      rw [go_ok hp, hc, hm, ih (i + 1)]
      simp only [Bool.true_and]
      cases hg : globMatch (parseAtoms p) subj with
      | true => simp
      | false =>
        simp only [Bool.false_eq_true, if_false]
        cases List.findIdx? _ rest <;> simp; omega

theorem findIdx?_ext {α : Type} (p q : α → Bool) (l : List α) (h : ∀ x ∈ l, p x = q x) :
    l.findIdx? p = l.findIdx? q := by
  induction l with
  | nil => rfl
  | cons a t ih =>
    rw [List.findIdx?_cons, List.findIdx?_cons, h a (by simp), ih (fun x hx => h x (by simp [hx]))]

/-- ★ `case` selects the first pattern that compiles and whose syntax tree denotes the subject; when all
    patterns compile this is the Spec's "first item with a matching pattern". -/
theorem case_first_match (pats : List (List PatternChar)) (subj : List Char) :
    caseFirst pats subj = pats.findIdx? (fun p => compilesB p && globMatch (parseAtoms p) subj) ∧
    ((∀ p ∈ pats, compilesB p = true) → caseFirst pats subj = specCase (pats.map parseAtoms) subj) := by
  have h1 : caseFirst pats subj = pats.findIdx? (fun p => compilesB p && globMatch (parseAtoms p) subj) := by
    unfold caseFirst
    rw [caseFirst_go]
    cases List.findIdx? _ pats <;> simp
  refine ⟨h1, ?_⟩
  intro hall
  rw [h1]
  unfold specCase
  rw [List.findIdx?_map]
  apply findIdx?_ext
  intro p hp
  simp [hall p hp, Function.comp]


end Proofs

theorem toLiteral_glob' (ast : Ast) (l : List Char) (h : toLiteral ast = some l) (s : List Char) :
    globAtoms ast s = decide (s = l) := Proofs.toLiteral_glob ast l h s

end YashModel.Fnmatch
