/-
  C04 — proofs about the `case` item loop with `|`-alternatives (`itemMatches`, `caseSelect`, `caseExec`).
-/
import YashModel.Fnmatch.DefinedLemmas

namespace YashModel.Fnmatch
namespace Proofs

theorem itemMatches_error {p : List PatternChar} {e : Err} (h : Pattern.parse p caseConfig = .error e)
    (subj : List Char) (r : List (List PatternChar)) :
    itemMatches subj (p :: r) = itemMatches subj r := by
  simp [itemMatches, h]

theorem itemMatches_ok {p : List PatternChar} {pat : Pattern} (h : Pattern.parse p caseConfig = .ok pat)
    (subj : List Char) (r : List (List PatternChar)) :
    itemMatches subj (p :: r) = (pat.isMatch subj || itemMatches subj r) := by
  simp only [itemMatches, h]
  cases pat.isMatch subj <;> simp

theorem itemMatches_spec (subj : List Char) (alts : List (List PatternChar)) :
    itemMatches subj alts = alts.any (fun p => compilesB p && globMatch (parseAtoms p) subj) := by
  induction alts with
  | nil => rfl
  | cons p r ih =>
    rw [List.any_cons]
    cases hp : Pattern.parse p caseConfig with
    | error e =>
      have hc : compilesB p = false := by simp [compilesB, hp]
      rw [itemMatches_error hp, hc, ih]; simp
    | ok pat =>
      have hc : compilesB p = true := by simp [compilesB, hp]
      have hm := isMatch_correct (parseAtoms p) caseConfig rfl rfl rfl pat hp subj
      rw [itemMatches_ok hp, hc, hm, ih]; simp

theorem caseSelect_go (subj : List Char) (items : List (List (List PatternChar))) (i : Nat) :
    caseSelect.go subj i items = (items.findIdx? (itemMatches subj)).map (· + i) := by
  induction items generalizing i with
  | nil => simp [caseSelect.go]
  | cons alts r ih =>
    rw [List.findIdx?_cons]
    simp only [caseSelect.go]
    cases itemMatches subj alts with
    | true => simp
    | false =>
      simp only [Bool.false_eq_true, if_false]
      rw [ih (i + 1)]
      cases List.findIdx? _ r <;> simp; omega

theorem caseSelect_first (items : List (List (List PatternChar))) (subj : List Char) :
    caseSelect items subj =
      items.findIdx? (fun alts => alts.any (fun p => compilesB p && globMatch (parseAtoms p) subj)) := by
  unfold caseSelect
  rw [caseSelect_go]
  have : itemMatches subj = fun alts => alts.any (fun p => compilesB p && globMatch (parseAtoms p) subj) :=
    funext (itemMatches_spec subj)
  rw [this]
  cases List.findIdx? _ items <;> simp

theorem caseExecGo_head (subj : List Char) (items : List (List (List PatternChar) × CaseCont)) (i : Nat) :
    (caseExecGo subj false i items).head? = caseSelect.go subj i (items.map Prod.fst) := by
  induction items generalizing i with
  | nil => rfl
  | cons it r ih =>
    obtain ⟨alts, c⟩ := it
    simp only [caseExecGo, List.map_cons, caseSelect.go, Bool.false_or]
    cases itemMatches subj alts with
    | true => simp
    | false => simp only [Bool.false_eq_true, if_false]; exact ih (i + 1)

theorem compilesB_of_defined {p : List PatternChar} (h : astDefined (parseAtoms p) = true) :
    compilesB p = true := by
  obtain ⟨pat, hp⟩ := defined_compiles (parseAtoms p) h caseConfig
  unfold compilesB Pattern.parse
  rw [hp]

theorem any_defined (subj : List Char) (r : List (List PatternChar))
    (h : ∀ q ∈ r, astDefined (parseAtoms q) = true) :
    (r.any fun p => compilesB p && globMatch (parseAtoms p) subj) =
      r.any ((altMatches subj) ∘ parseAtoms) := by
  induction r with
  | nil => rfl
  | cons q r2 ih =>
    simp only [List.any_cons, Function.comp]
    rw [compilesB_of_defined (h q (by simp)), ih (fun x hx => h x (by simp [hx]))]
    simp [altMatches, h q (by simp), Function.comp]

theorem caseSelect_spec (items : List (List (List PatternChar))) (subj : List Char)
    (hd : ∀ alts ∈ items, ∀ p ∈ alts, astDefined (parseAtoms p) = true) :
    caseSelect items subj = specCaseSelect (items.map (fun alts => alts.map parseAtoms)) subj := by
  rw [caseSelect_first]
  unfold specCaseSelect
  rw [List.findIdx?_map]
  apply findIdx?_ext
  intro alts ha
  simp only [Function.comp, List.any_map]
  exact any_defined subj alts (hd alts ha)

end Proofs
end YashModel.Fnmatch

namespace YashModel.Fnmatch
namespace Proofs

/-- the whole `case` run (which bodies, in which order) is the Spec's, when every alternative is inside the
    defined notation -/
theorem caseExecGo_spec (subj : List Char) (items : List (List (List PatternChar) × CaseCont))
    (hd : ∀ it ∈ items, ∀ p ∈ it.1, astDefined (parseAtoms p) = true) (falling : Bool) (i : Nat) :
    caseExecGo subj falling i items =
      specCaseExec subj falling i (items.map fun it => (it.1.map parseAtoms, it.2)) := by
  induction items generalizing falling i with
  | nil => rfl
  | cons it r ih =>
    obtain ⟨alts, c⟩ := it
    have hr : ∀ it ∈ r, ∀ p ∈ it.1, astDefined (parseAtoms p) = true :=
      fun it hi => hd it (List.mem_cons_of_mem _ hi)
    have hm : itemMatches subj alts = (alts.map parseAtoms).any (altMatches subj) := by
      rw [itemMatches_spec, any_defined subj alts (hd (alts, c) (by simp)), List.any_map]
    simp only [caseExecGo, specCaseExec, List.map_cons, hm, ih hr]
    cases c <;> rfl

/-- without failing expansions the error-aware run is the plain one -/
theorem caseExecEGo_no_error (subj : List Char) (items : List (List (List PatternChar) × CaseCont))
    (falling : Bool) (i : Nat) :
    caseExecEGo subj falling i (items.map fun it => (it.1.map some, it.2)) =
      (caseExecGo subj falling i items, false) := by
  have hE : ∀ alts : List (List PatternChar), itemMatchesE subj (alts.map some) = some (itemMatches subj alts) := by
    intro alts
    induction alts with
    | nil => rfl
    | cons p r ih =>
      simp only [List.map_cons, itemMatchesE, ih]
      cases hp : Pattern.parse p caseConfig with
      | error e => simp [itemMatches, hp]
      | ok pat => simp only [itemMatches, hp]; cases pat.isMatch subj <;> simp
  induction items generalizing falling i with
  | nil => rfl
  | cons it r ih =>
    obtain ⟨alts, c⟩ := it
    simp only [List.map_cons, caseExecEGo, caseExecGo, hE]
    cases falling <;> cases hm : itemMatches subj alts <;> cases c <;> simp [ih]

/-- the Spec's run starts at the Spec's selected item -/
theorem specCaseExec_head (subj : List Char) (items : List (List Ast × CaseCont)) (i : Nat) :
    (specCaseExec subj false i items).head? =
      ((items.map Prod.fst).findIdx? (fun alts => alts.any (altMatches subj))).map (· + i) := by
  induction items generalizing i with
  | nil => rfl
  | cons it r ih =>
    obtain ⟨alts, c⟩ := it
    simp only [specCaseExec, List.map_cons, List.findIdx?_cons, Bool.false_or]
    cases alts.any (altMatches subj) with
    | true => simp
    | false =>
      simp only [Bool.false_eq_true, if_false]
      rw [ih (i + 1)]
      cases List.findIdx? _ (r.map Prod.fst) <;> simp; omega

end Proofs
end YashModel.Fnmatch
