/-
  C04 — helper lemmas, part 14 (wave 2): the backtracking matcher of the regex-crate model is the textbook
  leftmost-first semantics: it returns the FIRST entry of the priority-ordered enumeration `reEnum`, and that
  enumeration lists exactly the rests of the order-free denotation `reDenotes` — for every regex of the
  fragment (anchors anywhere), greedy or lazy.
-/
import YashModel.Fnmatch.CompileLemmas

namespace YashModel.Fnmatch

theorem head?_flatMap {α β : Type} (f : α → List β) (l : List α) :
    (l.flatMap f).head? = l.findSome? (fun x => (f x).head?) := by
  induction l with
  | nil => rfl
  | cons x r ih =>
    simp only [List.flatMap_cons, List.findSome?_cons]
    cases hx : f x with
    | nil => simp [ih]
    | cons y ys => simp

theorem starLoop_choices (g : Bool) (k : List Char → Option (List Char)) :
    ∀ s, starLoop g k s = (starChoices g s).findSome? k := by
  intro s
  induction s with
  | nil => simp [starLoop, starChoices]
  | cons c t ih =>
    cases g with
    | true =>
      simp only [starLoop, starChoices, if_true, List.findSome?_append, ih]
      cases List.findSome? k (starChoices true t) <;> simp
    | false =>
      simp only [starLoop, starChoices, Bool.false_eq_true, if_false, List.findSome?_cons, ih]
      cases k (c :: t) <;> rfl

theorem altLoop_choices (k : List Char → Option (List Char)) (s : List Char) :
    ∀ bs, altLoop k s bs = (bs.filterMap (fun b => matchSimples b s)).findSome? k := by
  intro bs
  induction bs with
  | nil => rfl
  | cons b r ih =>
    simp only [altLoop, List.filterMap_cons]
    cases hm : matchSimples b s with
    | none => simp [ih]
    | some s' =>
      simp only [List.findSome?_cons, ih]
      cases k s' <;> rfl

theorem mem_starChoices (g : Bool) (s u : List Char) : u ∈ starChoices g s ↔ u <:+ s := by
  induction s with
  | nil =>
    simp only [starChoices, List.mem_singleton]
    constructor
    · rintro rfl; exact List.suffix_refl _
    · intro h; exact List.eq_nil_of_suffix_nil h
  | cons c t ih =>
    rw [List.suffix_cons_iff]
    cases g <;> simp [starChoices, ih, or_comm]

namespace Proofs

/-- the matcher returns the first rest in priority order -/
theorem matchHere_head (g : Bool) (n : Nat) (re : List ReAtom) :
    ∀ s, matchHere g n re s = (reEnum g n re s).head? := by
  induction re with
  | nil => intro s; rfl
  | cons a r ih =>
    have hfun : matchHere g n r = fun s => (reEnum g n r s).head? := funext ih
    intro s
    cases a with
    | bos =>
      simp only [matchHere, reEnum]
      split
      · exact ih s
      · rfl
    | eos =>
      simp only [matchHere, reEnum]
      split
      · exact ih s
      · rfl
    | any =>
      cases s with
      | nil => rfl
      | cons c t => simp only [matchHere, reEnum]; exact ih t
    | one x =>
      cases s with
      | nil => rfl
      | cons c t =>
        simp only [matchHere, reEnum]
        split
        · exact ih t
        · rfl
    | star =>
      simp only [matchHere, reEnum]
      rw [starLoop_choices, head?_flatMap, hfun]
    | alt bs =>
      simp only [matchHere, reEnum]
      rw [altLoop_choices, head?_flatMap, hfun]

/-- the enumeration lists exactly the denotation, whatever the greed -/
theorem mem_reEnum (g : Bool) (n : Nat) (re : List ReAtom) :
    ∀ s ρ, ρ ∈ reEnum g n re s ↔ reDenotes n re s ρ := by
  induction re with
  | nil => intro s ρ; simp [reEnum, reDenotes]
  | cons a r ih =>
    intro s ρ
    cases a with
    | bos =>
      simp only [reEnum, reDenotes]
      split
      · rename_i h; simp [h, ih]
      · rename_i h; simp [h]
    | eos =>
      simp only [reEnum, reDenotes]
      split
      · rename_i h; simp [h, ih]
      · rename_i h; simp [h]
    | any =>
      cases s with
      | nil => simp [reEnum, reDenotes]
      | cons c t =>
        simp only [reEnum, reDenotes, ih]
        constructor
        · intro h; exact ⟨c, t, rfl, h⟩
        · rintro ⟨c', t', he, h⟩
          cases he; exact h
    | one x =>
      cases s with
      | nil => simp [reEnum, reDenotes]
      | cons c t =>
        simp only [reEnum, reDenotes]
        split
        · rename_i h
          rw [ih]
          constructor
          · intro h'; exact ⟨c, t, rfl, h, h'⟩
          · rintro ⟨c', t', he, _, h'⟩
            cases he; exact h'
        · rename_i h
          simp only [List.not_mem_nil, false_iff]
          rintro ⟨c', t', he, hm, _⟩
          cases he; exact h hm
    | star =>
      simp only [reEnum, reDenotes, List.mem_flatMap, mem_starChoices, ih]
    | alt bs =>
      simp only [reEnum, reDenotes, List.mem_flatMap, List.mem_filterMap, ih]
      constructor
      · rintro ⟨s', ⟨b, hb, hm⟩, h⟩; exact ⟨b, hb, s', hm, h⟩
      · rintro ⟨b, hb, s', hm, h⟩; exact ⟨s', ⟨b, hb, hm⟩, h⟩

theorem matchHere_sound (g : Bool) (n : Nat) (re : List ReAtom) (s ρ : List Char)
    (h : matchHere g n re s = some ρ) : reDenotes n re s ρ := by
  rw [matchHere_head] at h
  exact (mem_reEnum g n re s ρ).mp (List.mem_of_head? h)

theorem matchHere_complete (g : Bool) (n : Nat) (re : List ReAtom) (s ρ : List Char)
    (h : reDenotes n re s ρ) : (matchHere g n re s).isSome = true := by
  rw [matchHere_head]
  have := (mem_reEnum g n re s ρ).mpr h
  cases hl : reEnum g n re s with
  | nil => rw [hl] at this; simp at this
  | cons x xs => simp

theorem findAt_is_leftmost (g : Bool) (re : List ReAtom) (text : List Char) (a0 : Nat)
    (h0 : a0 ≤ text.length) :
    match findAt g re text a0 with
    | none => ∀ i, a0 ≤ i → i ≤ text.length → ∀ ρ, ¬ reDenotes text.length re (text.drop i) ρ
    | some (a, e) => a0 ≤ a ∧ a ≤ text.length ∧
        (∃ ρ, (reEnum g text.length re (text.drop a)).head? = some ρ ∧ e = text.length - ρ.length) ∧
        ∀ i, a0 ≤ i → i < a → ∀ ρ, ¬ reDenotes text.length re (text.drop i) ρ := by
  unfold findAt
  rw [if_pos h0]
  have hspec := findFrom_spec g text.length re (text.drop a0) a0
  have key : ∀ i, a0 ≤ i → matchHere g text.length re ((text.drop a0).drop (i - a0)) = none →
      ∀ ρ, ¬ reDenotes text.length re (text.drop i) ρ := by
    intro i h1 hm ρ hd
    rw [List.drop_drop] at hm
    have e : a0 + (i - a0) = i := by omega
    rw [e] at hm
    have := matchHere_complete g _ re _ ρ hd
    rw [hm] at this; simp at this
  cases hf : findFrom g text.length re a0 (text.drop a0) with
  | none =>
    rw [hf] at hspec
    intro i h1 h2
    exact key i h1 (hspec (i - a0) (by simp; omega))
  | some ae =>
    obtain ⟨a, e⟩ := ae
    rw [hf] at hspec
    obtain ⟨j, ρ, hj, ha, hm, he, hmin⟩ := hspec
    simp at hj
    rw [List.drop_drop] at hm
    refine ⟨by omega, by omega, ⟨ρ, ?_, he⟩, ?_⟩
    · rw [ha, ← matchHere_head]; exact hm
    · intro i h1 h2
      exact key i h1 (hmin (i - a0) (by omega))

end Proofs
end YashModel.Fnmatch
