/-
  C04 — proofs of the proof-deepening round (restated in Theorems.lean).
-/
import YashModel.Fnmatch.GeneralRests

namespace YashModel.Fnmatch
namespace Proofs

theorem leastUpTo_spec {p : Nat → Bool} {n : Nat} :
    (leastUpTo p n = none ∧ ∀ j, j ≤ n → p j = false) ∨
    (∃ k, leastUpTo p n = some k ∧ k ≤ n ∧ p k = true ∧ ∀ j, j < k → p j = false) := by
  induction n with
  | zero =>
    simp only [leastUpTo]
    by_cases h : p 0 = true
    · exact Or.inr ⟨0, by simp [h], Nat.le_refl _, h, by intro j hj; omega⟩
    · have hf : p 0 = false := by simpa using h
      refine Or.inl ⟨by simp [hf], ?_⟩
      intro j hj
      have hj0 : j = 0 := by omega
      rw [hj0]; exact hf
  | succ n ih =>
    simp only [leastUpTo]
    rcases ih with ⟨h1, h2⟩ | ⟨k, h1, h2, h3, h4⟩
    · rw [h1]
      simp only []
      by_cases h : p (n + 1) = true
      · refine Or.inr ⟨n + 1, by simp [h], Nat.le_refl _, h, ?_⟩
        intro j hj; exact h2 j (by omega)
      · have hf : p (n + 1) = false := by simpa using h
        refine Or.inl ⟨by simp [hf], ?_⟩
        intro j hj
        by_cases hj' : j = n + 1
        · rw [hj']; exact hf
        · exact h2 j (by omega)
    · rw [h1]
      exact Or.inr ⟨k, rfl, by omega, h3, h4⟩

theorem noMulti_of_literal (ast : Ast) (l : List Char) (h : toLiteral ast = some l) : noMulti ast = true := by
  induction ast generalizing l with
  | nil => rfl
  | cons a r ih =>
    cases a with
    | char c =>
      simp only [toLiteral] at h
      split at h
      · rename_i l' hl
        simp only [noMulti, List.all_cons, noMultiAtom, Bool.true_and]
        exact ih l' hl
      · simp at h
    | anyChar => simp [toLiteral] at h
    | anyString => simp [toLiteral] at h
    | bracket b => simp [toLiteral] at h

/-- prefix removal for EVERY pattern: what is removed is a matching prefix, and nothing is removed only if
    no prefix matches (which prefix: the first in the matcher's priority order — the extremal one without
    multi-character elements, `trim_correct`) -/
theorem prefix_trim_sound (ast : Ast) (len : TrimLength) (p : Pattern)
    (h : Pattern.fromAst ast (trimConfig .prefix len) = .ok p) (v : List Char) :
    (trimValue p v = v ∧ ∀ k, k ≤ v.length → globMatch ast (v.take k) = false) ∨
    (∃ k, k ≤ v.length ∧ trimValue p v = v.drop k ∧ globMatch ast (v.take k) = true) := by
  by_cases hn : noMulti ast = true
  · rw [trim_correct ast hn .prefix len p h v]
    cases len with
    | shortest =>
      simp only [specTrim]
      rcases @leastUpTo_spec (fun k => globMatch ast (v.take k)) v.length with ⟨h1, h2⟩ | ⟨k, h1, h2, h3, _⟩
      · rw [h1]; exact Or.inl ⟨rfl, h2⟩
      · rw [h1]; exact Or.inr ⟨k, h2, rfl, h3⟩
    | longest =>
      simp only [specTrim]
      rcases @greatestUpTo_spec (fun k => globMatch ast (v.take k)) v.length with ⟨h1, h2⟩ | ⟨k, h1, h2, h3, _⟩
      · rw [h1]; exact Or.inl ⟨rfl, h2⟩
      · rw [h1]; exact Or.inr ⟨k, h2, rfl, h3⟩
  · unfold Pattern.fromAst at h
    split at h
    · rename_i l hl
      exact absurd (noMulti_of_literal ast l hl) hn
    · split at h
      · simp at h
      · rename_i r hr
        split at h
        · simp at h
        · rename_i re hre
          simp at h; subst h
          rw [toRegex_parse ast _ r hr] at hre
          cases hc : cAtoms ast with
          | none => simp [hc] at hre
          | some res =>
            simp [hc] at hre
            subst hre
            obtain ⟨hA, hB⟩ := matchHere_rests_general v.length res (cAtoms_noAnchor ast res hc)
            have hrg := rests_glob_general ast res hc
            rw [trimValue_eq]
            have hfind : ∀ g, findAt g (ReAtom.bos :: res) v 0 =
                (matchHere g v.length res v).map (fun ρ => (0, v.length - ρ.length)) := fun g => findAt_bos g res v
            have key : ∀ g,
                (cut v (findAt g (ReAtom.bos :: res) v 0) = v ∧
                  ∀ k, k ≤ v.length → globMatch ast (v.take k) = false) ∨
                (∃ k, k ≤ v.length ∧ cut v (findAt g (ReAtom.bos :: res) v 0) = v.drop k ∧
                  globMatch ast (v.take k) = true) := by
              intro g
              rw [hfind g]
              cases hm : matchHere g v.length res v with
              | none =>
                left
                refine ⟨rfl, ?_⟩
                intro k _
                cases hg : globMatch ast (v.take k) with
                | false => rfl
                | true =>
                  have hmem : v.drop k ∈ rests res v :=
                    (hrg v (v.drop k)).mpr ⟨v.take k, (List.take_append_drop k v).symm, hg⟩
                  have := hB g v _ hmem
                  rw [hm] at this; simp at this
              | some ρ =>
                right
                obtain ⟨pre, hv, hpre⟩ := (hrg v ρ).mp (hA g v ρ hm)
                refine ⟨pre.length, by rw [hv]; simp, ?_, ?_⟩
                · have hlen : v.length - ρ.length = pre.length := by rw [hv]; simp
                  simp only [Option.map_some, cut, List.take_zero, List.nil_append, hlen]
                · rw [hv, take_length_of_append]; exact hpre
            cases len with
            | shortest =>
              have := key false
              simpa [trimSearch, cfg_ps, Pattern.find, Pattern.at0] using this
            | longest =>
              have := key true
              simpa [trimSearch, cfg_pl, Pattern.find, Pattern.at0] using this

/-- the shell-level suffix trims for every defined pattern (no hypothesis on multi-character elements): the
    statement that a wrong `shortest_match` in `trim::apply`'s configuration would break -/
theorem trimApply_suffix_correct (pcs : List PatternChar) (hd : astDefined (parseAtoms pcs) = true)
    (len : TrimLength) (v : List Char) :
    trimApply .suffix len pcs v = specTrim .suffix len (parseAtoms pcs) v := by
  obtain ⟨p, hp⟩ := defined_compiles (parseAtoms pcs) hd (trimConfig .suffix len)
  unfold trimApply Pattern.parse
  rw [hp]
  exact trim_correct_suffix (parseAtoms pcs) len p hp v

end Proofs
end YashModel.Fnmatch
