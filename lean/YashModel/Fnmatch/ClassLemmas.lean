/-
  C04 — helper lemmas, part 2: bracket expressions without multi-character elements are emitted as a
  regex class that parses back to the expected items (`classItems_emit`, `parseClass_emit`) and denotes the
  same set (`cItems_mem`).
-/
import YashModel.Fnmatch.Lemmas

namespace YashModel.Fnmatch
open YashModel.Generated.FnmatchTables

/-! ### the class items a bracket item stands for -/

def cAtom1 : BracketAtom → Option ClassItem
  | .char c => some (.single c)
  | .collating [c] => some (.single c)
  | .collating _ => none
  | .equiv [c] => some (.single c)
  | .equiv _ => none
  | .cls name => (asciiKind name).map .ascii

def cItem : BracketItem → Option ClassItem
  | .atom a => cAtom1 a
  | .range s e =>
    match atomBound s, atomBound e with
    | some lo, some hi => if lo.toNat ≤ hi.toNat then some (.range lo hi) else none
    | _, _ => none

def cItems : List BracketItem → Option (List ClassItem)
  | [] => some []
  | it :: r =>
    match cItem it, cItems r with
    | some a, some b => some (a :: b)
    | _, _ => none

/-! ### single-character symbols -/

theorem single_of_not_multi {v : List Char} (hne : v ≠ []) (h : ¬ 1 < v.length) : ∃ c, v = [c] := by
  match v with
  | [] => exact absurd rfl hne
  | [c] => exact ⟨c, rfl⟩
  | a :: b :: t => simp at h

theorem fmtSingle_ok {a : BracketAtom} {x : List Char} (h : a.fmtSingle = .ok x) :
    ∃ c, atomBound a = some c ∧ x = fmtRegexChar c := by
  cases a with
  | char c => simp [BracketAtom.fmtSingle] at h; exact ⟨c, rfl, h.symm⟩
  | collating v =>
    cases v with
    | nil => simp [BracketAtom.fmtSingle] at h
    | cons c t => simp [BracketAtom.fmtSingle] at h; exact ⟨c, rfl, h.symm⟩
  | equiv v =>
    cases v with
    | nil => simp [BracketAtom.fmtSingle] at h
    | cons c t => simp [BracketAtom.fmtSingle] at h; exact ⟨c, rfl, h.symm⟩
  | cls n => simp [BracketAtom.fmtSingle] at h

/-! ### one step of `classItems` -/

theorem classItems_close (fuel : Nat) (acc : List ClassItem) (r : List Char) :
    classItems (fuel + 1) acc (']' :: r) = if acc = [] then none else some (acc.reverse, r) := by
  simp [classItems]

theorem classItems_step_kind (fuel : Nat) (acc : List ClassItem) (s r : List Char) (k : AsciiKind)
    (h : GoodHead s) (ht : classTok s = some (.kind k, r)) :
    classItems (fuel + 1) acc s = classItems fuel (.ascii k :: acc) r := by
  obtain ⟨c, t, rfl, _, _, hne⟩ := h
  simp [classItems, hne, ht]

theorem classItems_step_single (fuel : Nat) (acc : List ClassItem) (s r : List Char) (a : Char)
    (h : GoodHead s) (ht : classTok s = some (.chr a, r)) (hr : r.head? ≠ some '-') :
    classItems (fuel + 1) acc s = classItems fuel (.single a :: acc) r := by
  obtain ⟨c, t, rfl, _, _, hne⟩ := h
  simp [classItems, hne, ht, hr]

theorem classItems_step_range (fuel : Nat) (acc : List ClassItem) (s r' r'' : List Char) (a b : Char)
    (h : GoodHead s) (ht : classTok s = some (.chr a, '-' :: r')) (ht2 : classTok r' = some (.chr b, r'')) :
    classItems (fuel + 1) acc s =
      if a.toNat ≤ b.toNat then classItems fuel (.range a b :: acc) r'' else none := by
  obtain ⟨c, t, rfl, _, _, hne⟩ := h
  simp [classItems, hne, ht, ht2]

theorem collating_fmt_ok {v x : List Char}
    (hf : (if v = [] then (Except.error Err.emptyCollating : Except Err (List Char))
           else .ok (v.flatMap fmtRegexChar)) = .ok x)
    (hm : decide (1 < v.length) = false) : ∃ c, v = [c] ∧ x = fmtRegexChar c := by
  split at hf
  · simp at hf
  · rename_i hne
    simp at hf hm
    obtain ⟨c, rfl⟩ := single_of_not_multi hne (by omega)
    simp at hf
    exact ⟨c, rfl, hf.symm⟩

/-- what a non-multi item contributes: its text starts well and one `classItems` step consumes it -/
theorem item_emit {it : BracketItem} {x : List Char} (hm : it.multi = false) (hf : it.fmt = .ok x) :
    (∀ r, GoodHead (x ++ r)) ∧
    (∀ acc r fuel, r.head? ≠ some '-' →
      classItems (fuel + 1) acc (x ++ r) =
        match cItem it with
        | some ci => classItems fuel (ci :: acc) r
        | none => none) := by
  cases it with
  | atom a =>
    cases a with
    | char c =>
      simp [BracketItem.fmt, BracketAtom.fmt] at hf
      subst hf
      refine ⟨goodHead_fmtRegexChar c, ?_⟩
      intro acc r fuel hr
      rw [classItems_step_single _ _ _ _ _ (goodHead_fmtRegexChar c r) (classTok_char c r) hr]
      simp [cItem, cAtom1]
    | collating v =>
      simp only [BracketItem.fmt, BracketAtom.fmt] at hf
      simp only [BracketItem.multi, BracketAtom.multi] at hm
      obtain ⟨c, rfl, rfl⟩ := collating_fmt_ok hf hm
      refine ⟨goodHead_fmtRegexChar c, ?_⟩
      intro acc r fuel hr
      rw [classItems_step_single _ _ _ _ _ (goodHead_fmtRegexChar c r) (classTok_char c r) hr]
      simp [cItem, cAtom1]
    | equiv v =>
      simp only [BracketItem.fmt, BracketAtom.fmt] at hf
      simp only [BracketItem.multi, BracketAtom.multi] at hm
      obtain ⟨c, rfl, rfl⟩ := collating_fmt_ok hf hm
      refine ⟨goodHead_fmtRegexChar c, ?_⟩
      intro acc r fuel hr
      rw [classItems_step_single _ _ _ _ _ (goodHead_fmtRegexChar c r) (classTok_char c r) hr]
      simp [cItem, cAtom1]
    | cls name =>
      simp only [BracketItem.fmt, BracketAtom.fmt] at hf
      split at hf
      · rename_i hk
        simp at hf
        subst hf
        obtain ⟨k, hk'⟩ := Option.isSome_iff_exists.mp hk
        have hg : ∀ r, GoodHead (('[' :: ':' :: name ++ [':', ']']) ++ r) :=
          fun r => ⟨'[', _, rfl, by decide, by decide, by decide⟩
        refine ⟨hg, ?_⟩
        intro acc r fuel hr
        have e : ('[' :: ':' :: (name ++ [':', ']'])) ++ r = ('[' :: ':' :: name ++ [':', ']']) ++ r := by simp
        rw [e, classItems_step_kind _ _ _ _ _ (hg r) (classTok_class hk' r)]
        simp [cItem, cAtom1, hk']
      · simp at hf
  | range s e =>
    simp only [BracketItem.fmt] at hf
    split at hf
    · simp at hf
    · rename_i a ha
      split at hf
      · simp at hf
      · rename_i b hb
        simp at hf
        subst hf
        obtain ⟨lo, hlo, rfl⟩ := fmtSingle_ok ha
        obtain ⟨hi, hhi, rfl⟩ := fmtSingle_ok hb
        refine ⟨fun r => by rw [List.append_assoc]; exact goodHead_fmtRegexChar lo _, ?_⟩
        intro acc r fuel hr
        have e1 : (fmtRegexChar lo ++ '-' :: fmtRegexChar hi) ++ r
            = fmtRegexChar lo ++ ('-' :: (fmtRegexChar hi ++ r)) := by simp
        rw [e1, classItems_step_range _ _ _ _ _ _ _ (goodHead_fmtRegexChar lo _)
          (classTok_char lo _) (classTok_char hi r)]
        by_cases hle : lo.toNat ≤ hi.toNat <;> simp [cItem, hlo, hhi, hle]

theorem fmtItems_cons_ok {it : BracketItem} {r : List BracketItem} {x : List Char}
    (h : fmtItems (it :: r) = .ok x) : ∃ a b, it.fmt = .ok a ∧ fmtItems r = .ok b ∧ x = a ++ b := by
  simp only [fmtItems] at h
  split at h
  · simp at h
  · rename_i a ha
    split at h
    · simp at h
    · rename_i b hb
      simp at h
      exact ⟨a, b, ha, hb, h.symm⟩

/-- the text of a list of non-multi items, followed by the closing bracket, never starts with a raw
    `-` or `^` -/
theorem fmtItems_head {items : List BracketItem} {x : List Char}
    (hm : ∀ it ∈ items, it.multi = false) (hf : fmtItems items = .ok x) (r : List Char) :
    (x ++ ']' :: r).head? ≠ some '-' ∧ (x ++ ']' :: r).head? ≠ some '^' := by
  cases items with
  | nil => simp [fmtItems] at hf; subst hf; simp
  | cons it rest =>
    obtain ⟨a, b, ha, hb, rfl⟩ := fmtItems_cons_ok hf
    have hg := (item_emit (hm it (by simp)) ha).1 (b ++ ']' :: r)
    obtain ⟨c, t, hc, h1, h2, _⟩ := hg
    rw [List.append_assoc, hc]
    simp [h1, h2]

theorem classItems_emit (items : List BracketItem) :
    ∀ (x : List Char), (∀ it ∈ items, it.multi = false) → fmtItems items = .ok x →
    ∀ (acc : List ClassItem) (r : List Char) (fuel : Nat), items.length < fuel →
      classItems fuel acc (x ++ ']' :: r) =
        match cItems items with
        | some ci => if acc.reverse ++ ci = [] then none else some (acc.reverse ++ ci, r)
        | none => none := by
  induction items with
  | nil =>
    intro x _ hf acc r fuel hfuel
    simp [fmtItems] at hf
    subst hf
    obtain ⟨f, rfl⟩ : ∃ f, fuel = f + 1 := ⟨fuel - 1, by simp at hfuel; omega⟩
    simp [classItems_close, cItems]
  | cons it rest ih =>
    intro x hm hf acc r fuel hfuel
    obtain ⟨a, b, ha, hb, rfl⟩ := fmtItems_cons_ok hf
    obtain ⟨f, rfl⟩ : ∃ f, fuel = f + 1 := ⟨fuel - 1, by simp at hfuel; omega⟩
    have hm' : ∀ it ∈ rest, it.multi = false := fun i hi => hm i (by simp [hi])
    have hh := (fmtItems_head hm' hb r).1
    rw [List.append_assoc, (item_emit (hm it (by simp)) ha).2 acc _ f hh]
    cases hci : cItem it with
    | none => simp [cItems, hci]
    | some ci =>
      simp only []
      rw [ih b hm' hb (ci :: acc) r f (by simp at hfuel; omega)]
      cases hcr : cItems rest with
      | none => simp [cItems, hci, hcr]
      | some cr => simp [cItems, hci, hcr]

theorem cItems_ne_nil {items : List BracketItem} {ci : List ClassItem} (hne : items ≠ [])
    (h : cItems items = some ci) : ci ≠ [] := by
  cases items with
  | nil => exact absurd rfl hne
  | cons it rest =>
    simp only [cItems] at h
    split at h
    · simp at h; subst h; simp
    · simp at h

/-- a whole non-multi bracket, after its `[` -/
theorem parseClass_emit (compl : Bool) (items : List BracketItem) (x : List Char)
    (hm : ∀ it ∈ items, it.multi = false) (hf : fmtItems items = .ok x) (hne : items ≠ [])
    (r : List Char) (fuel : Nat) (hfuel : items.length < fuel) :
    parseClass fuel ((if compl then ['^'] else []) ++ x ++ ']' :: r) =
      (cItems items).map (fun ci => ({ neg := compl, items := ci }, r)) := by
  have hci := classItems_emit items x hm hf [] r fuel hfuel
  cases compl with
  | true =>
    have e : ((if true = true then ['^'] else []) ++ x ++ ']' :: r) = '^' :: (x ++ ']' :: r) := by simp
    rw [e]
    unfold parseClass
    rw [if_pos (by simp)]
    simp only [List.tail_cons]
    rw [hci]
    cases hc : cItems items with
    | none => simp
    | some ci => simp [cItems_ne_nil hne hc]
  | false =>
    have hh := (fmtItems_head hm hf r).2
    have e : ((if false = true then ['^'] else []) ++ x ++ ']' :: r) = x ++ ']' :: r := by simp
    rw [e]
    unfold parseClass
    rw [if_neg hh, hci]
    cases hc : cItems items with
    | none => simp
    | some ci => simp [cItems_ne_nil hne hc]

/-! ### the emitted class denotes the set of the bracket expression -/

theorem cItem_mem {it : BracketItem} {ci : ClassItem} (h : cItem it = some ci) (c : Char) :
    ci.mem c = itemHas it c := by
  cases it with
  | atom a =>
    cases a with
    | char a => simp [cItem, cAtom1] at h; subst h; simp [ClassItem.mem, itemHas, atomHas]
    | collating v =>
      match v, h with
      | [a], h =>
        simp [cItem, cAtom1] at h; subst h
        simp only [ClassItem.mem, itemHas, atomHas]
        rw [Bool.eq_iff_iff]; simp; exact eq_comm
    | equiv v =>
      match v, h with
      | [a], h =>
        simp [cItem, cAtom1] at h; subst h
        simp only [ClassItem.mem, itemHas, atomHas]
        rw [Bool.eq_iff_iff]; simp; exact eq_comm
    | cls name =>
      simp [cItem, cAtom1] at h
      obtain ⟨k, hk, rfl⟩ := h
      simp [ClassItem.mem, itemHas, atomHas, hk]
  | range s e =>
    simp only [cItem] at h
    split at h
    · rename_i lo hi hlo hhi
      split at h
      · simp at h; subst h; simp [ClassItem.mem, itemHas, hlo, hhi]
      · simp at h
    · simp at h

theorem cItems_mem {items : List BracketItem} {ci : List ClassItem} (h : cItems items = some ci)
    (c : Char) : ci.any (·.mem c) = items.any (itemHas · c) := by
  induction items generalizing ci with
  | nil => simp [cItems] at h; subst h; simp
  | cons it rest ih =>
    simp only [cItems] at h
    split at h
    · rename_i a b ha hb
      simp at h; subst h
      simp [cItem_mem ha, ih hb]
    · simp at h

end YashModel.Fnmatch
