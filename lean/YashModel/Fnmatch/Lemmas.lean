/-
  C04 — helper lemmas, part 1: the escaping tables against the regex-crate meta characters, and the
  token-level round trips (`classTok`, top-level characters).
-/
import YashModel.Fnmatch.Model
import YashModel.Fnmatch.Spec

namespace YashModel.Fnmatch
open YashModel.Generated.FnmatchTables

/-! ### the generated tables against the regex crate's special characters -/

theorem reMeta_sub_special : ∀ c ∈ reMeta, c ∈ specialChars := by decide

theorem classMeta_sub_special : ∀ c ∈ classMeta, c ∈ bracketSpecialChars ∨ c ∈ specialChars := by decide

theorem special_sub_escapable : ∀ c ∈ specialChars, c ∈ escapable := by decide

theorem bracketSpecial_sub_escapable : ∀ c ∈ bracketSpecialChars, c ∈ escapable := by decide

theorem not_special_not_meta {c : Char} (h : c ∉ specialChars) : c ∉ reMeta :=
  fun hm => h (reMeta_sub_special c hm)

theorem bs_mem : '\\' ∈ reMeta := by decide
theorem dot_mem : '.' ∈ reMeta := by decide
theorem lb_mem : '[' ∈ reMeta := by decide
theorem lp_mem : '(' ∈ reMeta := by decide
theorem star_mem : '*' ∈ reMeta := by decide
theorem rb_mem : ']' ∈ reMeta := by decide
theorem bar_mem : '|' ∈ reMeta := by decide
theorem rp_mem : ')' ∈ reMeta := by decide
theorem caret_mem : '^' ∈ reMeta := by decide
theorem cm_bs : '\\' ∈ classMeta := by decide
theorem cm_lb : '[' ∈ classMeta := by decide
theorem cm_rb : ']' ∈ classMeta := by decide
theorem cm_caret : '^' ∈ classMeta := by decide
theorem cm_dash : '-' ∈ classMeta := by decide

/-- a character that `fmt_regex_char` leaves alone is not special inside a class -/
theorem plain_not_classMeta {c : Char} (h : ¬(c ∈ bracketSpecialChars ∨ c ∈ specialChars)) :
    c ∉ classMeta := fun hm => h (classMeta_sub_special c hm)

theorem ne_of_not_mem {l : List Char} {c d : Char} (h : c ∉ l) (hd : d ∈ l) : c ≠ d :=
  fun e => h (e ▸ hd)

/-! ### heads of emitted text -/

/-- the first character of an emitted bracket item: never a raw `-`, `^`, `]` -/
def GoodHead (l : List Char) : Prop := ∃ c t, l = c :: t ∧ c ≠ '-' ∧ c ≠ '^' ∧ c ≠ ']'

theorem goodHead_fmtRegexChar (c : Char) (r : List Char) : GoodHead (fmtRegexChar c ++ r) := by
  unfold fmtRegexChar
  split
  · exact ⟨'\\', c :: r, rfl, by decide, by decide, by decide⟩
  · rename_i h
    have hm := plain_not_classMeta h
    exact ⟨c, r, rfl, ne_of_not_mem hm cm_dash, ne_of_not_mem hm cm_caret, ne_of_not_mem hm cm_rb⟩

theorem fmtRegexChar_length_pos (c : Char) : 0 < (fmtRegexChar c).length := by
  unfold fmtRegexChar; split <;> simp

/-! ### `classTok` round trips -/

theorem classTok_char (c : Char) (r : List Char) : classTok (fmtRegexChar c ++ r) = some (.chr c, r) := by
  unfold fmtRegexChar
  split
  · rename_i h
    have he : c ∈ escapable := by
      cases h with
      | inl h => exact bracketSpecial_sub_escapable c h
      | inr h => exact special_sub_escapable c h
    simp [classTok, he]
  · rename_i h
    have hm := plain_not_classMeta h
    have h1 : c ≠ '\\' := ne_of_not_mem hm cm_bs
    have h2 : c ≠ '[' := ne_of_not_mem hm cm_lb
    simp [classTok, h1, h2, hm]

theorem parseAsciiName_name (k : AsciiKind) (r : List Char) :
    parseAsciiName (k.name ++ ':' :: ']' :: r) = some (k, r) := by
  cases k <;> simp [parseAsciiName, AsciiKind.all, AsciiKind.name, List.find?, List.isPrefixOf]

theorem asciiKind_name {name : List Char} {k : AsciiKind} (h : asciiKind name = some k) : k.name = name := by
  unfold asciiKind at h
  have := List.find?_some h
  simpa using this

theorem classTok_class {name : List Char} {k : AsciiKind} (h : asciiKind name = some k) (r : List Char) :
    classTok ('[' :: ':' :: name ++ [':', ']'] ++ r) = some (.kind k, r) := by
  have hn := asciiKind_name h
  subst hn
  have := parseAsciiName_name k r
  simp [classTok, List.append_assoc, this]

/-! ### top-level characters -/

theorem parseTop_char (c : Char) (r : List Char) (fuel : Nat) :
    parseTop (fuel + 1) (fmtTopChar c ++ r) = (parseTop fuel r).map (.one (.lit c) :: ·) := by
  unfold fmtTopChar
  split
  · rename_i h
    have he : c ∈ escapable := special_sub_escapable c h
    simp [parseTop, he]
  · rename_i h
    have hm := not_special_not_meta h
    have h1 : c ≠ '\\' := ne_of_not_mem hm bs_mem
    have h2 : c ≠ '.' := ne_of_not_mem hm dot_mem
    have h3 : c ≠ '[' := ne_of_not_mem hm lb_mem
    have h4 : c ≠ '(' := ne_of_not_mem hm lp_mem
    simp [parseTop, h1, h2, h3, h4, hm]

end YashModel.Fnmatch
