/-
  C03 — the text an assignment stores reads back as the value: `parse_integer (to_string v) = v`.
-/
import YashModel.Arith.SemLemmas
namespace YashModel.Arith
open YashModel.Generated.ArithTables

theorem digitChar_facts (d : Nat) (h : d < 10) :
    Spec.digitOf (digitChar d) = d ∧ digitChar d ≠ 'x' ∧ digitChar d ≠ 'X' ∧ digitChar d ≠ '-' ∧
    digitChar d ≠ '+' ∧ (digitChar d = '0' → d = 0) := by
  have : d = 0 ∨ d = 1 ∨ d = 2 ∨ d = 3 ∨ d = 4 ∨ d = 5 ∨ d = 6 ∨ d = 7 ∨ d = 8 ∨ d = 9 := by omega
  rcases this with rfl | rfl | rfl | rfl | rfl | rfl | rfl | rfl | rfl | rfl <;> decide

/-- a character that can occur in a decimal numeral -/
def IsDec (c : Char) : Prop :=
  Spec.digitOf c < 10 ∧ c ≠ 'x' ∧ c ≠ 'X' ∧ c ≠ '-' ∧ c ≠ '+'

theorem isDec_digitChar (d : Nat) (h : d < 10) : IsDec (digitChar d) := by
  obtain ⟨h1, h2, h3, h4, h5, _⟩ := digitChar_facts d h
  exact ⟨by rw [h1]; exact h, h2, h3, h4, h5⟩

def valueOf (l : List Char) : Nat := l.foldl (fun a c => a * 10 + Spec.digitOf c) 0

theorem valueOf_append_single (l : List Char) (c : Char) :
    valueOf (l ++ [c]) = valueOf l * 10 + Spec.digitOf c := by
  unfold valueOf; rw [List.foldl_append]; rfl

/-- the digits of `n`: non-empty, decimal, worth `n`, and without a leading zero unless `n = 0` -/
theorem natDigits_facts (f : Nat) : ∀ n, n < f →
    natDigits f n ≠ [] ∧ (∀ c ∈ natDigits f n, IsDec c) ∧ valueOf (natDigits f n) = n ∧
    ((natDigits f n).head? = some '0' → natDigits f n = ['0'] ∧ n = 0) := by
  induction f with
  | zero => intro n h; omega
  | succ f ih =>
    intro n hn
    unfold natDigits
    by_cases h10 : n < 10
    · simp only [h10, if_true]
      obtain ⟨h1, _, _, _, _, h6⟩ := digitChar_facts n h10
      refine ⟨by simp, ?_, ?_, ?_⟩
      · intro c hc
        simp only [List.mem_singleton] at hc
        subst hc; exact isDec_digitChar n h10
      · simp [valueOf, h1]
      · intro hh
        simp only [List.head?_cons, Option.some.injEq] at hh
        have := h6 hh
        subst this
        exact ⟨rfl, rfl⟩
    · simp only [h10, if_false]
      have hq : n / 10 < f := by omega
      obtain ⟨hne, hdec, hval, hhead⟩ := ih (n / 10) hq
      have hr : n % 10 < 10 := Nat.mod_lt _ (by decide)
      refine ⟨by simp, ?_, ?_, ?_⟩
      · intro c hc
        rw [List.mem_append] at hc
        rcases hc with hc | hc
        · exact hdec c hc
        · simp only [List.mem_singleton] at hc
          subst hc; exact isDec_digitChar _ hr
      · rw [valueOf_append_single, hval, (digitChar_facts _ hr).1]; omega
      · intro hh
        have : (natDigits f (n / 10)).head? = some '0' := by
          cases hl : natDigits f (n / 10) with
          | nil => exact absurd hl hne
          | cons a t => rw [hl] at hh; simpa using hh
        have := (hhead this).2
        omega

theorem represent_of_inRange' {x : Int} (h : InRange x) : Spec.represent x = some x := by
  unfold Spec.represent; rw [if_pos ((inRange_iff x).mp h)]

theorem digitsValue_of_dec (l : List Char) (hne : l ≠ []) (hdec : ∀ c ∈ l, IsDec c) :
    Spec.digitsValue 10 l = some (valueOf l) := by
  unfold Spec.digitsValue valueOf
  have : l.all (fun c => decide (Spec.digitOf c < 10)) = true := by
    rw [List.all_eq_true]; intro c hc; simpa using (hdec c hc).1
  simp [hne, this]

/-- a decimal numeral without redundant leading zero is a C constant of that value -/
theorem constMagnitude_of_dec (l : List Char) (hne : l ≠ []) (hdec : ∀ c ∈ l, IsDec c)
    (hhead : l.head? = some '0' → l = ['0']) : Spec.constMagnitude l = some (valueOf l) := by
  cases l with
  | nil => exact absurd rfl hne
  | cons a t =>
    by_cases ha : a = '0'
    · subst ha
      have := hhead (by simp)
      injection this with _ ht
      subst ht
      decide
    · have h10 := digitsValue_of_dec (a :: t) hne hdec
      unfold Spec.constMagnitude
      split
      · rename_i heq; injection heq with h1 _; exact absurd h1 ha
      · rename_i heq; injection heq with h1 _; exact absurd h1 ha
      · rename_i heq; injection heq with h1 _; exact absurd h1 ha
      · exact h10

/-- ☆ the text written by an assignment reads back as the assigned value (Spec side) -/
theorem signedConstValue_showInt (v : Int) (hv : InRange v) : Spec.signedConstValue (showInt v) = some v := by
  unfold showInt
  by_cases hneg : v < 0
  · simp only [hneg, if_true]
    obtain ⟨hne, hdec, hval, hhead⟩ := natDigits_facts ((-v).toNat + 1) (-v).toNat (Nat.lt_succ_self _)
    have hm := constMagnitude_of_dec _ hne hdec (fun h => (hhead h).1)
    unfold Spec.signedConstValue
    simp only [hm, hval, Option.bind]
    have : -((((-v).toNat : Nat) : Int)) = v := by omega
    rw [this]
    exact represent_of_inRange' hv
  · simp only [hneg, if_false]
    obtain ⟨hne, hdec, hval, hhead⟩ := natDigits_facts (v.toNat + 1) v.toNat (Nat.lt_succ_self _)
    have hm := constMagnitude_of_dec _ hne hdec (fun h => (hhead h).1)
    generalize hl : natDigits (v.toNat + 1) v.toNat = l at *
    cases l with
    | nil => exact absurd rfl hne
    | cons a t =>
      have hd := hdec a (by simp)
      have hs : Spec.signedConstValue (a :: t) = Spec.constValue (a :: t) := by
        unfold Spec.signedConstValue
        split
        · rename_i heq; injection heq with h1 _; exact absurd h1 hd.2.2.2.1
        · rename_i heq; injection heq with h1 _; exact absurd h1 hd.2.2.2.2
        · rfl
      rw [hs]
      unfold Spec.constValue
      simp only [hm, hval, Option.bind]
      have : ((v.toNat : Nat) : Int) = v := by omega
      rw [this]
      exact represent_of_inRange' hv

theorem get_set_self (env : Env) (x : Name) (w : List Char) : (env.set x w).get x = some w := by
  induction env with
  | nil => simp [Env.set, Env.get]
  | cons p rest ih =>
    obtain ⟨n, u⟩ := p
    unfold Env.set
    by_cases h : n = x
    · simp [h, Env.get]
    · simp only [h, if_false]
      unfold Env.get at ih ⊢
      simp only [List.find?_cons, h, decide_false]
      exact ih

end YashModel.Arith
