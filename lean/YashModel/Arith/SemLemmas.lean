/-
  C03 — the Model's evaluation of a tree computes the Spec's exact C value (for trees on which C defines
  one).  Supporting lemmas; the theorem is `model_computes_C_value` in `Theorems.lean`.
-/
import YashModel.Arith.TreeLemmas
import YashModel.Arith.NumLemmas
namespace YashModel.Arith
open YashModel.Generated.ArithTables

/-! ### environments -/

theorem lookup_eq_get (env : Env) (x : Name) : Spec.lookup env x = env.get x := by
  induction env with
  | nil => simp [Spec.lookup, Env.get]
  | cons p rest ih =>
    obtain ⟨n, v⟩ := p
    unfold Spec.lookup Env.get
    by_cases h : n = x
    · simp [h]
    · simp only [h, if_false, List.find?_cons, decide_false, Bool.false_eq_true]
      rw [ih]; rfl

theorem update_eq_set (env : Env) (x : Name) (v : List Char) : Spec.update env x v = env.set x v := by
  induction env with
  | nil => rfl
  | cons p rest ih =>
    obtain ⟨n, w⟩ := p
    unfold Spec.update Env.set
    by_cases h : n = x
    · simp [h]
    · simp [h, ih]

theorem digitChar_eq (d : Nat) (h : d < 10) : Char.ofNat ('0'.toNat + d) = digitChar d := by
  have : d = 0 ∨ d = 1 ∨ d = 2 ∨ d = 3 ∨ d = 4 ∨ d = 5 ∨ d = 6 ∨ d = 7 ∨ d = 8 ∨ d = 9 := by omega
  rcases this with rfl | rfl | rfl | rfl | rfl | rfl | rfl | rfl | rfl | rfl <;> decide

theorem decimalNat_eq (f : Nat) : ∀ n, Spec.decimalNat f n = natDigits f n := by
  induction f with
  | zero => intro n; rfl
  | succ f ih =>
    intro n
    unfold Spec.decimalNat natDigits
    simp only [digitChar_eq (n % 10) (Nat.mod_lt _ (by decide)), ih]
    by_cases h : n < 10
    · simp [h, Nat.mod_eq_of_lt h]
    · simp [h]

/-- the Spec's decimal numeral is the text the Model's `to_string` writes -/
theorem decimal_eq_showInt (v : Int) : Spec.decimal v = showInt v := by
  unfold Spec.decimal showInt; simp only [decimalNat_eq]

theorem writeVar_eq (env : Env) (x : Name) (v : Int) : Spec.writeVar env x v = env.set x (showInt v) := by
  unfold Spec.writeVar; rw [decimal_eq_showInt]; exact update_eq_set _ _ _

theorem get_set_ne (env : Env) (x y : Name) (v : List Char) (h : x ≠ y) :
    (env.set y v).get x = env.get x := by
  induction env with
  | nil => simp [Env.set, Env.get, List.find?, h, Ne.symm h]
  | cons p rest ih =>
    obtain ⟨n, w⟩ := p
    unfold Env.set
    by_cases hn : n = y
    · subst hn
      simp [Env.get, List.find?, Ne.symm h]
    · simp only [hn, if_false]
      unfold Env.get at ih ⊢
      by_cases hx : n = x
      · simp [List.find?, hx]
      · simp only [List.find?_cons, hx, decide_false]
        exact ih

/-! ### shape of the term `evalTree` returns -/

theorem Res.bind_eq_ok {α β : Type} {r : Res α} {f : α → Res β} {b : β} (h : r.bind f = .ok b) :
    ∃ a, r = .ok a ∧ f a = .ok b := by
  cases r with
  | ok a => exact ⟨a, rfl, h⟩
  | error e => simp [Res.bind] at h
  | panic => simp [Res.bind] at h
  | fuel => simp [Res.bind] at h

theorem valueTerm_eq_ok {r : Res (Int × Env)} {t : Term} {env1 : Env} (h : valueTerm r = .ok (t, env1)) :
    ∃ v, r = .ok (v, env1) ∧ t = .value v := by
  unfold valueTerm at h
  obtain ⟨a, ha, hf⟩ := Res.bind_eq_ok h
  obtain ⟨v, e⟩ := a
  simp only [Res.ok.injEq, Prod.mk.injEq] at hf
  obtain ⟨h1, h2⟩ := hf
  subst h2
  exact ⟨v, ha, h1.symm⟩

/-- results that, when they are `Ok`, carry a value term (not a variable) -/
def ValRes (r : Res (Term × Env)) : Prop := ∀ t env1, r = .ok (t, env1) → ∃ v, t = Term.value v

theorem ValRes.bind {α : Type} (r : Res α) (f : α → Res (Term × Env)) (h : ∀ a, ValRes (f a)) :
    ValRes (r.bind f) := by
  intro t env1 hb
  obtain ⟨a, _, hf⟩ := Res.bind_eq_ok hb
  exact h a t env1 hf

theorem ValRes.valueTerm (x : Res (Int × Env)) : ValRes (valueTerm x) := by
  intro t env1 h
  obtain ⟨v, _, hv⟩ := valueTerm_eq_ok h
  exact ⟨v, hv⟩

theorem ValRes.okValue (v : Int) (env : Env) : ValRes (.ok (.value v, env)) := by
  intro t env1 h
  simp only [Res.ok.injEq, Prod.mk.injEq] at h
  exact ⟨v, h.1.symm⟩

theorem ValRes.ite (c : Prop) [Decidable c] (a b : Res (Term × Env)) (ha : ValRes a) (hb : ValRes b) :
    ValRes (if c then a else b) := by
  by_cases h : c <;> simp [h, ha, hb]

/-- the nodes whose evaluation can hand a *variable* to their parent -/
def isLazy : Spec.Expr → Bool
  | .var _ => true
  | .cond _ _ _ => true
  | _ => false

/-- every other node evaluates to a value term -/
theorem evalTree_value_form (e : Spec.Expr) (env : Env) (hl : isLazy e = false) : ValRes (evalTree e env) := by
  cases e with
  | num v => rw [evalTree]; exact ValRes.okValue v env
  | var x => simp [isLazy] at hl
  | pre op e =>
    rw [evalTree]
    exact ValRes.bind _ _ fun a => by obtain ⟨t, e1⟩ := a; exact ValRes.valueTerm _
  | post op e =>
    rw [evalTree]
    exact ValRes.bind _ _ fun a => by obtain ⟨t, e1⟩ := a; exact ValRes.valueTerm _
  | bin op l r =>
    rw [evalTree]
    refine ValRes.ite _ _ _ ?_ (ValRes.ite _ _ _ ?_ ?_)
    · exact ValRes.bind _ _ fun a => by
        obtain ⟨t, e1⟩ := a
        exact ValRes.bind _ _ fun a => ValRes.ite _ _ _ (ValRes.okValue _ _)
          (ValRes.bind _ _ fun b => by
            obtain ⟨t2, e2⟩ := b
            exact ValRes.bind _ _ fun _ => ValRes.bind _ _ fun _ => ValRes.okValue _ _)
    · exact ValRes.bind _ _ fun a => by
        obtain ⟨t, e1⟩ := a
        exact ValRes.bind _ _ fun a => ValRes.ite _ _ _ (ValRes.okValue _ _)
          (ValRes.bind _ _ fun b => by
            obtain ⟨t2, e2⟩ := b
            exact ValRes.bind _ _ fun _ => ValRes.bind _ _ fun _ => ValRes.okValue _ _)
    · exact ValRes.bind _ _ fun a => by
        obtain ⟨t, e1⟩ := a
        exact ValRes.bind _ _ fun b => by obtain ⟨t2, e2⟩ := b; exact ValRes.valueTerm _
  | cond c t e => simp [isLazy] at hl

/-- a variable term comes from a variable that occurs in the tree -/
theorem evalTree_variable_reads (e : Spec.Expr) : ∀ (env : Env) (x : Name) (env1 : Env),
    evalTree e env = .ok (.variable x, env1) → x ∈ Spec.reads e := by
  induction e with
  | num v => intro env x env1 h; simp [evalTree] at h
  | var y =>
    intro env x env1 h
    simp only [evalTree, Res.ok.injEq, Prod.mk.injEq, Term.variable.injEq] at h
    simp [Spec.reads, h.1]
  | pre op e _ =>
    intro env x env1 h
    obtain ⟨v, hv⟩ := evalTree_value_form (.pre op e) env rfl _ _ h
    simp at hv
  | post op e _ =>
    intro env x env1 h
    obtain ⟨v, hv⟩ := evalTree_value_form (.post op e) env rfl _ _ h
    simp at hv
  | bin op l r _ _ =>
    intro env x env1 h
    obtain ⟨v, hv⟩ := evalTree_value_form (.bin op l r) env rfl _ _ h
    simp at hv
  | cond c t e _ iht ihe =>
    intro env x env1 h
    rw [evalTree] at h
    obtain ⟨a, _, h1⟩ := Res.bind_eq_ok h
    obtain ⟨ct, e1⟩ := a
    obtain ⟨a, _, h2⟩ := Res.bind_eq_ok h1
    simp only [Spec.reads, List.mem_append]
    by_cases hc : a ≠ 0
    · rw [if_pos hc] at h2
      exact Or.inl (Or.inr (iht _ _ _ h2))
    · rw [if_neg hc] at h2
      exact Or.inr (ihe _ _ _ h2)

theorem evalTree_returns (e : Spec.Expr) (env : Env) : (evalTree e env).Returns := by
  rw [← eval_rpn_tree e _ env (Nat.le_refl _)]
  exact eval_returns_of_wf (rpn_wf e) _ env (Nat.le_refl _)

/-! ### which variables an evaluation can change -/

theorem requireVariable_eq_ok {t : Term} {n : Name} (h : requireVariable t = .ok n) : t = .variable n := by
  cases t with
  | value v => simp [requireVariable] at h
  | «variable» m => simp only [requireVariable, Res.ok.injEq] at h; rw [h]

theorem applyPrefix_env {t : Term} {op : PrefixOperator} {env env1 : Env} {v : Int}
    (h : applyPrefix t op env = .ok (v, env1)) :
    env1 = env ∨ ∃ y w, t = .variable y ∧ env1 = env.set y w ∧ (op = .Increment ∨ op = .Decrement) := by
  cases op <;> simp only [applyPrefix] at h
  · obtain ⟨n, hn, h⟩ := Res.bind_eq_ok h
    obtain ⟨a, _, h⟩ := Res.bind_eq_ok h
    obtain ⟨nv, _, h⟩ := Res.bind_eq_ok h
    simp only [assign, Res.ok.injEq, Prod.mk.injEq] at h
    exact Or.inr ⟨n, _, requireVariable_eq_ok hn, h.2.symm, Or.inl rfl⟩
  · obtain ⟨n, hn, h⟩ := Res.bind_eq_ok h
    obtain ⟨a, _, h⟩ := Res.bind_eq_ok h
    obtain ⟨nv, _, h⟩ := Res.bind_eq_ok h
    simp only [assign, Res.ok.injEq, Prod.mk.injEq] at h
    exact Or.inr ⟨n, _, requireVariable_eq_ok hn, h.2.symm, Or.inr rfl⟩
  · obtain ⟨a, _, h⟩ := Res.bind_eq_ok h
    simp only [Res.ok.injEq, Prod.mk.injEq] at h; exact Or.inl h.2.symm
  · obtain ⟨a, _, h⟩ := Res.bind_eq_ok h
    obtain ⟨b, _, h⟩ := Res.bind_eq_ok h
    simp only [Res.ok.injEq, Prod.mk.injEq] at h; exact Or.inl h.2.symm
  · obtain ⟨a, _, h⟩ := Res.bind_eq_ok h
    simp only [Res.ok.injEq, Prod.mk.injEq] at h; exact Or.inl h.2.symm
  · obtain ⟨a, _, h⟩ := Res.bind_eq_ok h
    simp only [Res.ok.injEq, Prod.mk.injEq] at h; exact Or.inl h.2.symm

theorem applyPostfix_env {t : Term} {op : PostfixOperator} {env env1 : Env} {v : Int}
    (h : applyPostfix t op env = .ok (v, env1)) :
    ∃ y w, t = .variable y ∧ env1 = env.set y w := by
  unfold applyPostfix at h
  obtain ⟨n, hn, h⟩ := Res.bind_eq_ok h
  obtain ⟨a, _, h⟩ := Res.bind_eq_ok h
  obtain ⟨nv, _, h⟩ := Res.bind_eq_ok h
  obtain ⟨p, hp, h⟩ := Res.bind_eq_ok h
  obtain ⟨p1, p2⟩ := p
  simp only [assign, Res.ok.injEq, Prod.mk.injEq] at hp h
  exact ⟨n, _, requireVariable_eq_ok hn, by rw [← h.2, ← hp.2]⟩

theorem applyBinary_env {l r : Term} {op : BinaryOperator} {env env1 : Env} {v : Int}
    (h : applyBinary l r op env = .ok (v, env1)) :
    env1 = env ∨ ∃ y w, l = .variable y ∧ env1 = env.set y w ∧ binKind op ≠ .plain := by
  unfold applyBinary at h
  split at h
  · obtain ⟨a, _, h⟩ := Res.bind_eq_ok h
    obtain ⟨b, _, h⟩ := Res.bind_eq_ok h
    obtain ⟨c, _, h⟩ := Res.bind_eq_ok h
    simp only [Res.ok.injEq, Prod.mk.injEq] at h; exact Or.inl h.2.symm
  · rename_i hk
    obtain ⟨n, hn, h⟩ := Res.bind_eq_ok h
    obtain ⟨b, _, h⟩ := Res.bind_eq_ok h
    simp only [assign, Res.ok.injEq, Prod.mk.injEq] at h
    exact Or.inr ⟨n, _, requireVariable_eq_ok hn, h.2.symm, by rw [hk]; decide⟩
  · rename_i hk
    obtain ⟨n, hn, h⟩ := Res.bind_eq_ok h
    obtain ⟨a, _, h⟩ := Res.bind_eq_ok h
    obtain ⟨b, _, h⟩ := Res.bind_eq_ok h
    obtain ⟨c, _, h⟩ := Res.bind_eq_ok h
    simp only [assign, Res.ok.injEq, Prod.mk.injEq] at h
    exact Or.inr ⟨n, _, requireVariable_eq_ok hn, h.2.symm, by rw [hk]; decide⟩

theorem evalTree_variable_lazy {e : Spec.Expr} {env env1 : Env} {y : Name}
    (h : evalTree e env = .ok (.variable y, env1)) : isLazy e = true := by
  cases hl : isLazy e with
  | true => rfl
  | false =>
    obtain ⟨v, hv⟩ := evalTree_value_form e env hl _ _ h
    simp at hv

/-- a variable handed up by a node that is not a conditional: the node is that variable, nothing ran -/
theorem evalTree_variable_of_not_cond {e : Spec.Expr} {env env1 : Env} {y : Name}
    (h : evalTree e env = .ok (.variable y, env1)) (hc : Spec.isCond e = false) : e = .var y := by
  have hl := evalTree_variable_lazy h
  cases e with
  | var z =>
    simp only [evalTree, Res.ok.injEq, Prod.mk.injEq, Term.variable.injEq] at h
    rw [h.1]
  | cond c t e => simp [Spec.isCond] at hc
  | num v => simp [isLazy] at hl
  | pre op e => simp [isLazy] at hl
  | post op e => simp [isLazy] at hl
  | bin op l r => simp [isLazy] at hl

theorem kindOf_eq_binKind (op : BinaryOperator) :
    (Spec.kindOf op = .plain ↔ binKind op = .plain) ∧ (Spec.kindOf op = .assign ↔ binKind op = .assign) ∧
    (Spec.kindOf op = .compound ↔ binKind op = .compound) := by
  cases op <;> decide

/-- frame: an evaluation leaves every variable outside `writes` as it was -/
theorem evalTree_frame (e : Spec.Expr) : ∀ (env : Env) (t : Term) (env1 : Env) (x : Name),
    Spec.inScope e = true → evalTree e env = .ok (t, env1) → x ∉ Spec.writes e → env1.get x = env.get x := by
  induction e with
  | num v =>
    intro env t env1 x _ h _
    simp only [evalTree, Res.ok.injEq, Prod.mk.injEq] at h; rw [← h.2]
  | var y =>
    intro env t env1 x _ h _
    simp only [evalTree, Res.ok.injEq, Prod.mk.injEq] at h; rw [← h.2]
  | pre op e ih =>
    intro env t env1 x hs h hw
    simp only [Spec.inScope, Bool.and_eq_true, Bool.not_eq_true', Bool.and_eq_false_iff] at hs
    simp only [Spec.writes, List.mem_append, not_or] at hw
    rw [evalTree] at h
    obtain ⟨a, ha, h⟩ := Res.bind_eq_ok h
    obtain ⟨t', env'⟩ := a
    obtain ⟨v, hv, _⟩ := valueTerm_eq_ok h
    have h1 := ih env t' env' x hs.1 ha hw.2
    rcases applyPrefix_env hv with he | ⟨y, w, ht, he, hop⟩
    · rw [he, h1]
    · subst ht
      have hnc : Spec.isCond e = false := by
        rcases hs.2 with h2 | h2
        · simp only [decide_eq_false_iff_not] at h2; exact absurd hop h2
        · exact h2
      have hev := evalTree_variable_of_not_cond ha hnc
      subst hev
      have hxy : x ≠ y := by
        intro e; apply hw.1; subst e
        simp [hop, Spec.lvalueName]
      rw [he, get_set_ne _ _ _ _ hxy, h1]
  | post op e ih =>
    intro env t env1 x hs h hw
    simp only [Spec.inScope, Bool.and_eq_true, Bool.not_eq_true'] at hs
    simp only [Spec.writes, List.mem_append, not_or] at hw
    rw [evalTree] at h
    obtain ⟨a, ha, h⟩ := Res.bind_eq_ok h
    obtain ⟨t', env'⟩ := a
    obtain ⟨v, hv, _⟩ := valueTerm_eq_ok h
    have h1 := ih env t' env' x hs.1 ha hw.2
    obtain ⟨y, w, ht, he⟩ := applyPostfix_env hv
    subst ht
    have hev := evalTree_variable_of_not_cond ha hs.2
    subst hev
    have hxy : x ≠ y := by
      intro e; apply hw.1; subst e
      simp [Spec.lvalueName]
    rw [he, get_set_ne _ _ _ _ hxy, h1]
  | bin op l r ihl ihr =>
    intro env t env1 x hs h hw
    simp only [Spec.inScope, Bool.and_eq_true] at hs
    obtain ⟨⟨hsl, hsr⟩, hs3⟩ := hs
    simp only [Spec.writes, List.mem_append, not_or] at hw
    obtain ⟨⟨hwk, hwl⟩, hwr⟩ := hw
    rw [evalTree] at h
    by_cases hor : op = .LogicalOr
    · rw [if_pos hor] at h
      obtain ⟨a, ha, h⟩ := Res.bind_eq_ok h
      obtain ⟨lt, e1⟩ := a
      obtain ⟨av, _, h⟩ := Res.bind_eq_ok h
      have h1 := ihl env lt e1 x hsl ha hwl
      by_cases hz : av ≠ 0
      · rw [if_pos hz] at h
        simp only [Res.ok.injEq, Prod.mk.injEq] at h
        rw [← h.2, h1]
      · rw [if_neg hz] at h
        obtain ⟨b, hb, h⟩ := Res.bind_eq_ok h
        obtain ⟨rt, e2⟩ := b
        obtain ⟨bv, _, h⟩ := Res.bind_eq_ok h
        obtain ⟨cv, _, h⟩ := Res.bind_eq_ok h
        simp only [Res.ok.injEq, Prod.mk.injEq] at h
        rw [← h.2, ihr e1 rt e2 x hsr hb hwr, h1]
    · rw [if_neg hor] at h
      by_cases hand : op = .LogicalAnd
      · rw [if_pos hand] at h
        obtain ⟨a, ha, h⟩ := Res.bind_eq_ok h
        obtain ⟨lt, e1⟩ := a
        obtain ⟨av, _, h⟩ := Res.bind_eq_ok h
        have h1 := ihl env lt e1 x hsl ha hwl
        by_cases hz : av = 0
        · rw [if_pos hz] at h
          simp only [Res.ok.injEq, Prod.mk.injEq] at h
          rw [← h.2, h1]
        · rw [if_neg hz] at h
          obtain ⟨b, hb, h⟩ := Res.bind_eq_ok h
          obtain ⟨rt, e2⟩ := b
          obtain ⟨bv, _, h⟩ := Res.bind_eq_ok h
          obtain ⟨cv, _, h⟩ := Res.bind_eq_ok h
          simp only [Res.ok.injEq, Prod.mk.injEq] at h
          rw [← h.2, ihr e1 rt e2 x hsr hb hwr, h1]
      · rw [if_neg hand] at h
        obtain ⟨a, ha, h⟩ := Res.bind_eq_ok h
        obtain ⟨lt, e1⟩ := a
        obtain ⟨b, hb, h⟩ := Res.bind_eq_ok h
        obtain ⟨rt, e2⟩ := b
        obtain ⟨v, hv, _⟩ := valueTerm_eq_ok h
        have h1 := ihl env lt e1 x hsl ha hwl
        have h2 := ihr e1 rt e2 x hsr hb hwr
        rcases applyBinary_env hv with he | ⟨y, w, ht, he, hk⟩
        · rw [he, h2, h1]
        · subst ht
          have hk' : ¬ Spec.kindOf op = .plain := fun hp => hk ((kindOf_eq_binKind op).1.mp hp)
          have hno : ¬ (op = .LogicalOr ∨ op = .LogicalAnd) := by
            intro h'; rcases h' with h' | h'
            · exact hor h'
            · exact hand h'
          simp only [hno, hk', if_false, Bool.and_eq_true, Bool.not_eq_true'] at hs3
          have hev := evalTree_variable_of_not_cond ha hs3.1.1
          subst hev
          have hxy : x ≠ y := by
            intro e; apply hwk; subst e
            simp [hk', Spec.lvalueName]
          rw [he, get_set_ne _ _ _ _ hxy, h2, h1]
  | cond c t e ihc iht ihe =>
    intro env tm env1 x hs h hw
    simp only [Spec.inScope, Bool.and_eq_true] at hs
    simp only [Spec.writes, List.mem_append, not_or] at hw
    rw [evalTree] at h
    obtain ⟨a, ha, h⟩ := Res.bind_eq_ok h
    obtain ⟨ct, e1⟩ := a
    obtain ⟨av, _, h⟩ := Res.bind_eq_ok h
    have h1 := ihc env ct e1 x hs.1.1 ha hw.1.1
    by_cases hz : av ≠ 0
    · rw [if_pos hz] at h
      rw [iht e1 tm env1 x hs.1.2 h hw.1.2, h1]
    · rw [if_neg hz] at h
      rw [ihe e1 tm env1 x hs.2 h hw.2, h1]

end YashModel.Arith
