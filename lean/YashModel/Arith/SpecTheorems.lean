/-
  C03 — property theorems about the Spec column itself (wave 3): its lexer is the code's tokenizer, trees and
  reverse-Polish vectors correspond one to one, and the per-case check of the driver ("the parser model builds
  `rpn` of the tree the Spec reads") makes the agreement of the two columns a theorem.
  Statements and non-vacuity examples only; lemmas are in `SpecLex.lean`.
-/
import YashModel.Arith.SpecLex
import YashModel.Arith.SpecParse
namespace YashModel.Arith
open YashModel.Generated.ArithTables

/-- ☆ the Spec column's own lexer (`Spec.lex`: Unicode `White_Space`, the LONGEST C punctuator that is a prefix,
    maximal words, C integer constants) and the code's tokenizer (`tokenize`: first entry of `OPERATORS` in
    source order, radix rules of `next_token`, `from_str_radix`) read EVERY text — well-formed or not, ASCII or
    not, with any fuel — as the same token sequence and stop at the same place; in particular "longest
    punctuator" and "first match in table order" choose the same lexeme for every text. -/
theorem spec_lexer_is_the_tokenizer (f : Nat) (s : List Char) :
    (Spec.lex f s).map tokOfSToken = tokenize f s ∧
    Spec.longestPunct s = (findOp s).map (·.1) :=
  ⟨lex_eq_tokenize f s, longestPunct_eq_findOp s⟩

example : Spec.lex 9 "a<<=0x1F+ +b".toList =
    [.ident ['a'], .punct ['<', '<', '='], .num 31, .punct ['+'], .punct ['+'], .ident ['b']] ∧
    tokenize 9 "a<<=0x1F+ +b".toList =
    [.term (.variable ['a']), .op .LessLessEqual, .term (.value 31), .op .Plus, .op .Plus, .term (.variable ['b'])] ∧
    Spec.lex 9 "1 2 08".toList = [.num 1, .num 2, .bad] := by decide +kernel

/-- ☆ a tree is determined by the vector the parser lays out for it (`rpn` is injective): two different trees
    never share a vector, so "the parser built `rpn e`" says that the parser read the tree `e` and no other. -/
theorem rpn_injective (a b : Spec.Expr) (h : rpn a = rpn b) : a = b :=
  rpn_inj a b h

/-- ☆ what the driver's per-case check buys.  For every case in which the Spec reads a tree `e` from the text the
    driver checks that the code's parser model builds exactly `rpn e` (`FAIL:…` otherwise).  Given that
    (decidable, checked) fact, the agreement of the Model column with the Spec column is a theorem, for every
    environment: on a tree on which C defines a value (`inScope`, literals in i64) `eval_with_config` returns
    exactly the Spec's value and final variables, an evaluation error exactly when the Spec has none; and under
    `portable` it is rejected exactly when the tree holds `++`/`--`. -/
theorem checked_tree_gets_its_C_value (src : List Char) (e : Spec.Expr) (env : Env)
    (hp : parse src = .ok (rpn e)) (hs : Spec.inScope e = true) (hl : litsInRange e) :
    (match Spec.evalExact e env with
      | some (v, env') => evalStr src env = .value v env'
      | none => ∃ err, evalStr src env = .evalError err) ∧
    evalStrPortable src env = if Spec.hasIncDec e then none else some (evalStr src env) := by
  have hm := model_computes_C_value e env hs hl
  constructor
  · unfold evalStr
    rw [hp]
    simp only
    cases hx : Spec.evalExact e env with
    | none =>
      rw [hx] at hm
      obtain ⟨err, he⟩ := hm
      exact ⟨err, by rw [he]; rfl⟩
    | some p =>
      obtain ⟨v, env'⟩ := p
      rw [hx] at hm
      simp only at hm ⊢
      rw [hm]; rfl
  · unfold evalStrPortable evalStr
    rw [hp]
    simp only [portable_rejects_exactly_incdec]

/-- the hypotheses are met by a text that is not a rendering produced by `render` (blanks, a redundant pair of
    parentheses, a hexadecimal constant) -/
example : (parse " ( x = 0x10 ) * 2 ".toList).toOption =
      some (rpn (.bin .Multiply (.bin .Assign (.var ['x']) (.num 16)) (.num 2))) ∧
    Spec.inScope (.bin .Multiply (.bin .Assign (.var ['x']) (.num 16)) (.num 2)) = true ∧
    Spec.parseText " ( x = 0x10 ) * 2 ".toList = some (.bin .Multiply (.bin .Assign (.var ['x']) (.num 16)) (.num 2)) := by
  decide +kernel

/-- ☆ the same for texts with non-ASCII identifiers (`W`/`V` lines, where the tree comes from the harness because
    the Spec's lexer is ASCII C): whatever `char::is_alphanumeric` accepts (`extra` arbitrary), if the code's
    parser model builds the vector of the tree `e`, then `eval_with_config` returns exactly the Spec's value of
    `e` — identifiers such as `é`, `変数`, `٣` are variables like any other. -/
theorem checked_tree_gets_its_C_value_unicode (extra : List Char) (src : List Char) (e : Spec.Expr) (env : Env)
    (hp : parseU extra src = .ok (rpn e)) (hs : Spec.inScope e = true) (hl : litsInRange e) :
    (match Spec.evalExact e env with
      | some (v, env') => evalStrU extra src env = .value v env'
      | none => ∃ err, evalStrU extra src env = .evalError err) ∧
    evalStrPortableU extra src env = if Spec.hasIncDec e then none else some (evalStrU extra src env) := by
  have hm := model_computes_C_value e env hs hl
  constructor
  · unfold evalStrU
    rw [hp]
    simp only
    cases hx : Spec.evalExact e env with
    | none =>
      rw [hx] at hm
      obtain ⟨err, he⟩ := hm
      exact ⟨err, by rw [he]; rfl⟩
    | some p =>
      obtain ⟨v, env'⟩ := p
      rw [hx] at hm
      simp only at hm ⊢
      rw [hm]; rfl
  · unfold evalStrPortableU evalStrU
    rw [hp]
    simp only [portable_rejects_exactly_incdec]

example : (parseU ['é'] "é += 2".toList).toOption = some (rpn (.bin .AddAssign (.var ['é']) (.num 2))) ∧
    evalStrU ['é'] "é += 2".toList [(['é'], ['5'])] = .value 7 [(['é'], ['7'])] ∧
    Spec.evalExact (.bin .AddAssign (.var ['é']) (.num 2)) [(['é'], ['5'])] = some (7, [(['é'], ['7'])]) := by
  decide +kernel

/-! ## evaluation order of failures, skipped operands -/

/-- ☆ which of two failing operands is reported, and what is not evaluated at all — for ALL trees (in scope or
    not), operators and environments, on `eval` run on the parser's vector:
    (a) an error of the LEFT operand (or of the condition of `?:`) is the error of the whole expression: the
        right operand / the branches are never evaluated after it;
    (b) if the left operand returns, an error of the right operand of a non-lazy operator is reported (it is
        evaluated in the environment the left operand left behind) — before the left VALUE is read, so
        `j + 1/0` with an unreadable `j` is `DivisionByZero`;
    (c) `||` with a true, `&&` with a false left operand and `?:` return without evaluating the skipped operand:
        whatever it is (`1/0`, `x++`, `x = 5`), the result and the variables are those after the left operand /
        the selected branch. -/
theorem first_failure_is_reported (op : BinaryOperator) (l r c t e : Spec.Expr) (env env1 : Env) (err : EvalErr)
    (lt : Term) (a : Int) :
    (evalOf l env = .error err → evalOf (.bin op l r) env = .error err) ∧
    (evalOf c env = .error err → evalOf (.cond c t e) env = .error err) ∧
    (evalOf l env = .ok (lt, env1) → op ≠ .LogicalOr → op ≠ .LogicalAnd → evalOf r env1 = .error err →
      evalOf (.bin op l r) env = .error err) ∧
    (evalOf l env = .ok (lt, env1) → intoValue lt env1 = .ok a → a ≠ 0 →
      evalOf (.bin .LogicalOr l r) env = .ok (.value 1, env1)) ∧
    (evalOf l env = .ok (lt, env1) → intoValue lt env1 = .ok 0 →
      evalOf (.bin .LogicalAnd l r) env = .ok (.value 0, env1)) ∧
    (evalOf c env = .ok (lt, env1) → intoValue lt env1 = .ok a →
      evalOf (.cond c t e) env = if a ≠ 0 then evalOf t env1 else evalOf e env1) := by
  simp only [evalOf, (eval_rpn _ _).2]
  refine ⟨?_, ?_, ?_, ?_, ?_, ?_⟩
  · intro h
    by_cases h1 : op = .LogicalOr
    · simp [evalTree, h1, h, Res.bind]
    · by_cases h2 : op = .LogicalAnd
      · simp [evalTree, h2, h, Res.bind]
      · simp [evalTree, h1, h2, h, Res.bind]
  · intro h; simp [evalTree, h, Res.bind]
  · intro h h1 h2 hr; simp [evalTree, h1, h2, h, hr, Res.bind]
  · intro h hv ha; simp [evalTree, h, hv, ha, Res.bind]
  · intro h hv; simp [evalTree, h, hv, Res.bind]
  · intro h hv; simp [evalTree, h, hv, Res.bind]

example :
    evalStr "0 && (1/0)".toList [] = .value 0 [] ∧
    evalStr "1 || x++".toList [(['x'], ['4'])] = .value 1 [(['x'], ['4'])] ∧
    evalStr "1 ? 2 : (x = 1/0)".toList [] = .value 2 [] ∧
    evalStr "(1/0) + j".toList [(['j'], "junk".toList)] = .evalError .divisionByZero ∧
    evalStr "j + (1/0)".toList [(['j'], "junk".toList)] = .evalError .divisionByZero ∧
    evalStr "(j+0) + (1/0)".toList [(['j'], "junk".toList)] = .evalError .invalidVariableValue := by
  decide +kernel

/-! ## the Spec's parser reads every spelling back -/

/-- ☆ the read-back theorem for the Spec column's own lexer and parser (`Spec.parseText`: maximal-munch lexer,
    recursive descent by the C grammar levels assignment / conditional / 10 binary levels / unary / postfix /
    primary).  For EVERY tree `e` — constants, variables, the 6 prefix and 2 postfix operators, all 29 binary
    operators incl. the right-associative assignments, `?:`, any nesting — and every text `s` that the tokenizer
    reads as the tokens of `e` with the needed and ANY number of redundant parentheses (`renderTop d e`;
    `tokenize_every_spelling` shows that every spelling — any Unicode white space, hex/octal constants — is such
    a text), the Spec reads `s` as exactly the tree `e`.  Together with `parse_render_redundant` (the code's
    parser model builds `rpn e` from the same tokens) and `model_computes_C_value`, the agreement of the Spec
    column with the Model column on every spelling of every in-scope tree is unconditional: the driver's
    per-case check `parse text = rpn (tree the Spec reads)` is a theorem on these texts. -/
theorem spec_reads_every_spelling (d : Deco) (e : Spec.Expr) (s : List Char)
    (htok : tokenize (s.length + 1) s = renderTop d e) :
    Spec.parseText s = some e ∧ parse s = .ok (rpn e) := by
  have hlex : Spec.lex (s.length + 1) s = S (renderTop d e) :=
    S_of_map _ _ (by rw [lex_eq_tokenize, htok]) (renderTop_noerr d e)
  constructor
  · unfold Spec.parseText
    simp only [hlex]
    rw [pAssign_renderTop d e _ (by simp [S]; omega)]
  · unfold parse
    simp only [htok]
    exact parse_render_redundant d e _ (Nat.le_refl _)

example :
    tokenize 40 "x = a- -b ? y |= 3 : c++*((1+2))".toList =
      renderTop (fun x => if x = .bin .Add (.num 1) (.num 2) then 1 else 0)
        (.bin .Assign (.var ['x'])
          (.cond (.bin .Subtract (.var ['a']) (.pre .NumericNegation (.var ['b'])))
            (.bin .BitwiseOrAssign (.var ['y']) (.num 3))
            (.bin .Multiply (.post .Increment (.var ['c'])) (.bin .Add (.num 1) (.num 2))))) := by
  decide +kernel

/-! ## which adjacent tokens need a separator -/

/-- ☆ exactly which operator may be followed directly by which character: the tokenizer reads the lexeme of `o`
    followed by the character `c` (and anything after it) as the operator `o` and continues at `c` IF AND ONLY IF
    no lexeme of `OPERATORS` continues `o`'s lexeme with `c` (`opGlue`, computed from the generated table).  So
    `a<-b`, `x=-1`, `a*-b`, `1?-2:+3`, `a++ +b` written `a+++b` need no separator, and `a- -b`, `a+ ++b`,
    `a< <b`, `x= =1`, `a& &b` need one; `glueSafe` (the licence of `tokenize_every_spelling` and of
    `text_gets_its_C_value_all_spellings` to omit white space) is now this condition, so it is necessary and
    sufficient between two operators. -/
theorem operators_touch_exactly_when_opGlue (o : Operator) (c : Char) (rest : List Char) :
    nextToken (lexemeOf o ++ c :: rest) = some (.op o, c :: rest) ↔ opGlue (lexemeOf o) c = false := by
  constructor
  · intro h
    cases hg : opGlue (lexemeOf o) c with
    | false => rfl
    | true =>
      exfalso
      unfold opGlue at hg
      rw [List.any_eq_true] at hg
      obtain ⟨q, hq, hpre⟩ := hg
      have hpre' : lexemeOf o ++ [c] <+: q.1 := List.isPrefixOf_iff_prefix.mp hpre
      obtain ⟨hq3, hqt⟩ := table_prefix_closed q hq
      have hplen : (lexemeOf o ++ [c]).length ≤ q.1.length := hpre'.length_le
      have hin : lexemeOf o ++ [c] ∈ operators.map (·.1) := by
        rw [List.prefix_iff_eq_take.mp hpre']
        apply hqt
        simp only [List.length_append, List.length_cons, List.length_nil] at hplen ⊢
        simp only [List.mem_cons, List.not_mem_nil, or_false]
        omega
      rw [List.mem_map] at hin
      obtain ⟨q', hq', hq'l⟩ := hin
      obtain ⟨c0, u0, hl0⟩ := lexemeOf_cons o
      have hws : isWhitespace c0 = false :=
        table_facts.2.2.1 _ (table_facts.2.2.2 o) c0 (by simp [hl0])
      have hdw : (lexemeOf o ++ c :: rest).dropWhile isWhitespace = lexemeOf o ++ c :: rest := by
        rw [hl0]; simp [hws]
      have hq's : q'.1 <+: lexemeOf o ++ c :: rest := by
        rw [hq'l]
        have : lexemeOf o ++ c :: rest = (lexemeOf o ++ [c]) ++ rest := by simp
        rw [this]; exact List.prefix_append _ _
      unfold nextToken at h
      simp only [hdw] at h
      cases hf : findOp (lexemeOf o ++ c :: rest) with
      | none =>
        unfold findOp at hf
        rw [List.find?_eq_none] at hf
        exact hf q' hq' (List.isPrefixOf_iff_prefix.mpr hq's)
      | some r =>
        obtain ⟨lex', o'⟩ := r
        obtain ⟨_, _, hmax⟩ := findOp_longest _ _ _ hf
        have hlen := hmax q' hq' hq's
        rw [hq'l] at hlen
        rw [hl0] at h hf
        simp only [List.cons_append, List.head?_cons] at h
        rw [← hl0] at hf
        rw [hl0, List.cons_append] at hf
        rw [hf] at h
        simp only [Option.some.injEq, Prod.mk.injEq] at h
        have := congrArg List.length h.2
        simp only [List.length_drop, List.length_cons, List.length_append] at this hlen
        rw [hl0] at hlen
        simp only [List.length_cons, List.length_append, List.length_nil] at hlen
        omega
  · intro hg
    exact nextToken_op_general o (c :: rest) (Or.inr (Or.inr hg))

example : opGlue (lexemeOf .Less) '-' = false ∧ opGlue (lexemeOf .Equal) '-' = false ∧
    opGlue (lexemeOf .Minus) '-' = true ∧ opGlue (lexemeOf .Plus) '+' = true ∧ opGlue (lexemeOf .Less) '<' = true ∧
    opGlue (lexemeOf .Equal) '=' = true ∧ opGlue (lexemeOf .PlusPlus) '+' = false ∧
    glueSafe (.op .Less) (.op .Minus) ∧ ¬ glueSafe (.op .Minus) (.op .Minus) ∧ ¬ glueSafe (.op .Plus) (.op .PlusPlus) ∧
    tokenize 9 "a<-b".toList = [.term (.variable ['a']), .op .Less, .op .Minus, .term (.variable ['b'])] ∧
    tokenize 9 "a+++b".toList = [.term (.variable ['a']), .op .PlusPlus, .op .Plus, .term (.variable ['b'])] := by
  refine ⟨by decide, by decide, by decide, by decide, by decide, by decide, by decide, ?_, ?_, ?_, by decide, by decide⟩
  · exact Or.inr (Or.inr (fun c hc => by simp [lexemeOf, operators] at hc; subst hc; decide))
  · intro h; rcases h with h | h | h
    · exact absurd h (by decide)
    · exact absurd h (by decide)
    · exact absurd (h '-' (by decide)) (by decide)
  · intro h; rcases h with h | h | h
    · exact absurd h (by decide)
    · exact absurd h (by decide)
    · exact absurd (h '+' (by decide)) (by decide)

/-! ## `$x` inside `$(( ))`: text substitution before parsing -/

/-- ☆ POSIX 2.6.4: the expression is treated as if in double quotes, i.e. `$x` is replaced by the VALUE TEXT of `x`
    before the arithmetic is parsed.  When that text is a single constant token (`Spells v (value n)`: term
    characters, first one a digit, a C constant with value `n`) and what follows cannot extend it, substitution
    commutes with tokenizing: `substText` puts `v` in front of the substituted rest, the tokenizer reads `v…` as
    the ONE token `n` exactly where it reads `x…` as the one token `x`, and that variable token has the value `n`
    — so `$(( $x … ))` and `$(( x … ))` agree.  When the value is not a single token they do not (next example). -/
theorem substitution_commutes_with_tokenizing (f : Nat) (st st2 : Store) (status s2 : Nat) (c : Char)
    (cs after after' v t : List Char) (n : Int) (env : Env)
    (hname : ∀ ch ∈ c :: cs, isTermChar ch = true) (hdig : isAsciiDigit c = false)
    (hafter : ∀ ch, after.head? = some ch → isTermChar ch = false)
    (hafter' : ∀ ch, after'.head? = some ch → isTermChar ch = false)
    (hv : textOf st (c :: cs) = some v) (hsp : Spells v (.term (.value n)))
    (hrest : substText f st status after = .ok (t, st2, s2))
    (ht : ∀ ch, t.head? = some ch → isTermChar ch = false) (henv : env.get (c :: cs) = some v) :
    substText (f + 1) st status ('$' :: ((c :: cs) ++ after)) = .ok (v ++ t, st2, s2) ∧
    nextToken (v ++ t) = some (.term (.value n), t) ∧
    nextToken ((c :: cs) ++ after') = some (.term (.variable (c :: cs)), after') ∧
    intoValue (.variable (c :: cs)) env = .ok n := by
  have hterm : ∀ (r : List Char), (∀ ch, r.head? = some ch → isTermChar ch = false) →
      ∀ tm, Terminates (.term tm) r := by
    intro r hr tm
    cases r with
    | nil => trivial
    | cons a b => exact hr a rfl
  refine ⟨?_, (nextToken_spells v t _ hsp (hterm t ht _)).1, ?_, ?_⟩
  · rw [substText_dollar f st status c cs after v hname hafter hv, hrest]; rfl
  · exact (nextToken_spells (c :: cs) after' (.term (.variable (c :: cs)))
      ⟨rfl, by simp, hname, fun a ha => by simp at ha; subst ha; exact hdig⟩ (hterm after' hafter' _)).1
  · simp only [Spells] at hsp
    exact var_constant_agrees (c :: cs) v n env hsp.1 (by rw [parseConstant_eq_spec v hsp.1]; exact hsp.2.2) henv

/-- the value `1+2` is NOT a single token: `$(( $x * 3 ))` is the text `1+2 * 3` (five tokens, value 7), neither the
    value of `(1+2) * 3` nor what `$(( x * 3 ))` gives — reading `x` by name rejects the value (no recursive
    evaluation of variable values) -/
example :
    tokenize 9 "1+2 * 3".toList = [.term (.value 1), .op .Plus, .term (.value 2), .op .Asterisk, .term (.value 3)] ∧
    evalStr "1+2 * 3".toList [(['x'], "1+2".toList)] = .value 7 [(['x'], "1+2".toList)] ∧
    evalStr "(1+2) * 3".toList [] = .value 9 [] ∧
    evalStr "x * 3".toList [(['x'], "1+2".toList)] = .evalError .invalidVariableValue ∧
    evalStr "x * 3".toList [(['x'], ['3'])] = .value 9 [(['x'], ['3'])] := by
  decide +kernel

/-! ## which cause a failing tree is allowed to report -/

/-- ☆ `Spec.fails e env` — the set of causes ISO C admits for the failure of the tree `e` (every failing operand of
    an unsequenced operator in any order; left-first for `|| && ?:`; an operation's own reason only when its
    operands have values; computed on the tree, independent of the code's evaluation order) — is empty EXACTLY
    when the Spec gives `e` a value, for every tree with literals in i64 and every environment.  So the Spec
    column's verdict on a failing case (`the reported cause ∈ Spec.fails`) is never vacuous and never contradicts
    its verdict on values; it is a singleton whenever only one operand or operation fails. -/
theorem admissible_causes_iff_no_value (e : Spec.Expr) (env : Env) (hl : litsInRange e) :
    Spec.fails e env = [] ↔ (Spec.evalExact e env).isSome :=
  fails_nil_iff e env hl

/-- one failing operation: one admissible cause; two failing operands of `+`: both admissible (C does not say which
    is evaluated first; the code reports the subtree that fails first, reading bare variables last); the skipped
    operand of `&&` is not a cause -/
example :
    Spec.fails (.bin .Divide (.num 1) (.num 0)) [] = [.reason .divisionByZero] ∧
    Spec.fails (.bin .ShiftLeft (.pre .NumericNegation (.num 1)) (.pre .NumericNegation (.num 1))) [] =
      [.reason .leftShiftOfNegative] ∧
    Spec.fails (.bin .Add (.var ['j']) (.bin .Divide (.num 1) (.num 0))) [(['j'], "junk".toList)] =
      [.value, .reason .divisionByZero] ∧
    evalStr "j + 1/0".toList [(['j'], "junk".toList)] = .evalError .divisionByZero ∧
    evalStr "(j+0) + 1/0".toList [(['j'], "junk".toList)] = .evalError .invalidVariableValue ∧
    Spec.fails (.bin .LogicalAnd (.num 0) (.bin .Divide (.num 1) (.num 0))) [] = [] ∧
    Spec.fails (.post .Increment (.num 3)) [] = [.notLvalue] := by
  decide +kernel

end YashModel.Arith
