/-
  C03 — property theorems about the Spec column itself (wave 3): its lexer is the code's tokenizer, trees and
  reverse-Polish vectors correspond one to one, and the per-case check of the driver ("the parser model builds
  `rpn` of the tree the Spec reads") makes the agreement of the two columns a theorem.
  Statements and non-vacuity examples only; lemmas are in `SpecLex.lean`.
-/
import YashModel.Arith.SpecLex
namespace YashModel.Arith
open YashModel.Generated.ArithTables

/-- ☆ the Spec column's own lexer (`Spec.lex`: Unicode `White_Space`, the LONGEST C punctuator that is a prefix,
    maximal words, C integer constants) and the code's tokenizer (`tokenize`: first entry of `OPERATORS` in
    source order, radix rules of `next_token`, `from_str_radix`) read EVERY text — well-formed or not, ASCII or
    not, with any fuel — as the same token sequence and stop at the same place; in particular "longest
    punctuator" and "first match in table order" choose the same lexeme for every text. -/
theorem spec_lexer_is_the_tokenizer (f : Nat) (s : List Char) :
    (Spec.lex f s).map tokOfSToken = tokenize f s ∧
    Spec.longestPunct s = (findOp s).map (·.1) :=
  ⟨lex_eq_tokenize f s, longestPunct_eq_findOp s⟩

example : Spec.lex 9 "a<<=0x1F+ +b".toList =
    [.ident ['a'], .punct ['<', '<', '='], .num 31, .punct ['+'], .punct ['+'], .ident ['b']] ∧
    tokenize 9 "a<<=0x1F+ +b".toList =
    [.term (.variable ['a']), .op .LessLessEqual, .term (.value 31), .op .Plus, .op .Plus, .term (.variable ['b'])] ∧
    Spec.lex 9 "1 2 08".toList = [.num 1, .num 2, .bad] := by decide +kernel

/-- ☆ a tree is determined by the vector the parser lays out for it (`rpn` is injective): two different trees
    never share a vector, so "the parser built `rpn e`" says that the parser read the tree `e` and no other. -/
theorem rpn_injective (a b : Spec.Expr) (h : rpn a = rpn b) : a = b :=
  rpn_inj a b h

/-- ☆ what the driver's per-case check buys.  For every case in which the Spec reads a tree `e` from the text the
    driver checks that the code's parser model builds exactly `rpn e` (`FAIL:…` otherwise).  Given that
    (decidable, checked) fact, the agreement of the Model column with the Spec column is a theorem, for every
    environment: on a tree on which C defines a value (`inScope`, literals in i64) `eval_with_config` returns
    exactly the Spec's value and final variables, an evaluation error exactly when the Spec has none; and under
    `portable` it is rejected exactly when the tree holds `++`/`--`. -/
theorem checked_tree_gets_its_C_value (src : List Char) (e : Spec.Expr) (env : Env)
    (hp : parse src = .ok (rpn e)) (hs : Spec.inScope e = true) (hl : litsInRange e) :
    (match Spec.evalExact e env with
      | some (v, env') => evalStr src env = .value v env'
      | none => ∃ err, evalStr src env = .evalError err) ∧
    evalStrPortable src env = if Spec.hasIncDec e then none else some (evalStr src env) := by
  have hm := model_computes_C_value e env hs hl
  constructor
  · unfold evalStr
    rw [hp]
    simp only
    cases hx : Spec.evalExact e env with
    | none =>
      rw [hx] at hm
      obtain ⟨err, he⟩ := hm
      exact ⟨err, by rw [he]; rfl⟩
    | some p =>
      obtain ⟨v, env'⟩ := p
      rw [hx] at hm
      simp only at hm ⊢
      rw [hm]; rfl
  · unfold evalStrPortable evalStr
    rw [hp]
    simp only [portable_rejects_exactly_incdec]

/-- the hypotheses are met by a text that is not a rendering produced by `render` (blanks, a redundant pair of
    parentheses, a hexadecimal constant) -/
example : (parse " ( x = 0x10 ) * 2 ".toList).toOption =
      some (rpn (.bin .Multiply (.bin .Assign (.var ['x']) (.num 16)) (.num 2))) ∧
    Spec.inScope (.bin .Multiply (.bin .Assign (.var ['x']) (.num 16)) (.num 2)) = true ∧
    Spec.parseText " ( x = 0x10 ) * 2 ".toList = some (.bin .Multiply (.bin .Assign (.var ['x']) (.num 16)) (.num 2)) := by
  decide +kernel

/-- ☆ the same for texts with non-ASCII identifiers (`W`/`V` lines, where the tree comes from the harness because
    the Spec's lexer is ASCII C): whatever `char::is_alphanumeric` accepts (`extra` arbitrary), if the code's
    parser model builds the vector of the tree `e`, then `eval_with_config` returns exactly the Spec's value of
    `e` — identifiers such as `é`, `変数`, `٣` are variables like any other. -/
theorem checked_tree_gets_its_C_value_unicode (extra : List Char) (src : List Char) (e : Spec.Expr) (env : Env)
    (hp : parseU extra src = .ok (rpn e)) (hs : Spec.inScope e = true) (hl : litsInRange e) :
    (match Spec.evalExact e env with
      | some (v, env') => evalStrU extra src env = .value v env'
      | none => ∃ err, evalStrU extra src env = .evalError err) ∧
    evalStrPortableU extra src env = if Spec.hasIncDec e then none else some (evalStrU extra src env) := by
  have hm := model_computes_C_value e env hs hl
  constructor
  · unfold evalStrU
    rw [hp]
    simp only
    cases hx : Spec.evalExact e env with
    | none =>
      rw [hx] at hm
      obtain ⟨err, he⟩ := hm
      exact ⟨err, by rw [he]; rfl⟩
    | some p =>
      obtain ⟨v, env'⟩ := p
      rw [hx] at hm
      simp only at hm ⊢
      rw [hm]; rfl
  · unfold evalStrPortableU evalStrU
    rw [hp]
    simp only [portable_rejects_exactly_incdec]

example : (parseU ['é'] "é += 2".toList).toOption = some (rpn (.bin .AddAssign (.var ['é']) (.num 2))) ∧
    evalStrU ['é'] "é += 2".toList [(['é'], ['5'])] = .value 7 [(['é'], ['7'])] ∧
    Spec.evalExact (.bin .AddAssign (.var ['é']) (.num 2)) [(['é'], ['5'])] = some (7, [(['é'], ['7'])]) := by
  decide +kernel

end YashModel.Arith
