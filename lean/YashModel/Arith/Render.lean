/-
  C03 — `render`: the token sequence of an expression tree with the parentheses the C grammar needs and no
  others (what the harness writes), and the proof that the precedence-climbing parser reads it back as `rpn`
  of that tree (`parse_render`).  Proof devices only; nothing here is part of the executable model.
-/
import YashModel.Arith.FuelLemmas
import YashModel.Arith.TreeLemmas
namespace YashModel.Arith
open YashModel.Generated.ArithTables

/-! ### from the abstract operators back to tokens (inverse of the generated `as_*` tables) -/

def opOfBinary (b : BinaryOperator) : Operator :=
  (allOperators.find? fun o => o.as_binary.map (·.1) = some b).getD .Plus

def opOfPrefix (p : PrefixOperator) : Operator :=
  (allOperators.find? fun o => o.as_prefix = some p).getD .Plus

def opOfPostfix (p : PostfixOperator) : Operator :=
  (allOperators.find? fun o => o.as_postfix = some p).getD .PlusPlus

def assocOf (b : BinaryOperator) : Associativity := ((opOfBinary b).as_binary.map (·.2)).getD .Left
def bprec (b : BinaryOperator) : Nat := (opOfBinary b).precedence

theorem binFacts (b : BinaryOperator) :
    (opOfBinary b).as_binary = some (b, assocOf b) ∧ 1 ≤ bprec b ∧ bprec b ≤ 12 ∧
    opOfBinary b ≠ .Question ∧ (opOfBinary b).as_postfix = none ∧
    (assocOf b = .Right → bprec b = 1) ∧ (assocOf b = .Left → 3 ≤ bprec b) := by
  cases b <;> decide

theorem prefixFacts (p : PrefixOperator) :
    (opOfPrefix p).as_prefix = some p ∧ opOfPrefix p ≠ .OpenParen := by
  cases p <;> decide

theorem postfixFacts (p : PostfixOperator) : (opOfPostfix p).as_postfix = some p := by
  cases p <;> decide

theorem otherFacts :
    Operator.Question.precedence = 2 ∧ Operator.Question.as_postfix = none ∧
    Operator.Colon.precedence = 0 ∧ Operator.Colon.as_postfix = none ∧
    Operator.CloseParen.precedence = 0 ∧ Operator.CloseParen.as_postfix = none := by decide

/-! ### rendering -/

/-- grammar level of the root: 15 primary, 14 postfix, 13 unary, binary operators by the generated
    precedence, 2 conditional -/
def level : Spec.Expr → Nat
  | .num _ => 15
  | .var _ => 15
  | .post _ _ => 14
  | .pre _ _ => 13
  | .cond _ _ _ => 2
  | .bin b _ _ => bprec b

def paren (p : Bool) (ts : List Tok) : List Tok :=
  if p then [.op .OpenParen] ++ ts ++ [.op .CloseParen] else ts

def render : Spec.Expr → List Tok
  | .num v => [.term (.value v)]
  | .var x => [.term (.variable x)]
  | .pre op e => .op (opOfPrefix op) :: paren (decide (level e < 13)) (render e)
  | .post op e => paren (decide (level e < 14)) (render e) ++ [.op (opOfPostfix op)]
  | .bin b l r =>
    if assocOf b = .Left then
      paren (decide (level l < bprec b)) (render l) ++ [.op (opOfBinary b)] ++
        paren (decide (level r ≤ bprec b)) (render r)
    else
      paren (decide (level l < 13)) (render l) ++ [.op (opOfBinary b)] ++ render r
  | .cond c t e =>
    paren (decide (level c ≤ 2)) (render c) ++ [.op .Question] ++ render t ++ [.op .Colon] ++
      paren (decide (level e < 2)) (render e)

/-- precedence below which the token after a complete operand must lie -/
def stopLevel : Spec.Expr → Nat
  | .bin b _ _ => if assocOf b = .Left then bprec b + 1 else 1
  | .cond _ _ _ => 2
  | _ => 16

def Stops (m : Nat) : List Tok → Prop
  | .op o :: _ => o.precedence < m
  | _ => True

def NoPostfix : List Tok → Prop
  | .op o :: _ => o.as_postfix = none
  | _ => True

theorem parsePostfix_noPostfix (rest : List Tok) (acc : List Ast) (h : NoPostfix rest) :
    parsePostfix rest acc = (rest, acc) := by
  cases rest with
  | nil => rfl
  | cons t ts =>
    cases t with
    | term x => rfl
    | err => rfl
    | op o =>
      simp only [NoPostfix] at h
      simp [parsePostfix, h]

theorem parseLoop_stops (f m : Nat) (rest : List Tok) (acc : List Ast) (h : Stops m rest) :
    parseLoop (f + 1) rest m acc = .ok (rest, acc) := by
  cases rest with
  | nil => simp [parseLoop]
  | cons t ts =>
    cases t with
    | term x => simp [parseLoop]
    | err => simp [parseLoop]
    | op o =>
      simp only [Stops] at h
      simp [parseLoop, h]

theorem stops_mono {m m' : Nat} {rest : List Tok} (h : Stops m rest) (hle : m ≤ m') : Stops m' rest := by
  cases rest with
  | nil => trivial
  | cons t ts =>
    cases t with
    | term x => trivial
    | err => trivial
    | op o => simp only [Stops] at *; omega

/-- the loop at a binary operator that does not stop it -/
theorem parseLoop_binary_ok (f m : Nat) (o : Operator) (b : BinaryOperator) (a : Associativity)
    (rest : List Tok) (acc : List Ast) (hb : o.as_binary = some (b, a)) (hq : o ≠ .Question)
    (hm : ¬ o.precedence < m) (toks1 : List Tok) (acc1 : List Ast)
    (h : parseTree f rest (if a = .Left then o.precedence + 1 else o.precedence) acc = .ok (toks1, acc1)) :
    parseLoop (f + 1) (.op o :: rest) m acc =
      parseLoop f toks1 m (acc1 ++ [.binary b (acc1.length - acc.length)]) := by
  simp only [parseLoop, hm, if_false, hq, hb, h]

theorem parseLoop_binary_err (f m : Nat) (o : Operator) (b : BinaryOperator) (a : Associativity)
    (rest : List Tok) (acc : List Ast) (hb : o.as_binary = some (b, a)) (hq : o ≠ .Question)
    (hm : ¬ o.precedence < m) (e : SynErr)
    (h : parseTree f rest (if a = .Left then o.precedence + 1 else o.precedence) acc = .error e) :
    parseLoop (f + 1) (.op o :: rest) m acc = .error e := by
  simp only [parseLoop, hm, if_false, hq, hb, h]

/-- the loop at `?` -/
theorem parseLoop_question_err1 (f m : Nat) (rest : List Tok) (acc : List Ast)
    (hm : ¬ Operator.Question.precedence < m) (e : SynErr) (h : parseTree f rest 1 acc = .error e) :
    parseLoop (f + 1) (.op .Question :: rest) m acc = .error e := by
  simp only [parseLoop, hm, if_false, if_true, h]

theorem parseLoop_question_err2 (f m : Nat) (rest rest1 : List Tok) (acc acc1 : List Ast)
    (hm : ¬ Operator.Question.precedence < m) (e : SynErr)
    (h1 : parseTree f rest 1 acc = .ok (.op .Colon :: rest1, acc1))
    (h2 : parseTree f rest1 Operator.Question.precedence acc1 = .error e) :
    parseLoop (f + 1) (.op .Question :: rest) m acc = .error e := by
  simp only [parseLoop, hm, if_false, if_true, h1, h2]

theorem parseLoop_question_ok (f m : Nat) (rest rest1 toks2 : List Tok) (acc acc1 acc2 : List Ast)
    (hm : ¬ Operator.Question.precedence < m)
    (h1 : parseTree f rest 1 acc = .ok (.op .Colon :: rest1, acc1))
    (h2 : parseTree f rest1 Operator.Question.precedence acc1 = .ok (toks2, acc2)) :
    parseLoop (f + 1) (.op .Question :: rest) m acc =
      parseLoop f toks2 m (acc2 ++ [.conditional (acc1.length - acc.length) (acc2.length - acc1.length)]) := by
  simp only [parseLoop, hm, if_false, if_true, h1, h2]

/-! ### the invariants -/

theorem loop_stops_result {f m : Nat} {rest : List Tok} {acc : List Ast} {r : Except SynErr PState}
    (hs : Stops m rest) (h : parseLoop f rest m acc = r) (hr : r ≠ .error .fuel) : r = .ok (rest, acc) := by
  cases f with
  | zero => simp [parseLoop] at h; exact absurd h.symm hr
  | succ f => rw [parseLoop_stops f m rest acc hs] at h; exact h.symm

/-- an operand of postfix/unary level standing where `parse_leaf` starts -/
def LeafU (e : Spec.Expr) : Prop :=
  13 ≤ level e → ∀ (f : Nat) (rest : List Tok) (acc : List Ast) (r : Except SynErr PState),
    (14 ≤ level e ∨ NoPostfix rest) → parseLeaf f (render e ++ rest) acc = r → r ≠ .error .fuel →
    r = .ok (parsePostfix rest (acc ++ rpn e))

/-- an operand standing where `parse_tree min` starts: the call behaves like the operator loop entered
    after the operand -/
def TreeU (e : Spec.Expr) : Prop :=
  ∀ (f m : Nat) (rest : List Tok) (acc : List Ast) (r : Except SynErr PState),
    1 ≤ m → m ≤ level e → NoPostfix rest → Stops (stopLevel e) rest →
    parseTree f (render e ++ rest) m acc = r → r ≠ .error .fuel →
    ∃ f', parseLoop f' rest m (acc ++ rpn e) = r

theorem stopLevel_pos (e : Spec.Expr) : 1 ≤ stopLevel e := by
  cases e <;> simp [stopLevel]
  split <;> omega

theorem level_pos (e : Spec.Expr) : 1 ≤ level e := by
  cases e <;> simp [level]
  exact (binFacts _).2.1

theorem stopLevel_gt (e : Spec.Expr) (k : Nat) (h3 : 3 ≤ k) (h : k ≤ level e) : k < stopLevel e := by
  cases e with
  | num v => simp [level, stopLevel] at *; omega
  | var x => simp [level, stopLevel] at *; omega
  | pre op e => simp [level, stopLevel] at *; omega
  | post op e => simp [level, stopLevel] at *; omega
  | cond c t e => simp [level] at h; omega
  | bin b l r =>
    simp only [level] at h
    simp only [stopLevel]
    cases ha : assocOf b with
    | Left => simp; omega
    | Right => have := (binFacts b).2.2.2.2.2.1 ha; omega

theorem stopLevel_of_unary (e : Spec.Expr) (h : 13 ≤ level e) : stopLevel e = 16 := by
  cases e with
  | num v => rfl
  | var x => rfl
  | pre op e => rfl
  | post op e => rfl
  | cond c t e => simp [level] at h
  | bin b l r => simp only [level] at h; have := (binFacts b).2.2.1; omega

theorem stopLevel_ge_two (e : Spec.Expr) (h : 2 ≤ level e) : 2 ≤ stopLevel e := by
  cases e with
  | num v => simp [stopLevel]
  | var x => simp [stopLevel]
  | pre op e => simp [stopLevel]
  | post op e => simp [stopLevel]
  | cond c t e => simp [stopLevel]
  | bin b l r =>
    simp only [level] at h
    simp only [stopLevel]
    cases ha : assocOf b with
    | Left => simp; omega
    | Right => have := (binFacts b).2.2.2.2.2.1 ha; omega

/-- a parenthesised operand where `parse_leaf` starts -/
theorem leaf_paren (e : Spec.Expr) (hT : TreeU e) (f : Nat) (rest : List Tok) (acc : List Ast)
    (r : Except SynErr PState) (h : parseLeaf f (paren true (render e) ++ rest) acc = r)
    (hr : r ≠ .error .fuel) : r = .ok (parsePostfix rest (acc ++ rpn e)) := by
  cases f with
  | zero => simp [parseLeaf] at h; exact absurd h.symm hr
  | succ f =>
    simp only [paren, if_true, List.cons_append, List.nil_append, List.append_assoc, parseLeaf] at h
    have hnp : NoPostfix (Tok.op Operator.CloseParen :: rest) := otherFacts.2.2.2.2.2
    have hst : ∀ k, 1 ≤ k → Stops k (Tok.op Operator.CloseParen :: rest) := by
      intro k hk; simp only [Stops, otherFacts.2.2.2.2.1]; omega
    cases hrt : parseTree f (render e ++ Tok.op Operator.CloseParen :: rest) 1 acc with
    | error err =>
      simp only [hrt] at h
      have hne : (Except.error err : Except SynErr PState) ≠ .error .fuel := by rw [h]; exact hr
      obtain ⟨f', hf'⟩ := hT f 1 _ acc _ (Nat.le_refl _) (level_pos e) hnp (hst _ (stopLevel_pos e)) hrt hne
      have := loop_stops_result (hst 1 (Nat.le_refl _)) hf' hne
      simp at this
    | ok p =>
      obtain ⟨t1, a1⟩ := p
      have hne : (Except.ok (t1, a1) : Except SynErr PState) ≠ .error .fuel := by simp
      obtain ⟨f', hf'⟩ := hT f 1 _ acc _ (Nat.le_refl _) (level_pos e) hnp (hst _ (stopLevel_pos e)) hrt hne
      have := loop_stops_result (hst 1 (Nat.le_refl _)) hf' hne
      simp only [Except.ok.injEq, Prod.mk.injEq] at this
      obtain ⟨rfl, rfl⟩ := this
      simp only [hrt, parseCloseParen, if_true] at h
      exact h.symm

/-- an operand (parenthesised or of unary level) where `parse_leaf` starts -/
theorem leaf_unit (e : Spec.Expr) (hL : LeafU e) (hT : TreeU e) (p : Bool) (f : Nat) (rest : List Tok)
    (acc : List Ast) (r : Except SynErr PState) (h1 : p = true ∨ 13 ≤ level e)
    (h2 : p = true ∨ 14 ≤ level e ∨ NoPostfix rest)
    (h : parseLeaf f (paren p (render e) ++ rest) acc = r) (hr : r ≠ .error .fuel) :
    r = .ok (parsePostfix rest (acc ++ rpn e)) := by
  cases p with
  | true => exact leaf_paren e hT f rest acc r h hr
  | false =>
    simp only [paren, Bool.false_eq_true, if_false] at h
    have h13 : 13 ≤ level e := by
      rcases h1 with h1 | h1
      · simp at h1
      · exact h1
    have h2' : 14 ≤ level e ∨ NoPostfix rest := by
      rcases h2 with h2 | h2
      · simp at h2
      · exact h2
    exact hL h13 f rest acc r h2' h hr

/-- `parse_tree` on an operand that `parse_leaf` reads completely -/
theorem tree_of_leaf (toks rest : List Tok) (acc acc' : List Ast) (f m : Nat) (r : Except SynErr PState)
    (hleaf : ∀ g r1, parseLeaf g toks acc = r1 → r1 ≠ .error .fuel → r1 = .ok (rest, acc'))
    (h : parseTree f toks m acc = r) (hr : r ≠ .error .fuel) : ∃ f', parseLoop f' rest m acc' = r := by
  cases f with
  | zero => simp [parseTree] at h; exact absurd h.symm hr
  | succ f =>
    simp only [parseTree] at h
    cases hl : parseLeaf f toks acc with
    | error err =>
      simp only [hl] at h
      have hne : (Except.error err : Except SynErr PState) ≠ .error .fuel := by rw [h]; exact hr
      have := hleaf f _ hl hne
      simp at this
    | ok p =>
      have := hleaf f _ hl (by simp)
      simp only [Except.ok.injEq] at this
      subst this
      simp only [hl] at h
      exact ⟨f, h⟩

/-- an operand (parenthesised or not) where `parse_tree min` starts -/
theorem tree_unit (e : Spec.Expr) (hL : LeafU e) (hT : TreeU e) (p : Bool) (f m : Nat) (rest : List Tok)
    (acc : List Ast) (r : Except SynErr PState) (hm : 1 ≤ m) (h1 : p = true ∨ m ≤ level e)
    (hnp : NoPostfix rest) (hs : p = false → Stops (stopLevel e) rest)
    (h : parseTree f (paren p (render e) ++ rest) m acc = r) (hr : r ≠ .error .fuel) :
    ∃ f', parseLoop f' rest m (acc ++ rpn e) = r := by
  cases p with
  | false =>
    simp only [paren, Bool.false_eq_true, if_false] at h
    have hle : m ≤ level e := by
      rcases h1 with h1 | h1
      · simp at h1
      · exact h1
    exact hT f m rest acc r hm hle hnp (hs rfl) h hr
  | true =>
    refine tree_of_leaf _ rest acc (acc ++ rpn e) f m r ?_ h hr
    intro g r1 hg hr1
    have := leaf_paren e hT g rest acc r1 hg hr1
    rw [parsePostfix_noPostfix rest _ hnp] at this
    exact this

/-! ### the cases -/

theorem treeU_of_leafU (e : Spec.Expr) (h13 : 13 ≤ level e) (hL : LeafU e) : TreeU e := by
  intro f m rest acc r _ _ hnp _ h hr
  refine tree_of_leaf _ rest acc (acc ++ rpn e) f m r ?_ h hr
  intro g r1 hg hr1
  have := hL h13 g rest acc r1 (Or.inr hnp) hg hr1
  rw [parsePostfix_noPostfix rest _ hnp] at this
  exact this

theorem leafU_atom (t : Term) (e : Spec.Expr) (hr' : render e = [.term t]) (hp : rpn e = [.term t]) :
    LeafU e := by
  intro _ f rest acc r _ h hr
  cases f with
  | zero => simp [parseLeaf] at h; exact absurd h.symm hr
  | succ f =>
    rw [hr'] at h
    simp only [List.cons_append, List.nil_append, parseLeaf] at h
    rw [hp]; exact h.symm

theorem leafU_pre (op : PrefixOperator) (e : Spec.Expr) (hL : LeafU e) (hT : TreeU e) :
    LeafU (.pre op e) := by
  intro _ f rest acc r h14 h hr
  have hnp : NoPostfix rest := by
    rcases h14 with h14 | h14
    · simp [level] at h14
    · exact h14
  cases f with
  | zero => simp [parseLeaf] at h; exact absurd h.symm hr
  | succ f =>
    obtain ⟨hpre, hno⟩ := prefixFacts op
    simp only [render, List.cons_append, parseLeaf, hno, if_false, hpre] at h
    cases hin : parseLeaf f (paren (decide (level e < 13)) (render e) ++ rest) acc with
    | error err =>
      simp only [hin] at h
      have hne : (Except.error err : Except SynErr PState) ≠ .error .fuel := by rw [h]; exact hr
      have := leaf_unit e hL hT _ f rest acc _ (by by_cases hl : level e < 13 <;> simp [hl]; omega)
        (Or.inr (Or.inr hnp)) hin hne
      simp at this
    | ok p =>
      have := leaf_unit e hL hT _ f rest acc _ (by by_cases hl : level e < 13 <;> simp [hl]; omega)
        (Or.inr (Or.inr hnp)) hin (by simp)
      rw [parsePostfix_noPostfix rest _ hnp] at this
      simp only [Except.ok.injEq] at this
      subst this
      simp only [hin] at h
      rw [parsePostfix_noPostfix rest _ hnp]
      rw [← h]; simp [rpn, List.append_assoc]

theorem leafU_post (op : PostfixOperator) (e : Spec.Expr) (hL : LeafU e) (hT : TreeU e) :
    LeafU (.post op e) := by
  intro _ f rest acc r _ h hr
  simp only [render, List.append_assoc] at h
  have := leaf_unit e hL hT _ f ([Tok.op (opOfPostfix op)] ++ rest) acc r
    (by by_cases hl : level e < 14 <;> simp [hl]; omega)
    (by by_cases hl : level e < 14 <;> simp [hl]; omega) h hr
  rw [this]
  simp only [List.cons_append, List.nil_append, parsePostfix, postfixFacts op, rpn, List.append_assoc]

theorem leafU_low (e : Spec.Expr) (h : level e < 13) : LeafU e := fun h13 => by omega

theorem treeU_binL (b : BinaryOperator) (l r : Spec.Expr) (ha : assocOf b = .Left)
    (hLl : LeafU l) (hTl : TreeU l) (hLr : LeafU r) (hTr : TreeU r) : TreeU (.bin b l r) := by
  intro f m rest acc res hm hle hnp hst h hres
  obtain ⟨hb, hk1, hk12, hq, hpf, _, hk3⟩ := binFacts b
  have hk3 := hk3 ha
  simp only [level] at hle
  simp only [stopLevel, ha, if_true] at hst
  simp only [render, ha, if_true, List.append_assoc] at h
  -- the left operand, then the loop at the operator
  obtain ⟨f1, hf1⟩ := tree_unit l hLl hTl _ f m _ acc res hm
    (by by_cases hl : level l < bprec b <;> simp [hl]; omega) (by simp [NoPostfix, hpf])
    (by
      intro hp
      have hl : bprec b ≤ level l := by
        by_cases hl : level l < bprec b
        · simp [hl] at hp
        · omega
      simp only [List.cons_append, List.nil_append, Stops]
      exact stopLevel_gt l (bprec b) hk3 hl)
    h hres
  cases f1 with
  | zero => simp [parseLoop] at hf1; exact absurd hf1.symm hres
  | succ g =>
    simp only [List.cons_append, List.nil_append] at hf1
    have hnm : ¬ (opOfBinary b).precedence < m := by unfold bprec at hle; omega
    have hunit : ∀ r1, parseTree g (paren (decide (level r ≤ bprec b)) (render r) ++ rest) (bprec b + 1)
        (acc ++ rpn l) = r1 → r1 ≠ .error .fuel → r1 = .ok (rest, acc ++ rpn l ++ rpn r) := by
      intro r1 hr1 hne
      obtain ⟨f2, hf2⟩ := tree_unit r hLr hTr _ g (bprec b + 1) rest (acc ++ rpn l) r1 (by omega)
        (by by_cases hl : level r ≤ bprec b <;> simp [hl]; omega) hnp
        (by
          intro hp
          have hl : bprec b + 1 ≤ level r := by
            by_cases hl : level r ≤ bprec b
            · simp [hl] at hp
            · omega
          exact stops_mono hst (Nat.le_of_lt (stopLevel_gt r (bprec b + 1) (by omega) hl)))
        hr1 hne
      exact loop_stops_result hst hf2 hne
    cases hrt : parseTree g (paren (decide (level r ≤ bprec b)) (render r) ++ rest) (bprec b + 1) (acc ++ rpn l) with
    | error err =>
      have hrt' : parseTree g (paren (decide (level r ≤ bprec b)) (render r) ++ rest)
          (if assocOf b = .Left then (opOfBinary b).precedence + 1 else (opOfBinary b).precedence) (acc ++ rpn l)
          = .error err := by simp only [ha, if_true]; exact hrt
      rw [parseLoop_binary_err g m _ b _ _ _ hb hq hnm err hrt'] at hf1
      have hne : (Except.error err : Except SynErr PState) ≠ .error .fuel := by rw [hf1]; exact hres
      have := hunit _ hrt hne
      simp at this
    | ok p =>
      have := hunit _ hrt (by simp)
      simp only [Except.ok.injEq] at this
      subst this
      have hrt' : parseTree g (paren (decide (level r ≤ bprec b)) (render r) ++ rest)
          (if assocOf b = .Left then (opOfBinary b).precedence + 1 else (opOfBinary b).precedence) (acc ++ rpn l)
          = .ok (rest, acc ++ rpn l ++ rpn r) := by simp only [ha, if_true]; exact hrt
      rw [parseLoop_binary_ok g m _ b _ _ _ hb hq hnm _ _ hrt'] at hf1
      have hlen : (acc ++ rpn l ++ rpn r).length - (acc ++ rpn l).length = (rpn r).length := by
        simp only [List.length_append]; omega
      rw [hlen] at hf1
      refine ⟨g, ?_⟩
      rw [← hf1]
      simp [rpn, List.append_assoc]

theorem treeU_binR (b : BinaryOperator) (l r : Spec.Expr) (ha : assocOf b = .Right)
    (hLl : LeafU l) (hTl : TreeU l) (hLr : LeafU r) (hTr : TreeU r) : TreeU (.bin b l r) := by
  intro f m rest acc res hm hle hnp hst h hres
  obtain ⟨hb, hk1, hk12, hq, hpf, hkr, _⟩ := binFacts b
  have hk : bprec b = 1 := hkr ha
  simp only [level, hk] at hle
  have hm1 : m = 1 := by omega
  subst hm1
  have hne : assocOf b ≠ .Left := by rw [ha]; decide
  simp only [stopLevel, hne, if_false] at hst
  simp only [render, hne, if_false, List.append_assoc] at h
  obtain ⟨f1, hf1⟩ := tree_unit l hLl hTl _ f 1 _ acc res (Nat.le_refl _)
    (by by_cases hl : level l < 13 <;> simp [hl]; exact level_pos l) (by simp [NoPostfix, hpf])
    (by
      intro hp
      have hl : 13 ≤ level l := by
        by_cases hl : level l < 13
        · simp [hl] at hp
        · omega
      rw [stopLevel_of_unary l hl]
      simp only [List.cons_append, List.nil_append, Stops]
      unfold bprec at hk; omega)
    h hres
  cases f1 with
  | zero => simp [parseLoop] at hf1; exact absurd hf1.symm hres
  | succ g =>
    simp only [List.cons_append, List.nil_append] at hf1
    have hnm : ¬ (opOfBinary b).precedence < 1 := by unfold bprec at hk; omega
    have hunit : ∀ r1, parseTree g (render r ++ rest) 1 (acc ++ rpn l) = r1 → r1 ≠ .error .fuel →
        r1 = .ok (rest, acc ++ rpn l ++ rpn r) := by
      intro r1 hr1 hne1
      obtain ⟨f2, hf2⟩ := hTr g 1 rest (acc ++ rpn l) r1 (Nat.le_refl _) (level_pos r) hnp
        (stops_mono hst (stopLevel_pos r)) hr1 hne1
      exact loop_stops_result hst hf2 hne1
    have hprec : (if assocOf b = .Left then (opOfBinary b).precedence + 1 else (opOfBinary b).precedence) = 1 := by
      simp only [hne, if_false]; unfold bprec at hk; exact hk
    cases hrt : parseTree g (render r ++ rest) 1 (acc ++ rpn l) with
    | error err =>
      have hrt' := hrt
      rw [← hprec] at hrt'
      rw [parseLoop_binary_err g 1 _ b _ _ _ hb hq hnm err hrt'] at hf1
      have hne2 : (Except.error err : Except SynErr PState) ≠ .error .fuel := by rw [hf1]; exact hres
      have := hunit _ hrt hne2
      simp at this
    | ok p =>
      have := hunit _ hrt (by simp)
      simp only [Except.ok.injEq] at this
      subst this
      have hrt' := hrt
      rw [← hprec] at hrt'
      rw [parseLoop_binary_ok g 1 _ b _ _ _ hb hq hnm _ _ hrt'] at hf1
      have hlen : (acc ++ rpn l ++ rpn r).length - (acc ++ rpn l).length = (rpn r).length := by
        simp only [List.length_append]; omega
      rw [hlen] at hf1
      refine ⟨g, ?_⟩
      rw [← hf1]
      simp [rpn, List.append_assoc]

theorem treeU_cond (c t e : Spec.Expr) (hLc : LeafU c) (hTc : TreeU c) (hTt : TreeU t)
    (hLe : LeafU e) (hTe : TreeU e) : TreeU (.cond c t e) := by
  intro f m rest acc res hm hle hnp hst h hres
  obtain ⟨hq2, hqpf, hc0, hcpf, _, _⟩ := otherFacts
  simp only [level] at hle
  simp only [stopLevel] at hst
  simp only [render, List.append_assoc] at h
  obtain ⟨f1, hf1⟩ := tree_unit c hLc hTc _ f m _ acc res hm
    (by by_cases hl : level c ≤ 2 <;> simp [hl]; omega) (by simp [NoPostfix, hqpf])
    (by
      intro hp
      have hl : 3 ≤ level c := by
        by_cases hl : level c ≤ 2
        · simp [hl] at hp
        · omega
      simp only [List.cons_append, List.nil_append, Stops, hq2]
      have := stopLevel_gt c 3 (Nat.le_refl _) hl
      omega)
    h hres
  cases f1 with
  | zero => simp [parseLoop] at hf1; exact absurd hf1.symm hres
  | succ g =>
    simp only [List.cons_append, List.nil_append] at hf1
    have hnm : ¬ Operator.Question.precedence < m := by rw [hq2]; omega
    -- the then-branch, up to the colon
    have hthen : ∀ r1, parseTree g (render t ++ Tok.op Operator.Colon ::
          (paren (decide (level e < 2)) (render e) ++ rest)) 1 (acc ++ rpn c) = r1 → r1 ≠ .error .fuel →
        r1 = .ok (Tok.op Operator.Colon :: (paren (decide (level e < 2)) (render e) ++ rest),
          acc ++ rpn c ++ rpn t) := by
      intro r1 hr1 hne1
      have hsc : ∀ k, 1 ≤ k → Stops k (Tok.op Operator.Colon ::
          (paren (decide (level e < 2)) (render e) ++ rest)) := by
        intro k hk; simp only [Stops, hc0]; omega
      obtain ⟨f2, hf2⟩ := hTt g 1 _ (acc ++ rpn c) r1 (Nat.le_refl _) (level_pos t)
        (by simp [NoPostfix, hcpf]) (hsc _ (stopLevel_pos t)) hr1 hne1
      exact loop_stops_result (hsc 1 (Nat.le_refl _)) hf2 hne1
    -- the else-branch
    have helse : ∀ r2, parseTree g (paren (decide (level e < 2)) (render e) ++ rest) 2
          (acc ++ rpn c ++ rpn t) = r2 → r2 ≠ .error .fuel →
        r2 = .ok (rest, acc ++ rpn c ++ rpn t ++ rpn e) := by
      intro r2 hr2 hne2
      obtain ⟨f3, hf3⟩ := tree_unit e hLe hTe _ g 2 rest _ r2 (by omega)
        (by by_cases hl : level e < 2 <;> simp [hl]; omega) hnp
        (by
          intro hp
          have hl : 2 ≤ level e := by
            by_cases hl : level e < 2
            · simp [hl] at hp
            · omega
          exact stops_mono hst (stopLevel_ge_two e hl))
        hr2 hne2
      exact loop_stops_result hst hf3 hne2
    cases hr1 : parseTree g (render t ++ Tok.op Operator.Colon ::
          (paren (decide (level e < 2)) (render e) ++ rest)) 1 (acc ++ rpn c) with
    | error err =>
      rw [parseLoop_question_err1 g m _ _ hnm err hr1] at hf1
      have hne : (Except.error err : Except SynErr PState) ≠ .error .fuel := by rw [hf1]; exact hres
      have := hthen _ hr1 hne
      simp at this
    | ok p =>
      have := hthen _ hr1 (by simp)
      simp only [Except.ok.injEq] at this
      subst this
      cases hr2 : parseTree g (paren (decide (level e < 2)) (render e) ++ rest) 2 (acc ++ rpn c ++ rpn t) with
      | error err =>
        have hr2' := hr2
        rw [← hq2] at hr2'
        rw [parseLoop_question_err2 g m _ _ _ _ hnm err hr1 hr2'] at hf1
        have hne : (Except.error err : Except SynErr PState) ≠ .error .fuel := by rw [hf1]; exact hres
        have := helse _ hr2 hne
        simp at this
      | ok p2 =>
        have := helse _ hr2 (by simp)
        simp only [Except.ok.injEq] at this
        subst this
        have hr2' := hr2
        rw [← hq2] at hr2'
        rw [parseLoop_question_ok g m _ _ _ _ _ _ hnm hr1 hr2'] at hf1
        have hl1 : (acc ++ rpn c ++ rpn t).length - (acc ++ rpn c).length = (rpn t).length := by
          simp only [List.length_append]; omega
        have hl2 : (acc ++ rpn c ++ rpn t ++ rpn e).length - (acc ++ rpn c ++ rpn t).length = (rpn e).length := by
          simp only [List.length_append]; omega
        rw [hl1, hl2] at hf1
        refine ⟨g, ?_⟩
        rw [← hf1]
        simp [rpn, List.append_assoc]

/-- every tree satisfies both invariants -/
theorem good (e : Spec.Expr) : LeafU e ∧ TreeU e := by
  induction e with
  | num v =>
    have hL := leafU_atom (.value v) (.num v) rfl rfl
    exact ⟨hL, treeU_of_leafU _ (by simp [level]) hL⟩
  | var x =>
    have hL := leafU_atom (.variable x) (.var x) rfl rfl
    exact ⟨hL, treeU_of_leafU _ (by simp [level]) hL⟩
  | pre op e ih =>
    have hL := leafU_pre op e ih.1 ih.2
    exact ⟨hL, treeU_of_leafU _ (by simp [level]) hL⟩
  | post op e ih =>
    have hL := leafU_post op e ih.1 ih.2
    exact ⟨hL, treeU_of_leafU _ (by simp [level]) hL⟩
  | bin b l r ihl ihr =>
    refine ⟨leafU_low _ (by simp only [level]; have := (binFacts b).2.2.1; omega), ?_⟩
    cases ha : assocOf b with
    | Left => exact treeU_binL b l r ha ihl.1 ihl.2 ihr.1 ihr.2
    | Right => exact treeU_binR b l r ha ihl.1 ihl.2 ihr.1 ihr.2
  | cond c t e ihc iht ihe =>
    exact ⟨leafU_low _ (by simp [level]), treeU_cond c t e ihc.1 ihc.2 iht.2 ihe.1 ihe.2⟩

/-- the parser reads the rendering of a tree back as the reverse-Polish vector of that tree -/
theorem parseToks_render (e : Spec.Expr) (f : Nat) (hf : 2 * (render e).length + 2 ≤ f) :
    parseToks f (render e) = .ok (rpn e) := by
  have hnf := parseToks_no_fuel f (render e) hf
  unfold parseToks at hnf ⊢
  cases hrt : parseTree f (render e) 1 [] with
  | error err =>
    simp only [hrt] at hnf
    have hne : (Except.error err : Except SynErr PState) ≠ .error .fuel := by
      intro h; injection h with h; subst h; exact hnf rfl
    have h' : parseTree f (render e ++ []) 1 [] = .error err := by simpa using hrt
    obtain ⟨f', hf'⟩ := (good e).2 f 1 [] [] _ (Nat.le_refl _) (level_pos e) trivial trivial h' hne
    have := loop_stops_result (m := 1) (rest := []) trivial hf' hne
    simp at this
  | ok p =>
    have h' : parseTree f (render e ++ []) 1 [] = .ok p := by simpa using hrt
    obtain ⟨f', hf'⟩ := (good e).2 f 1 [] [] _ (Nat.le_refl _) (level_pos e) trivial trivial h' (by simp)
    have := loop_stops_result (m := 1) (rest := []) trivial hf' (by simp)
    simp only [Except.ok.injEq] at this
    subst this
    simp [parseEndOfInput]

end YashModel.Arith
