/-
  C03 — the fuel the model gives its parser is never exhausted (so `SynErr.fuel` is not an outcome).
-/
import YashModel.Arith.ParseLemmas
namespace YashModel.Arith
open YashModel.Generated.ArithTables

theorem parsePostfix_length (toks : List Tok) (acc : List Ast) :
    (parsePostfix toks acc).1.length ≤ toks.length := by
  induction toks generalizing acc with
  | nil => simp [parsePostfix]
  | cons tok rest ih =>
    cases tok with
    | term x => simp [parsePostfix]
    | err => simp [parsePostfix]
    | op o =>
      rw [parsePostfix]
      split
      · have := ih (acc ++ [.post ‹_›]); simp only [List.length_cons]; omega
      · simp

theorem parseCloseParen_length (toks toks' : List Tok) (h : parseCloseParen toks = .ok toks') :
    toks'.length + 1 = toks.length := by
  unfold parseCloseParen at h
  split at h
  · simp at h
  · simp at h
  · simp at h
  · split at h
    · injection h with h; subst h; simp
    · split at h <;> simp at h

/-- every successful parse function consumes tokens: a leaf and a tree at least one -/
theorem parse_length_aux (f : Nat) :
    (∀ toks acc toks' acc', parseLeaf f toks acc = .ok (toks', acc') → toks'.length + 1 ≤ toks.length) ∧
    (∀ toks m acc toks' acc', parseTree f toks m acc = .ok (toks', acc') → toks'.length + 1 ≤ toks.length) ∧
    (∀ toks m acc toks' acc', parseLoop f toks m acc = .ok (toks', acc') → toks'.length ≤ toks.length) := by
  induction f with
  | zero =>
    refine ⟨?_, ?_, ?_⟩
    · intro toks acc toks' acc' h; simp [parseLeaf] at h
    · intro toks m acc toks' acc' h; simp [parseTree] at h
    · intro toks m acc toks' acc' h; simp [parseLoop] at h
  | succ f ih =>
    obtain ⟨ihLeaf, ihTree, ihLoop⟩ := ih
    refine ⟨?_, ?_, ?_⟩
    · intro toks acc toks' acc' h
      simp only [parseLeaf] at h
      split at h
      · simp at h
      · simp at h
      · rename_i t rest
        injection h with h
        have := parsePostfix_length rest (acc ++ [.term t])
        rw [h] at this; simp only [List.length_cons]; simp only at this; omega
      · rename_i o rest
        split at h
        · split at h
          · simp at h
          · rename_i toks1 acc1 htree
            have h1 := ihTree _ _ _ _ _ htree
            split at h
            · simp at h
            · rename_i toks2 hclose
              have h2 := parseCloseParen_length _ _ hclose
              injection h with h
              have := parsePostfix_length toks2 acc1
              rw [h] at this; simp only [List.length_cons]; simp only at this; omega
        · split at h
          · simp at h
          · split at h
            · simp at h
            · rename_i toks1 acc1 hleaf
              have h1 := ihLeaf _ _ _ _ hleaf
              injection h with h; injection h with h1' h2'
              subst h1'; simp only [List.length_cons]; omega
    · intro toks m acc toks' acc' h
      simp only [parseTree] at h
      split at h
      · simp at h
      · rename_i toks1 acc1 hleaf
        have h1 := ihLeaf _ _ _ _ hleaf
        have h2 := ihLoop _ _ _ _ _ h
        omega
    · intro toks m acc toks' acc' h
      simp only [parseLoop] at h
      split at h
      · rename_i o rest
        split at h
        · injection h with h; injection h with h1 h2; subst h1; simp
        · split at h
          · split at h
            · simp at h
            · rename_i toks1 acc1 hthen
              have h1 := ihTree _ _ _ _ _ hthen
              split at h
              · rename_i o1 rest1
                split at h
                · split at h
                  · simp at h
                  · rename_i toks2 acc2 helse
                    have h2 := ihTree _ _ _ _ _ helse
                    have h3 := ihLoop _ _ _ _ _ h
                    simp only [List.length_cons] at *; omega
                · simp at h
              · simp at h
              · simp at h
          · split at h
            · simp at h
            · split at h
              · simp at h
              · rename_i toks1 acc1 hrhs
                have h1 := ihTree _ _ _ _ _ hrhs
                have h3 := ihLoop _ _ _ _ _ h
                simp only [List.length_cons] at *; omega
      · injection h with h; injection h with h1 h2; subst h1; exact Nat.le_refl _

/-- with fuel `2·(number of tokens)+2` the parser never reports `fuel` -/
theorem parse_fuel_aux (f : Nat) :
    (∀ toks acc, 2 * toks.length + 1 ≤ f → parseLeaf f toks acc ≠ .error .fuel) ∧
    (∀ toks m acc, 2 * toks.length + 2 ≤ f → parseTree f toks m acc ≠ .error .fuel) ∧
    (∀ toks m acc, 2 * toks.length + 1 ≤ f → parseLoop f toks m acc ≠ .error .fuel) := by
  induction f with
  | zero =>
    refine ⟨?_, ?_, ?_⟩ <;> intros <;> omega
  | succ f ih =>
    obtain ⟨ihLeaf, ihTree, ihLoop⟩ := ih
    have hlen := parse_length_aux f
    obtain ⟨lenLeaf, lenTree, lenLoop⟩ := hlen
    refine ⟨?_, ?_, ?_⟩
    · intro toks acc hf h
      simp only [parseLeaf] at h
      split at h
      · simp at h
      · simp at h
      · simp at h
      · rename_i o rest
        simp only [List.length_cons] at hf
        split at h
        · split at h
          · rename_i e htree
            injection h with h; subst h
            exact ihTree rest 1 acc (by omega) htree
          · split at h
            · rename_i e hclose
              injection h with h; subst h
              unfold parseCloseParen at hclose
              split at hclose
              · simp at hclose
              · simp at hclose
              · simp at hclose
              · split at hclose
                · simp at hclose
                · split at hclose <;> simp at hclose
            · simp at h
        · split at h
          · simp at h
          · split at h
            · rename_i e hleaf
              injection h with h; subst h
              exact ihLeaf rest acc (by omega) hleaf
            · simp at h
    · intro toks m acc hf h
      simp only [parseTree] at h
      split at h
      · rename_i e hleaf
        injection h with h; subst h
        exact ihLeaf toks acc (by omega) hleaf
      · rename_i toks1 acc1 hleaf
        have h1 := lenLeaf _ _ _ _ hleaf
        exact ihLoop toks1 m acc1 (by omega) h
    · intro toks m acc hf h
      simp only [parseLoop] at h
      split at h
      · rename_i o rest
        simp only [List.length_cons] at hf
        split at h
        · simp at h
        · split at h
          · split at h
            · rename_i e hthen
              injection h with h; subst h
              exact ihTree rest 1 acc (by omega) hthen
            · rename_i toks1 acc1 hthen
              have h1 := lenTree _ _ _ _ _ hthen
              split at h
              · rename_i o1 rest1
                simp only [List.length_cons] at h1
                split at h
                · split at h
                  · rename_i e helse
                    injection h with h; subst h
                    exact ihTree rest1 _ acc1 (by omega) helse
                  · rename_i toks2 acc2 helse
                    have h2 := lenTree _ _ _ _ _ helse
                    exact ihLoop toks2 m _ (by omega) h
                · simp at h
              · simp at h
              · simp at h
          · split at h
            · simp at h
            · split at h
              · rename_i e hrhs
                injection h with h; subst h
                exact ihTree rest _ acc (by omega) hrhs
              · rename_i toks1 acc1 hrhs
                have h1 := lenTree _ _ _ _ _ hrhs
                exact ihLoop toks1 m _ (by omega) h
      · simp at h

theorem parseToks_no_fuel (f : Nat) (toks : List Tok) (hf : 2 * toks.length + 2 ≤ f) :
    parseToks f toks ≠ .error .fuel := by
  intro h
  unfold parseToks at h
  split at h
  · rename_i e htree
    injection h with h; subst h
    exact (parse_fuel_aux f).2.1 toks 1 [] hf htree
  · split at h
    · rename_i e hend
      injection h with h; subst h
      unfold parseEndOfInput at hend
      split at hend
      · simp at hend
      · simp at hend
      · simp at hend
      · split at hend <;> simp at hend
    · simp at h

theorem parse_no_fuel (src : List Char) : parse src ≠ .error .fuel :=
  parseToks_no_fuel _ _ (Nat.le_refl _)

/-! ### tokenizer -/

theorem operators_lexeme_ne_nil : ∀ p ∈ operators, p.1 ≠ [] := by decide

theorem findOp_ne_nil (s lex : List Char) (o : Operator) (h : findOp s = some (lex, o)) : lex ≠ [] := by
  unfold findOp at h
  exact operators_lexeme_ne_nil (lex, o) (List.mem_of_find?_eq_some h)

/-- a token that is not an error consumes at least one character -/
theorem nextToken_consumes (src rest : List Char) (t : Tok) (h : nextToken src = some (t, rest))
    (ht : t ≠ .err) : rest.length < src.length := by
  unfold nextToken at h
  have hdw : (src.dropWhile isWhitespace).length ≤ src.length := by
    have : (src.takeWhile isWhitespace).length + (src.dropWhile isWhitespace).length = src.length := by
      rw [← List.length_append, List.takeWhile_append_dropWhile]
    omega
  generalize src.dropWhile isWhitespace = s at h hdw
  simp only at h
  split at h
  · simp at h
  · rename_i c hc
    have hs : 0 < s.length := by
      cases s with
      | nil => simp at hc
      | cons a b => simp
    split at h
    · rename_i lex o hop
      have hne := findOp_ne_nil s lex o hop
      have : 0 < lex.length := List.length_pos_iff.mpr hne
      injection h with h; injection h with h1 h2
      rw [← h2, List.length_drop]; omega
    · have hsplit : (s.takeWhile isTermChar).length + (s.dropWhile isTermChar).length = s.length := by
        rw [← List.length_append, List.takeWhile_append_dropWhile]
      split at h
      · injection h with h; injection h with h1 h2; exact absurd h1.symm ht
      · rename_i hemp
        have : 0 < (s.takeWhile isTermChar).length := by
          cases htw : s.takeWhile isTermChar with
          | nil => simp [htw] at hemp
          | cons a b => simp
        split at h
        · split at h
          · injection h with h; injection h with h1 h2
            rw [← h2]; omega
          · injection h with h; injection h with h1 h2; exact absurd h1.symm ht
        · injection h with h; injection h with h1 h2
          rw [← h2]; omega

/-- any fuel above the length of the text gives the same token list: `tokenize`'s fuel is never exhausted -/
theorem tokenize_fuel_irrelevant (f : Nat) : ∀ (g : Nat) (src : List Char), src.length < f → src.length < g →
    tokenize f src = tokenize g src := by
  induction f with
  | zero => intro g src h; omega
  | succ f ih =>
    intro g src hf hg
    cases g with
    | zero => omega
    | succ g =>
      rw [tokenize, tokenize]
      cases hnt : nextToken src with
      | none => rfl
      | some p =>
        obtain ⟨t, rest⟩ := p
        cases t with
        | err => rfl
        | term x =>
          have hc := nextToken_consumes src rest _ hnt (by simp)
          simp only
          rw [ih g rest (by omega) (by omega)]
        | op o =>
          have hc := nextToken_consumes src rest _ hnt (by simp)
          simp only
          rw [ih g rest (by omega) (by omega)]

end YashModel.Arith
