/-
  C03 — the tokenizer of yash-arith on texts with non-ASCII alphanumerics, and the *cause* of a failing
  evaluation (wave 3).  Import-free apart from `Model.lean` (the driver links it).

  `Tokens::next_token` (token.rs) takes as a term the maximal run of `c.is_alphanumeric() || c == '_'`.
  `char::is_alphanumeric` is a Unicode table of the Rust standard library; `Model.lean` has its ASCII part
  (`isTermChar`).  Here the non-ASCII part is a parameter `extra : List Char` — the non-ASCII characters for which
  `char::is_alphanumeric` holds; the harness fills it in per case with the std function for the characters of
  the text.  Everything else is the code of `Model.lean`: the operator search comes first, the first character
  decides "constant or variable" by `is_ascii_digit`, constants go through `from_str_radix` (which rejects every
  non-ASCII digit).  `unicode_tokenizer_is_the_model`: for `extra = []` these ARE the functions of `Model.lean`.
-/
import YashModel.Arith.Model
namespace YashModel.Arith
open YashModel.Generated.ArithTables

/-- `c.is_alphanumeric() || c == '_'`, with `extra` = the non-ASCII alphanumerics -/
def isTermCharU (extra : List Char) (c : Char) : Bool := isTermChar c || extra.contains c

/-- `Tokens::next_token` on the remaining text; `none` = `EndOfInput` -/
def nextTokenU (extra : List Char) (src : List Char) : Option (Tok × List Char) :=
  let s := src.dropWhile isWhitespace
  match s.head? with
  | none => none
  | some c =>
    match findOp s with
    | some (lex, o) => some (.op o, s.drop lex.length)
    | none =>
      let token := s.takeWhile (isTermCharU extra)
      let rest := s.dropWhile (isTermCharU extra)
      if token.isEmpty then some (.err, s)
      else if isAsciiDigit c then
        match parseConstant token with
        | some i => some (.term (.value i), rest)
        | none => some (.err, s)
      else some (.term (.variable token), rest)

/-- all tokens of the source up to the end of input or the first error (inclusive) -/
def tokenizeU (extra : List Char) : Nat → List Char → List Tok
  | 0, _ => [.err]
  | f + 1, src =>
    match nextTokenU extra src with
    | none => []
    | some (.err, _) => [.err]
    | some (t, rest) => t :: tokenizeU extra f rest

/-- `enum TokenError` of token.rs -/
inductive TokErr where
  | invalidNumericConstant | invalidCharacter
  deriving DecidableEq, Repr

/-- which `TokenError` `next_token` returns on the remaining text when it returns one: `token_len == 0` is
    `InvalidCharacter`, a digit-initial term that is not a constant is `InvalidNumericConstant` -/
def nextTokenErrU (extra : List Char) (src : List Char) : TokErr :=
  if ((src.dropWhile isWhitespace).takeWhile (isTermCharU extra)).isEmpty then .invalidCharacter
  else .invalidNumericConstant

/-- the cause of the first (= only) token error the parser can meet in the source; follows `tokenizeU` -/
def firstTokenErrU (extra : List Char) : Nat → List Char → Option TokErr
  | 0, _ => none
  | f + 1, src =>
    match nextTokenU extra src with
    | none => none
    | some (.err, _) => some (nextTokenErrU extra src)
    | some (_, rest) => firstTokenErrU extra f rest

/-- `ast::parse(PeekableTokens::from(expression))` -/
def parseU (extra : List Char) (src : List Char) : Except SynErr (List Ast) :=
  let toks := tokenizeU extra (src.length + 1) src
  parseToks (2 * toks.length + 2) toks

/-- `eval_with_config(expression, env, Config::default())` -/
def evalStrU (extra : List Char) (src : List Char) (env : Env) : Outcome :=
  match parseU extra src with
  | .error e => .syntaxError e
  | .ok ast => Outcome.ofRes (evalValue ast env)

/-- `eval_with_config(expression, env, Config { portable: true })`; `none` = `PortabilityError` -/
def evalStrPortableU (extra : List Char) (src : List Char) (env : Env) : Option Outcome :=
  match parseU extra src with
  | .error e => some (.syntaxError e)
  | .ok ast => if ast.any isIncDec then none else some (Outcome.ofRes (evalValue ast env))

/-! ## the cause of a failing evaluation (`Error::cause`, leaf variant) -/

/-- leaf variants of `ErrorCause` (lib.rs): `SyntaxError(TokenError(_))`, `SyntaxError(_)`,
    `PortabilityError(IncrementDecrement)`, `EvalError(_)` -/
inductive Cause where
  | token (e : TokErr)
  | syntax (e : SynErr)
  | portability
  | eval (e : EvalErr)
  deriving DecidableEq, Repr

/-- the cause carried by an outcome of `evalStrU extra src` (`none`: the evaluation returned a value) -/
def outcomeCause (extra : List Char) (src : List Char) : Outcome → Option Cause
  | .syntaxError .tokenError =>
    -- `From<TokenError> for SyntaxError`: the parser passes the tokenizer's error on
    some (match firstTokenErrU extra (src.length + 1) src with
      | some k => .token k
      | none => .syntax .tokenError)   -- never: `token_error_has_a_kind`
  | .syntaxError e => some (.syntax e)
  | .evalError e => some (.eval e)
  | _ => none

/-- `Error::cause` of `eval_with_config(src, env, Config { portable })`; `none` = `Ok(_)` -/
def evalStrCauseU (extra : List Char) (portable : Bool) (src : List Char) (env : Env) : Option Cause :=
  if portable then
    match evalStrPortableU extra src env with
    | none => some .portability
    | some o => outcomeCause extra src o
  else outcomeCause extra src (evalStrU extra src env)

/-- the same for the ASCII model of `Model.lean` -/
def evalStrCause (portable : Bool) (src : List Char) (env : Env) : Option Cause :=
  if portable then
    match evalStrPortable src env with
    | none => some .portability
    | some o => outcomeCause [] src o
  else outcomeCause [] src (evalStr src env)

end YashModel.Arith
