/-
  C03 — the environment after a FAILING evaluation (wave 3, third pass).  Import-free apart from the model.

  `eval` (eval.rs) mutates `env` in place and never rolls back: when it returns `Err`, the assignments made
  before the failing operation are in the map.  `Res.error` of `Model.lean` carries no state, so this file has
  a second evaluator `evalF` = `eval` with the environment threaded through every outcome: the second component
  is the map at the moment the evaluation stopped.  `evalF_fst` (TraceLemmas.lean): its first component IS `eval`,
  so nothing about values is modelled twice.  The only mutation is `assign`, the last action of `apply_prefix` /
  `apply_postfix` / `apply_binary`, which cannot fail for the HashMap: a failing `apply_*` / `into_value` leaves
  the map as it found it (`atF`).
-/
import YashModel.Arith.Unicode
namespace YashModel.Arith
open YashModel.Generated.ArithTables

/-- `?` on a result that knows the environment it stopped in -/
def bindF {α β : Type} (r : Res α × Env) (k : α → Res β × Env) : Res β × Env :=
  match r.1 with
  | .ok a => k a
  | .error e => (.error e, r.2)
  | .panic => (.panic, r.2)
  | .fuel => (.fuel, r.2)

/-- a step that leaves the environment `env` alone unless it succeeds -/
def atF {α : Type} (env : Env) (r : Res α) : Res α × Env := (r, env)

def doneF (v : Int) (env : Env) : Res (Term × Env) × Env := (.ok (.value v, env), env)

/-- `eval::eval` with the environment at the moment it stopped -/
def evalF : Nat → List Ast → Env → Res (Term × Env) × Env
  | 0, _, env => (.fuel, env)
  | f + 1, ast, env =>
    match splitLast ast with
    | none => (.panic, env)
    | some (children, root) =>
      match root with
      | .term t => (.ok (t, env), env)
      | .pre op =>
        bindF (evalF f children env) fun (t, env1) =>
        bindF (atF env1 (applyPrefix t op env1)) fun (v, env2) => doneF v env2
      | .post op =>
        bindF (evalF f children env) fun (t, env1) =>
        bindF (atF env1 (applyPostfix t op env1)) fun (v, env2) => doneF v env2
      | .binary op rhsLen =>
        match splitAtEnd children rhsLen with
        | none => (.panic, env)
        | some (lhsAst, rhsAst) =>
          if op = .LogicalOr then
            bindF (evalF f lhsAst env) fun (lt, env1) =>
            bindF (atF env1 (intoValue lt env1)) fun l =>
            if l ≠ 0 then doneF 1 env1
            else
              bindF (evalF f rhsAst env1) fun (rt, env2) =>
              bindF (atF env2 (intoValue rt env2)) fun r =>
              bindF (atF env2 (binaryResult .LogicalOr l r)) fun v => doneF v env2
          else if op = .LogicalAnd then
            bindF (evalF f lhsAst env) fun (lt, env1) =>
            bindF (atF env1 (intoValue lt env1)) fun l =>
            if l = 0 then doneF 0 env1
            else
              bindF (evalF f rhsAst env1) fun (rt, env2) =>
              bindF (atF env2 (intoValue rt env2)) fun r =>
              bindF (atF env2 (binaryResult .LogicalAnd l r)) fun v => doneF v env2
          else
            bindF (evalF f lhsAst env) fun (lt, env1) =>
            bindF (evalF f rhsAst env1) fun (rt, env2) =>
            bindF (atF env2 (applyBinary lt rt op env2)) fun (v, env3) => doneF v env3
      | .conditional thenLen elseLen =>
        match splitAtEnd children elseLen with
        | none => (.panic, env)
        | some (children2, elseAst) =>
          match splitAtEnd children2 thenLen with
          | none => (.panic, env)
          | some (condAst, thenAst) =>
            bindF (evalF f condAst env) fun (ct, env1) =>
            bindF (atF env1 (intoValue ct env1)) fun c =>
            if c ≠ 0 then evalF f thenAst env1 else evalF f elseAst env1

/-- the variable map after `eval_with_config(src, &mut env, Config { portable })` returned — `Ok` or `Err`:
    a syntax error and the portability check happen before anything is evaluated -/
def envAfterU (extra : List Char) (portable : Bool) (src : List Char) (env : Env) : Env :=
  match parseU extra src with
  | .error _ => env
  | .ok ast => if portable && ast.any isIncDec then env else (evalF ast.length ast env).2

end YashModel.Arith
