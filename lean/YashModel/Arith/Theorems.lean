/-
  C03 — property theorems (and non-vacuity examples) ONLY.  Helper lemmas: `Lemmas.lean`, `ParseLemmas.lean`, `FuelLemmas.lean`, `TreeLemmas.lean`, `NumLemmas.lean`, `SemLemmas.lean`, `SemMain.lean`, `ShellLemmas.lean`, `RoundTrip.lean`, `Render.lean`, `Spell.lean`.
-/
import YashModel.Arith.FuelLemmas
import YashModel.Arith.TreeLemmas
import YashModel.Arith.NumLemmas
import YashModel.Arith.SemMain
import YashModel.Arith.ShellLemmas
import YashModel.Arith.RoundTrip
import YashModel.Arith.Render
import YashModel.Arith.Spell
import YashModel.Arith.CauseLemmas
import YashModel.Arith.UnicodeLemmas
import YashModel.Arith.TableLemmas
import YashModel.Arith.TraceLemmas
namespace YashModel.Arith
open YashModel.Generated.ArithTables

/-- ★ every binary operator (plain or compound, shifts, division and remainder included): on i64 operands
    `binary_result` returns (never panics) and its value is the mathematically exact result when that is
    defined in C and representable, and an error otherwise — never a wrapped value. -/
theorem binaryResult_exact (op : BinaryOperator) (l r : Int) (hl : InRange l) (hr : InRange r) :
    (binaryResult op l r).Returns ∧ (binaryResult op l r).value? = Spec.arith op l r :=
  binaryResult_spec op l r hl hr

/-- ★ "whenever a result is unrepresentable or undefined it reports an error instead of a wrong or wrapped
    value", for every binary operator in one statement: the call succeeds with `v` exactly when the operation
    is defined in C, `v` is its mathematically exact result and `v` fits i64; in every other case the call is
    an error (it is never a panic, never another value). -/
theorem unrepresentable_is_error (op : BinaryOperator) (l r : Int) (hl : InRange l) (hr : InRange r) :
    (∀ v, binaryResult op l r = .ok v ↔
      (Spec.definedOp op l r ∧ Spec.InRange (Spec.exactOp op l r) ∧ v = Spec.exactOp op l r)) ∧
    ((¬ (Spec.definedOp op l r ∧ Spec.InRange (Spec.exactOp op l r))) → ∃ err, binaryResult op l r = .error err) := by
  have harith : ∀ v, Spec.arith op l r = some v ↔
      (Spec.definedOp op l r ∧ Spec.InRange (Spec.exactOp op l r) ∧ v = Spec.exactOp op l r) := by
    intro v
    unfold Spec.arith
    by_cases hc : Spec.definedOp op l r ∧ Spec.InRange (Spec.exactOp op l r)
    · simp only [hc, and_self, if_true, Option.some.injEq, true_and]
      exact ⟨fun h => h.symm, fun h => h.symm⟩
    · simp only [hc, if_false]
      constructor
      · intro h; simp at h
      · intro h; exact absurd ⟨h.1, h.2.1⟩ hc
  refine ⟨fun v => ?_, fun hn => ?_⟩
  · rw [← harith v]
    constructor
    · intro hok
      cases ha : Spec.arith op l r with
      | none =>
        obtain ⟨err, he⟩ := binaryResult_of_none hl hr ha
        rw [he] at hok; simp at hok
      | some w =>
        have := (binaryResult_of_some hl hr ha).1
        rw [this] at hok
        injection hok with hok
        rw [hok]
    · intro ha
      exact (binaryResult_of_some hl hr ha).1
  · apply binaryResult_of_none hl hr
    unfold Spec.arith
    simp only [hn, if_false]

/-- the i64 boundary cases named by the property: `MIN / -1` and `MIN % -1` are errors, not wrapped values -/
example : (binaryResult .Divide (-9223372036854775808) (-1)).value? = none ∧
    (binaryResult .Remainder (-9223372036854775808) (-1)).value? = none ∧
    (binaryResult .ShiftLeft 1 63).value? = none ∧ (binaryResult .ShiftLeft 1 62).value? = some 4611686018427387904 ∧
    (binaryResult .ShiftRight (-7) 1).value? = some (-4) ∧ (binaryResult .ShiftRight 1 64).value? = none ∧
    (binaryResult .Multiply 4294967296 2147483648).value? = none := by decide

/-- ★ the left-shift filter of the code (`result >= 0 && result >> rhs == lhs` on the *wrapped* shift)
    passes exactly when the exact product fits. -/
theorem shl_exact (l : Int) (n : Nat) (hl : 0 ≤ l) :
    (decide (wrap64 (l * 2 ^ n) ≥ 0) && (wrap64 (l * 2 ^ n) >>> n == l)) = true ↔ l * 2 ^ n < 2 ^ 63 := by
  rw [shl_filter l n hl]; omega

/-- the hypothesis of `shl_exact` is met by the boundary operands: `1 << 62` fits, `1 << 63` does not -/
example : (0 : Int) ≤ 1 ∧ (1 : Int) * 2 ^ 62 < 2 ^ 63 ∧ ¬ ((1 : Int) * 2 ^ 63 < 2 ^ 63) := by decide

/-! ## operator tables (over the GENERATED definitions) -/

/-- ★ the precedence of every binary operator is its level in the C grammar; `?` sits between assignment
    and `||`; `:` and `)` are below every level (they end an operand); the remaining operators
    (`~ ! ++ -- (`, never binary) are above every binary level. -/
theorem precedence_is_C (o : Operator) :
    (∀ b a, o.as_binary = some (b, a) → o.precedence = Spec.cLevel b ∧ 1 ≤ o.precedence ∧ o.precedence ≤ 12) ∧
    (o = .Question → o.precedence = Spec.cConditionalLevel) ∧
    ((o = .Colon ∨ o = .CloseParen) → o.precedence = 0) ∧
    (o.as_binary = none → o ≠ .Question → o ≠ .Colon → o ≠ .CloseParen → o.precedence = Spec.cUnaryLevel) := by
  cases o <;> (refine ⟨fun b a h => ?_, ?_, ?_, ?_⟩) <;>
    first
    | decide
    | (simp [Operator.as_binary] at h; done)
    | (simp [Operator.as_binary] at h; obtain ⟨rfl, rfl⟩ := h; decide)

/-- ★ the associativity of every binary operator is the one of the C grammar (assignments group right to
    left, everything else left to right) -/
theorem associativity_is_C (o : Operator) :
    ∀ b a, o.as_binary = some (b, a) → a = Spec.cAssoc b := by
  cases o <;> intro b a h <;>
    first
    | (simp [Operator.as_binary] at h; done)
    | (simp [Operator.as_binary] at h; obtain ⟨rfl, rfl⟩ := h; decide)

/-- ★ every lexeme means what it means in C (as binary, prefix and postfix operator), the table has every C
    punctuator of the expression language exactly once, and no empty lexeme -/
theorem lexemes_are_C :
    (∀ p ∈ operators,
        p.2.as_binary = (Spec.binaryOfLexeme p.1).map (fun e => (e.1, e.2.2)) ∧
        p.2.as_prefix = Spec.prefixOfLexeme p.1 ∧ p.2.as_postfix = Spec.postfixOfLexeme p.1 ∧ p.1 ≠ []) ∧
    (∀ l ∈ Spec.cLexemes, l ∈ operators.map (·.1)) ∧
    (operators.map (·.1)).Nodup ∧ (operators.map (·.2)).Nodup ∧
    (∀ o ∈ allOperators, o ∈ operators.map (·.2)) := by
  decide

/-- ★ table form of longest match: a lexeme that is a proper prefix of another lexeme comes later in
    `OPERATORS` -/
theorem longest_match_table :
    operators.Pairwise (fun a q => ¬ (a.1 <+: q.1 ∧ a.1 ≠ q.1)) := by
  decide

/-- ★ longest match, for every text: the operator the tokenizer takes (`find` = first entry of
    `OPERATORS` that is a prefix of the text) is an entry of the table, is a prefix of the text, and no
    entry that is also a prefix of the text is longer. -/
theorem longest_match (s lex : List Char) (o : Operator) (h : findOp s = some (lex, o)) :
    (lex, o) ∈ operators ∧ lex <+: s ∧ ∀ q ∈ operators, q.1 <+: s → q.1.length ≤ lex.length := by
  unfold findOp at h
  rw [List.find?_eq_some_iff_append] at h
  obtain ⟨hp, as, bs, hsplit, hbefore⟩ := h
  have hpre : lex <+: s := by simpa [List.isPrefixOf_iff_prefix] using hp
  refine ⟨by rw [hsplit]; simp, hpre, ?_⟩
  intro q hq hqs
  have hpw := longest_match_table
  rw [hsplit, List.pairwise_append] at hpw
  obtain ⟨_, hcons, _⟩ := hpw
  rw [List.pairwise_cons] at hcons
  rw [hsplit, List.mem_append, List.mem_cons] at hq
  rcases hq with hq | hq | hq
  · have := hbefore q hq
    have hb := List.isPrefixOf_iff_prefix.mpr hqs
    simp only [Bool.not_eq_true'] at this
    rw [this] at hb; exact absurd hb (by decide)
  · subst hq; exact Nat.le_refl _
  · have hr := hcons.1 q hq
    by_cases hlen : q.1.length ≤ lex.length
    · exact hlen
    · exfalso
      apply hr
      have hle : lex.length ≤ q.1.length := by omega
      refine ⟨List.prefix_of_prefix_length_le hpre hqs hle, ?_⟩
      intro e
      simp only at e
      rw [e] at hlen
      exact hlen (Nat.le_refl _)


example : findOp "<<=1".toList = some (['<', '<', '='], .LessLessEqual) := by decide

/-! ## the parser output and totality -/

/-- ★ every vector `ast::parse` returns, for any token sequence, is a well-formed reverse-Polish encoding:
    the stored `rhs_len` / `then_len` / `else_len` are exactly the lengths of the operand encodings. -/
theorem parse_wellformed (fuel : Nat) (toks : List Tok) (ast : List Ast)
    (h : parseToks fuel toks = .ok ast) : WF ast := by
  unfold parseToks at h
  split at h
  · simp at h
  · rename_i toks1 acc htree
    obtain ⟨t, ht, hacc⟩ := (parse_wf_aux fuel).2.1 _ _ _ _ _ htree
    split at h
    · simp at h
    · injection h with h
      rw [← h, hacc]; simpa using ht

/-- ★ hence `eval`'s `split_last().expect(..)` and `split_at(len - n)` never fail on it: evaluation of a
    parsed vector returns a value or an error in every environment — it cannot panic. -/
theorem eval_no_panic (ast : List Ast) (h : WF ast) (env : Env) : (eval ast.length ast env).Returns :=
  eval_returns_of_wf h ast.length env (Nat.le_refl _)

/-- ★ no expression text makes the evaluation panic (nor exhausts the fuel of `eval`). -/
theorem evalStr_never_panics (src : List Char) (env : Env) :
    evalStr src env ≠ .panic ∧ evalStr src env ≠ .fuel := by
  unfold evalStr
  cases hparse : parse src with
  | error e => simp
  | ok ast =>
    have hwf : WF ast := parse_wellformed _ _ ast hparse
    have hr : (evalValue ast env).Returns :=
      Res.bind_returns _ _ (eval_no_panic ast hwf env) fun _ _ =>
        Res.bind_returns _ _ (intoValue_returns _ _) fun _ _ => trivial
    simp only
    generalize evalValue ast env = r at hr
    cases r with
    | ok a => simp [Outcome.ofRes]
    | error e => simp [Outcome.ofRes]
    | panic => exact hr.elim
    | fuel => exact hr.elim


/-- ☆ the fuel the model hands to its tokenizer, parser and evaluator is never exhausted: every fuel above
    the text length gives the same tokens, the parser never answers `fuel`, and (previous theorem) neither
    does the evaluator.  So the outcomes of the model are exactly: a value, a syntax error, an evaluation
    error — the outcomes the Rust function has when it does not panic. -/
theorem fuel_sufficient (src : List Char) (env : Env) :
    (∀ g, src.length < g → tokenize (src.length + 1) src = tokenize g src) ∧
    parse src ≠ .error .fuel ∧
    (match evalStr src env with
      | .value _ _ => True
      | .syntaxError e => e ≠ .fuel
      | .evalError _ => True
      | .panic => False
      | .fuel => False) := by
  refine ⟨fun g hg => tokenize_fuel_irrelevant _ g src (Nat.lt_succ_self _) hg, parse_no_fuel src, ?_⟩
  have h1 := evalStr_never_panics src env
  have h2 := parse_no_fuel src
  cases h : evalStr src env with
  | value v e => trivial
  | syntaxError e =>
    simp only
    intro he; subst he
    unfold evalStr at h
    split at h
    · rename_i e' hp
      injection h with h; subst h; exact h2 hp
    · cases hv : evalValue ‹_› env <;> simp [hv, Outcome.ofRes] at h
  | evalError e => trivial
  | panic => exact h1.1 h
  | fuel => exact h1.2 h

example : (parse "1+2*(a=3)".toList).toOption = some
    [.term (.value 1), .term (.value 2), .term (.variable ['a']), .term (.value 3), .binary .Assign 1,
     .binary .Multiply 3, .binary .Add 5] := by decide

/-! ## short circuit -/

/-- ★ `lhs || rhs` with `lhs ≠ 0` is 1 in the environment `lhs` left behind, whatever `rhs` is: `rhs` has no
    effect and cannot raise an error (the right-hand side of the equation does not mention it). -/
theorem shortcircuit_or (f : Nat) (lhs rhs : List Ast) (env env1 : Env) (lt : Term) (l : Int)
    (hl : eval f lhs env = .ok (lt, env1)) (hv : intoValue lt env1 = .ok l) (hne : l ≠ 0) :
    eval (f + 1) (lhs ++ rhs ++ [.binary .LogicalOr rhs.length]) env = .ok (.value 1, env1) := by
  rw [eval, splitLast_append]
  simp only [splitAtEnd_append]
  simp [hl, hv, Res.bind, hne]

/-- ★ dually `lhs && rhs` with `lhs = 0` is 0 -/
theorem shortcircuit_and (f : Nat) (lhs rhs : List Ast) (env env1 : Env) (lt : Term)
    (hl : eval f lhs env = .ok (lt, env1)) (hv : intoValue lt env1 = .ok 0) :
    eval (f + 1) (lhs ++ rhs ++ [.binary .LogicalAnd rhs.length]) env = .ok (.value 0, env1) := by
  rw [eval, splitLast_append]
  simp only [splitAtEnd_append]
  simp [hl, hv, Res.bind]

/-- ★ `c ? t : e` evaluates exactly one branch: the result is the evaluation of the selected branch in the
    environment `c` left behind; the other branch does not occur on the right-hand side. -/
theorem shortcircuit_cond (f : Nat) (c t e : List Ast) (env env1 : Env) (ct : Term) (v : Int)
    (hc : eval f c env = .ok (ct, env1)) (hv : intoValue ct env1 = .ok v) :
    eval (f + 1) (c ++ t ++ e ++ [.conditional t.length e.length]) env =
      if v ≠ 0 then eval f t env1 else eval f e env1 := by
  rw [eval, splitLast_append]
  simp only [splitAtEnd_append]
  simp [hc, hv, Res.bind]

/-- the three statements under one name -/
theorem shortcircuit_no_effect :
    (∀ f lhs rhs env env1 lt l, eval f lhs env = .ok (lt, env1) → intoValue lt env1 = .ok l → l ≠ 0 →
      eval (f + 1) (lhs ++ rhs ++ [.binary .LogicalOr rhs.length]) env = .ok (.value 1, env1)) ∧
    (∀ f lhs rhs env env1 lt, eval f lhs env = .ok (lt, env1) → intoValue lt env1 = .ok 0 →
      eval (f + 1) (lhs ++ rhs ++ [.binary .LogicalAnd rhs.length]) env = .ok (.value 0, env1)) ∧
    (∀ f c t e env env1 ct v, eval f c env = .ok (ct, env1) → intoValue ct env1 = .ok v →
      eval (f + 1) (c ++ t ++ e ++ [.conditional t.length e.length]) env =
        if v ≠ 0 then eval f t env1 else eval f e env1) :=
  ⟨shortcircuit_or, shortcircuit_and, shortcircuit_cond⟩


/-- `1 || (x = 1/0)`: neither the division nor the assignment happens -/
example : evalStr "1 || (x = 1/0)".toList [] = .value 1 [] ∧
    evalStr "0 && x++".toList [] = .value 0 [] ∧
    evalStr "0 ? x++ : y--".toList [] = .value 0 [(['y'], ['-', '1'])] := by
  refine ⟨?_, ?_, ?_⟩ <;> decide +kernel

/-! ## prefix and postfix operators -/

/-- ★ `+ - ! ~` on an i64 value: exact, and `-` is an error exactly at `-2^63` -/
theorem prefix_exact (t : Term) (env : Env) (v : Int) (hv : intoValue t env = .ok v) (hr : InRange v) :
    applyPrefix t .NumericCoercion env = .ok (v, env) ∧
    applyPrefix t .NumericNegation env =
      (if Spec.InRange (-v) then .ok (-v, env) else .error .overflow) ∧
    (Spec.InRange (-v) ↔ v ≠ -9223372036854775808) ∧
    applyPrefix t .LogicalNegation env = .ok (Spec.truth (v = 0), env) ∧
    applyPrefix t .BitwiseNegation env = .ok (-v - 1, env) ∧ Spec.InRange (-v - 1) := by
  refine ⟨?_, ?_, ?_, ?_, ?_, ?_⟩
  · simp [applyPrefix, hv, Res.bind]
  · simp only [applyPrefix, hv, Res.bind, checked_eq_represent, Spec.represent]
    by_cases h : Spec.InRange (-v) <;> simp [h, Res.ofOption]
  · unfold InRange at hr; unfold Spec.InRange; omega
  · simp only [applyPrefix, hv, Res.bind, Spec.truth]
  · simp [applyPrefix, hv, Res.bind, bitNot_exact v hr]
  · unfold InRange at hr; unfold Spec.InRange; omega

/-- the hypotheses of `prefix_exact` at the boundary: `-(-2^63)` is the error case -/
example : intoValue (.value (-9223372036854775808)) [] = .ok (-9223372036854775808) ∧
    InRange (-9223372036854775808) ∧ ¬ Spec.InRange (-(-9223372036854775808)) := by decide

/-- ★ `++x --x x++ x--` on a variable whose value is `v`: the variable becomes `v ± 1` (decimal text), the
    result is the new (prefix) or old (postfix) value; at `2^63-1` / `-2^63` it is an error and nothing is
    assigned — never a wrapped value. -/
theorem incdec_exact (x : Name) (env : Env) (v : Int) (hv : expandVariable x env = .ok v) :
    applyPrefix (.variable x) .Increment env =
      (if Spec.InRange (v + 1) then .ok (v + 1, env.set x (showInt (v + 1))) else .error .overflow) ∧
    applyPrefix (.variable x) .Decrement env =
      (if Spec.InRange (v - 1) then .ok (v - 1, env.set x (showInt (v - 1))) else .error .overflow) ∧
    applyPostfix (.variable x) .Increment env =
      (if Spec.InRange (v + 1) then .ok (v, env.set x (showInt (v + 1))) else .error .overflow) ∧
    applyPostfix (.variable x) .Decrement env =
      (if Spec.InRange (v - 1) then .ok (v, env.set x (showInt (v - 1))) else .error .overflow) := by
  refine ⟨?_, ?_, ?_, ?_⟩
  · simp only [applyPrefix, requireVariable, hv, Res.bind, checked_eq_represent, Spec.represent]
    by_cases h : Spec.InRange (v + 1) <;> simp [h, Res.ofOption, assign]
  · simp only [applyPrefix, requireVariable, hv, Res.bind, checked_eq_represent, Spec.represent]
    by_cases h : Spec.InRange (v - 1) <;> simp [h, Res.ofOption, assign]
  · simp only [applyPostfix, requireVariable, hv, Res.bind, checked_eq_represent, Spec.represent]
    by_cases h : Spec.InRange (v + 1) <;> simp [h, Res.ofOption, assign]
  · simp only [applyPostfix, requireVariable, hv, Res.bind, checked_eq_represent, Spec.represent]
    by_cases h : Spec.InRange (v - 1) <;> simp [h, Res.ofOption, assign]

/-- ★ increment and decrement of something that is not a variable is an error -/
theorem incdec_needs_variable (c : Int) (env : Env) :
    applyPrefix (.value c) .Increment env = .error .assignmentToValue ∧
    applyPrefix (.value c) .Decrement env = .error .assignmentToValue ∧
    (∀ op, applyPostfix (.value c) op env = .error .assignmentToValue) := by
  refine ⟨?_, ?_, ?_⟩ <;> simp [applyPrefix, applyPostfix, requireVariable, Res.bind]


example : expandVariable ['m'] [(['m'], "9223372036854775807".toList)] = .ok 9223372036854775807 ∧
    applyPostfix (.variable ['m']) .Increment [(['m'], "9223372036854775807".toList)]
    = .error .overflow := by decide +kernel

/-! ## a variable whose value is an integer constant denotes that constant -/

/-- ★ (full strength; F1 of DESIGN.md is fixed in /repo) if the text `c` is an integer constant for the
    tokenizer — made of term characters and accepted by the radix rules with value `v` — then a variable
    whose value is `c` expands to `v`, and with a sign in front to `±v`. -/
theorem var_constant_agrees (x : Name) (c : List Char) (v : Int) (env : Env)
    (hterm : ∀ ch ∈ c, isTermChar ch = true) (hc : parseConstant c = some v) (hx : env.get x = some c) :
    expandVariable x env = .ok v := by
  unfold expandVariable
  simp only [hx, parseInteger_of_constant c v hterm hc, Res.ofOption]


/-- ☆ both directions, for EVERY value text (not only constants): the variable expands to `v` exactly when
    the text spells the signed C integer constant `v` (optional `+`/`-`, then `0x`/`0X` hex, leading-`0`
    octal or decimal, fitting i64); every other text is the error `InvalidVariableValue`; unset is 0. -/
theorem var_value_is_signed_constant (x : Name) (env : Env) :
    expandVariable x env =
      match env.get x with
      | none => .ok 0
      | some s =>
        match Spec.signedConstValue s with
        | some v => .ok v
        | none => .error .invalidVariableValue := by
  unfold expandVariable
  cases env.get x with
  | none => rfl
  | some s =>
    simp only [parseInteger_eq_spec]
    cases Spec.signedConstValue s <;> rfl

/-- ☆ `eval` on the vector the parser lays out for a tree is that tree evaluated node by node (the stored
    operand lengths select exactly the operand encodings), for every tree and environment. -/
theorem eval_rpn (e : Spec.Expr) (env : Env) :
    WF (rpn e) ∧ eval (rpn e).length (rpn e) env = evalTree e env :=
  ⟨rpn_wf e, eval_rpn_tree e _ env (Nat.le_refl _)⟩

/-- ☆ every expression gets its C value: for every tree `e` on which C defines a value (`Spec.inScope`: no
    unsequenced write/use of a variable, no conditional as lvalue) with literals in i64, and every
    environment, the code's evaluation (`eval` on the vector the parser lays out for `e`, then
    `into_value`) returns exactly the Spec's exact value and final variables — and an error exactly when
    the Spec has none (overflow, division by zero, bad shift, bad variable value, assignment to a
    non-variable).  The evaluation order of the code ("left term, right operand, then left value") and the
    Spec's left-to-right order are shown to coincide on these trees by a frame argument. -/
theorem model_computes_C_value (e : Spec.Expr) (env : Env) (hs : Spec.inScope e = true) (hl : litsInRange e) :
    match Spec.evalExact e env with
    | some (v, env') => evalValue (rpn e) env = .ok (v, env')
    | none => ∃ err, evalValue (rpn e) env = .error err :=
  evalValue_rpn e env hs hl

/-- ☆ `parse_render`: write a tree as tokens with exactly the parentheses the C grammar needs (`render`,
    driven by the GENERATED precedence/associativity tables: left operand in parentheses when its level is
    lower, right operand when its level is not higher, assignment and `?:` grouping to the right, unary and
    postfix operands by level) — the precedence-climbing parser reads it back as the reverse-Polish vector of
    that same tree, for every tree.  This is the statement that the parser implements C precedence and
    associativity. -/
theorem parse_render (e : Spec.Expr) (f : Nat) (hf : 2 * (render e).length + 2 ≤ f) :
    parseToks f (render e) = .ok (rpn e) :=
  parseToks_render e f hf

/-- ★ (the clause the round-5 seeded change broke) the operand lengths the parser stores never wrap, whatever
    the size of the operands: for `l op r` the vector ends in the `Binary` node whose `rhs_len` is exactly the
    number of nodes of `r`'s own vector, and for `c ? t : e` the `Conditional` node carries exactly the node
    counts of `t` and of `e` — unbounded naturals, as `usize` is meant to be; `eval` then slices at exactly
    these places (`eval_rpn`), so `a op (big)` is `op` applied to the values of `a` and of `big`
    (`model_computes_C_value`) for operands of every size. -/
theorem operand_lengths_never_wrap (op : BinaryOperator) (l r c t e : Spec.Expr) (f g : Nat)
    (hf : 2 * (render (.bin op l r)).length + 2 ≤ f) (hg : 2 * (render (.cond c t e)).length + 2 ≤ g) :
    parseToks f (render (.bin op l r)) = .ok (rpn l ++ rpn r ++ [.binary op (rpn r).length]) ∧
    parseToks g (render (.cond c t e)) =
      .ok (rpn c ++ rpn t ++ rpn e ++ [.conditional (rpn t).length (rpn e).length]) :=
  ⟨parse_render (.bin op l r) f hf, parse_render (.cond c t e) g hg⟩

/-- ☆ … together with `model_computes_C_value`: the tokens of any tree on which C defines a value are parsed
    and evaluated to exactly that value (and to an error exactly when there is none). -/
theorem rendered_expression_gets_its_C_value (e : Spec.Expr) (env : Env) (hs : Spec.inScope e = true)
    (hl : litsInRange e) :
    ∃ ast, parseToks (2 * (render e).length + 2) (render e) = .ok ast ∧
      match Spec.evalExact e env with
      | some (v, env') => evalValue ast env = .ok (v, env')
      | none => ∃ err, evalValue ast env = .error err :=
  ⟨rpn e, parse_render e _ (Nat.le_refl _), model_computes_C_value e env hs hl⟩

/-- ☆ the tokenizer reads a token list written out (operators by their lexeme of the generated `OPERATORS`,
    non-negative constants in decimal, identifiers; one blank after each) back as that list -/
theorem tokenize_spelling (toks : List Tok) (hok : ∀ t ∈ toks, TokOK t) (f : Nat)
    (hf : (spell toks).length < f) : tokenize f (spell toks) = toks :=
  tokenize_spell toks hok f hf

/-- ☆ from characters to the C value: for every tree on which C defines a value (constants non-negative
    i64, identifiers as names), `yash_arith::eval` on its text — minimal parentheses, one blank after every
    token — returns exactly the Spec's value and final variables, and an evaluation error exactly when the
    Spec has none.  (tokenizer + parser + evaluator together; no step is left to testing for this spelling.) -/
theorem text_gets_its_C_value (e : Spec.Expr) (env : Env) (hs : Spec.inScope e = true) (h : leavesOK e) :
    match Spec.evalExact e env with
    | some (v, env') => evalStr (spell (render e)) env = .value v env'
    | none => ∃ err, evalStr (spell (render e)) env = .evalError err :=
  evalStr_spell_render e env hs h

/-- ☆ the same for EVERY spelling of the tokens: any white space of Rust's `char::is_whitespace` (Unicode
    included) before, between and after the tokens, none at all where two tokens cannot run together (a term
    next to an operator, or a parenthesis next to an operator), and any notation of the constants (decimal,
    `0x`/`0X`, leading-0 octal).  `tokenize_every_spelling` is the tokenizer half. -/
theorem tokenize_every_spelling (ps : List Piece) (lead : List Char) (f : Nat) (hps : PiecesOK ps)
    (hlead : ∀ c ∈ lead, isWhitespace c = true) (hf : (lead ++ flatten ps).length < f) :
    tokenize f (lead ++ flatten ps) = ps.map (·.tok) :=
  tokenize_pieces ps lead f hps hlead hf

theorem text_gets_its_C_value_every_spelling (e : Spec.Expr) (env : Env) (hs : Spec.inScope e = true)
    (hl : litsInRange e) (ps : List Piece) (lead : List Char) (hps : PiecesOK ps)
    (hlead : ∀ c ∈ lead, isWhitespace c = true) (htoks : ps.map (·.tok) = render e) :
    match Spec.evalExact e env with
    | some (v, env') => evalStr (lead ++ flatten ps) env = .value v env'
    | none => ∃ err, evalStr (lead ++ flatten ps) env = .evalError err :=
  evalStr_pieces e env hs hl ps lead hps hlead htoks

/-- ☆ … and with redundant parentheses: `d x` extra pairs around every subexpression `x` (and around the
    whole), in addition to the needed ones: every text the harness' tree renderer can produce — minimal or
    redundant parentheses, any white space or none, any notation of the constants — evaluates to the Spec's
    value.  `parse_render_redundant` is the parser half. -/
theorem parse_render_redundant (d : Deco) (e : Spec.Expr) (f : Nat) (hf : 2 * (renderTop d e).length + 2 ≤ f) :
    parseToks f (renderTop d e) = .ok (rpn e) :=
  parseToks_renderD d e f hf

theorem text_gets_its_C_value_all_spellings (d : Deco) (e : Spec.Expr) (env : Env)
    (hs : Spec.inScope e = true) (hl : litsInRange e) (ps : List Piece) (lead : List Char) (hps : PiecesOK ps)
    (hlead : ∀ c ∈ lead, isWhitespace c = true) (htoks : ps.map (·.tok) = renderTop d e) :
    match Spec.evalExact e env with
    | some (v, env') => evalStr (lead ++ flatten ps) env = .value v env'
    | none => ∃ err, evalStr (lead ++ flatten ps) env = .evalError err :=
  evalStr_piecesD d e env hs hl ps lead hps hlead htoks

/-- `((a))*(((b+1)))` : two redundant pairs around `a`, two around the needed pair of `b+1` -/
example :
    let e : Spec.Expr := .bin .Multiply (.var ['a']) (.bin .Add (.var ['b']) (.num 1))
    let d : Deco := fun x => if x = .var ['a'] then 2 else if x = .bin .Add (.var ['b']) (.num 1) then 2 else 0
    renderTop d e = tokenize 100 "((a))*(((b+1)))".toList := by decide +kernel

/-- `x=0x10<<2` without any blank, after a no-break space: a spelling of the tokens of `x = 16 << 2` -/
example :
    let e : Spec.Expr := .bin .Assign (.var ['x']) (.bin .ShiftLeft (.num 16) (.num 2))
    let ps : List Piece :=
      [⟨.term (.variable ['x']), ['x'], []⟩, ⟨.op .Equal, ['='], []⟩, ⟨.term (.value 16), "0x10".toList, []⟩,
       ⟨.op .LessLess, "<<".toList, []⟩, ⟨.term (.value 2), ['2'], []⟩]
    ps.map (·.tok) = render e ∧ flatten ps = "x=0x10<<2".toList ∧ isWhitespace (Char.ofNat 0xA0) = true ∧
    evalStr (Char.ofNat 0xA0 :: flatten ps) [] = .value 64 [(['x'], ['6', '4'])] := by
  refine ⟨by decide +kernel, by decide +kernel, by decide, by decide +kernel⟩

/-- ☆ (the range clause of the round-3 seeded change) a numeric constant of an expression is worth exactly
    what the C literal is worth, and is an ERROR — never a wrapped value — when the literal is malformed or
    its value does not fit i64: for every term of term characters … -/
theorem literal_exact_or_error (token : List Char) (hterm : ∀ c ∈ token, isTermChar c = true) :
    parseConstant token = Spec.constValue token ∧
    (∀ v, parseConstant token = some v → InRange v) := by
  refine ⟨parseConstant_eq_spec token hterm, fun v hv => ?_⟩
  rw [parseConstant_eq_spec token hterm] at hv
  unfold Spec.constValue at hv
  exact bind_represent_inRange (f := fun n => (n : Int)) hv

/-- … and at the top: a constant written alone evaluates to its C value or to a token error -/
theorem literal_alone (c : Char) (t : List Char) (env : Env) (hterm : ∀ ch ∈ c :: t, isTermChar ch = true)
    (hd : isAsciiDigit c = true) :
    evalStr (c :: t) env =
      match Spec.constValue (c :: t) with
      | some v => .value v env
      | none => .syntaxError .tokenError :=
  evalStr_literal c t env hterm hd

/-- `0x7fffffffffffffff` is 2^63-1; `0x8000000000000000` and `9223372036854775808` are errors, not -2^63 -/
example : Spec.constValue "0x7fffffffffffffff".toList = some 9223372036854775807 ∧
    Spec.constValue "0x8000000000000000".toList = none ∧ Spec.constValue "9223372036854775808".toList = none ∧
    evalStr "0x8000000000000000".toList [] = .syntaxError .tokenError ∧
    Spec.constValue "0xFFFFFFFFFFFFFFFF".toList = none ∧ Spec.constValue "01000000000000000000000".toList = none := by
  refine ⟨by decide +kernel, by decide +kernel, by decide +kernel, by decide +kernel, by decide +kernel,
    by decide +kernel⟩

/-- `x = 2 + 3 * b`: the hypotheses hold and this is its text -/
example :
    let e : Spec.Expr := .bin .Assign (.var ['x']) (.bin .Add (.num 2) (.bin .Multiply (.num 3) (.var ['b'])))
    spell (render e) = "x = 2 + 3 * b ".toList ∧ Spec.inScope e = true := by
  refine ⟨by decide +kernel, by decide⟩

/-- `a - (b - c) * -d++` needs one pair of parentheses; `tokenize` of the text gives `render` of the tree -/
example :
    let e : Spec.Expr := .bin .Subtract (.var ['a'])
      (.bin .Multiply (.bin .Subtract (.var ['b']) (.var ['c'])) (.pre .NumericNegation (.post .Increment (.var ['d']))))
    render e = tokenize 100 "a - (b - c) * -d++".toList := by decide +kernel

/-- the hypotheses are met by `x = 2 + 3 * b` (and `rpn` of it is what the parser produces) -/
example :
    let e : Spec.Expr := .bin .Assign (.var ['x']) (.bin .Add (.num 2) (.bin .Multiply (.num 3) (.var ['b'])))
    Spec.inScope e = true ∧ litsInRange e ∧ (parse "x = 2 + 3 * b".toList).toOption = some (rpn e) ∧
    Spec.evalExact e [(['b'], ['5'])] = some (17, [(['b'], ['5']), (['x'], ['1', '7'])]) := by
  refine ⟨by decide, by simp [litsInRange, InRange], by decide +kernel, by decide +kernel⟩

/-- outside the scope the Spec is silent, and the code does give another answer than left-to-right
    evaluation would: `x + (x = 5)` is 10 with `x` initially unset -/
example :
    let e : Spec.Expr := .bin .Add (.var ['x']) (.bin .Assign (.var ['x']) (.num 5))
    Spec.inScope e = false ∧ evalValue (rpn e) [] = .ok (10, [(['x'], ['5'])]) ∧
    Spec.evalExact e [] = some (5, [(['x'], ['5'])]) := by
  refine ⟨by decide, by decide +kernel, by decide +kernel⟩

/-- ☆ "assignment operators update variables": the decimal text an assignment stores (`Value::to_string`)
    is read back by `parse_integer` as exactly the assigned value, for every i64 value … -/
theorem assign_roundtrip (v : Int) (hv : InRange v) : parseInteger (showInt v) = some v := by
  rw [parseInteger_eq_spec]; exact signedConstValue_showInt v hv

/-- … so after `assign(name, v)` the variable expands to `v` -/
theorem assign_then_read (env : Env) (x : Name) (v : Int) (hv : InRange v) :
    (assign x v env).bind (fun p => expandVariable x p.2) = .ok v := by
  simp only [assign, Res.bind, expandVariable, get_set_self, assign_roundtrip v hv, Res.ofOption]

example : showInt (-9223372036854775808) = "-9223372036854775808".toList ∧ showInt 0 = ['0'] ∧
    InRange (-9223372036854775808) := by
  refine ⟨by decide +kernel, by decide +kernel, by decide⟩

/-! ## the `portable` configuration (`ast/portability.rs`) -/

/-- the portability check looks at the whole vector: it fails exactly when `++` or `--` occurs anywhere in
    the expression tree — also in an operand that `||`, `&&` or `?:` would not evaluate -/
theorem portable_rejects_exactly_incdec (e : Spec.Expr) : (rpn e).any isIncDec = Spec.hasIncDec e := by
  induction e with
  | num v => rfl
  | var x => rfl
  | pre op e ih => cases op <;> simp [rpn, isIncDec, Spec.hasIncDec, ih]
  | post op e ih => simp [rpn, isIncDec, Spec.hasIncDec]
  | bin op l r ihl ihr => simp [rpn, isIncDec, Spec.hasIncDec, ihl, ihr]
  | cond c t e ihc iht ihe => simp [rpn, isIncDec, Spec.hasIncDec, ihc, iht, ihe, Bool.or_assoc]

/-- … and the option changes nothing else: a `PortabilityError` exactly when the parsed vector has such a
    node, otherwise the outcome of the default configuration (syntax errors come first, as in the code) -/
theorem portable_only_adds_the_check (src : List Char) (env : Env) :
    (evalStrPortable src env = none ↔ ∃ ast, parse src = .ok ast ∧ ast.any isIncDec = true) ∧
    (evalStrPortable src env ≠ none → evalStrPortable src env = some (evalStr src env)) := by
  unfold evalStrPortable evalStr
  cases hp : parse src with
  | error e => simp
  | ok ast =>
    by_cases h : ast.any isIncDec = true
    · simp only [h, if_true, true_iff, ne_eq, not_true_eq_false, false_implies, and_true]
      exact ⟨ast, rfl, h⟩
    · simp only [h, if_false, reduceCtorEq, false_iff, ne_eq, not_false_eq_true, true_implies, and_true]
      rintro ⟨a, ha, hh⟩
      injection ha with ha
      subst ha
      exact h hh

example : evalStrPortable "0 && n++".toList [] = none ∧
    evalStrPortable "n + 1".toList [] = some (.value 1 []) := by
  refine ⟨by decide +kernel, by decide +kernel⟩

/-! ## the glue to the shell's variable store (`Shell.lean`; yash-semantics `VarEnv`) -/

/-- the evaluator written over the `yash_arith::Env` interface (the one the shell-level leg of the
    correspondence runs with the shell's store) IS the evaluator of `Model.lean` when the environment is the
    `HashMap`: every theorem above about `eval` is a theorem about it. -/
theorem evalG_hashMap (f : Nat) (ast : List Ast) (env : Env) : evalG hashMapI f ast env = eval f ast env :=
  evalG_hashMap_aux f ast env

/-- "assignment operators update variables", for the shell's store: after `assign_variable` the variable is
    visible with the assigned text, in whatever context it lives. -/
theorem shell_assign_visible (cs cs' : List Ctx) (n : Name) (v : List Char)
    (h : assignVisibleOrGlobal cs n v = some cs') : visible cs' n = some ⟨.scalar v, false⟩ :=
  visible_after_assign cs cs' n v h

/-- … and it is the variable the callers see: inside a function whose own context `c` has no variable `n`,
    the assignment leaves `c` alone and after the function returned (context popped) `n` has the new value;
    with a writable local `n` only the local changes and the callers' contexts are untouched. -/
theorem shell_assign_scope (c r : Ctx) (rs : List Ctx) (n : Name) (v : List Char) (cs' : List Ctx)
    (h : assignVisibleOrGlobal (c :: r :: rs) n v = some cs') :
    (c.find n = none → ∃ rest', cs' = c :: rest' ∧ visible rest' n = some ⟨.scalar v, false⟩) ∧
    (∀ w, c.find n = some w → cs' = c.put n ⟨.scalar v, false⟩ :: r :: rs ∧ w.readOnly = false) :=
  assign_scope c r rs n v cs' h

/-- ★ (the clause the round-2 seeded change broke, at the level of what the driver runs) in the scenario
    "function with `typeset` locals, then the expansions, then print every name inside, return, print
    again": the lines the model prints are the values, the names as the function sees them at its end, and
    the names as the caller sees them after the function's context is popped — and for every name the function
    did not declare the two are EQUAL, whatever the expressions were (any assignment, `++`, `op=`, nested
    `$((…))` …): an assignment inside a function to a name that is not local there is seen by the caller. -/
theorem function_assignment_reaches_caller (names : List Name) (sc : Scenario) (vals : List (List Char × Nat))
    (st1 : Store) (hk : sc.kind = .fn)
    (h : runBody (pushLocals { ctxs := [sc.globals], nounset := sc.nounset, portable := sc.portable } sc.locals)
      sc.exprs = (vals, .ok st1)) :
    (runScenario names sc).lines = vals.map .value ++ printAll names st1 ++ printAll names (popCtx st1) ∧
    (runScenario names sc).final = some (baseCtx (popCtx st1)) ∧
    ∀ x, sc.locals.find x = none → showVisible st1 x = showVisible (popCtx st1) x := by
  refine ⟨?_, ?_, fun x hx => fn_sees_what_caller_sees _ sc.locals sc.exprs x vals st1 (by simp) hx h⟩
  · unfold runScenario; simp only [hk, h]
  · unfold runScenario; simp only [hk, h]

/-- `n += 1` in a function without a local `n`: inside and after return `n` is 2 -/
example :
    (runBody (pushLocals { ctxs := [[(['n'], ⟨.scalar ['1'], false⟩)]], nounset := false, portable := false } [])
      [" n += 1 ".toList]).2.toOption.map
      (fun st => (showVisible st ['n'], showVisible (popCtx st) ['n'])) = some ([['2']], [['2']]) := by
  decide +kernel

/-- a read-only target makes the assignment (hence the expansion) fail -/
theorem shell_assign_readonly (c : Ctx) (rest : List Ctx) (n : Name) (v : List Char) (w : SVar)
    (hw : c.find n = some w) (hro : w.readOnly = true) : assignVisibleOrGlobal (c :: rest) n v = none :=
  assign_readonly c rest n v w hw hro

/-- `n += 1` in a function without a local `n`, global `n=1`: the function's context stays empty, the global is 2 -/
example : assignVisibleOrGlobal [[], [(['n'], ⟨.scalar ['1'], false⟩)]] ['n'] ['2']
    = some [[], [(['n'], ⟨.scalar ['2'], false⟩)]] := by decide

/-- ★ "`$((x))` and `$(($x))` agree", end to end at `yash_arith::eval`: if the value text `c` of the variable
    `x` is an integer constant worth `v`, then evaluating the text `x` and evaluating the text `c` (what `$x`
    puts there) both give `v` and leave the variables alone. -/
theorem variable_and_its_text_agree (x : Name) (c : Char) (t : List Char) (v : Int) (env : Env)
    (hx : x ≠ [] ∧ (∀ ch ∈ x, isTermChar ch = true) ∧ (∀ a, x.head? = some a → isAsciiDigit a = false))
    (hterm : ∀ ch ∈ c :: t, isTermChar ch = true) (hd : isAsciiDigit c = true)
    (hv : Spec.constValue (c :: t) = some v) (henv : env.get x = some (c :: t)) :
    evalStr x env = .value v env ∧ evalStr (c :: t) env = .value v env := by
  refine ⟨?_, by rw [literal_alone c t env hterm hd, hv]⟩
  have hsigned : Spec.signedConstValue (c :: t) = some v := by
    have hc := hterm c (by simp)
    unfold Spec.signedConstValue
    split
    · rename_i heq; injection heq with h1 _; subst h1; exact absurd hc (by decide)
    · rename_i heq; injection heq with h1 _; subst h1; exact absurd hc (by decide)
    · exact hv
  have hread : Spec.evalExact (.var x) env = some (v, env) := by
    simp only [Spec.evalExact, Spec.readVar, lookup_eq_get, henv, hsigned, Option.map]
  have := text_gets_its_C_value_every_spelling (.var x) env rfl trivial
    [⟨.term (.variable x), x, []⟩] [] ⟨⟨rfl, hx⟩, by simp, fun _ => trivial, trivial⟩ (by simp) rfl
  rw [hread] at this
  simpa [flatten] using this

/-- `x=0x1F`: the texts `x` and `0x1F` are both 31 -/
example : evalStr ['x'] [(['x'], "0x1F".toList)] = .value 31 [(['x'], "0x1F".toList)] ∧
    evalStr "0x1F".toList [(['x'], "0x1F".toList)] = .value 31 [(['x'], "0x1F".toList)] := by
  refine ⟨by decide +kernel, by decide +kernel⟩

/-- the two witnesses that failed before the fix: `x=010` is 8, `x=0x10` is 16 -/
example : expandVariable ['x'] [(['x'], "010".toList)] = .ok 8 ∧
    expandVariable ['x'] [(['x'], "0x10".toList)] = .ok 16 ∧
    parseConstant "010".toList = some 8 ∧ parseConstant "0x10".toList = some 16 ∧
    (∀ ch ∈ "0x10".toList, isTermChar ch = true) ∧ Env.get [(['x'], "0x10".toList)] ['x'] = some "0x10".toList := by
  decide +kernel

/-! ## wave 3: the cause of an error, non-ASCII identifiers -/

/-- ☆ "reports an error" at full strength: for every binary operator and all i64 operands `binary_result` IS
    the Spec — the exact value when `Spec.why` finds no reason, and otherwise the error that names the reason
    (`DivisionByZero` for `/ %` by 0, `LeftShiftingNegative`, `ReverseShifting` for a negative count,
    `Overflow` for everything unrepresentable incl. `MIN / -1`, `MIN % -1` and counts ≥ 64), with the checks in
    the order of C 6.5.5/6.5.7 (`-1 << -1` is a left shift of a negative number, not a negative count).
    `Spec.why` has no reason exactly when C defines a representable value. -/
theorem failing_operation_is_named (op : BinaryOperator) (l r : Int) (hl : InRange l) (hr : InRange r) :
    binaryResult op l r =
      (match Spec.why (Spec.arithOf op) l r with
        | none => .ok (Spec.exactOp op l r)
        | some q => .error (reasonErr q)) ∧
    (Spec.why (Spec.arithOf op) l r = none ↔
      (Spec.definedOp op l r ∧ Spec.InRange (Spec.exactOp op l r))) :=
  ⟨binaryResult_why op l r hl hr, why_none_iff _ l r⟩

/-- every reason occurs, at the operands the property names; the order of the checks is visible at `-1 << -1`
    and `1 << 64` vs `1 << -1` -/
example :
    binaryResult .Divide 1 0 = .error .divisionByZero ∧ binaryResult .RemainderAssign 1 0 = .error .divisionByZero ∧
    binaryResult .Divide (-9223372036854775808) (-1) = .error .overflow ∧
    binaryResult .Remainder (-9223372036854775808) (-1) = .error .overflow ∧
    binaryResult .ShiftLeft (-1) (-1) = .error .leftShiftingNegative ∧
    binaryResult .ShiftLeft 1 (-1) = .error .reverseShifting ∧ binaryResult .ShiftRight (-1) (-1) = .error .reverseShifting ∧
    binaryResult .ShiftLeft 1 64 = .error .overflow ∧ binaryResult .ShiftLeft 1 63 = .error .overflow ∧
    binaryResult .ShiftRight 1 4294967296 = .error .overflow ∧
    binaryResult .Add 9223372036854775807 1 = .error .overflow ∧ binaryResult .ShiftLeft 1 62 = .ok 4611686018427387904 := by
  decide

/-- ☆ the Unicode tokenizer with no extra alphanumerics IS the tokenizer of `Model.lean` (so every theorem above
    is a theorem about `evalStrU []`), token by token and for the whole evaluation incl. the cause. -/
theorem unicode_tokenizer_is_the_model (src : List Char) (env : Env) (f : Nat) (portable : Bool) :
    nextTokenU [] src = nextToken src ∧ tokenizeU [] f src = tokenize f src ∧
    evalStrU [] src env = evalStr src env ∧ evalStrPortableU [] src env = evalStrPortable src env ∧
    evalStrCauseU [] portable src env = evalStrCause portable src env := by
  refine ⟨nextTokenU_nil src, tokenizeU_nil f src, evalStrU_nil src env, evalStrPortableU_nil src env, ?_⟩
  unfold evalStrCauseU evalStrCause
  rw [evalStrU_nil, evalStrPortableU_nil]

/-- ☆ "no expression text, however malformed, makes the shell panic" for texts with non-ASCII identifiers:
    whatever set of characters `char::is_alphanumeric` accepts (`extra` is arbitrary), the evaluation returns a
    value or an error — no failed `expect`, no slice out of range, and none of the model's fuels runs out (the
    tokenizer's fuel is irrelevant above the text length). -/
theorem evalStrU_never_panics (extra : List Char) (src : List Char) (env : Env) :
    evalStrU extra src env ≠ .panic ∧ evalStrU extra src env ≠ .fuel ∧
    evalStrU extra src env ≠ .syntaxError .fuel ∧
    (∀ g, src.length < g → tokenizeU extra (src.length + 1) src = tokenizeU extra g src) :=
  evalStrU_returns extra src env

/-- the theorem is not about the ASCII case only: `é` is a variable, `٣` (an alphanumeric that is no ASCII digit)
    too, `1é` is an invalid constant, `é€` stops at a character that starts nothing -/
example :
    evalStrU ['é'] "é=3, é".toList [] = .syntaxError .tokenError ∧
    evalStrU ['é'] "é = 3".toList [] = .value 3 [(['é'], ['3'])] ∧
    evalStrU ['٣'] "٣+1".toList [(['٣'], ['4'])] = .value 5 [(['٣'], ['4'])] ∧
    evalStrCauseU ['é'] false "1é".toList [] = some (.token .invalidNumericConstant) ∧
    evalStrCauseU ['é'] false "é€".toList [] = some (.token .invalidCharacter) ∧
    evalStrCauseU [] false "é".toList [] = some (.token .invalidCharacter) := by
  decide +kernel

/-- ☆ `SyntaxError::TokenError` always carries a kind, and the kind says what is wrong at the place where the
    tokenizer stopped: the parser answers `TokenError` only if the token sequence holds the tokenizer's error
    (then `firstTokenErrU` names it — the `none` arm of `outcomeCause` is dead); and an error token means:
    after the white space the text starts with a character that begins neither an operator nor a term
    (`InvalidCharacter`), or with an ASCII digit whose maximal term is not a C constant
    (`InvalidNumericConstant`). -/
theorem token_error_has_a_kind (extra : List Char) (src : List Char) :
    (parseU extra src = .error .tokenError → ∃ k, firstTokenErrU extra (src.length + 1) src = some k) ∧
    (∀ rest, nextTokenU extra src = some (.err, rest) →
      rest = src.dropWhile isWhitespace ∧ findOp rest = none ∧ ∃ c, rest.head? = some c ∧
        ((nextTokenErrU extra src = .invalidCharacter ∧ isTermCharU extra c = false) ∨
         (nextTokenErrU extra src = .invalidNumericConstant ∧ isAsciiDigit c = true ∧
            parseConstant (rest.takeWhile (isTermCharU extra)) = none))) :=
  parseU_tokerr_kind extra src

/-- ☆ every failing evaluation has exactly one cause and every cause is a real variant of the code's
    `ErrorCause`: the cause is absent exactly when the evaluation returns a value; it is `PortabilityError`
    exactly when the portability check rejects; it is never the kind-less token error nor the model's fuel. -/
theorem every_error_has_a_cause (extra : List Char) (portable : Bool) (src : List Char) (env : Env) :
    (evalStrCauseU extra portable src env = none ↔
      ∃ v env', (if portable then evalStrPortableU extra src env else some (evalStrU extra src env)) =
        some (.value v env')) ∧
    (evalStrCauseU extra portable src env = some .portability ↔
      (portable = true ∧ evalStrPortableU extra src env = none)) ∧
    evalStrCauseU extra portable src env ≠ some (.syntax .tokenError) ∧
    evalStrCauseU extra portable src env ≠ some (.syntax .fuel) := by
  obtain ⟨h1, h2, h3, h4⟩ := outcomeCause_evalStrU extra src env
  unfold evalStrCauseU
  cases portable with
  | false => simpa using ⟨h1, h2, h3, h4⟩
  | true =>
    simp only [if_true]
    cases hq : evalStrPortableU extra src env with
    | none => simp
    | some o =>
      have ho := evalStrPortableU_some extra src env o hq
      subst ho
      simpa using ⟨h1, h2, h3, h4⟩

/-! ## wave 3: the arm lists and constants of eval.rs / token.rs, re-extracted on every run -/

open YashModel.Generated.ArithEvalTables in
/-- ☆ what `Model.lean` transcribes by hand from eval.rs / token.rs is what the extractor reads from the sources
    on every run (tools/tables/arith.py → `Generated/ArithEvalTables.lean`; arm bodies are recognised by their
    text, an unknown body stops the run): the arm of `apply_binary` every operator takes; the operation every
    arm of `binary_result` computes (so a plain operator and its compound form compute the same operation, and
    it is the operation the Spec's `arithOf` names); the width of a shift count; the radix rules of constants
    and of variable values; the characters of a term; the variants of the error enums. -/
theorem eval_tables_are_the_codes :
    (∀ op, binKind op = armKind (applyBinaryArm op)) ∧
    (∀ op l r, binaryChecked op l r = opChecked (binaryResultOp op) l r) ∧
    (∀ op, Spec.arithOf op = opArith (binaryResultOp op)) ∧
    (∀ v, requireNonNegative v =
      if v < 0 then .error .reverseShifting
      else if v ≥ 2 ^ shiftCountBits then .error .overflow else .ok v.toNat) ∧
    (∀ m, radixSplit m = applyRadixRules valueRadixRules valueDefaultRadix m) ∧
    (∀ t, parseConstant t =
      fromStrRadix (applyRadixRules constantRadixRules constantDefaultRadix t).1
        (applyRadixRules constantRadixRules constantDefaultRadix t).2) ∧
    (∀ extra c, isTermCharU extra c = (isAsciiAlnum c || termExtraChars.contains c || extra.contains c)) ∧
    ([EvalErr.invalidVariableValue, .overflow, .divisionByZero, .leftShiftingNegative, .reverseShifting,
        .assignmentToValue, .getVariableError, .assignVariableError].map EvalErr.codeName = evalErrorVariants) ∧
    ([SynErr.tokenError, .incompleteExpression, .missingOperator, .unclosedParenthesis, .questionWithoutColon,
        .colonWithoutQuestion, .invalidOperator].map SynErr.codeName = syntaxErrorVariants) ∧
    ([TokErr.invalidNumericConstant, .invalidCharacter].map TokErr.codeName = tokenErrorVariants) ∧
    portabilityErrorVariants = ["IncrementDecrement"] := by
  refine ⟨fun op => by cases op <;> rfl, fun op l r => by cases op <;> rfl, fun op => by cases op <;> rfl,
    requireNonNegative_bits, radixSplit_eq_rules, parseConstant_eq_rules, isTermCharU_extra, ?_, ?_, ?_, ?_⟩ <;> decide

open YashModel.Generated.ArithEvalTables in
/-- ☆ `convert_error_cause` (the shell's glue) has one arm for every leaf variant of `yash_arith::ErrorCause`
    — the two token errors, the other syntax errors, the portability error, every evaluation error, in the
    order of the enums — so its fallback arm is dead with this yash-arith; and distinct causes become distinct
    causes of the shell (nothing is merged, nothing becomes `Unrecognized`), each under its own name (two arms
    cannot be swapped): `ArithError::<the same variant>`, except `NonPortableIncrementDecrement`, and the two
    environment errors, which become the shell's own `UnsetParameter` / `AssignReadOnly`. -/
theorem convert_error_cause_is_faithful :
    convertErrorCause.map (fun e => (e.1, e.2.1)) =
      tokenErrorVariants.map (fun v => ("SyntaxError", v)) ++
      (syntaxErrorVariants.filter (· ≠ "TokenError")).map (fun v => ("SyntaxError", v)) ++
      portabilityErrorVariants.map (fun v => ("PortabilityError", v)) ++
      evalErrorVariants.map (fun v => ("EvalError", v)) ∧
    (convertErrorCause.map (·.2.2)).Nodup ∧
    ("ArithError." ++ convertErrorCauseFallback) ∉ convertErrorCause.map (·.2.2) ∧
    (∀ e ∈ convertErrorCause, e.2.2 = "ArithError." ++ e.2.1 ∨
      (e.2.1, e.2.2) ∈ [("IncrementDecrement", "ArithError.NonPortableIncrementDecrement"),
        ("GetVariableError", "UnsetParameter"), ("AssignVariableError", "AssignReadOnly")]) := by
  decide

/-! ## wave 3: one transcription of `eval_with_config` behind both legs -/

/-- ☆ the evaluator of the shell leg (`evalStrG`, `eval.rs` over the `Env` trait, with the cause of a failure)
    instantiated with the `HashMap` environment IS the evaluator of the direct leg (`evalStr` /
    `evalStrPortable`): same value and final variables, and the same `ErrorCause` group and variant — so the
    `S` lines and the `E`/`P` lines exercise one transcription of `eval_with_config`, not two. -/
theorem shell_evaluator_is_evalStr (portable : Bool) (src : List Char) (env : Env) :
    evalStrG hashMapI portable src env =
      (match (if portable then evalStrPortable src env else some (evalStr src env)) with
        | none => .error .portability
        | some (.value v env') => .ok (v, env')
        | some (.syntaxError e) => .error (.syntax e)
        | some (.evalError e) => .error (.eval e)
        | some .panic => .error .modelPanic
        | some .fuel => .error .modelPanic) := by
  unfold evalStrG evalStrPortable evalStr
  simp only [evalValueG_hashMap]
  cases hp : parse src with
  | error e => cases portable <;> simp
  | ok ast =>
    cases portable with
    | false =>
      simp only [Bool.false_and, Bool.false_eq_true, if_false]
      cases hv : evalValue ast env with
      | ok r => obtain ⟨v, e⟩ := r; simp [Outcome.ofRes]
      | error e => simp [Outcome.ofRes]
      | panic => simp [Outcome.ofRes]
      | fuel => simp [Outcome.ofRes]
    | true =>
      simp only [Bool.true_and, if_true]
      by_cases hi : ast.any isIncDec = true
      · simp [hi]
      · simp only [hi, if_false, Bool.false_eq_true]
        cases hv : evalValue ast env with
        | ok r => obtain ⟨v, e⟩ := r; simp [Outcome.ofRes]
        | error e => simp [Outcome.ofRes]
        | panic => simp [Outcome.ofRes]
        | fuel => simp [Outcome.ofRes]


example : (evalStrG hashMapI true "1 ? 2 : x++".toList []).toOption = none ∧
    evalStrPortable "1 ? 2 : x++".toList [] = none ∧
    evalStr "x = 1 / 0".toList [] = .evalError .divisionByZero ∧
    (evalStrG hashMapI false "x = 7".toList []).toOption = some (7, [(['x'], ['7'])]) := by decide +kernel

/-- ☆ the shell leg never reports a token error without its kind: whenever the evaluator of the expanded text
    `t` answers `TokenError` — with any environment behind the `Env` trait — `refineTokenErr` finds the kind in
    `t`, and it is the kind the direct leg's `evalStrCause` reports for that text. -/
theorem shell_token_error_is_named {σ : Type} (I : EnvI σ) (portable : Bool) (t : List Char) (s : σ)
    (h : evalStrG I portable t s = .error (.syntax .tokenError)) :
    ∃ k, refineTokenErr t (.syntax .tokenError) = .token k ∧
      ∀ env, evalStrCause portable t env = some (.token k) := by
  have hp : parse t = .error .tokenError := by
    unfold evalStrG at h
    cases hq : parse t with
    | error e => rw [hq] at h; simp only [Except.error.injEq, ShErr.syntax.injEq] at h; rw [h]
    | ok ast =>
      rw [hq] at h
      simp only at h
      split at h
      · simp at h
      · split at h <;> simp at h
  obtain ⟨k, hk⟩ := (token_error_has_a_kind [] t).1 (by rw [parseU_nil]; exact hp)
  refine ⟨k, by simp [refineTokenErr, hk], fun env => ?_⟩
  unfold evalStrCause evalStrPortable evalStr
  rw [hp]
  cases portable <;> simp [outcomeCause, hk]


example : (match evalStrG shellI false "1 + 08".toList { ctxs := [[]], nounset := false, portable := false } with
      | .error (.syntax .tokenError) => true | _ => false) = true ∧
    refineTokenErr "1 + 08".toList (.syntax .tokenError) = .token .invalidNumericConstant ∧
    refineTokenErr "1 + #".toList (.syntax .tokenError) = .token .invalidCharacter := by decide +kernel

/-! ## wave 3, third pass: the variables after a failing evaluation -/

/-- ☆ "assignments made before the failing operation persist".  `evalF` is `eval` with the variable map threaded
    through every outcome (the map at the moment the evaluation stopped): (1) its value part IS `eval`, for every
    vector and fuel, so it adds nothing to what is proved about values; (2) after an `Ok` it is the map inside the
    `Ok`; (3) when the right operand of a non-lazy operator fails after the left one returned, the map is the one
    the right operand stopped in, STARTED from the map the left operand left behind — nothing is rolled back;
    (4) when the operation itself fails (overflow, division by zero, bad shift, assignment to a value, unreadable
    operand) the map holds everything both operands assigned; (5) a syntax error or a `portable` rejection
    leaves the map untouched (nothing was evaluated). -/
theorem assignments_before_failure_persist (f : Nat) (lhs rhs ast : List Ast) (op : BinaryOperator)
    (env env1 env2 envE : Env) (lt rt t : Term) (err : EvalErr) (extra src : List Char) :
    (evalF f ast env).1 = eval f ast env ∧
    ((evalF f ast env).1 = .ok (t, env1) → (evalF f ast env).2 = env1) ∧
    (op ≠ .LogicalOr → op ≠ .LogicalAnd → (evalF f lhs env).1 = .ok (lt, env1) →
      evalF f rhs env1 = (.error err, envE) →
      evalF (f + 1) (lhs ++ rhs ++ [.binary op rhs.length]) env = (.error err, envE)) ∧
    (op ≠ .LogicalOr → op ≠ .LogicalAnd → (evalF f lhs env).1 = .ok (lt, env1) →
      (evalF f rhs env1).1 = .ok (rt, env2) → applyBinary lt rt op env2 = .error err →
      evalF (f + 1) (lhs ++ rhs ++ [.binary op rhs.length]) env = (.error err, env2)) ∧
    ((∃ e, parseU extra src = .error e) → envAfterU extra false src env = env) ∧
    ((∃ a, parseU extra src = .ok a ∧ a.any isIncDec = true) → envAfterU extra true src env = env) := by
  refine ⟨evalF_fst f ast env, evalF_envOk f ast env t env1,
    fun h1 h2 hl hr => evalF_right_fails f lhs rhs op env env1 envE lt err h1 h2 hl hr,
    fun h1 h2 hl hr ha => evalF_apply_fails f lhs rhs op env env1 env2 lt rt err h1 h2 hl hr ha, ?_, ?_⟩
  · rintro ⟨e, he⟩; simp [envAfterU, he]
  · rintro ⟨a, ha, hi⟩; simp [envAfterU, ha, hi]

/-- `(x=1)+(1/0)` fails with x = 1 in the map; `j + (x=5)` with an unreadable `j` fails AFTER x = 5 was assigned
    (the left value is read last); `0 && (x=5)` and a syntax error leave the map alone -/
example :
    envAfterU [] false "(x=1)+(1/0)".toList [] = [(['x'], ['1'])] ∧
    evalStr "(x=1)+(1/0)".toList [] = .evalError .divisionByZero ∧
    envAfterU [] false "j + (x=5)".toList [(['j'], "junk".toList)] = [(['j'], "junk".toList), (['x'], ['5'])] ∧
    envAfterU [] false "(x=5) + j".toList [(['j'], "junk".toList)] = [(['j'], "junk".toList), (['x'], ['5'])] ∧
    envAfterU [] false "(1/0) + (x=5)".toList [] = [] ∧
    envAfterU [] false "(x=2) +".toList [] = [] ∧ envAfterU [] true "(x=2) + y++".toList [] = [] := by
  decide +kernel

end YashModel.Arith
