/-
  Driver for C03.  stdin: one case per line, stdout: `<model observation>\t<spec>`.

  Case lines (space separated; strings are hex of UTF-8, empty = `-`):
    E <env> <text> [<tree>]   evaluate `text` in `env`; env = `-` or `name:value,name:value,…`;
                              tree (optional) = the expression tree the harness rendered `text` from, in
                              Polish notation: `n<int>` `v<name>` `p<lexeme> e` `q<lexeme> e`
                              `b<lexeme> l r` `c c t e`
    P <env> <text> [<tree>]   the same with `Config { portable: true }` (`++`/`--` anywhere are an error)
    Z <env> <tree>            size family: the tree is given in Polish notation with the macro `s<n>` (a balanced
                              sum of n constants, 2n-1 nodes); the harness renders it (up to ~1 MB of text) and
                              evaluates the text; the text is NOT sent.  Both columns here are `Spec.evalExact` of
                              the tree: `text_gets_its_C_value_all_spellings` proves that this is what the model
                              (`evalStr`) returns on every spelling of the tree, of any size — the list-based
                              model itself is quadratic and would need minutes for 130 KB.
    W <extra> <env> <text> [<tree>]
                              a text with non-ASCII alphanumerics (`V` = portable): `extra` = the non-ASCII characters
                              of the text for which `char::is_alphanumeric` holds (hex), the parameter of
                              `evalStrU` (Unicode.lean); full observation; Spec column from the tree when one is sent
    U <text>                  legacy: totality only
    S <opts> <globals> <kind> <locals> <exprs>
                              shell-level scenario (see `Shell.lean`): opts `-` or flags `u` (set -u) `p` (set -o
                              portable); globals/locals
                              `-` or `name=K:payload,…` with K = s scalar (hex) | r read-only scalar (hex) |
                              a array (hex elements joined by `.`) | n declared without value (`-`);
                              kind top|fn|sub|fnsub|nest; exprs = hex texts joined by `,`.
                              Observation: output lines joined by `|` (an expansion: hex of its text; a
                              variable seen by `"${name-U}"`: hex fields joined by `,`), then `END` + the final
                              global variables, or `ERR` when the shell exited at a failing expansion.
  Observation: `ok <value> <sorted final env>` or `error <cause> <sorted env after the Err>` (the leaf variant of
  `Error::cause`, `showCause`; the map as `envAfterU` computes it); for `U` lines `total`.
  Spec column: `=<observation>` computed by `Spec.evalExact` on `Spec.parseText text`; `-` when the tree is
  outside `Spec.inScope`; `FAIL:…` when the harness' tree is not the tree the Spec reads from the text, or when
  the code's parser model does not build `rpn` of the tree the Spec reads (checked on every case with a tree-
  shaped text; theorem `checked_tree_gets_its_C_value` turns that check into the agreement of the columns);
  `=error <cause>` for a failing evaluation (`specError`).
-/
import YashModel.Common.Proto
import YashModel.Arith.Model
import YashModel.Arith.Spec
import YashModel.Arith.Shell
import YashModel.Arith.Unicode
import YashModel.Arith.Trace
import YashModel.Arith.TreeLemmas
open YashModel YashModel.Arith YashModel.Proto
open YashModel.Generated.ArithTables

def decEnv (t : String) : Option Env :=
  if t = "-" then some [] else
  (t.splitOn ",").mapM fun item =>
    match item.splitOn ":" with
    | [n, v] => do pure ((← decChars n), (← decChars v))
    | _ => none

def showEnv (env : List (List Char × List Char)) : String :=
  let items := env.map fun (n, v) => (String.ofList n, String.ofList v)
  let sorted := items.mergeSort (fun a b => a.1 ≤ b.1)
  if sorted.isEmpty then "-" else
  ",".intercalate (sorted.map fun (n, v) => encStr n ++ ":" ++ encStr v)

/-- the leaf variant of `Error::cause` as the harness names it (`cause_label` in c03.rs) -/
def showCause : Cause → String
  | .token .invalidNumericConstant => "numconst"
  | .token .invalidCharacter => "badchar"
  | .syntax .tokenError => "TOKEN-ERROR-WITHOUT-KIND"
  | .syntax .incompleteExpression => "incomplete"
  | .syntax .missingOperator => "missingop"
  | .syntax .unclosedParenthesis => "paren"
  | .syntax .questionWithoutColon => "question"
  | .syntax .colonWithoutQuestion => "colon"
  | .syntax .invalidOperator => "invalidop"
  | .syntax .fuel => "FUEL"
  | .portability => "portable"
  | .eval .invalidVariableValue => "value"
  | .eval .overflow => "overflow"
  | .eval .divisionByZero => "divzero"
  | .eval .leftShiftingNegative => "lshiftneg"
  | .eval .reverseShifting => "revshift"
  | .eval .assignmentToValue => "assignvalue"
  | .eval .getVariableError => "getvar"
  | .eval .assignVariableError => "assignvar"

/-- observation of one evaluation: the outcome (`none` = rejected by the portability check) and its cause -/
def showRun (o : Option Outcome) (cause : Option Cause) (after : Env := []) : String :=
  match o, cause with
  | some (.value v env), none => s!"ok {v} {showEnv env}"
  | some (.value _ _), some _ => "CAUSE-OF-A-VALUE"
  | some .panic, _ => "MODEL-PANIC"
  | some .fuel, _ => "FUEL"
  | some (.syntaxError .fuel), _ => "FUEL"
  | _, some c => "error " ++ showCause c ++ " " ++ showEnv after
  | _, none => "ERROR-WITHOUT-CAUSE"

/-- the three groups of `ErrorCause` (lib.rs) -/
inductive Group where
  | syntax | portability | eval
  deriving DecidableEq

def causeGroup : Cause → Group
  | .token _ => .syntax
  | .syntax _ => .syntax
  | .portability => .portability
  | .eval _ => .eval

def showGroup : Group → String
  | .syntax => "SYNTAX-GROUP" | .portability => "portable" | .eval => "EVAL-GROUP"

/-- Spec column of a failing evaluation.  The Spec says THAT the evaluation fails and in which group of
    `ErrorCause` (text that is not an expression: syntax; `++`/`--` under `portable`; a tree without a value:
    evaluation); which of two failing operands of a tree is reported it does not say (C does not order them):
    inside the group the model's leaf cause is taken over, outside the group the column disagrees with
    everything. -/
def specError (g : Group) (model : Option Cause) (after : Env := []) : String :=
  -- the variables after a failure are no subject of C or POSIX (the shell exits): taken over from the model
  -- (`assignments_before_failure_persist` says what they are)
  match model with
  | some c => if causeGroup c = g then "=error " ++ showCause c ++ " " ++ showEnv after else "=error " ++ showGroup g
  | none => "=error " ++ showGroup g

/-- the model's leaf cause in the Spec's terms -/
def failOfCause : Cause → Option Spec.Fail
  | .eval .invalidVariableValue => some .value
  | .eval .overflow => some (.reason .unrepresentable)
  | .eval .divisionByZero => some (.reason .divisionByZero)
  | .eval .leftShiftingNegative => some (.reason .leftShiftOfNegative)
  | .eval .reverseShifting => some (.reason .negativeShiftCount)
  | .eval .assignmentToValue => some .notLvalue
  | _ => none

/-- Spec column of an in-scope tree without a value: the reported cause must be one of the causes C admits for
    this tree (`Spec.fails`: a set — C does not order unsequenced operands — computed on the tree, independent of
    the code's evaluation order); a singleton whenever only one operand / operation fails. -/
def specEvalError (e : Spec.Expr) (env : Env) (model : Option Cause) (after : Env) : String :=
  let adm := Spec.fails e env
  if adm.isEmpty then "FAIL:spec-has-no-value-but-admits-no-cause" else
  match model with
  | some c =>
    match failOfCause c with
    | some f => if adm.contains f then "=error " ++ showCause c ++ " " ++ showEnv after
                else "=error CAUSE-NOT-ADMISSIBLE"
    | none => "=error EVAL-GROUP"
  | none => "=error EVAL-GROUP"

def showSpec : Option (Int × Spec.Env) → String
  | some (v, env) => s!"ok {v} {showEnv env}"
  | none => "error"

/-- the balanced sum `l_lo + … + l_(hi-1)` with `l_i = i % 7 + 1`, split in the middle (depth ≈ log₂ n) -/
def bigSum : Nat → Nat → Nat → Spec.Expr
  | 0, lo, _ => .num (lo % 7 + 1)
  | f + 1, lo, hi =>
    if hi ≤ lo + 1 then .num (lo % 7 + 1)
    else
      let mid := (lo + hi) / 2
      .bin .Add (bigSum f lo mid) (bigSum f mid hi)

/-- Polish-notation tree sent by the harness -/
def parsePolish : Nat → List String → Option (Spec.Expr × List String)
  | 0, _ => none
  | _, [] => none
  | f + 1, w :: rest =>
    match w.toList with
    | 'n' :: ds => (String.ofList ds).toInt?.map fun v => (.num v, rest)
    | 'v' :: name => if name.isEmpty then none else some (.var name, rest)
    | 'p' :: lx => do
      let o ← Spec.prefixOfLexeme lx
      let (e, r1) ← parsePolish f rest
      pure (.pre o e, r1)
    | 'q' :: lx => do
      let o ← Spec.postfixOfLexeme lx
      let (e, r1) ← parsePolish f rest
      pure (.post o e, r1)
    | 'b' :: lx => do
      let (b, _, _) ← Spec.binaryOfLexeme lx
      let (l, r1) ← parsePolish f rest
      let (r, r2) ← parsePolish f r1
      pure (.bin b l r, r2)
    | 's' :: ds => do
      -- macro: a balanced sum of `n` small constants (2n-1 nodes), see `bigSum`
      let n ← (String.ofList ds).toNat?
      if n = 0 then none else pure (bigSum 64 0 n, rest)
    | ['c'] => do
      let (c, r1) ← parsePolish f rest
      let (t, r2) ← parsePolish f r1
      let (e, r3) ← parsePolish f r2
      pure (.cond c t e, r3)
    | _ => none

def runE (portable : Bool) (envT textT : String) (treeWords : List String) : String :=
  match decEnv envT, decChars textT with
  | some env, some text =>
    let cause := evalStrCause portable text env
    let after := envAfterU [] portable text env
    let model := showRun (if portable then evalStrPortable text env else some (evalStr text env)) cause after
    let tree : Option (Option Spec.Expr) :=
      if treeWords.isEmpty then some none
      else match parsePolish (treeWords.length + 1) treeWords with
        | some (e, []) => some (some e)
        | _ => none
    let spec :=
      match tree with
      | none => "FAIL:bad-tree-in-case"
      | some tree =>
        match Spec.parseText text, tree with
        | none, some _ => "FAIL:spec-rejects-rendered-tree"
        | none, none => specError .syntax cause after
        | some e, tree =>
          if tree.isSome ∧ tree ≠ some e then "FAIL:spec-reads-another-tree"
          -- the hypothesis of `checked_tree_gets_its_C_value`, checked on every case: the code's parser model
          -- lays out exactly the vector of the tree the Spec reads (trees and vectors are one to one)
          else if (match parse text with | .ok a => a != rpn e | .error _ => true) then
            "FAIL:parser-model-does-not-build-the-vector-of-the-tree-the-Spec-reads"
          else if portable ∧ Spec.hasIncDec e then specError .portability cause after
          else if !Spec.inScope e then "-"
          else match Spec.evalExact e env with
            | none => specEvalError e env cause after
            | some r =>
              if !(Spec.fails e env).isEmpty then "FAIL:spec-has-a-value-but-admits-a-cause" else "=" ++ showSpec (some r)
    model ++ "\t" ++ spec
  | _, _ => "bad-case\t-"

/-! ### shell-level scenarios -/

def allNames : List Name := ["a", "b", "n", "q", "r", "v", "x"].map String.toList

def decVar (item : String) : Option (Name × SVar) :=
  match item.splitOn "=" with
  | [n, kp] =>
    match kp.splitOn ":" with
    | [k, p] =>
      match k with
      | "s" => (decChars p).map fun v => (n.toList, ⟨.scalar v, false⟩)
      | "r" => (decChars p).map fun v => (n.toList, ⟨.scalar v, true⟩)
      | "a" => ((p.splitOn ".").mapM decChars).map fun l => (n.toList, ⟨.array l, false⟩)
      | "n" => some (n.toList, ⟨.none, false⟩)
      | _ => none
    | _ => none
  | _ => none

def decCtx (t : String) : Option Ctx :=
  if t = "-" then some [] else (t.splitOn ",").mapM decVar

def decKind : String → Option CtxKind
  | "top" => some .top | "fn" => some .fn | "sub" => some .sub | "fnsub" => some .fnsub
  | "nest" => some .nest | _ => none

/-- the third, sixth, … expansion of a body is written `T=$((…)); probe "$T"`, whose line starts with the
    exit status of the assignment (= of the last command substitution in the expansion) -/
def showLine (i : Nat) : Line → String
  | .value (s, st) => if i % 3 = 2 then s!"{st}:" ++ encChars s else encChars s
  | .fields l => ",".intercalate (l.map encChars)

def showVar (p : Name × SVar) : String :=
  let k := match p.2.value, p.2.readOnly with
    | .scalar v, false => "s:" ++ encChars v
    | .scalar v, true => "r:" ++ encChars v
    | .array l, false => "a:" ++ ".".intercalate (l.map encChars)
    | .array l, true => "A:" ++ ".".intercalate (l.map encChars)
    | .none, false => "n:-"
    | .none, true => "N:-"
  String.ofList p.1 ++ "=" ++ k

/-- the final global variables, restricted to the names the harness looks at -/
def showFinal (c : Ctx) : String :=
  let c := c.filter fun p => allNames.contains p.1
  let items := (c.map fun p => (String.ofList p.1, showVar p)).mergeSort (fun a b => a.1 ≤ b.1)
  if items.isEmpty then "-" else ",".intercalate (items.map (·.2))

/-- the cause as the harness reads it from the shell's message -/
def showShErr : ShErr → String
  | .syntax .tokenError => "TOKEN-ERROR-WITHOUT-KIND"
  | .token .invalidNumericConstant => "numconst"
  | .token .invalidCharacter => "badchar"
  | .syntax .incompleteExpression => "incomplete"
  | .syntax .missingOperator => "missingop"
  | .syntax .unclosedParenthesis => "paren"
  | .syntax .questionWithoutColon => "question"
  | .syntax .colonWithoutQuestion => "colon"
  | .syntax .invalidOperator => "invalidop"
  | .syntax .fuel => "FUEL"
  | .portability => "portable"
  | .eval .invalidVariableValue => "value"
  | .eval .overflow => "overflow"
  | .eval .divisionByZero => "divzero"
  | .eval .leftShiftingNegative => "lshiftneg"
  | .eval .reverseShifting => "revshift"
  | .eval .assignmentToValue => "assignvalue"
  | .eval .getVariableError => "unset"
  | .eval .assignVariableError => "readonly"
  | .unsetParameter => "unset"
  | .modelPanic => "MODEL-PANIC"
  | .badCase => "BAD-CASE"

def showOutcome2 (o : Outcome2) : String :=
  let ls := (o.lines.zipIdx).map fun (l, i) => showLine i l
  let tail := match o.final with
    | some c => "END " ++ showFinal c
    | none => "ERR"
  "|".intercalate (ls ++ [tail]) ++ " E=" ++ (match o.err with | some e => showShErr e | none => "-")

/-- Spec side: a stack of maps name ↦ text (innermost first) -/
abbrev SMaps := List (List (Name × List Char))

def sVisible : SMaps → Name → Option (List Char)
  | [], _ => none
  | m :: rest, n => match Spec.lookup m n with | some v => some v | none => sVisible rest n

/-- an assignment goes to the visible variable, wherever it lives, else to the global map -/
def sAssign : SMaps → Name → List Char → SMaps
  | [], n, v => [[(n, v)]]
  | [g], n, v => [Spec.update g n v]
  | m :: rest, n, v =>
    match Spec.lookup m n with
    | some _ => Spec.update m n v :: rest
    | none => m :: sAssign rest n v

def sSubst (ms : SMaps) : Nat → List Char → List Char
  | 0, _ => []
  | _, [] => []
  | f + 1, '$' :: '{' :: rest =>
    let name := rest.takeWhile (· ≠ '}')
    ((sVisible ms name).getD []) ++ sSubst ms f ((rest.dropWhile (· ≠ '}')).drop 1)
  | f + 1, '$' :: rest =>
    let name := rest.takeWhile Spec.isWordChar
    if name.isEmpty then '$' :: sSubst ms f rest
    else ((sVisible ms name).getD []) ++ sSubst ms f (rest.dropWhile Spec.isWordChar)
  | f + 1, c :: rest => c :: sSubst ms f rest

inductive SBody where
  | done (vals : List (List Char)) (ms : SMaps)
  | failed (vals : List (List Char))
  | silent

/-- expansions by the Spec: value by `evalExact` on the visible variables, every variable it changed is
    written back by `sAssign` -/
def sBody (portable : Bool) (ms : SMaps) : List (List Char) → SBody
  | [] => .done [] ms
  | e :: rest =>
    match Spec.parseText (sSubst ms (e.length + 1) e) with
    | none => .failed []
    | some t =>
      if portable ∧ Spec.hasIncDec t then .failed [] else
      if !Spec.inScope t then .silent else
      let flat : Spec.Env := allNames.filterMap fun n => (sVisible ms n).map fun v => (n, v)
      match Spec.evalExact t flat with
      | none => .failed []
      | some (v, env') =>
        let changed := env'.filter fun p => Spec.lookup flat p.1 ≠ some p.2
        let ms1 := changed.foldl (fun acc p => sAssign acc p.1 p.2) ms
        match sBody portable ms1 rest with
        | .done vs m => .done ((toString v).toList :: vs) m
        | .failed vs => .failed ((toString v).toList :: vs)
        | .silent => .silent

def sPrint (ms : SMaps) : List String :=
  allNames.map fun n => encChars ((sVisible ms n).getD ['U'])

def sFinal (g : List (Name × List Char)) : String :=
  showFinal (g.map fun p => (p.1, (⟨.scalar p.2, false⟩ : SVar)))

def specScenario (sc : Scenario) : String :=
  let plain (c : Ctx) : Option (List (Name × List Char)) :=
    c.mapM fun p => match p.2.value, p.2.readOnly with
      | .scalar v, false => some (p.1, v)
      | _, _ => none
  let hasSubst := sc.exprs.any fun e => (String.ofList e).contains "$("
  match sc.nounset || hasSubst, plain sc.globals, plain sc.locals with
  | false, some g, some l =>
    let vals (vs : List (List Char)) := (vs.zipIdx).map fun (v, i) => if i % 3 = 2 then "0:" ++ encChars v else encChars v
    -- the Spec knows that an expansion fails, not the cause the shell names: it is silent then
    let fin (ls : List String) (tail : String) := "=" ++ "|".intercalate (ls ++ [tail]) ++ " E=-"
    match sc.kind with
    | .top =>
      match sBody sc.portable [g] sc.exprs with
      | .done vs ms => fin (vals vs ++ sPrint ms) ("END " ++ sFinal (ms.getLast?.getD []))
      | .failed _ => "-"
      | .silent => "-"
    | .fn =>
      match sBody sc.portable [l, g] sc.exprs with
      | .done vs ms => fin (vals vs ++ sPrint ms ++ sPrint (ms.drop 1)) ("END " ++ sFinal (ms.getLast?.getD []))
      | .failed _ => "-"
      | .silent => "-"
    | .nest =>
      match sBody sc.portable [[], l, g] sc.exprs with
      | .done vs ms =>
        fin (vals vs ++ sPrint ms ++ sPrint (ms.drop 1) ++ sPrint (ms.drop 2)) ("END " ++ sFinal (ms.getLast?.getD []))
      | .failed _ => "-"
      | .silent => "-"
    | .sub =>
      match sBody sc.portable [g] sc.exprs with
      | .done vs ms => fin (vals vs ++ sPrint ms ++ sPrint [g]) ("END " ++ sFinal g)
      | .failed _ => "-"
      | .silent => "-"
    | .fnsub =>
      match sBody sc.portable [l, g] sc.exprs with
      | .done vs ms => fin (vals vs ++ sPrint ms ++ sPrint [l, g] ++ sPrint [g]) ("END " ++ sFinal g)
      | .failed _ => "-"
      | .silent => "-"
  | _, _, _ => "-"

def runS (opts globals kind locals exprs : String) : String :=
  match decCtx globals, decKind kind, decCtx locals, (exprs.splitOn ",").mapM decChars with
  | some g, some k, some l, some es =>
    if opts ≠ "-" ∧ ¬ opts.toList.all (fun c => c = 'u' ∨ c = 'p') then "bad-case\t-" else
    let sc : Scenario := { nounset := opts.contains 'u', portable := opts.contains 'p', globals := g, kind := k,
                           locals := l, exprs := es }
    showOutcome2 (runScenario allNames sc) ++ "\t" ++ specScenario sc
  | _, _, _, _ => "bad-case\t-"

/-- `W`/`V` lines: the Unicode tokenizer with the per-case set of non-ASCII alphanumerics.  The Spec's own
    lexer is ASCII C, so the Spec column speaks only when the harness sends the tree it rendered the text from:
    the driver checks that the code's parser model builds exactly the vector of that tree (the hypothesis of
    `checked_tree_gets_its_C_value_unicode`) and evaluates the tree with `Spec.evalExact`. -/
def runW (portable : Bool) (extraT envT textT : String) (treeWords : List String) : String :=
  match decChars extraT, decEnv envT, decChars textT with
  | some extra, some env, some text =>
    if extra.any (fun c => c.toNat < 128) then "bad-case\t-" else
    let cause := evalStrCauseU extra portable text env
    let after := envAfterU extra portable text env
    let model := showRun (if portable then evalStrPortableU extra text env else some (evalStrU extra text env)) cause after
    let spec :=
      if treeWords.isEmpty then "-"
      else match parsePolish (treeWords.length + 1) treeWords with
        | some (e, []) =>
          if (match parseU extra text with | .ok a => a != rpn e | .error _ => true) then
            "FAIL:parser-model-does-not-build-the-vector-of-the-tree-the-harness-rendered"
          else if portable ∧ Spec.hasIncDec e then specError .portability cause after
          else if !Spec.inScope e then "-"
          else match Spec.evalExact e env with
            | none => specEvalError e env cause after
            | some r =>
              if !(Spec.fails e env).isEmpty then "FAIL:spec-has-a-value-but-admits-a-cause" else "=" ++ showSpec (some r)
        | _ => "FAIL:bad-tree-in-case"
    model ++ "\t" ++ spec
  | _, _, _ => "bad-case\t-"

def runLine (line : String) : String :=
  match words line with
  | "E" :: envT :: textT :: tree => runE false envT textT tree
  | "P" :: envT :: textT :: tree => runE true envT textT tree
  | "W" :: extraT :: envT :: textT :: tree => runW false extraT envT textT tree
  | "V" :: extraT :: envT :: textT :: tree => runW true extraT envT textT tree
  | ["U", _] => "total\t-"
  | "Z" :: envT :: tree =>
    match decEnv envT, parsePolish (tree.length + 1) tree with
    | some env, some (e, []) =>
      if !Spec.inScope e then "bad-case\t-"
      else
        let o := showSpec (Spec.evalExact e env)
        o ++ "\t=" ++ o
    | _, _ => "bad-case\t-"
  | ["S", opts, globals, kind, locals, exprs] => runS opts globals kind locals exprs
  | _ => "bad-case\t-"

def main : IO Unit := mainLoop runLine
