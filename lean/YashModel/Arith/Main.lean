/-
  Driver for C03.  stdin: one case per line, stdout: `<model observation>\t<spec>`.

  Case lines (space separated; strings are hex of UTF-8, empty = `-`):
    E <env> <text> [<tree>]   evaluate `text` in `env`; env = `-` or `name:value,name:value,…`;
                              tree (optional) = the expression tree the harness rendered `text` from, in
                              Polish notation: `n<int>` `v<name>` `p<lexeme> e` `q<lexeme> e`
                              `b<lexeme> l r` `c c t e`
    U <text>                  totality only (text with non-ASCII alphanumerics, outside the model)
  Observation: `ok <value> <sorted final env>` or `error`; for `U` lines `total`.
  Spec column: `=<observation>` computed by `Spec.evalExact` on `Spec.parseText text`; `-` when the tree is
  outside `Spec.inScope`; `FAIL:…` when the harness' tree is not the tree the Spec reads from the text.
-/
import YashModel.Common.Proto
import YashModel.Arith.Model
import YashModel.Arith.Spec
open YashModel YashModel.Arith YashModel.Proto
open YashModel.Generated.ArithTables

def decEnv (t : String) : Option Env :=
  if t = "-" then some [] else
  (t.splitOn ",").mapM fun item =>
    match item.splitOn ":" with
    | [n, v] => do pure ((← decChars n), (← decChars v))
    | _ => none

def showEnv (env : List (List Char × List Char)) : String :=
  let items := env.map fun (n, v) => (String.ofList n, String.ofList v)
  let sorted := items.mergeSort (fun a b => a.1 ≤ b.1)
  if sorted.isEmpty then "-" else
  ",".intercalate (sorted.map fun (n, v) => encStr n ++ ":" ++ encStr v)

def showOutcome : Outcome → String
  | .value v env => s!"ok {v} {showEnv env}"
  | .syntaxError .fuel => "FUEL"
  | .syntaxError _ => "error"
  | .evalError _ => "error"
  | .panic => "MODEL-PANIC"
  | .fuel => "FUEL"

def showSpec : Option (Int × Spec.Env) → String
  | some (v, env) => s!"ok {v} {showEnv env}"
  | none => "error"

/-- Polish-notation tree sent by the harness -/
def parsePolish : Nat → List String → Option (Spec.Expr × List String)
  | 0, _ => none
  | _, [] => none
  | f + 1, w :: rest =>
    match w.toList with
    | 'n' :: ds => (String.ofList ds).toInt?.map fun v => (.num v, rest)
    | 'v' :: name => if name.isEmpty then none else some (.var name, rest)
    | 'p' :: lx => do
      let o ← Spec.prefixOfLexeme lx
      let (e, r1) ← parsePolish f rest
      pure (.pre o e, r1)
    | 'q' :: lx => do
      let o ← Spec.postfixOfLexeme lx
      let (e, r1) ← parsePolish f rest
      pure (.post o e, r1)
    | 'b' :: lx => do
      let (b, _, _) ← Spec.binaryOfLexeme lx
      let (l, r1) ← parsePolish f rest
      let (r, r2) ← parsePolish f r1
      pure (.bin b l r, r2)
    | ['c'] => do
      let (c, r1) ← parsePolish f rest
      let (t, r2) ← parsePolish f r1
      let (e, r3) ← parsePolish f r2
      pure (.cond c t e, r3)
    | _ => none

def runE (envT textT : String) (treeWords : List String) : String :=
  match decEnv envT, decChars textT with
  | some env, some text =>
    let model := showOutcome (evalStr text env)
    let tree : Option (Option Spec.Expr) :=
      if treeWords.isEmpty then some none
      else match parsePolish (treeWords.length + 1) treeWords with
        | some (e, []) => some (some e)
        | _ => none
    let spec :=
      match tree with
      | none => "FAIL:bad-tree-in-case"
      | some tree =>
        match Spec.parseText text, tree with
        | none, some _ => "FAIL:spec-rejects-rendered-tree"
        | none, none => "=error"
        | some e, tree =>
          if tree.isSome ∧ tree ≠ some e then "FAIL:spec-reads-another-tree"
          else if !Spec.inScope e then "-"
          else "=" ++ showSpec (Spec.evalExact e env)
    model ++ "\t" ++ spec
  | _, _ => "bad-case\t-"

def runLine (line : String) : String :=
  match words line with
  | "E" :: envT :: textT :: tree => runE envT textT tree
  | ["U", _] => "total\t-"
  | _ => "bad-case\t-"

def main : IO Unit := mainLoop runLine
