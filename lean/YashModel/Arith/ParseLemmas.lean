/-
  C03 — helper lemmas about the tokenizer table, the parser output and `eval` on well-formed vectors.
-/
import YashModel.Arith.Lemmas
namespace YashModel.Arith
open YashModel.Generated.ArithTables

/-- A vector that encodes exactly one expression tree in reverse Polish notation, every stored operand
    length being the length of that operand's own encoding (the assumption `eval` makes about its input). -/
inductive WF : List Ast → Prop where
  | term (t : Term) : WF [.term t]
  | pre (c : List Ast) (op : PrefixOperator) : WF c → WF (c ++ [.pre op])
  | post (c : List Ast) (op : PostfixOperator) : WF c → WF (c ++ [.post op])
  | binary (l r : List Ast) (op : BinaryOperator) : WF l → WF r → WF (l ++ r ++ [.binary op r.length])
  | conditional (c t e : List Ast) : WF c → WF t → WF e →
      WF (c ++ t ++ e ++ [.conditional t.length e.length])

theorem WF.length_pos {a : List Ast} (h : WF a) : 0 < a.length := by
  cases h <;> simp <;> omega

theorem parsePostfix_wf (toks : List Tok) (acc0 t : List Ast) (ht : WF t) :
    ∃ t', WF t' ∧ (parsePostfix toks (acc0 ++ t)).2 = acc0 ++ t' := by
  induction toks generalizing t with
  | nil => exact ⟨t, ht, by simp [parsePostfix]⟩
  | cons tok rest ih =>
    cases tok with
    | term x => exact ⟨t, ht, by simp [parsePostfix]⟩
    | err => exact ⟨t, ht, by simp [parsePostfix]⟩
    | op o =>
      rw [parsePostfix]
      split
      · rename_i p _
        have := ih (t ++ [.post p]) (WF.post t p ht)
        simpa [List.append_assoc] using this
      · exact ⟨t, ht, rfl⟩

theorem parse_wf_aux (f : Nat) :
    (∀ toks acc toks' acc', parseLeaf f toks acc = .ok (toks', acc') → ∃ t, WF t ∧ acc' = acc ++ t) ∧
    (∀ toks m acc toks' acc', parseTree f toks m acc = .ok (toks', acc') → ∃ t, WF t ∧ acc' = acc ++ t) ∧
    (∀ toks m acc0 t toks' acc', WF t → parseLoop f toks m (acc0 ++ t) = .ok (toks', acc') →
        ∃ t', WF t' ∧ acc' = acc0 ++ t') := by
  induction f with
  | zero =>
    refine ⟨?_, ?_, ?_⟩
    · intro toks acc toks' acc' h; simp [parseLeaf] at h
    · intro toks m acc toks' acc' h; simp [parseTree] at h
    · intro toks m acc0 t toks' acc' _ h; simp [parseLoop] at h
  | succ f ih =>
    obtain ⟨ihLeaf, ihTree, ihLoop⟩ := ih
    refine ⟨?_, ?_, ?_⟩
    · -- parse_leaf
      intro toks acc toks' acc' h
      simp only [parseLeaf] at h
      split at h
      · simp at h
      · simp at h
      · rename_i t rest
        have hp := parsePostfix_wf rest acc [.term t] (WF.term t)
        obtain ⟨t', ht', he⟩ := hp
        injection h with h
        rw [h] at he
        exact ⟨t', ht', by simpa using he⟩
      · rename_i o rest
        split at h
        · split at h
          · simp at h
          · rename_i toks1 acc1 htree
            obtain ⟨t, ht, hacc1⟩ := ihTree _ _ _ _ _ htree
            split at h
            · simp at h
            · rename_i toks2 _
              obtain ⟨t', ht', he⟩ := parsePostfix_wf toks2 acc t ht
              injection h with h
              rw [hacc1] at h
              rw [h] at he
              exact ⟨t', ht', by simpa using he⟩
        · split at h
          · simp at h
          · rename_i p _
            split at h
            · simp at h
            · rename_i toks1 acc1 hleaf
              obtain ⟨t, ht, hacc1⟩ := ihLeaf _ _ _ _ hleaf
              injection h with h
              injection h with h1 h2
              refine ⟨t ++ [.pre p], WF.pre t p ht, ?_⟩
              rw [← h2, hacc1, List.append_assoc]
    · -- parse_tree
      intro toks m acc toks' acc' h
      simp only [parseTree] at h
      split at h
      · simp at h
      · rename_i toks1 acc1 hleaf
        obtain ⟨t, ht, hacc1⟩ := ihLeaf _ _ _ _ hleaf
        rw [hacc1] at h
        exact ihLoop _ _ _ _ _ _ ht h
    · -- the operator loop
      intro toks m acc0 t toks' acc' ht h
      simp only [parseLoop] at h
      split at h
      · rename_i o rest
        split at h
        · injection h with h; injection h with h1 h2
          exact ⟨t, ht, h2.symm⟩
        · split at h
          · -- `?`
            split at h
            · simp at h
            · rename_i toks1 acc1 hthen
              obtain ⟨tt, htt, hacc1⟩ := ihTree _ _ _ _ _ hthen
              split at h
              · rename_i o1 rest1
                split at h
                · split at h
                  · simp at h
                  · rename_i toks2 acc2 helse
                    obtain ⟨te, hte, hacc2⟩ := ihTree _ _ _ _ _ helse
                    have hnew : acc2 ++ [Ast.conditional (acc1.length - (acc0 ++ t).length) (acc2.length - acc1.length)]
                        = acc0 ++ (t ++ tt ++ te ++ [Ast.conditional tt.length te.length]) := by
                      have e1 : acc1.length - (acc0 ++ t).length = tt.length := by
                        rw [hacc1]; simp [List.length_append] <;> omega
                      have e2 : acc2.length - acc1.length = te.length := by
                        rw [hacc2]; simp [List.length_append] <;> omega
                      rw [e1, e2, hacc2, hacc1]; simp [List.append_assoc]
                    rw [hnew] at h
                    exact ihLoop _ _ _ _ _ _ (WF.conditional t tt te ht htt hte) h
                · simp at h
              · simp at h
              · simp at h
          · split at h
            · simp at h
            · rename_i b assoc _
              split at h
              · simp at h
              · rename_i toks1 acc1 hrhs
                obtain ⟨tr, htr, hacc1⟩ := ihTree _ _ _ _ _ hrhs
                have hnew : acc1 ++ [Ast.binary b (acc1.length - (acc0 ++ t).length)]
                    = acc0 ++ (t ++ tr ++ [Ast.binary b tr.length]) := by
                  have e1 : acc1.length - (acc0 ++ t).length = tr.length := by
                    rw [hacc1]; simp [List.length_append] <;> omega
                  rw [e1, hacc1]; simp [List.append_assoc]
                rw [hnew] at h
                exact ihLoop _ _ _ _ _ _ (WF.binary t tr b ht htr) h
      · injection h with h; injection h with h1 h2
        exact ⟨t, ht, h2.symm⟩

/-! ### `eval` on well-formed vectors -/

theorem splitLast_append (c : List Ast) (x : Ast) : splitLast (c ++ [x]) = some (c, x) := by
  simp [splitLast]

theorem splitAtEnd_append (l r : List Ast) : splitAtEnd (l ++ r) r.length = some (l, r) := by
  simp [splitAtEnd, List.length_append]

theorem Res.bind_returns {α β : Type} (r : Res α) (f : α → Res β) (hr : r.Returns)
    (hf : ∀ a, r = .ok a → (f a).Returns) : (r.bind f).Returns := by
  cases r with
  | ok a => exact hf a rfl
  | error e => trivial
  | panic => exact hr.elim
  | fuel => exact hr.elim

theorem ofOption_returns {α : Type} (o : Option α) (e : EvalErr) : (Res.ofOption o e).Returns := by
  cases o <;> trivial

theorem expandVariable_returns (n : Name) (env : Env) : (expandVariable n env).Returns := by
  unfold expandVariable; split
  · trivial
  · exact ofOption_returns _ _

theorem intoValue_returns (t : Term) (env : Env) : (intoValue t env).Returns := by
  cases t
  · trivial
  · exact expandVariable_returns _ env

theorem requireVariable_returns (t : Term) : (requireVariable t).Returns := by
  cases t <;> trivial

theorem requireNonNegative_returns (v : Int) : (requireNonNegative v).Returns := by
  unfold requireNonNegative; split
  · trivial
  · split <;> trivial

theorem binaryChecked_returns (op : BinaryOperator) (l r : Int) : (binaryChecked op l r).Returns := by
  cases op <;> simp only [binaryChecked] <;> try trivial
  all_goals
    first
    | (split
       · trivial
       · first
         | trivial
         | exact Res.bind_returns _ _ (requireNonNegative_returns r) (fun _ _ => trivial))
    | exact Res.bind_returns _ _ (requireNonNegative_returns r) (fun _ _ => trivial)

theorem binaryResult_returns (op : BinaryOperator) (l r : Int) : (binaryResult op l r).Returns :=
  Res.bind_returns _ _ (binaryChecked_returns op l r) (fun _ _ => ofOption_returns _ _)

theorem assign_returns (n : Name) (v : Int) (env : Env) : (assign n v env).Returns := trivial

theorem applyPrefix_returns (t : Term) (op : PrefixOperator) (env : Env) : (applyPrefix t op env).Returns := by
  cases op <;> simp only [applyPrefix]
  · exact Res.bind_returns _ _ (requireVariable_returns t) fun _ _ =>
      Res.bind_returns _ _ (expandVariable_returns _ _) fun _ _ =>
      Res.bind_returns _ _ (ofOption_returns _ _) fun _ _ => trivial
  · exact Res.bind_returns _ _ (requireVariable_returns t) fun _ _ =>
      Res.bind_returns _ _ (expandVariable_returns _ _) fun _ _ =>
      Res.bind_returns _ _ (ofOption_returns _ _) fun _ _ => trivial
  · exact Res.bind_returns _ _ (intoValue_returns t env) fun _ _ => trivial
  · exact Res.bind_returns _ _ (intoValue_returns t env) fun _ _ =>
      Res.bind_returns _ _ (ofOption_returns _ _) fun _ _ => trivial
  · exact Res.bind_returns _ _ (intoValue_returns t env) fun _ _ => trivial
  · exact Res.bind_returns _ _ (intoValue_returns t env) fun _ _ => trivial

theorem applyPostfix_returns (t : Term) (op : PostfixOperator) (env : Env) : (applyPostfix t op env).Returns := by
  unfold applyPostfix
  exact Res.bind_returns _ _ (requireVariable_returns t) fun _ _ =>
    Res.bind_returns _ _ (expandVariable_returns _ _) fun _ _ =>
    Res.bind_returns _ _ (ofOption_returns _ _) fun _ _ =>
    Res.bind_returns _ _ (assign_returns _ _ _) fun _ _ => trivial

theorem applyBinary_returns (l r : Term) (op : BinaryOperator) (env : Env) : (applyBinary l r op env).Returns := by
  unfold applyBinary
  split
  · exact Res.bind_returns _ _ (intoValue_returns l env) fun _ _ =>
      Res.bind_returns _ _ (intoValue_returns r env) fun _ _ =>
      Res.bind_returns _ _ (binaryResult_returns _ _ _) fun _ _ => trivial
  · exact Res.bind_returns _ _ (requireVariable_returns l) fun _ _ =>
      Res.bind_returns _ _ (intoValue_returns r env) fun _ _ => trivial
  · exact Res.bind_returns _ _ (requireVariable_returns l) fun _ _ =>
      Res.bind_returns _ _ (expandVariable_returns _ _) fun _ _ =>
      Res.bind_returns _ _ (intoValue_returns r env) fun _ _ =>
      Res.bind_returns _ _ (binaryResult_returns _ _ _) fun _ _ => trivial

theorem valueTerm_returns (r : Res (Int × Env)) (h : r.Returns) : (valueTerm r).Returns :=
  Res.bind_returns _ _ h fun _ _ => trivial

/-- on a well-formed vector, with fuel at least its length, `eval` returns: no `expect`/slice panic -/
theorem eval_returns_of_wf {a : List Ast} (h : WF a) :
    ∀ (f : Nat) (env : Env), a.length ≤ f → (eval f a env).Returns := by
  induction h with
  | term t =>
    intro f env hf
    cases f with
    | zero => simp at hf
    | succ f => simp [eval, splitLast, Res.Returns]
  | pre c op _ ih =>
    intro f env hf
    cases f with
    | zero => simp at hf
    | succ f =>
      rw [eval, splitLast_append]
      simp only [List.length_append, List.length_cons, List.length_nil] at hf
      exact Res.bind_returns _ _ (ih f env (by omega)) fun _ _ => valueTerm_returns _ (applyPrefix_returns _ _ _)
  | post c op _ ih =>
    intro f env hf
    cases f with
    | zero => simp at hf
    | succ f =>
      rw [eval, splitLast_append]
      simp only [List.length_append, List.length_cons, List.length_nil] at hf
      exact Res.bind_returns _ _ (ih f env (by omega)) fun _ _ => valueTerm_returns _ (applyPostfix_returns _ _ _)
  | binary l r op _ _ ihl ihr =>
    intro f env hf
    cases f with
    | zero => simp at hf
    | succ f =>
      rw [eval, splitLast_append]
      simp only [List.length_append, List.length_cons, List.length_nil] at hf
      simp only [splitAtEnd_append]
      have hl : ∀ env, (eval f l env).Returns := fun env => ihl f env (by omega)
      have hr : ∀ env, (eval f r env).Returns := fun env => ihr f env (by omega)
      split
      · exact Res.bind_returns _ _ (hl env) fun _ _ =>
          Res.bind_returns _ _ (intoValue_returns _ _) fun _ _ => by
            split
            · trivial
            · exact Res.bind_returns _ _ (hr _) fun _ _ =>
                Res.bind_returns _ _ (intoValue_returns _ _) fun _ _ =>
                Res.bind_returns _ _ (binaryResult_returns _ _ _) fun _ _ => trivial
      · split
        · exact Res.bind_returns _ _ (hl env) fun _ _ =>
            Res.bind_returns _ _ (intoValue_returns _ _) fun _ _ => by
              split
              · trivial
              · exact Res.bind_returns _ _ (hr _) fun _ _ =>
                  Res.bind_returns _ _ (intoValue_returns _ _) fun _ _ =>
                  Res.bind_returns _ _ (binaryResult_returns _ _ _) fun _ _ => trivial
        · exact Res.bind_returns _ _ (hl env) fun _ _ =>
            Res.bind_returns _ _ (hr _) fun _ _ => valueTerm_returns _ (applyBinary_returns _ _ _ _)
  | conditional c t e _ _ _ ihc iht ihe =>
    intro f env hf
    cases f with
    | zero => simp at hf
    | succ f =>
      rw [eval, splitLast_append]
      simp only [List.length_append, List.length_cons, List.length_nil] at hf
      simp only [splitAtEnd_append]
      exact Res.bind_returns _ _ (ihc f env (by omega)) fun _ _ =>
        Res.bind_returns _ _ (intoValue_returns _ _) fun _ _ => by
          split
          · exact iht f _ (by omega)
          · exact ihe f _ (by omega)

/-! ### numeric text -/

theorem toDigit_alnum (a : Char) (radix d : Nat) (h : toDigit a radix = some d) (hr : radix ≤ 36) :
    isAsciiAlnum a = true := by
  unfold toDigit at h
  unfold isAsciiAlnum isAsciiDigit
  simp only [Bool.and_eq_true, decide_eq_true_eq, Bool.or_eq_true] at *
  by_cases h1 : 48 ≤ a.toNat ∧ a.toNat ≤ 57
  · exact Or.inl (Or.inl h1)
  · by_cases h2 : 97 ≤ a.toNat ∧ a.toNat ≤ 122
    · exact Or.inr h2
    · by_cases h3 : 65 ≤ a.toNat ∧ a.toNat ≤ 90
      · exact Or.inl (Or.inr h3)
      · simp only [h1, h2, h3, if_false] at h
        split at h
        · omega
        · simp at h

theorem fromStrRadix_head (s : List Char) (radix : Nat) (v : Int) (h : fromStrRadix s radix = some v)
    (hr : radix ≤ 36) (hs : ∀ ch ∈ s, isTermChar ch = true) : s.head?.any isAsciiAlnum = true := by
  cases s with
  | nil => simp [fromStrRadix, parseNat] at h
  | cons a t =>
    have ha := hs a (by simp)
    have hm : a ≠ '-' := by intro e; subst e; revert ha; decide
    have hp : a ≠ '+' := by intro e; subst e; revert ha; decide
    simp only [fromStrRadix, List.head?_cons, Option.some.injEq, hm, hp, if_false] at h
    simp only [parseNat, List.isEmpty_cons, Bool.false_eq_true, if_false, parseDigits] at h
    cases hdig : toDigit a radix with
    | none => simp [hdig] at h
    | some d => simpa using toDigit_alnum a radix d hdig hr

theorem parseInteger_of_constant (c : List Char) (v : Int)
    (hterm : ∀ ch ∈ c, isTermChar ch = true) (h : parseConstant c = some v) :
    parseInteger c = some v := by
  cases c with
  | nil => simp [parseConstant, stripPrefix, fromStrRadix, parseNat] at h
  | cons a t =>
    have ha := hterm a (by simp)
    have hm : a ≠ '-' := by intro e; subst e; revert ha; decide
    have hp : a ≠ '+' := by intro e; subst e; revert ha; decide
    have hdrop : ∀ ch ∈ (a :: t).drop 2, isTermChar ch = true :=
      fun ch hch => hterm ch (List.mem_of_mem_drop hch)
    have hstrip : ∀ p ds, stripPrefix p (a :: t) = some ds → p.length = 2 → ds = (a :: t).drop 2 := by
      intro p ds hds hp2
      unfold stripPrefix at hds; split at hds
      · rw [hp2] at hds; exact (Option.some.inj hds).symm
      · simp at hds
    unfold parseInteger radixSplit
    simp only [List.head?_cons, Option.some.injEq, hm, hp, or_self, if_false]
    unfold parseConstant at h
    cases hX : stripPrefix ['0', 'X'] (a :: t) with
    | some ds =>
      simp only [hX] at h ⊢
      have hds' := hstrip _ ds hX rfl
      rw [fromStrRadix_head ds 16 v h (by omega) (hds' ▸ hdrop)]
      simpa using h
    | none =>
      simp only [hX] at h ⊢
      cases hx : stripPrefix ['0', 'x'] (a :: t) with
      | some ds =>
        simp only [hx] at h ⊢
        have hds' := hstrip _ ds hx rfl
        rw [fromStrRadix_head ds 16 v h (by omega) (hds' ▸ hdrop)]
        simpa using h
      | none =>
        simp only [hx] at h ⊢
        by_cases h0 : a = '0'
        · simp only [h0, List.head?_cons, if_true] at h ⊢
          subst h0
          have hh := fromStrRadix_head ('0' :: t) 8 v h (by omega) hterm
          simp only [List.head?_cons] at hh
          rw [hh]; simpa using h
        · simp only [List.head?_cons, Option.some.injEq, h0, if_false] at h ⊢
          have hh := fromStrRadix_head (a :: t) 10 v h (by omega) hterm
          simp only [List.head?_cons] at hh
          rw [hh]; simpa using h

end YashModel.Arith
