/-
  C03 — main lemma: on trees in the Spec's scope the Model's tree evaluation agrees with `Spec.evalExact`.
-/
import YashModel.Arith.SemLemmas
namespace YashModel.Arith
open YashModel.Generated.ArithTables

/-- every literal of the tree fits i64 (true of every constant the tokenizer accepts) -/
def litsInRange : Spec.Expr → Prop
  | .num v => InRange v
  | .var _ => True
  | .pre _ e => litsInRange e
  | .post _ e => litsInRange e
  | .bin _ l r => litsInRange l ∧ litsInRange r
  | .cond c t e => litsInRange c ∧ litsInRange t ∧ litsInRange e

/-- the Model evaluates `e` to the value `v`, ending in `env'` -/
def Succeeds (e : Spec.Expr) (env : Env) (v : Int) (env' : Env) : Prop :=
  InRange v ∧ ∃ t, evalTree e env = .ok (t, env') ∧ intoValue t env' = .ok v

/-- the Model's evaluation of `e` ends in an error: at once, or when the variable it hands up is read -/
def Fails (e : Spec.Expr) (env : Env) : Prop :=
  (∃ err, evalTree e env = .error err) ∨
  (∃ x env1 err, evalTree e env = .ok (.variable x, env1) ∧ intoValue (.variable x) env1 = .error err)

def Agree (e : Spec.Expr) : Prop :=
  ∀ env, (∀ v env', Spec.evalExact e env = some (v, env') → Succeeds e env v env') ∧
    (Spec.evalExact e env = none → Fails e env)

/-! ### small facts -/

theorem represent_eq_some {x v : Int} (h : Spec.represent x = some v) : v = x ∧ InRange v := by
  unfold Spec.represent at h
  split at h
  · rename_i hr; injection h with h; subst h; exact ⟨rfl, (inRange_iff _).mpr hr⟩
  · simp at h

theorem represent_of_inRange {x : Int} (h : InRange x) : Spec.represent x = some x := by
  unfold Spec.represent; rw [if_pos ((inRange_iff x).mp h)]

theorem represent_eq_none {x : Int} (h : Spec.represent x = none) : checked x = none := by
  rw [checked_eq_represent]; exact h

theorem bind_represent_inRange {o : Option Nat} {f : Nat → Int} {v : Int}
    (h : (o.bind fun n => Spec.represent (f n)) = some v) : InRange v := by
  cases o with
  | none => simp [Option.bind] at h
  | some n => simp only [Option.bind] at h; exact (represent_eq_some h).2

theorem signedConst_inRange {s : List Char} {v : Int} (h : Spec.signedConstValue s = some v) : InRange v := by
  unfold Spec.signedConstValue at h
  split at h
  · exact bind_represent_inRange h
  · exact bind_represent_inRange (f := fun n => (n : Int)) h
  · exact bind_represent_inRange (f := fun n => (n : Int)) h

/-- `expand_variable` against the Spec's `readVar` -/
theorem expandVariable_eq (x : Name) (env : Env) :
    expandVariable x env =
      match Spec.readVar env x with
      | some v => .ok v
      | none => .error .invalidVariableValue := by
  unfold expandVariable Spec.readVar
  rw [lookup_eq_get]
  cases env.get x with
  | none => rfl
  | some s =>
    simp only [parseInteger_eq_spec]
    cases Spec.signedConstValue s <;> rfl

theorem readVar_inRange {env : Env} {x : Name} {v : Int} (h : Spec.readVar env x = some v) : InRange v := by
  unfold Spec.readVar at h
  split at h
  · injection h with h; subst h; unfold InRange; omega
  · exact signedConst_inRange h

theorem expandVariable_of_some {env : Env} {x : Name} {v : Int} (h : Spec.readVar env x = some v) :
    expandVariable x env = .ok v := by rw [expandVariable_eq, h]

theorem expandVariable_of_none {env : Env} {x : Name} (h : Spec.readVar env x = none) :
    expandVariable x env = .error .invalidVariableValue := by rw [expandVariable_eq, h]

/-- `binary_result` against `Spec.arith` as equations -/
theorem binaryResult_of_some {op : BinaryOperator} {a b v : Int} (ha : InRange a) (hb : InRange b)
    (h : Spec.arith op a b = some v) : binaryResult op a b = .ok v ∧ InRange v := by
  obtain ⟨_, hv⟩ := binaryResult_spec op a b ha hb
  rw [h] at hv
  refine ⟨?_, ?_⟩
  · cases hr : binaryResult op a b <;> simp_all [Res.value?]
  · unfold Spec.arith at h
    split at h
    · rename_i hc; injection h with h; subst h; exact (inRange_iff _).mpr hc.2
    · simp at h

theorem binaryResult_of_none {op : BinaryOperator} {a b : Int} (ha : InRange a) (hb : InRange b)
    (h : Spec.arith op a b = none) : ∃ err, binaryResult op a b = .error err := by
  obtain ⟨hret, hv⟩ := binaryResult_spec op a b ha hb
  rw [h] at hv
  cases hr : binaryResult op a b with
  | ok x => simp [hr, Res.value?] at hv
  | error e => exact ⟨e, rfl⟩
  | panic => rw [hr] at hret; exact hret.elim
  | fuel => rw [hr] at hret; exact hret.elim

theorem truth_inRange' (p : Prop) [Decidable p] : InRange (Spec.truth p) :=
  (inRange_iff _).mpr (truth_inRange p)

/-- a failing operand whose value is read at once makes the reader fail -/
theorem Fails.read {e : Spec.Expr} {env : Env} (h : Fails e env) {β : Type}
    (k : Term → Env → Int → Res β) :
    ∃ err, ((evalTree e env).bind fun (p : Term × Env) => (intoValue p.1 p.2).bind fun v => k p.1 p.2 v) = .error err := by
  rcases h with ⟨err, he⟩ | ⟨x, env1, err, he, hv⟩
  · exact ⟨err, by rw [he]; rfl⟩
  · exact ⟨err, by rw [he]; simp only [Res.bind, hv]⟩

/-! ### the cases -/

theorem agree_num (v : Int) (h : InRange v) : Agree (.num v) := by
  intro env
  simp only [Spec.evalExact, represent_of_inRange h, Option.map]
  refine ⟨?_, by simp⟩
  intro v' env' he
  simp only [Option.some.injEq, Prod.mk.injEq] at he
  obtain ⟨rfl, rfl⟩ := he
  exact ⟨h, .value v, by simp [evalTree], rfl⟩

theorem agree_var (x : Name) : Agree (.var x) := by
  intro env
  simp only [Spec.evalExact]
  cases hr : Spec.readVar env x with
  | some v =>
    refine ⟨?_, by simp [Option.map]⟩
    intro v' env' he
    simp only [Option.map, Option.some.injEq, Prod.mk.injEq] at he
    obtain ⟨rfl, rfl⟩ := he
    exact ⟨readVar_inRange hr, .variable x, by simp [evalTree], expandVariable_of_some hr⟩
  | none =>
    refine ⟨by simp [Option.map], ?_⟩
    intro _
    exact Or.inr ⟨x, env, _, by simp [evalTree], expandVariable_of_none hr⟩

theorem agree_cond (c t e : Spec.Expr) (ihc : Agree c) (iht : Agree t) (ihe : Agree e) :
    Agree (.cond c t e) := by
  intro env
  simp only [Spec.evalExact]
  cases hc : Spec.evalExact c env with
  | none =>
    refine ⟨by simp [Option.bind], fun _ => ?_⟩
    obtain ⟨err, he⟩ := ((ihc env).2 hc).read (fun _ env1 a => if a ≠ 0 then evalTree t env1 else evalTree e env1)
    exact Or.inl ⟨err, by rw [evalTree]; exact he⟩
  | some p =>
    obtain ⟨a, env1⟩ := p
    obtain ⟨_, ct, hct, hcv⟩ := (ihc env).1 a env1 hc
    have hev : evalTree (.cond c t e) env = if a ≠ 0 then evalTree t env1 else evalTree e env1 := by
      rw [evalTree, hct]; simp only [Res.bind, hcv]
    simp only [Option.bind]
    by_cases ha : a ≠ 0
    · rw [if_pos ha] at hev ⊢
      unfold Succeeds Fails
      rw [hev]
      exact iht env1
    · rw [if_neg ha] at hev ⊢
      unfold Succeeds Fails
      rw [hev]
      exact ihe env1

/-! #### operators that need an lvalue -/

theorem var_or_not (e : Spec.Expr) : (∃ x, e = .var x) ∨ (∀ x, e ≠ .var x) := by
  cases e <;> simp

theorem isLazy_false_of (e : Spec.Expr) (hv : ∀ x, e ≠ .var x) (hc : Spec.isCond e = false) :
    isLazy e = false := by
  cases e <;> simp_all [isLazy, Spec.isCond]

/-- a node that is neither a variable nor a conditional fails or yields a value term -/
theorem nonlazy_cases (e : Spec.Expr) (env : Env) (hl : isLazy e = false) :
    (∃ err, evalTree e env = .error err) ∨ (∃ v env1, evalTree e env = .ok (.value v, env1)) := by
  have hret := evalTree_returns e env
  cases h : evalTree e env with
  | ok p =>
    obtain ⟨t, env1⟩ := p
    obtain ⟨v, hv⟩ := evalTree_value_form e env hl t env1 h
    subst hv; exact Or.inr ⟨v, env1, rfl⟩
  | error err => exact Or.inl ⟨err, rfl⟩
  | panic => rw [h] at hret; exact hret.elim
  | fuel => rw [h] at hret; exact hret.elim

theorem checked_of_inRange {x : Int} (h : InRange x) : checked x = some x := by
  unfold checked; rw [if_pos h]

theorem evalExact_pre_incdec_var (op : PrefixOperator) (x : Name) (env : Env)
    (hop : op = .Increment ∨ op = .Decrement) :
    Spec.evalExact (.pre op (.var x)) env =
      (Spec.readVar env x).bind fun v =>
        (Spec.represent (if op = .Increment then v + 1 else v - 1)).map fun nv => (nv, Spec.writeVar env x nv) := by
  rcases hop with rfl | rfl <;> simp [Spec.evalExact]

theorem evalExact_pre_incdec_nonvar (op : PrefixOperator) (e : Spec.Expr) (env : Env)
    (hop : op = .Increment ∨ op = .Decrement) (hne : ∀ x, e ≠ .var x) :
    Spec.evalExact (.pre op e) env = none := by
  rcases hop with rfl | rfl <;> cases e <;> simp_all [Spec.evalExact]

theorem evalExact_post_var (op : PostfixOperator) (x : Name) (env : Env) :
    Spec.evalExact (.post op (.var x)) env =
      (Spec.readVar env x).bind fun v =>
        (Spec.represent (if op = .Increment then v + 1 else v - 1)).map fun nv => (v, Spec.writeVar env x nv) := by
  simp [Spec.evalExact]

theorem evalExact_post_nonvar (op : PostfixOperator) (e : Spec.Expr) (env : Env) (hne : ∀ x, e ≠ .var x) :
    Spec.evalExact (.post op e) env = none := by
  cases e <;> simp_all [Spec.evalExact]

theorem agree_pre_incdec_var (op : PrefixOperator) (hop : op = .Increment ∨ op = .Decrement) (x : Name) :
    Agree (.pre op (.var x)) := by
  intro env
  rw [evalExact_pre_incdec_var op x env hop]
  have hev : evalTree (.pre op (.var x)) env = valueTerm (applyPrefix (.variable x) op env) := by
    simp [evalTree, Res.bind]
  cases hr : Spec.readVar env x with
  | none =>
    refine ⟨by simp [Option.bind], fun _ => Or.inl ⟨.invalidVariableValue, ?_⟩⟩
    rw [hev]
    rcases hop with rfl | rfl <;>
      simp [applyPrefix, requireVariable, expandVariable_of_none hr, Res.bind, valueTerm]
  | some v =>
    have hx := expandVariable_of_some hr
    simp only [Option.bind]
    cases hn : Spec.represent (if op = .Increment then v + 1 else v - 1) with
    | none =>
      refine ⟨by simp [Option.map], fun _ => Or.inl ⟨.overflow, ?_⟩⟩
      rw [hev]
      rcases hop with rfl | rfl
      · simp only [if_true] at hn
        simp [applyPrefix, requireVariable, hx, Res.bind, valueTerm, represent_eq_none hn, Res.ofOption]
      · simp only [reduceCtorEq, if_false] at hn
        simp [applyPrefix, requireVariable, hx, Res.bind, valueTerm, represent_eq_none hn, Res.ofOption]
    | some w =>
      obtain ⟨hw, hin⟩ := represent_eq_some hn
      refine ⟨?_, by simp [Option.map]⟩
      intro v' env' he
      simp only [Option.map, Option.some.injEq, Prod.mk.injEq] at he
      obtain ⟨rfl, rfl⟩ := he
      refine ⟨hin, .value w, ?_, rfl⟩
      rw [hev, writeVar_eq]
      rcases hop with rfl | rfl
      · simp only [if_true] at hw
        subst hw
        simp [applyPrefix, requireVariable, hx, Res.bind, valueTerm, checked_of_inRange hin, Res.ofOption, assign]
      · simp only [reduceCtorEq, if_false] at hw
        subst hw
        simp [applyPrefix, requireVariable, hx, Res.bind, valueTerm, checked_of_inRange hin, Res.ofOption, assign]

theorem agree_pre_incdec_nonvar (op : PrefixOperator) (hop : op = .Increment ∨ op = .Decrement)
    (e : Spec.Expr) (hne : ∀ x, e ≠ .var x) (hc : Spec.isCond e = false) : Agree (.pre op e) := by
  intro env
  rw [evalExact_pre_incdec_nonvar op e env hop hne]
  refine ⟨by simp, fun _ => Or.inl ?_⟩
  rcases nonlazy_cases e env (isLazy_false_of e hne hc) with ⟨err, he⟩ | ⟨v, env1, he⟩
  · exact ⟨err, by rw [evalTree, he]; rfl⟩
  · refine ⟨.assignmentToValue, ?_⟩
    rw [evalTree, he]
    rcases hop with rfl | rfl <;> simp [Res.bind, applyPrefix, requireVariable, valueTerm]

theorem agree_post_var (op : PostfixOperator) (x : Name) : Agree (.post op (.var x)) := by
  intro env
  rw [evalExact_post_var op x env]
  have hev : evalTree (.post op (.var x)) env = valueTerm (applyPostfix (.variable x) op env) := by
    simp [evalTree, Res.bind]
  cases hr : Spec.readVar env x with
  | none =>
    refine ⟨by simp [Option.bind], fun _ => Or.inl ⟨.invalidVariableValue, ?_⟩⟩
    rw [hev]
    simp [applyPostfix, requireVariable, expandVariable_of_none hr, Res.bind, valueTerm]
  | some v =>
    have hx := expandVariable_of_some hr
    have hvr := readVar_inRange hr
    simp only [Option.bind]
    cases hn : Spec.represent (if op = .Increment then v + 1 else v - 1) with
    | none =>
      refine ⟨by simp [Option.map], fun _ => Or.inl ⟨.overflow, ?_⟩⟩
      rw [hev]
      cases op
      · simp only [if_true] at hn
        simp [applyPostfix, requireVariable, hx, Res.bind, valueTerm, represent_eq_none hn, Res.ofOption]
      · simp only [reduceCtorEq, if_false] at hn
        simp [applyPostfix, requireVariable, hx, Res.bind, valueTerm, represent_eq_none hn, Res.ofOption]
    | some w =>
      obtain ⟨hw, hin⟩ := represent_eq_some hn
      refine ⟨?_, by simp [Option.map]⟩
      intro v' env' he
      simp only [Option.map, Option.some.injEq, Prod.mk.injEq] at he
      obtain ⟨rfl, rfl⟩ := he
      refine ⟨hvr, .value v, ?_, rfl⟩
      rw [hev, writeVar_eq]
      cases op
      · simp only [if_true] at hw
        subst hw
        simp [applyPostfix, requireVariable, hx, Res.bind, valueTerm, checked_of_inRange hin, Res.ofOption, assign]
      · simp only [reduceCtorEq, if_false] at hw
        subst hw
        simp [applyPostfix, requireVariable, hx, Res.bind, valueTerm, checked_of_inRange hin, Res.ofOption, assign]

theorem agree_post_nonvar (op : PostfixOperator) (e : Spec.Expr) (hne : ∀ x, e ≠ .var x)
    (hc : Spec.isCond e = false) : Agree (.post op e) := by
  intro env
  rw [evalExact_post_nonvar op e env hne]
  refine ⟨by simp, fun _ => Or.inl ?_⟩
  rcases nonlazy_cases e env (isLazy_false_of e hne hc) with ⟨err, he⟩ | ⟨v, env1, he⟩
  · exact ⟨err, by rw [evalTree, he]; rfl⟩
  · refine ⟨.assignmentToValue, ?_⟩
    rw [evalTree, he]
    simp [Res.bind, applyPostfix, requireVariable, valueTerm]

/-! #### prefix operators on values -/

/-- the Model's tree evaluation of a value-reading prefix operator, when the operand succeeds -/
theorem evalTree_pre_of_succeeds {e : Spec.Expr} {env env' : Env} {v : Int} {op : PrefixOperator}
    (h : Succeeds e env v env') :
    ∃ t, intoValue t env' = .ok v ∧ evalTree (.pre op e) env = valueTerm (applyPrefix t op env') := by
  obtain ⟨_, t, ht, hv⟩ := h
  exact ⟨t, hv, by rw [evalTree, ht]; rfl⟩

theorem agree_pre_value (op : PrefixOperator) (e : Spec.Expr) (ih : Agree e)
    (hop : op ≠ .Increment ∧ op ≠ .Decrement) : Agree (.pre op e) := by
  intro env
  cases hc : Spec.evalExact e env with
  | none =>
    have hn : Spec.evalExact (.pre op e) env = none := by
      cases op <;> simp_all [Spec.evalExact, Option.bind, Option.map]
    rw [hn]
    refine ⟨by simp, fun _ => ?_⟩
    rcases (ih env).2 hc with ⟨err, he⟩ | ⟨x, env1, err, he, hv⟩
    · exact Or.inl ⟨err, by rw [evalTree, he]; rfl⟩
    · refine Or.inl ⟨err, ?_⟩
      rw [evalTree, he]
      cases op <;> simp_all [Res.bind, applyPrefix, valueTerm]
  | some p =>
    obtain ⟨v, env'⟩ := p
    have hs := (ih env).1 v env' hc
    have hvr := hs.1
    obtain ⟨t, hv, hev⟩ := evalTree_pre_of_succeeds (op := op) hs
    cases op with
    | Increment => exact absurd rfl hop.1
    | Decrement => exact absurd rfl hop.2
    | NumericCoercion =>
      simp only [Spec.evalExact, hc]
      refine ⟨?_, by simp⟩
      intro v' env'' he
      simp only [Option.some.injEq, Prod.mk.injEq] at he
      obtain ⟨rfl, rfl⟩ := he
      exact ⟨hvr, .value v, by rw [hev]; simp [applyPrefix, hv, Res.bind, valueTerm], rfl⟩
    | NumericNegation =>
      simp only [Spec.evalExact, hc, Option.bind]
      cases hn : Spec.represent (-v) with
      | none =>
        refine ⟨by simp [Option.map], fun _ => Or.inl ⟨.overflow, ?_⟩⟩
        rw [hev]; simp [applyPrefix, hv, Res.bind, valueTerm, represent_eq_none hn, Res.ofOption]
      | some w =>
        obtain ⟨hw, hin⟩ := represent_eq_some hn
        subst hw
        refine ⟨?_, by simp [Option.map]⟩
        intro v' env'' he
        simp only [Option.map, Option.some.injEq, Prod.mk.injEq] at he
        obtain ⟨rfl, rfl⟩ := he
        exact ⟨hin, .value (-v), by
          rw [hev]; simp [applyPrefix, hv, Res.bind, valueTerm, checked_of_inRange hin, Res.ofOption], rfl⟩
    | LogicalNegation =>
      simp only [Spec.evalExact, hc, Option.map]
      refine ⟨?_, by simp⟩
      intro v' env'' he
      simp only [Option.some.injEq, Prod.mk.injEq] at he
      obtain ⟨rfl, rfl⟩ := he
      refine ⟨truth_inRange' _, .value (Spec.truth (v = 0)), ?_, rfl⟩
      rw [hev]; simp only [applyPrefix, hv, Res.bind, valueTerm, Spec.truth]
    | BitwiseNegation =>
      simp only [Spec.evalExact, hc, Option.map]
      refine ⟨?_, by simp⟩
      intro v' env'' he
      simp only [Option.some.injEq, Prod.mk.injEq] at he
      obtain ⟨rfl, rfl⟩ := he
      refine ⟨by unfold InRange at *; omega, .value (-v - 1), ?_, rfl⟩
      rw [hev]; simp [applyPrefix, hv, Res.bind, valueTerm, bitNot_exact v hvr]

theorem agree_pre (op : PrefixOperator) (e : Spec.Expr) (hs : Spec.inScope (.pre op e) = true)
    (ih : Agree e) : Agree (.pre op e) := by
  by_cases hop : op = .Increment ∨ op = .Decrement
  · have hc : Spec.isCond e = false := by
      simp only [Spec.inScope, Bool.and_eq_true, Bool.not_eq_true', Bool.and_eq_false_iff,
        decide_eq_false_iff_not] at hs
      rcases hs.2 with h | h
      · exact absurd hop h
      · exact h
    rcases var_or_not e with ⟨x, rfl⟩ | hne
    · exact agree_pre_incdec_var op hop x
    · exact agree_pre_incdec_nonvar op hop e hne hc
  · exact agree_pre_value op e ih ⟨fun h => hop (Or.inl h), fun h => hop (Or.inr h)⟩

theorem agree_post (op : PostfixOperator) (e : Spec.Expr) (hs : Spec.inScope (.post op e) = true) :
    Agree (.post op e) := by
  have hc : Spec.isCond e = false := by
    simp only [Spec.inScope, Bool.and_eq_true, Bool.not_eq_true'] at hs
    exact hs.2
  rcases var_or_not e with ⟨x, rfl⟩ | hne
  · exact agree_post_var op x
  · exact agree_post_nonvar op e hne hc

/-! #### binary operators: unfolding lemmas -/

theorem expandVariable_congr {x : Name} {env env' : Env} (h : env'.get x = env.get x) :
    expandVariable x env' = expandVariable x env := by
  unfold expandVariable; rw [h]

theorem intoValue_frame {t : Term} {env env' : Env}
    (h : ∀ x, t = .variable x → env'.get x = env.get x) : intoValue t env' = intoValue t env := by
  cases t with
  | value v => rfl
  | «variable» x => exact expandVariable_congr (h x rfl)

theorem evalTree_bin_general (op : BinaryOperator) (l r : Spec.Expr) (env : Env)
    (h1 : op ≠ .LogicalOr) (h2 : op ≠ .LogicalAnd) :
    evalTree (.bin op l r) env =
      (evalTree l env).bind fun (p : Term × Env) =>
      (evalTree r p.2).bind fun (q : Term × Env) => valueTerm (applyBinary p.1 q.1 op q.2) := by
  rw [evalTree, if_neg h1, if_neg h2]

theorem applyBinary_plain {op : BinaryOperator} (hk : binKind op = .plain) (lt rt : Term) (env : Env) :
    applyBinary lt rt op env =
      (intoValue lt env).bind fun l => (intoValue rt env).bind fun r =>
      (binaryResult op l r).bind fun v => .ok (v, env) := by
  unfold applyBinary; rw [hk]

theorem applyBinary_assign {op : BinaryOperator} (hk : binKind op = .assign) (lt rt : Term) (env : Env) :
    applyBinary lt rt op env =
      (requireVariable lt).bind fun name => (intoValue rt env).bind fun v => assign name v env := by
  unfold applyBinary; rw [hk]

theorem applyBinary_compound {op : BinaryOperator} (hk : binKind op = .compound) (lt rt : Term) (env : Env) :
    applyBinary lt rt op env =
      (requireVariable lt).bind fun name => (expandVariable name env).bind fun l =>
      (intoValue rt env).bind fun r => (binaryResult op l r).bind fun v => assign name v env := by
  unfold applyBinary; rw [hk]

theorem not_lazy_of_kind {op : BinaryOperator} (hk : Spec.kindOf op ≠ .plain) :
    op ≠ .LogicalOr ∧ op ≠ .LogicalAnd := by
  cases op <;> first | (exact absurd (by decide) hk) | exact ⟨by decide, by decide⟩

theorem evalExact_bin_plain (op : BinaryOperator) (l r : Spec.Expr) (env : Env)
    (h1 : op ≠ .LogicalOr) (h2 : op ≠ .LogicalAnd) (hk : Spec.kindOf op = .plain) :
    Spec.evalExact (.bin op l r) env =
      (Spec.evalExact l env).bind fun p => (Spec.evalExact r p.2).bind fun q =>
        (Spec.arith op p.1 q.1).map fun v => (v, q.2) := by
  rcases var_or_not l with ⟨x, rfl⟩ | hne
  · conv => lhs; rw [Spec.evalExact]
    rw [if_neg h1, if_neg h2]; simp only [hk]
  · rw [Spec.evalExact, if_neg h1, if_neg h2]
    · simp only [hk]
    · exact fun x hx => hne x hx

theorem evalExact_bin_assign_var (op : BinaryOperator) (x : Name) (r : Spec.Expr) (env : Env)
    (hk : Spec.kindOf op = .assign) :
    Spec.evalExact (.bin op (.var x) r) env =
      (Spec.evalExact r env).map fun q => (q.1, Spec.writeVar q.2 x q.1) := by
  obtain ⟨h1, h2⟩ := not_lazy_of_kind (op := op) (by rw [hk]; decide)
  rw [Spec.evalExact, if_neg h1, if_neg h2]; simp only [hk]

theorem evalExact_bin_compound_var (op : BinaryOperator) (x : Name) (r : Spec.Expr) (env : Env)
    (hk : Spec.kindOf op = .compound) :
    Spec.evalExact (.bin op (.var x) r) env =
      (Spec.readVar env x).bind fun a => (Spec.evalExact r env).bind fun q =>
        (Spec.arith op a q.1).map fun v => (v, Spec.writeVar q.2 x v) := by
  obtain ⟨h1, h2⟩ := not_lazy_of_kind (op := op) (by rw [hk]; decide)
  rw [Spec.evalExact, if_neg h1, if_neg h2]; simp only [hk]

theorem evalExact_bin_lvalue_nonvar (op : BinaryOperator) (l r : Spec.Expr) (env : Env)
    (hk : Spec.kindOf op ≠ .plain) (hne : ∀ x, l ≠ .var x) :
    Spec.evalExact (.bin op l r) env = none := by
  obtain ⟨h1, h2⟩ := not_lazy_of_kind hk
  rw [Spec.evalExact, if_neg h1, if_neg h2]
  · cases hk' : Spec.kindOf op with
    | plain => exact absurd hk' hk
    | assign => rfl
    | compound => rfl
  · exact fun x hx => hne x hx

/-! #### `||` and `&&` -/

theorem agree_or (l r : Spec.Expr) (ihl : Agree l) (ihr : Agree r) : Agree (.bin .LogicalOr l r) := by
  intro env
  have hS : Spec.evalExact (.bin .LogicalOr l r) env =
      (Spec.evalExact l env).bind fun p => if p.1 ≠ 0 then some (1, p.2)
        else (Spec.evalExact r p.2).map fun q => (Spec.truth (q.1 ≠ 0), q.2) := by
    rcases var_or_not l with ⟨x, rfl⟩ | hne
    · conv => lhs; rw [Spec.evalExact]
      simp
    · rw [Spec.evalExact]
      · simp
      · exact fun x hx => hne x hx
  have hM : evalTree (.bin .LogicalOr l r) env =
      (evalTree l env).bind fun (p : Term × Env) => (intoValue p.1 p.2).bind fun a =>
        if a ≠ 0 then .ok (.value 1, p.2)
        else (evalTree r p.2).bind fun (q : Term × Env) => (intoValue q.1 q.2).bind fun b =>
          (binaryResult .LogicalOr a b).bind fun v => .ok (.value v, q.2) := by
    rw [evalTree]; simp
  rw [hS]
  cases hl : Spec.evalExact l env with
  | none =>
    refine ⟨by simp [Option.bind], fun _ => ?_⟩
    obtain ⟨err, he⟩ := ((ihl env).2 hl).read (fun _ env1 a => if a ≠ 0 then .ok (.value 1, env1)
        else (evalTree r env1).bind fun (q : Term × Env) => (intoValue q.1 q.2).bind fun b =>
          (binaryResult .LogicalOr a b).bind fun v => .ok (Term.value v, q.2))
    exact Or.inl ⟨err, by rw [hM]; exact he⟩
  | some p =>
    obtain ⟨a, env1⟩ := p
    obtain ⟨_, lt, hlt, hlv⟩ := (ihl env).1 a env1 hl
    simp only [Option.bind]
    by_cases ha : a ≠ 0
    · rw [if_pos ha]
      refine ⟨?_, by simp⟩
      intro v env' he
      simp only [Option.some.injEq, Prod.mk.injEq] at he
      obtain ⟨rfl, rfl⟩ := he
      refine ⟨by unfold InRange; omega, .value 1, ?_, rfl⟩
      rw [hM, hlt]; simp only [Res.bind, hlv]; rw [if_pos ha]
    · rw [if_neg ha]
      have hM' : evalTree (.bin .LogicalOr l r) env =
          (evalTree r env1).bind fun (q : Term × Env) => (intoValue q.1 q.2).bind fun b =>
            (binaryResult .LogicalOr a b).bind fun v => .ok (.value v, q.2) := by
        rw [hM, hlt]; simp only [Res.bind, hlv]; rw [if_neg ha]
      cases hr : Spec.evalExact r env1 with
      | none =>
        refine ⟨by simp [Option.map], fun _ => ?_⟩
        obtain ⟨err, he⟩ := ((ihr env1).2 hr).read (fun _ env2 b =>
          (binaryResult .LogicalOr a b).bind fun v => .ok (Term.value v, env2))
        exact Or.inl ⟨err, by rw [hM']; exact he⟩
      | some q =>
        obtain ⟨b, env2⟩ := q
        obtain ⟨_, rt, hrt, hrv⟩ := (ihr env1).1 b env2 hr
        refine ⟨?_, by simp [Option.map]⟩
        intro v env' he
        simp only [Option.map, Option.some.injEq, Prod.mk.injEq] at he
        obtain ⟨rfl, rfl⟩ := he
        refine ⟨truth_inRange' _, .value (Spec.truth (b ≠ 0)), ?_, rfl⟩
        rw [hM', hrt]; simp only [Res.bind, hrv]
        have ha0 : a = 0 := by omega
        subst ha0
        by_cases hb : b = 0 <;>
          simp [binaryResult, binaryChecked, Res.bind, Res.ofOption, boolInt, Spec.truth, hb]

theorem agree_and (l r : Spec.Expr) (ihl : Agree l) (ihr : Agree r) : Agree (.bin .LogicalAnd l r) := by
  intro env
  have hS : Spec.evalExact (.bin .LogicalAnd l r) env =
      (Spec.evalExact l env).bind fun p => if p.1 = 0 then some (0, p.2)
        else (Spec.evalExact r p.2).map fun q => (Spec.truth (q.1 ≠ 0), q.2) := by
    rcases var_or_not l with ⟨x, rfl⟩ | hne
    · conv => lhs; rw [Spec.evalExact]
      simp
    · rw [Spec.evalExact]
      · simp
      · exact fun x hx => hne x hx
  have hM : evalTree (.bin .LogicalAnd l r) env =
      (evalTree l env).bind fun (p : Term × Env) => (intoValue p.1 p.2).bind fun a =>
        if a = 0 then .ok (.value 0, p.2)
        else (evalTree r p.2).bind fun (q : Term × Env) => (intoValue q.1 q.2).bind fun b =>
          (binaryResult .LogicalAnd a b).bind fun v => .ok (.value v, q.2) := by
    rw [evalTree]; simp
  rw [hS]
  cases hl : Spec.evalExact l env with
  | none =>
    refine ⟨by simp [Option.bind], fun _ => ?_⟩
    obtain ⟨err, he⟩ := ((ihl env).2 hl).read (fun _ env1 a => if a = 0 then .ok (.value 0, env1)
        else (evalTree r env1).bind fun (q : Term × Env) => (intoValue q.1 q.2).bind fun b =>
          (binaryResult .LogicalAnd a b).bind fun v => .ok (Term.value v, q.2))
    exact Or.inl ⟨err, by rw [hM]; exact he⟩
  | some p =>
    obtain ⟨a, env1⟩ := p
    obtain ⟨_, lt, hlt, hlv⟩ := (ihl env).1 a env1 hl
    simp only [Option.bind]
    by_cases ha : a = 0
    · rw [if_pos ha]
      refine ⟨?_, by simp⟩
      intro v env' he
      simp only [Option.some.injEq, Prod.mk.injEq] at he
      obtain ⟨rfl, rfl⟩ := he
      refine ⟨by unfold InRange; omega, .value 0, ?_, rfl⟩
      rw [hM, hlt]; simp only [Res.bind, hlv]; rw [if_pos ha]
    · rw [if_neg ha]
      have hM' : evalTree (.bin .LogicalAnd l r) env =
          (evalTree r env1).bind fun (q : Term × Env) => (intoValue q.1 q.2).bind fun b =>
            (binaryResult .LogicalAnd a b).bind fun v => .ok (.value v, q.2) := by
        rw [hM, hlt]; simp only [Res.bind, hlv]; rw [if_neg ha]
      cases hr : Spec.evalExact r env1 with
      | none =>
        refine ⟨by simp [Option.map], fun _ => ?_⟩
        obtain ⟨err, he⟩ := ((ihr env1).2 hr).read (fun _ env2 b =>
          (binaryResult .LogicalAnd a b).bind fun v => .ok (Term.value v, env2))
        exact Or.inl ⟨err, by rw [hM']; exact he⟩
      | some q =>
        obtain ⟨b, env2⟩ := q
        obtain ⟨_, rt, hrt, hrv⟩ := (ihr env1).1 b env2 hr
        refine ⟨?_, by simp [Option.map]⟩
        intro v env' he
        simp only [Option.map, Option.some.injEq, Prod.mk.injEq] at he
        obtain ⟨rfl, rfl⟩ := he
        refine ⟨truth_inRange' _, .value (Spec.truth (b ≠ 0)), ?_, rfl⟩
        rw [hM', hrt]; simp only [Res.bind, hrv]
        by_cases hb : b = 0 <;>
          simp [binaryResult, binaryChecked, Res.bind, Res.ofOption, boolInt, Spec.truth, hb, ha]

/-! #### operators without sequence point -/

theorem disjoint_not_mem {a b : List Name} (h : Spec.disjoint a b = true) {x : Name} (hx : x ∈ b) : x ∉ a := by
  intro hxa
  unfold Spec.disjoint at h
  rw [List.all_eq_true] at h
  have := h x hxa
  simp only [Bool.not_eq_true', List.contains_eq_mem, decide_eq_false_iff_not] at this
  exact this hx

theorem agree_plain (op : BinaryOperator) (l r : Spec.Expr) (h1 : op ≠ .LogicalOr) (h2 : op ≠ .LogicalAnd)
    (hk : Spec.kindOf op = .plain) (hsr : Spec.inScope r = true)
    (hd : Spec.disjoint (Spec.writes r) (Spec.reads l) = true)
    (ihl : Agree l) (ihr : Agree r) : Agree (.bin op l r) := by
  intro env
  have hkb : binKind op = .plain := (kindOf_eq_binKind op).1.mp hk
  rw [evalExact_bin_plain op l r env h1 h2 hk]
  have hM := evalTree_bin_general op l r env h1 h2
  -- the value of the left term is unchanged by the evaluation of `r`
  have hframe : ∀ lt env1 rt env2, evalTree l env = .ok (lt, env1) → evalTree r env1 = .ok (rt, env2) →
      intoValue lt env2 = intoValue lt env1 := by
    intro lt env1 rt env2 hlt hrt
    apply intoValue_frame
    intro x hx
    subst hx
    exact evalTree_frame r env1 rt env2 x hsr hrt (disjoint_not_mem hd (evalTree_variable_reads l _ _ _ hlt))
  cases hl : Spec.evalExact l env with
  | none =>
    refine ⟨by simp [Option.bind], fun _ => Or.inl ?_⟩
    rcases (ihl env).2 hl with ⟨err, he⟩ | ⟨x, env1, err, he, hv⟩
    · exact ⟨err, by rw [hM, he]; rfl⟩
    · rw [hM, he]
      simp only [Res.bind]
      have hret := evalTree_returns r env1
      cases hr : evalTree r env1 with
      | ok q =>
        obtain ⟨rt, env2⟩ := q
        have hv2 : intoValue (.variable x) env2 = .error err := by rw [hframe _ _ _ _ he hr, hv]
        exact ⟨err, by simp [applyBinary_plain hkb, hv2, Res.bind, valueTerm]⟩
      | error e => exact ⟨e, rfl⟩
      | panic => rw [hr] at hret; exact hret.elim
      | fuel => rw [hr] at hret; exact hret.elim
  | some p =>
    obtain ⟨a, env1⟩ := p
    obtain ⟨har, lt, hlt, hlv⟩ := (ihl env).1 a env1 hl
    simp only [Option.bind]
    cases hr : Spec.evalExact r env1 with
    | none =>
      refine ⟨by simp, fun _ => Or.inl ?_⟩
      rcases (ihr env1).2 hr with ⟨err, he⟩ | ⟨y, env2, err, he, hv⟩
      · exact ⟨err, by rw [hM, hlt]; simp only [Res.bind, he]⟩
      · rw [hM, hlt]
        simp only [Res.bind, he, applyBinary_plain hkb]
        have hret := intoValue_returns lt env2
        cases hlv2 : intoValue lt env2 with
        | ok a2 => exact ⟨err, by simp [hv, Res.bind, valueTerm]⟩
        | error e => exact ⟨e, by simp [Res.bind, valueTerm]⟩
        | panic => rw [hlv2] at hret; exact hret.elim
        | fuel => rw [hlv2] at hret; exact hret.elim
    | some q =>
      obtain ⟨b, env2⟩ := q
      obtain ⟨hbr, rt, hrt, hrv⟩ := (ihr env1).1 b env2 hr
      have hlv2 : intoValue lt env2 = .ok a := by rw [hframe _ _ _ _ hlt hrt, hlv]
      have hM2 : evalTree (.bin op l r) env = valueTerm ((binaryResult op a b).bind fun v => .ok (v, env2)) := by
        rw [hM, hlt]; simp only [Res.bind, hrt, applyBinary_plain hkb, hlv2, hrv]
      simp only
      cases ha : Spec.arith op a b with
      | none =>
        refine ⟨by simp [Option.map], fun _ => Or.inl ?_⟩
        obtain ⟨err, he⟩ := binaryResult_of_none har hbr ha
        exact ⟨err, by rw [hM2, he]; rfl⟩
      | some v =>
        obtain ⟨hbv, hvr⟩ := binaryResult_of_some har hbr ha
        refine ⟨?_, by simp [Option.map]⟩
        intro v' env' he
        simp only [Option.map, Option.some.injEq, Prod.mk.injEq] at he
        obtain ⟨rfl, rfl⟩ := he
        exact ⟨hvr, .value v, by rw [hM2, hbv]; rfl, rfl⟩

/-- assignment and compound assignment whose left operand is not a variable (nor a conditional) -/
theorem agree_lvalue_nonvar (op : BinaryOperator) (l r : Spec.Expr) (hk : Spec.kindOf op ≠ .plain)
    (hne : ∀ x, l ≠ .var x) (hc : Spec.isCond l = false) : Agree (.bin op l r) := by
  intro env
  obtain ⟨h1, h2⟩ := not_lazy_of_kind hk
  rw [evalExact_bin_lvalue_nonvar op l r env hk hne]
  refine ⟨by simp, fun _ => Or.inl ?_⟩
  have hM := evalTree_bin_general op l r env h1 h2
  rcases nonlazy_cases l env (isLazy_false_of l hne hc) with ⟨err, he⟩ | ⟨v, env1, he⟩
  · exact ⟨err, by rw [hM, he]; rfl⟩
  · rw [hM, he]
    simp only [Res.bind]
    have hret := evalTree_returns r env1
    cases hr : evalTree r env1 with
    | ok q =>
      obtain ⟨rt, env2⟩ := q
      refine ⟨.assignmentToValue, ?_⟩
      have hkb : binKind op ≠ .plain := fun h => hk ((kindOf_eq_binKind op).1.mpr h)
      cases hb : binKind op with
      | plain => exact absurd hb hkb
      | assign => simp [applyBinary_assign hb, requireVariable, Res.bind, valueTerm]
      | compound => simp [applyBinary_compound hb, requireVariable, Res.bind, valueTerm]
    | error e => exact ⟨e, rfl⟩
    | panic => rw [hr] at hret; exact hret.elim
    | fuel => rw [hr] at hret; exact hret.elim

theorem agree_assign_var (op : BinaryOperator) (x : Name) (r : Spec.Expr) (hk : Spec.kindOf op = .assign)
    (ihr : Agree r) : Agree (.bin op (.var x) r) := by
  intro env
  obtain ⟨h1, h2⟩ := not_lazy_of_kind (op := op) (by rw [hk]; decide)
  have hkb : binKind op = .assign := (kindOf_eq_binKind op).2.1.mp hk
  rw [evalExact_bin_assign_var op x r env hk]
  have hM : evalTree (.bin op (.var x) r) env =
      (evalTree r env).bind fun (q : Term × Env) => valueTerm (applyBinary (.variable x) q.1 op q.2) := by
    rw [evalTree_bin_general op _ r env h1 h2]; simp [evalTree, Res.bind]
  cases hr : Spec.evalExact r env with
  | none =>
    refine ⟨by simp, fun _ => Or.inl ?_⟩
    rcases (ihr env).2 hr with ⟨err, he⟩ | ⟨y, env1, err, he, hv⟩
    · exact ⟨err, by rw [hM, he]; rfl⟩
    · exact ⟨err, by rw [hM, he]; simp [applyBinary_assign hkb, requireVariable, hv, Res.bind, valueTerm]⟩
  | some q =>
    obtain ⟨b, env1⟩ := q
    obtain ⟨hbr, rt, hrt, hrv⟩ := (ihr env).1 b env1 hr
    refine ⟨?_, by simp [Option.map]⟩
    intro v' env' he
    simp only [Option.map, Option.some.injEq, Prod.mk.injEq] at he
    obtain ⟨rfl, rfl⟩ := he
    refine ⟨hbr, .value b, ?_, rfl⟩
    rw [hM, hrt, writeVar_eq]
    simp [applyBinary_assign hkb, requireVariable, hrv, Res.bind, valueTerm, assign]

theorem agree_compound_var (op : BinaryOperator) (x : Name) (r : Spec.Expr) (hk : Spec.kindOf op = .compound)
    (hsr : Spec.inScope r = true) (hd : Spec.disjoint (Spec.writes r) (Spec.reads (.var x)) = true)
    (ihr : Agree r) : Agree (.bin op (.var x) r) := by
  intro env
  obtain ⟨h1, h2⟩ := not_lazy_of_kind (op := op) (by rw [hk]; decide)
  have hkb : binKind op = .compound := (kindOf_eq_binKind op).2.2.mp hk
  rw [evalExact_bin_compound_var op x r env hk]
  have hM : evalTree (.bin op (.var x) r) env =
      (evalTree r env).bind fun (q : Term × Env) => valueTerm (applyBinary (.variable x) q.1 op q.2) := by
    rw [evalTree_bin_general op _ r env h1 h2]; simp [evalTree, Res.bind]
  have hxw : x ∉ Spec.writes r := disjoint_not_mem hd (by simp [Spec.reads])
  have hframe : ∀ rt env1, evalTree r env = .ok (rt, env1) → expandVariable x env1 = expandVariable x env :=
    fun rt env1 hrt => expandVariable_congr (evalTree_frame r env rt env1 x hsr hrt hxw)
  cases hx : Spec.readVar env x with
  | none =>
    refine ⟨by simp [Option.bind], fun _ => Or.inl ?_⟩
    have hret := evalTree_returns r env
    cases hr : evalTree r env with
    | ok q =>
      obtain ⟨rt, env1⟩ := q
      refine ⟨.invalidVariableValue, ?_⟩
      rw [hM, hr]
      simp [applyBinary_compound hkb, requireVariable, hframe rt env1 hr, expandVariable_of_none hx, Res.bind,
        valueTerm]
    | error e => exact ⟨e, by rw [hM, hr]; rfl⟩
    | panic => rw [hr] at hret; exact hret.elim
    | fuel => rw [hr] at hret; exact hret.elim
  | some a =>
    have har := readVar_inRange hx
    simp only [Option.bind]
    cases hr : Spec.evalExact r env with
    | none =>
      refine ⟨by simp, fun _ => Or.inl ?_⟩
      rcases (ihr env).2 hr with ⟨err, he⟩ | ⟨y, env1, err, he, hv⟩
      · exact ⟨err, by rw [hM, he]; rfl⟩
      · exact ⟨err, by
          rw [hM, he]
          simp [applyBinary_compound hkb, requireVariable, hframe _ env1 he, expandVariable_of_some hx, hv,
            Res.bind, valueTerm]⟩
    | some q =>
      obtain ⟨b, env1⟩ := q
      obtain ⟨hbr, rt, hrt, hrv⟩ := (ihr env).1 b env1 hr
      have hM2 : evalTree (.bin op (.var x) r) env =
          valueTerm ((binaryResult op a b).bind fun v => assign x v env1) := by
        rw [hM, hrt]
        simp [applyBinary_compound hkb, requireVariable, hframe rt env1 hrt, expandVariable_of_some hx, hrv,
          Res.bind]
      simp only
      cases ha : Spec.arith op a b with
      | none =>
        refine ⟨by simp [Option.map], fun _ => Or.inl ?_⟩
        obtain ⟨err, he⟩ := binaryResult_of_none har hbr ha
        exact ⟨err, by rw [hM2, he]; rfl⟩
      | some v =>
        obtain ⟨hbv, hvr⟩ := binaryResult_of_some har hbr ha
        refine ⟨?_, by simp [Option.map]⟩
        intro v' env' he
        simp only [Option.map, Option.some.injEq, Prod.mk.injEq] at he
        obtain ⟨rfl, rfl⟩ := he
        exact ⟨hvr, .value v, by rw [hM2, hbv, writeVar_eq]; rfl, rfl⟩

/-! ### assembly -/

theorem agree_bin (op : BinaryOperator) (l r : Spec.Expr) (hs : Spec.inScope (.bin op l r) = true)
    (ihl : Agree l) (ihr : Agree r) : Agree (.bin op l r) := by
  simp only [Spec.inScope, Bool.and_eq_true] at hs
  obtain ⟨⟨_, hsr⟩, hs3⟩ := hs
  by_cases h1 : op = .LogicalOr
  · subst h1; exact agree_or l r ihl ihr
  by_cases h2 : op = .LogicalAnd
  · subst h2; exact agree_and l r ihl ihr
  have hno : ¬ (op = .LogicalOr ∨ op = .LogicalAnd) := fun h => h.elim h1 h2
  rw [if_neg hno] at hs3
  by_cases hk : Spec.kindOf op = .plain
  · rw [if_pos hk] at hs3
    simp only [Bool.and_eq_true] at hs3
    exact agree_plain op l r h1 h2 hk hsr hs3.2 ihl ihr
  · rw [if_neg hk] at hs3
    simp only [Bool.and_eq_true, Bool.not_eq_true'] at hs3
    obtain ⟨⟨hc, hd⟩, _⟩ := hs3
    rcases var_or_not l with ⟨x, rfl⟩ | hne
    · cases hk' : Spec.kindOf op with
      | plain => exact absurd hk' hk
      | assign => exact agree_assign_var op x r hk' ihr
      | compound => exact agree_compound_var op x r hk' hsr hd ihr
    · exact agree_lvalue_nonvar op l r hk hne hc

/-- on every tree in the Spec's scope whose literals fit i64, the Model's tree evaluation agrees with the
    Spec in every environment -/
theorem agree (e : Spec.Expr) : Spec.inScope e = true → litsInRange e → Agree e := by
  induction e with
  | num v => intro _ hl; exact agree_num v hl
  | var x => intro _ _; exact agree_var x
  | pre op e ih =>
    intro hs hl
    have hse : Spec.inScope e = true := by
      simp only [Spec.inScope, Bool.and_eq_true] at hs; exact hs.1
    exact agree_pre op e hs (ih hse hl)
  | post op e _ =>
    intro hs _
    exact agree_post op e hs
  | bin op l r ihl ihr =>
    intro hs hl
    have hs' := hs
    simp only [Spec.inScope, Bool.and_eq_true] at hs'
    exact agree_bin op l r hs (ihl hs'.1.1 hl.1) (ihr hs'.1.2 hl.2)
  | cond c t e ihc iht ihe =>
    intro hs hl
    simp only [Spec.inScope, Bool.and_eq_true] at hs
    exact agree_cond c t e (ihc hs.1.1 hl.1) (iht hs.1.2 hl.2.1) (ihe hs.2 hl.2.2)

/-- the same, for the reverse-Polish vector the parser lays out and `lib.rs`'s `eval` + `into_value` -/
theorem evalValue_rpn (e : Spec.Expr) (env : Env) (hs : Spec.inScope e = true) (hl : litsInRange e) :
    match Spec.evalExact e env with
    | some (v, env') => evalValue (rpn e) env = .ok (v, env')
    | none => ∃ err, evalValue (rpn e) env = .error err := by
  have hE : evalValue (rpn e) env =
      (evalTree e env).bind fun (p : Term × Env) => (intoValue p.1 p.2).bind fun v => .ok (v, p.2) := by
    unfold evalValue; rw [eval_rpn_tree e _ env (Nat.le_refl _)]
  have hA := agree e hs hl env
  cases hc : Spec.evalExact e env with
  | none =>
    simp only
    obtain ⟨err, he⟩ := (hA.2 hc).read (fun _ env1 v => Res.ok (v, env1))
    exact ⟨err, by rw [hE]; exact he⟩
  | some p =>
    obtain ⟨v, env'⟩ := p
    obtain ⟨_, t, ht, hv⟩ := hA.1 v env' hc
    simp only
    rw [hE, ht]; simp only [Res.bind, hv]

end YashModel.Arith
