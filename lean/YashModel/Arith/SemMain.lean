/-
  C03 — main lemma: on trees in the Spec's scope the Model's tree evaluation agrees with `Spec.evalExact`.
-/
import YashModel.Arith.SemLemmas
namespace YashModel.Arith
open YashModel.Generated.ArithTables

/-- every literal of the tree fits i64 (true of every constant the tokenizer accepts) -/
def litsInRange : Spec.Expr → Prop
  | .num v => InRange v
  | .var _ => True
  | .pre _ e => litsInRange e
  | .post _ e => litsInRange e
  | .bin _ l r => litsInRange l ∧ litsInRange r
  | .cond c t e => litsInRange c ∧ litsInRange t ∧ litsInRange e

/-- the Model evaluates `e` to the value `v`, ending in `env'` -/
def Succeeds (e : Spec.Expr) (env : Env) (v : Int) (env' : Env) : Prop :=
  InRange v ∧ ∃ t, evalTree e env = .ok (t, env') ∧ intoValue t env' = .ok v

/-- the Model's evaluation of `e` ends in an error: at once, or when the variable it hands up is read -/
def Fails (e : Spec.Expr) (env : Env) : Prop :=
  (∃ err, evalTree e env = .error err) ∨
  (∃ x env1 err, evalTree e env = .ok (.variable x, env1) ∧ intoValue (.variable x) env1 = .error err)

def Agree (e : Spec.Expr) : Prop :=
  ∀ env, (∀ v env', Spec.evalExact e env = some (v, env') → Succeeds e env v env') ∧
    (Spec.evalExact e env = none → Fails e env)

/-! ### small facts -/

theorem represent_eq_some {x v : Int} (h : Spec.represent x = some v) : v = x ∧ InRange v := by
  unfold Spec.represent at h
  split at h
  · rename_i hr; injection h with h; subst h; exact ⟨rfl, (inRange_iff _).mpr hr⟩
  · simp at h

theorem represent_of_inRange {x : Int} (h : InRange x) : Spec.represent x = some x := by
  unfold Spec.represent; rw [if_pos ((inRange_iff x).mp h)]

theorem represent_eq_none {x : Int} (h : Spec.represent x = none) : checked x = none := by
  rw [checked_eq_represent]; exact h

theorem signedConst_inRange {s : List Char} {v : Int} (h : Spec.signedConstValue s = some v) : InRange v := by
  unfold Spec.signedConstValue at h
  split at h
  · cases hm : Spec.constMagnitude ‹_› with
    | none => simp [hm, Option.bind] at h
    | some n => simp only [hm, Option.bind] at h; exact (represent_eq_some h).2
  · unfold Spec.constValue at h
    cases hm : Spec.constMagnitude ‹_› with
    | none => simp [hm, Option.bind] at h
    | some n => simp only [hm, Option.bind] at h; exact (represent_eq_some h).2
  · unfold Spec.constValue at h
    cases hm : Spec.constMagnitude ‹_› with
    | none => simp [hm, Option.bind] at h
    | some n => simp only [hm, Option.bind] at h; exact (represent_eq_some h).2

/-- `expand_variable` against the Spec's `readVar` -/
theorem expandVariable_eq (x : Name) (env : Env) :
    expandVariable x env =
      match Spec.readVar env x with
      | some v => .ok v
      | none => .error .invalidVariableValue := by
  unfold expandVariable Spec.readVar
  rw [lookup_eq_get]
  cases env.get x with
  | none => rfl
  | some s =>
    simp only [parseInteger_eq_spec]
    cases Spec.signedConstValue s <;> rfl

theorem readVar_inRange {env : Env} {x : Name} {v : Int} (h : Spec.readVar env x = some v) : InRange v := by
  unfold Spec.readVar at h
  split at h
  · injection h with h; subst h; unfold InRange; omega
  · exact signedConst_inRange h

theorem expandVariable_of_some {env : Env} {x : Name} {v : Int} (h : Spec.readVar env x = some v) :
    expandVariable x env = .ok v := by rw [expandVariable_eq, h]

theorem expandVariable_of_none {env : Env} {x : Name} (h : Spec.readVar env x = none) :
    expandVariable x env = .error .invalidVariableValue := by rw [expandVariable_eq, h]

/-- `binary_result` against `Spec.arith` as equations -/
theorem binaryResult_of_some {op : BinaryOperator} {a b v : Int} (ha : InRange a) (hb : InRange b)
    (h : Spec.arith op a b = some v) : binaryResult op a b = .ok v ∧ InRange v := by
  obtain ⟨_, hv⟩ := binaryResult_spec op a b ha hb
  rw [h] at hv
  refine ⟨?_, ?_⟩
  · cases hr : binaryResult op a b <;> simp_all [Res.value?]
  · unfold Spec.arith at h
    split at h
    · rename_i hc; injection h with h; subst h; exact (inRange_iff _).mpr hc.2
    · simp at h

theorem binaryResult_of_none {op : BinaryOperator} {a b : Int} (ha : InRange a) (hb : InRange b)
    (h : Spec.arith op a b = none) : ∃ err, binaryResult op a b = .error err := by
  obtain ⟨hret, hv⟩ := binaryResult_spec op a b ha hb
  rw [h] at hv
  cases hr : binaryResult op a b with
  | ok x => simp [hr, Res.value?] at hv
  | error e => exact ⟨e, rfl⟩
  | panic => rw [hr] at hret; exact hret.elim
  | fuel => rw [hr] at hret; exact hret.elim

theorem truth_inRange' (p : Prop) [Decidable p] : InRange (Spec.truth p) :=
  (inRange_iff _).mpr (truth_inRange p)

/-- a failing operand whose value is read at once makes the reader fail -/
theorem Fails.read {e : Spec.Expr} {env : Env} (h : Fails e env) {β : Type}
    (k : Term → Env → Int → Res β) :
    ∃ err, ((evalTree e env).bind fun (p : Term × Env) => (intoValue p.1 p.2).bind fun v => k p.1 p.2 v) = .error err := by
  rcases h with ⟨err, he⟩ | ⟨x, env1, err, he, hv⟩
  · exact ⟨err, by rw [he]; rfl⟩
  · exact ⟨err, by rw [he]; simp only [Res.bind, hv]⟩

end YashModel.Arith
