/-
  C03 — main lemma: on trees in the Spec's scope the Model's tree evaluation agrees with `Spec.evalExact`.
-/
import YashModel.Arith.SemLemmas
namespace YashModel.Arith
open YashModel.Generated.ArithTables

/-- every literal of the tree fits i64 (true of every constant the tokenizer accepts) -/
def litsInRange : Spec.Expr → Prop
  | .num v => InRange v
  | .var _ => True
  | .pre _ e => litsInRange e
  | .post _ e => litsInRange e
  | .bin _ l r => litsInRange l ∧ litsInRange r
  | .cond c t e => litsInRange c ∧ litsInRange t ∧ litsInRange e

/-- the Model evaluates `e` to the value `v`, ending in `env'` -/
def Succeeds (e : Spec.Expr) (env : Env) (v : Int) (env' : Env) : Prop :=
  InRange v ∧ ∃ t, evalTree e env = .ok (t, env') ∧ intoValue t env' = .ok v

/-- the Model's evaluation of `e` ends in an error: at once, or when the variable it hands up is read -/
def Fails (e : Spec.Expr) (env : Env) : Prop :=
  (∃ err, evalTree e env = .error err) ∨
  (∃ x env1 err, evalTree e env = .ok (.variable x, env1) ∧ intoValue (.variable x) env1 = .error err)

def Agree (e : Spec.Expr) : Prop :=
  ∀ env, (∀ v env', Spec.evalExact e env = some (v, env') → Succeeds e env v env') ∧
    (Spec.evalExact e env = none → Fails e env)

/-! ### small facts -/

theorem represent_eq_some {x v : Int} (h : Spec.represent x = some v) : v = x ∧ InRange v := by
  unfold Spec.represent at h
  split at h
  · rename_i hr; injection h with h; subst h; exact ⟨rfl, (inRange_iff _).mpr hr⟩
  · simp at h

theorem represent_of_inRange {x : Int} (h : InRange x) : Spec.represent x = some x := by
  unfold Spec.represent; rw [if_pos ((inRange_iff x).mp h)]

theorem represent_eq_none {x : Int} (h : Spec.represent x = none) : checked x = none := by
  rw [checked_eq_represent]; exact h

theorem bind_represent_inRange {o : Option Nat} {f : Nat → Int} {v : Int}
    (h : (o.bind fun n => Spec.represent (f n)) = some v) : InRange v := by
  cases o with
  | none => simp [Option.bind] at h
  | some n => simp only [Option.bind] at h; exact (represent_eq_some h).2

theorem signedConst_inRange {s : List Char} {v : Int} (h : Spec.signedConstValue s = some v) : InRange v := by
  unfold Spec.signedConstValue at h
  split at h
  · exact bind_represent_inRange h
  · exact bind_represent_inRange (f := fun n => (n : Int)) h
  · exact bind_represent_inRange (f := fun n => (n : Int)) h

/-- `expand_variable` against the Spec's `readVar` -/
theorem expandVariable_eq (x : Name) (env : Env) :
    expandVariable x env =
      match Spec.readVar env x with
      | some v => .ok v
      | none => .error .invalidVariableValue := by
  unfold expandVariable Spec.readVar
  rw [lookup_eq_get]
  cases env.get x with
  | none => rfl
  | some s =>
    simp only [parseInteger_eq_spec]
    cases Spec.signedConstValue s <;> rfl

theorem readVar_inRange {env : Env} {x : Name} {v : Int} (h : Spec.readVar env x = some v) : InRange v := by
  unfold Spec.readVar at h
  split at h
  · injection h with h; subst h; unfold InRange; omega
  · exact signedConst_inRange h

theorem expandVariable_of_some {env : Env} {x : Name} {v : Int} (h : Spec.readVar env x = some v) :
    expandVariable x env = .ok v := by rw [expandVariable_eq, h]

theorem expandVariable_of_none {env : Env} {x : Name} (h : Spec.readVar env x = none) :
    expandVariable x env = .error .invalidVariableValue := by rw [expandVariable_eq, h]

/-- `binary_result` against `Spec.arith` as equations -/
theorem binaryResult_of_some {op : BinaryOperator} {a b v : Int} (ha : InRange a) (hb : InRange b)
    (h : Spec.arith op a b = some v) : binaryResult op a b = .ok v ∧ InRange v := by
  obtain ⟨_, hv⟩ := binaryResult_spec op a b ha hb
  rw [h] at hv
  refine ⟨?_, ?_⟩
  · cases hr : binaryResult op a b <;> simp_all [Res.value?]
  · unfold Spec.arith at h
    split at h
    · rename_i hc; injection h with h; subst h; exact (inRange_iff _).mpr hc.2
    · simp at h

theorem binaryResult_of_none {op : BinaryOperator} {a b : Int} (ha : InRange a) (hb : InRange b)
    (h : Spec.arith op a b = none) : ∃ err, binaryResult op a b = .error err := by
  obtain ⟨hret, hv⟩ := binaryResult_spec op a b ha hb
  rw [h] at hv
  cases hr : binaryResult op a b with
  | ok x => simp [hr, Res.value?] at hv
  | error e => exact ⟨e, rfl⟩
  | panic => rw [hr] at hret; exact hret.elim
  | fuel => rw [hr] at hret; exact hret.elim

theorem truth_inRange' (p : Prop) [Decidable p] : InRange (Spec.truth p) :=
  (inRange_iff _).mpr (truth_inRange p)

/-- a failing operand whose value is read at once makes the reader fail -/
theorem Fails.read {e : Spec.Expr} {env : Env} (h : Fails e env) {β : Type}
    (k : Term → Env → Int → Res β) :
    ∃ err, ((evalTree e env).bind fun (p : Term × Env) => (intoValue p.1 p.2).bind fun v => k p.1 p.2 v) = .error err := by
  rcases h with ⟨err, he⟩ | ⟨x, env1, err, he, hv⟩
  · exact ⟨err, by rw [he]; rfl⟩
  · exact ⟨err, by rw [he]; simp only [Res.bind, hv]⟩

/-! ### the cases -/

theorem agree_num (v : Int) (h : InRange v) : Agree (.num v) := by
  intro env
  simp only [Spec.evalExact, represent_of_inRange h, Option.map]
  refine ⟨?_, by simp⟩
  intro v' env' he
  simp only [Option.some.injEq, Prod.mk.injEq] at he
  obtain ⟨rfl, rfl⟩ := he
  exact ⟨h, .value v, by simp [evalTree], rfl⟩

theorem agree_var (x : Name) : Agree (.var x) := by
  intro env
  simp only [Spec.evalExact]
  cases hr : Spec.readVar env x with
  | some v =>
    refine ⟨?_, by simp [Option.map]⟩
    intro v' env' he
    simp only [Option.map, Option.some.injEq, Prod.mk.injEq] at he
    obtain ⟨rfl, rfl⟩ := he
    exact ⟨readVar_inRange hr, .variable x, by simp [evalTree], expandVariable_of_some hr⟩
  | none =>
    refine ⟨by simp [Option.map], ?_⟩
    intro _
    exact Or.inr ⟨x, env, _, by simp [evalTree], expandVariable_of_none hr⟩

theorem agree_cond (c t e : Spec.Expr) (ihc : Agree c) (iht : Agree t) (ihe : Agree e) :
    Agree (.cond c t e) := by
  intro env
  simp only [Spec.evalExact]
  cases hc : Spec.evalExact c env with
  | none =>
    refine ⟨by simp [Option.bind], fun _ => ?_⟩
    obtain ⟨err, he⟩ := ((ihc env).2 hc).read (fun _ env1 a => if a ≠ 0 then evalTree t env1 else evalTree e env1)
    exact Or.inl ⟨err, by rw [evalTree]; exact he⟩
  | some p =>
    obtain ⟨a, env1⟩ := p
    obtain ⟨_, ct, hct, hcv⟩ := (ihc env).1 a env1 hc
    have hev : evalTree (.cond c t e) env = if a ≠ 0 then evalTree t env1 else evalTree e env1 := by
      rw [evalTree, hct]; simp only [Res.bind, hcv]
    simp only [Option.bind]
    by_cases ha : a ≠ 0
    · rw [if_pos ha] at hev ⊢
      unfold Succeeds Fails
      rw [hev]
      exact iht env1
    · rw [if_neg ha] at hev ⊢
      unfold Succeeds Fails
      rw [hev]
      exact ihe env1

/-! #### operators that need an lvalue -/

theorem var_or_not (e : Spec.Expr) : (∃ x, e = .var x) ∨ (∀ x, e ≠ .var x) := by
  cases e <;> simp

theorem isLazy_false_of (e : Spec.Expr) (hv : ∀ x, e ≠ .var x) (hc : Spec.isCond e = false) :
    isLazy e = false := by
  cases e <;> simp_all [isLazy, Spec.isCond]

/-- a node that is neither a variable nor a conditional fails or yields a value term -/
theorem nonlazy_cases (e : Spec.Expr) (env : Env) (hl : isLazy e = false) :
    (∃ err, evalTree e env = .error err) ∨ (∃ v env1, evalTree e env = .ok (.value v, env1)) := by
  have hret := evalTree_returns e env
  cases h : evalTree e env with
  | ok p =>
    obtain ⟨t, env1⟩ := p
    obtain ⟨v, hv⟩ := evalTree_value_form e env hl t env1 h
    subst hv; exact Or.inr ⟨v, env1, rfl⟩
  | error err => exact Or.inl ⟨err, rfl⟩
  | panic => rw [h] at hret; exact hret.elim
  | fuel => rw [h] at hret; exact hret.elim

theorem checked_of_inRange {x : Int} (h : InRange x) : checked x = some x := by
  unfold checked; rw [if_pos h]

theorem evalExact_pre_incdec_var (op : PrefixOperator) (x : Name) (env : Env)
    (hop : op = .Increment ∨ op = .Decrement) :
    Spec.evalExact (.pre op (.var x)) env =
      (Spec.readVar env x).bind fun v =>
        (Spec.represent (if op = .Increment then v + 1 else v - 1)).map fun nv => (nv, Spec.writeVar env x nv) := by
  rcases hop with rfl | rfl <;> simp [Spec.evalExact]

theorem evalExact_pre_incdec_nonvar (op : PrefixOperator) (e : Spec.Expr) (env : Env)
    (hop : op = .Increment ∨ op = .Decrement) (hne : ∀ x, e ≠ .var x) :
    Spec.evalExact (.pre op e) env = none := by
  rcases hop with rfl | rfl <;> cases e <;> simp_all [Spec.evalExact]

theorem evalExact_post_var (op : PostfixOperator) (x : Name) (env : Env) :
    Spec.evalExact (.post op (.var x)) env =
      (Spec.readVar env x).bind fun v =>
        (Spec.represent (if op = .Increment then v + 1 else v - 1)).map fun nv => (v, Spec.writeVar env x nv) := by
  simp [Spec.evalExact]

theorem evalExact_post_nonvar (op : PostfixOperator) (e : Spec.Expr) (env : Env) (hne : ∀ x, e ≠ .var x) :
    Spec.evalExact (.post op e) env = none := by
  cases e <;> simp_all [Spec.evalExact]

theorem agree_pre_incdec_var (op : PrefixOperator) (hop : op = .Increment ∨ op = .Decrement) (x : Name) :
    Agree (.pre op (.var x)) := by
  intro env
  rw [evalExact_pre_incdec_var op x env hop]
  have hev : evalTree (.pre op (.var x)) env = valueTerm (applyPrefix (.variable x) op env) := by
    simp [evalTree, Res.bind]
  cases hr : Spec.readVar env x with
  | none =>
    refine ⟨by simp [Option.bind], fun _ => Or.inl ⟨.invalidVariableValue, ?_⟩⟩
    rw [hev]
    rcases hop with rfl | rfl <;>
      simp [applyPrefix, requireVariable, expandVariable_of_none hr, Res.bind, valueTerm]
  | some v =>
    have hx := expandVariable_of_some hr
    simp only [Option.bind]
    cases hn : Spec.represent (if op = .Increment then v + 1 else v - 1) with
    | none =>
      refine ⟨by simp [Option.map], fun _ => Or.inl ⟨.overflow, ?_⟩⟩
      rw [hev]
      rcases hop with rfl | rfl
      · simp only [if_true] at hn
        simp [applyPrefix, requireVariable, hx, Res.bind, valueTerm, represent_eq_none hn, Res.ofOption]
      · simp only [reduceCtorEq, if_false] at hn
        simp [applyPrefix, requireVariable, hx, Res.bind, valueTerm, represent_eq_none hn, Res.ofOption]
    | some w =>
      obtain ⟨hw, hin⟩ := represent_eq_some hn
      refine ⟨?_, by simp [Option.map]⟩
      intro v' env' he
      simp only [Option.map, Option.some.injEq, Prod.mk.injEq] at he
      obtain ⟨rfl, rfl⟩ := he
      refine ⟨hin, .value w, ?_, rfl⟩
      rw [hev, writeVar_eq]
      rcases hop with rfl | rfl
      · simp only [if_true] at hw
        subst hw
        simp [applyPrefix, requireVariable, hx, Res.bind, valueTerm, checked_of_inRange hin, Res.ofOption, assign]
      · simp only [reduceCtorEq, if_false] at hw
        subst hw
        simp [applyPrefix, requireVariable, hx, Res.bind, valueTerm, checked_of_inRange hin, Res.ofOption, assign]

theorem agree_pre_incdec_nonvar (op : PrefixOperator) (hop : op = .Increment ∨ op = .Decrement)
    (e : Spec.Expr) (hne : ∀ x, e ≠ .var x) (hc : Spec.isCond e = false) : Agree (.pre op e) := by
  intro env
  rw [evalExact_pre_incdec_nonvar op e env hop hne]
  refine ⟨by simp, fun _ => Or.inl ?_⟩
  rcases nonlazy_cases e env (isLazy_false_of e hne hc) with ⟨err, he⟩ | ⟨v, env1, he⟩
  · exact ⟨err, by rw [evalTree, he]; rfl⟩
  · refine ⟨.assignmentToValue, ?_⟩
    rw [evalTree, he]
    rcases hop with rfl | rfl <;> simp [Res.bind, applyPrefix, requireVariable, valueTerm]

theorem agree_post_var (op : PostfixOperator) (x : Name) : Agree (.post op (.var x)) := by
  intro env
  rw [evalExact_post_var op x env]
  have hev : evalTree (.post op (.var x)) env = valueTerm (applyPostfix (.variable x) op env) := by
    simp [evalTree, Res.bind]
  cases hr : Spec.readVar env x with
  | none =>
    refine ⟨by simp [Option.bind], fun _ => Or.inl ⟨.invalidVariableValue, ?_⟩⟩
    rw [hev]
    simp [applyPostfix, requireVariable, expandVariable_of_none hr, Res.bind, valueTerm]
  | some v =>
    have hx := expandVariable_of_some hr
    have hvr := readVar_inRange hr
    simp only [Option.bind]
    cases hn : Spec.represent (if op = .Increment then v + 1 else v - 1) with
    | none =>
      refine ⟨by simp [Option.map], fun _ => Or.inl ⟨.overflow, ?_⟩⟩
      rw [hev]
      cases op
      · simp only [if_true] at hn
        simp [applyPostfix, requireVariable, hx, Res.bind, valueTerm, represent_eq_none hn, Res.ofOption]
      · simp only [reduceCtorEq, if_false] at hn
        simp [applyPostfix, requireVariable, hx, Res.bind, valueTerm, represent_eq_none hn, Res.ofOption]
    | some w =>
      obtain ⟨hw, hin⟩ := represent_eq_some hn
      refine ⟨?_, by simp [Option.map]⟩
      intro v' env' he
      simp only [Option.map, Option.some.injEq, Prod.mk.injEq] at he
      obtain ⟨rfl, rfl⟩ := he
      refine ⟨hvr, .value v, ?_, rfl⟩
      rw [hev, writeVar_eq]
      cases op
      · simp only [if_true] at hw
        subst hw
        simp [applyPostfix, requireVariable, hx, Res.bind, valueTerm, checked_of_inRange hin, Res.ofOption, assign]
      · simp only [reduceCtorEq, if_false] at hw
        subst hw
        simp [applyPostfix, requireVariable, hx, Res.bind, valueTerm, checked_of_inRange hin, Res.ofOption, assign]

theorem agree_post_nonvar (op : PostfixOperator) (e : Spec.Expr) (hne : ∀ x, e ≠ .var x)
    (hc : Spec.isCond e = false) : Agree (.post op e) := by
  intro env
  rw [evalExact_post_nonvar op e env hne]
  refine ⟨by simp, fun _ => Or.inl ?_⟩
  rcases nonlazy_cases e env (isLazy_false_of e hne hc) with ⟨err, he⟩ | ⟨v, env1, he⟩
  · exact ⟨err, by rw [evalTree, he]; rfl⟩
  · refine ⟨.assignmentToValue, ?_⟩
    rw [evalTree, he]
    simp [Res.bind, applyPostfix, requireVariable, valueTerm]

/-! #### prefix operators on values -/

/-- the Model's tree evaluation of a value-reading prefix operator, when the operand succeeds -/
theorem evalTree_pre_of_succeeds {e : Spec.Expr} {env env' : Env} {v : Int} {op : PrefixOperator}
    (h : Succeeds e env v env') :
    ∃ t, intoValue t env' = .ok v ∧ evalTree (.pre op e) env = valueTerm (applyPrefix t op env') := by
  obtain ⟨_, t, ht, hv⟩ := h
  exact ⟨t, hv, by rw [evalTree, ht]; rfl⟩

theorem agree_pre_value (op : PrefixOperator) (e : Spec.Expr) (ih : Agree e)
    (hop : op ≠ .Increment ∧ op ≠ .Decrement) : Agree (.pre op e) := by
  intro env
  cases hc : Spec.evalExact e env with
  | none =>
    have hn : Spec.evalExact (.pre op e) env = none := by
      cases op <;> simp_all [Spec.evalExact, Option.bind, Option.map]
    rw [hn]
    refine ⟨by simp, fun _ => ?_⟩
    rcases (ih env).2 hc with ⟨err, he⟩ | ⟨x, env1, err, he, hv⟩
    · exact Or.inl ⟨err, by rw [evalTree, he]; rfl⟩
    · refine Or.inl ⟨err, ?_⟩
      rw [evalTree, he]
      cases op <;> simp_all [Res.bind, applyPrefix, valueTerm]
  | some p =>
    obtain ⟨v, env'⟩ := p
    have hs := (ih env).1 v env' hc
    have hvr := hs.1
    obtain ⟨t, hv, hev⟩ := evalTree_pre_of_succeeds (op := op) hs
    cases op with
    | Increment => exact absurd rfl hop.1
    | Decrement => exact absurd rfl hop.2
    | NumericCoercion =>
      simp only [Spec.evalExact, hc]
      refine ⟨?_, by simp⟩
      intro v' env'' he
      simp only [Option.some.injEq, Prod.mk.injEq] at he
      obtain ⟨rfl, rfl⟩ := he
      exact ⟨hvr, .value v, by rw [hev]; simp [applyPrefix, hv, Res.bind, valueTerm], rfl⟩
    | NumericNegation =>
      simp only [Spec.evalExact, hc, Option.bind]
      cases hn : Spec.represent (-v) with
      | none =>
        refine ⟨by simp [Option.map], fun _ => Or.inl ⟨.overflow, ?_⟩⟩
        rw [hev]; simp [applyPrefix, hv, Res.bind, valueTerm, represent_eq_none hn, Res.ofOption]
      | some w =>
        obtain ⟨hw, hin⟩ := represent_eq_some hn
        subst hw
        refine ⟨?_, by simp [Option.map]⟩
        intro v' env'' he
        simp only [Option.map, Option.some.injEq, Prod.mk.injEq] at he
        obtain ⟨rfl, rfl⟩ := he
        exact ⟨hin, .value (-v), by
          rw [hev]; simp [applyPrefix, hv, Res.bind, valueTerm, checked_of_inRange hin, Res.ofOption], rfl⟩
    | LogicalNegation =>
      simp only [Spec.evalExact, hc, Option.map]
      refine ⟨?_, by simp⟩
      intro v' env'' he
      simp only [Option.some.injEq, Prod.mk.injEq] at he
      obtain ⟨rfl, rfl⟩ := he
      refine ⟨truth_inRange' _, .value (Spec.truth (v = 0)), ?_, rfl⟩
      rw [hev]; simp only [applyPrefix, hv, Res.bind, valueTerm, Spec.truth]
    | BitwiseNegation =>
      simp only [Spec.evalExact, hc, Option.map]
      refine ⟨?_, by simp⟩
      intro v' env'' he
      simp only [Option.some.injEq, Prod.mk.injEq] at he
      obtain ⟨rfl, rfl⟩ := he
      refine ⟨by unfold InRange at *; omega, .value (-v - 1), ?_, rfl⟩
      rw [hev]; simp [applyPrefix, hv, Res.bind, valueTerm, bitNot_exact v hvr]

theorem agree_pre (op : PrefixOperator) (e : Spec.Expr) (hs : Spec.inScope (.pre op e) = true)
    (ih : Agree e) : Agree (.pre op e) := by
  by_cases hop : op = .Increment ∨ op = .Decrement
  · have hc : Spec.isCond e = false := by
      simp only [Spec.inScope, Bool.and_eq_true, Bool.not_eq_true', Bool.and_eq_false_iff,
        decide_eq_false_iff_not] at hs
      rcases hs.2 with h | h
      · exact absurd hop h
      · exact h
    rcases var_or_not e with ⟨x, rfl⟩ | hne
    · exact agree_pre_incdec_var op hop x
    · exact agree_pre_incdec_nonvar op hop e hne hc
  · exact agree_pre_value op e ih ⟨fun h => hop (Or.inl h), fun h => hop (Or.inr h)⟩

theorem agree_post (op : PostfixOperator) (e : Spec.Expr) (hs : Spec.inScope (.post op e) = true) :
    Agree (.post op e) := by
  have hc : Spec.isCond e = false := by
    simp only [Spec.inScope, Bool.and_eq_true, Bool.not_eq_true'] at hs
    exact hs.2
  rcases var_or_not e with ⟨x, rfl⟩ | hne
  · exact agree_post_var op x
  · exact agree_post_nonvar op e hne hc

end YashModel.Arith
