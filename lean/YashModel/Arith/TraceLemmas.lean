/-
  C03 — `evalF` (Trace.lean): its value part is `eval`, its environment part is the environment inside an `Ok`, and
  where it is when an operand or the operation fails (wave 3, third pass).
-/
import YashModel.Arith.Trace
import YashModel.Arith.ParseLemmas
namespace YashModel.Arith
open YashModel.Generated.ArithTables

theorem bindF_fst {α β : Type} (r : Res α × Env) (k : α → Res β × Env) :
    (bindF r k).1 = r.1.bind fun a => (k a).1 := by
  unfold bindF Res.bind
  cases r.1 <;> rfl

theorem atF_fst {α : Type} (env : Env) (r : Res α) : (atF env r).1 = r := rfl

theorem evalF_fst (f : Nat) : ∀ (ast : List Ast) (env : Env), (evalF f ast env).1 = eval f ast env := by
  induction f with
  | zero => intro ast env; rfl
  | succ f ih =>
    intro ast env
    rw [evalF, eval]
    cases splitLast ast with
    | none => rfl
    | some p =>
      obtain ⟨children, root⟩ := p
      cases root with
      | term t => rfl
      | pre op => simp only [bindF_fst, atF_fst, ih, valueTerm, doneF]
      | post op => simp only [bindF_fst, atF_fst, ih, valueTerm, doneF]
      | binary op rhsLen =>
        simp only
        cases splitAtEnd children rhsLen with
        | none => rfl
        | some q =>
          obtain ⟨l, r⟩ := q
          simp only
          split
          · simp only [bindF_fst, atF_fst, ih, doneF]
            congr; funext a; congr; funext l; split <;> simp only [bindF_fst, atF_fst, ih, doneF]
          · split
            · simp only [bindF_fst, atF_fst, ih, doneF]
              congr; funext a; congr; funext l; split <;> simp only [bindF_fst, atF_fst, ih, doneF]
            · simp only [bindF_fst, atF_fst, ih, valueTerm, doneF]
      | conditional thenLen elseLen =>
        simp only
        cases splitAtEnd children elseLen with
        | none => rfl
        | some q =>
          obtain ⟨c2, e⟩ := q
          simp only
          cases splitAtEnd c2 thenLen with
          | none => rfl
          | some q2 =>
            obtain ⟨c, t⟩ := q2
            simp only [bindF_fst, atF_fst, ih]
            congr; funext a; congr; funext cv; split <;> simp only [ih]


/-- a result whose environment component is the environment inside an `Ok` -/
def EnvOk (p : Res (Term × Env) × Env) : Prop := ∀ t env', p.1 = .ok (t, env') → p.2 = env'

theorem bindF_envOk {α : Type} (r : Res α × Env) (k : α → Res (Term × Env) × Env) (h : ∀ a, EnvOk (k a)) :
    EnvOk (bindF r k) := by
  intro t env' hok
  unfold bindF at hok ⊢
  cases hr : r.1 with
  | ok a => rw [hr] at hok; simp only at hok ⊢; exact h a t env' hok
  | error e => rw [hr] at hok; simp at hok
  | panic => rw [hr] at hok; simp at hok
  | fuel => rw [hr] at hok; simp at hok

theorem doneF_envOk (v : Int) (env : Env) : EnvOk (doneF v env) := by
  intro t env' h; simp only [doneF, Res.ok.injEq, Prod.mk.injEq] at h; exact h.2

theorem evalF_envOk (f : Nat) : ∀ (ast : List Ast) (env : Env), EnvOk (evalF f ast env) := by
  induction f with
  | zero => intro ast env t env' h; simp [evalF] at h
  | succ f ih =>
    intro ast env
    rw [evalF]
    cases splitLast ast with
    | none => intro t env' h; simp at h
    | some p =>
      obtain ⟨children, root⟩ := p
      cases root with
      | term t => intro t' env' h; simp only [Res.ok.injEq, Prod.mk.injEq] at h; exact h.2
      | pre op =>
        exact bindF_envOk _ _ fun a => bindF_envOk _ _ fun b => doneF_envOk _ _
      | post op =>
        exact bindF_envOk _ _ fun a => bindF_envOk _ _ fun b => doneF_envOk _ _
      | binary op rhsLen =>
        simp only
        cases splitAtEnd children rhsLen with
        | none => intro t env' h; simp at h
        | some q =>
          obtain ⟨l, r⟩ := q
          simp only
          split
          · refine bindF_envOk _ _ fun a => bindF_envOk _ _ fun b => ?_
            split
            · exact doneF_envOk _ _
            · exact bindF_envOk _ _ fun c => bindF_envOk _ _ fun d => bindF_envOk _ _ fun e => doneF_envOk _ _
          · split
            · refine bindF_envOk _ _ fun a => bindF_envOk _ _ fun b => ?_
              split
              · exact doneF_envOk _ _
              · exact bindF_envOk _ _ fun c => bindF_envOk _ _ fun d => bindF_envOk _ _ fun e => doneF_envOk _ _
            · exact bindF_envOk _ _ fun a => bindF_envOk _ _ fun b => bindF_envOk _ _ fun c => doneF_envOk _ _
      | conditional thenLen elseLen =>
        simp only
        cases splitAtEnd children elseLen with
        | none => intro t env' h; simp at h
        | some q =>
          obtain ⟨c2, e⟩ := q
          simp only
          cases splitAtEnd c2 thenLen with
          | none => intro t env' h; simp at h
          | some q2 =>
            obtain ⟨c, t⟩ := q2
            refine bindF_envOk _ _ fun a => bindF_envOk _ _ fun b => ?_
            split
            · exact ih _ _
            · exact ih _ _

/-- the right operand fails after the left one returned: the map at the failure is the one the right operand
    left behind, started from the map the LEFT operand left behind (its assignments are not rolled back) -/
theorem evalF_right_fails (f : Nat) (lhs rhs : List Ast) (op : BinaryOperator) (env env1 envE : Env) (lt : Term)
    (err : EvalErr) (h1 : op ≠ .LogicalOr) (h2 : op ≠ .LogicalAnd)
    (hl : (evalF f lhs env).1 = .ok (lt, env1)) (hr : evalF f rhs env1 = (.error err, envE)) :
    evalF (f + 1) (lhs ++ rhs ++ [.binary op rhs.length]) env = (.error err, envE) := by
  rw [evalF, splitLast_append]
  simp only [splitAtEnd_append, h1, h2, if_false]
  unfold bindF
  simp only [hl, hr]

/-- the operation itself fails (overflow, division by zero, shift, assignment to a value, unreadable operand):
    the map at the failure holds everything both operands assigned -/
theorem evalF_apply_fails (f : Nat) (lhs rhs : List Ast) (op : BinaryOperator) (env env1 env2 : Env) (lt rt : Term)
    (err : EvalErr) (h1 : op ≠ .LogicalOr) (h2 : op ≠ .LogicalAnd)
    (hl : (evalF f lhs env).1 = .ok (lt, env1)) (hr : (evalF f rhs env1).1 = .ok (rt, env2))
    (ha : applyBinary lt rt op env2 = .error err) :
    evalF (f + 1) (lhs ++ rhs ++ [.binary op rhs.length]) env = (.error err, env2) := by
  rw [evalF, splitLast_append]
  simp only [splitAtEnd_append, h1, h2, if_false]
  unfold bindF atF
  simp only [hl, hr, ha]

end YashModel.Arith
