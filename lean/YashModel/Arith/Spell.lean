/-
  C03 — from characters to tokens: the text "every token followed by one blank" of a token list is read
  back by the tokenizer as that list (`tokenize_spell`).  With `parse_render` and `model_computes_C_value`
  this closes the chain text → tokens → vector → value.
-/
import YashModel.Arith.Render
import YashModel.Arith.RoundTrip
import YashModel.Arith.SemMain
namespace YashModel.Arith
open YashModel.Generated.ArithTables

theorem checked_of_inRange' {x : Int} (h : InRange x) : checked x = some x := by
  unfold checked; rw [if_pos h]

/-- the lexeme of an operator token (inverse of the generated `OPERATORS`) -/
def lexemeOf (o : Operator) : List Char := ((operators.find? fun p => p.2 = o).map (·.1)).getD []

def spellTok : Tok → List Char
  | .op o => lexemeOf o
  | .term (.value v) => showInt v
  | .term (.variable x) => x
  | .err => []

/-- every token followed by one blank -/
def spell : List Tok → List Char
  | [] => []
  | t :: ts => spellTok t ++ ' ' :: spell ts

/-- tokens that have a spelling: non-negative i64 constants and identifiers -/
def TokOK : Tok → Prop
  | .op _ => True
  | .term (.value v) => 0 ≤ v ∧ InRange v
  | .term (.variable x) => x ≠ [] ∧ (∀ c ∈ x, isTermChar c = true) ∧ (∀ c, x.head? = some c → isAsciiDigit c = false)
  | .err => False

theorem tokenize_blank (f : Nat) (s : List Char) : tokenize (f + 1) (' ' :: s) = tokenize (f + 1) s := by
  simp only [tokenize, nextToken]
  have : List.dropWhile isWhitespace (' ' :: s) = List.dropWhile isWhitespace s := by
    simp [List.dropWhile, show isWhitespace ' ' = true by decide]
  rw [this]

/-- the tokenizer at an operator lexeme followed by a blank -/
theorem nextToken_op (o : Operator) (rest : List Char) :
    nextToken (lexemeOf o ++ ' ' :: rest) = some (.op o, ' ' :: rest) := by
  cases o <;>
    simp [nextToken, lexemeOf, operators, findOp, List.find?, List.isPrefixOf, List.dropWhile, isWhitespace]

theorem operators_head_not_term :
    operators.all (fun p => match p.1.head? with | some c => !isTermChar c | none => false) = true := by
  decide

/-- no operator lexeme starts with a character of a term -/
theorem findOp_term (c : Char) (rest : List Char) (hc : isTermChar c = true) : findOp (c :: rest) = none := by
  unfold findOp
  rw [List.find?_eq_none]
  intro p hp
  have := List.all_eq_true.mp operators_head_not_term p hp
  cases hl : p.1 with
  | nil => simp [hl] at this
  | cons a t =>
    simp only [hl, List.head?_cons, Bool.not_eq_true'] at this
    simp only [List.isPrefixOf, Bool.and_eq_true, beq_iff_eq, not_and]
    intro e; subst e; rw [hc] at this; exact absurd this (by decide)

theorem takeWhile_term (x rest : List Char) (hx : ∀ c ∈ x, isTermChar c = true) :
    (x ++ ' ' :: rest).takeWhile isTermChar = x ∧ (x ++ ' ' :: rest).dropWhile isTermChar = ' ' :: rest := by
  induction x with
  | nil => simp [List.takeWhile, List.dropWhile, show isTermChar ' ' = false by decide]
  | cons a t ih =>
    have ha := hx a (by simp)
    have := ih (fun c hc => hx c (by simp [hc]))
    simp [List.takeWhile, List.dropWhile, ha, this.1, this.2]

theorem not_whitespace_of_term (c : Char) (hc : isTermChar c = true) : isWhitespace c = false := by
  unfold isTermChar isAsciiAlnum isAsciiDigit at hc
  unfold isWhitespace
  simp only [Bool.or_eq_true, Bool.and_eq_true, decide_eq_true_eq, beq_iff_eq] at hc
  have h95 : c = '_' → c.toNat = 95 := by intro e; subst e; decide
  have : c.toNat = 95 ∨ (48 ≤ c.toNat ∧ c.toNat ≤ 57) ∨ (65 ≤ c.toNat ∧ c.toNat ≤ 90) ∨ (97 ≤ c.toNat ∧ c.toNat ≤ 122) := by
    rcases hc with ((h | h) | h) | h
    · exact Or.inr (Or.inl h)
    · exact Or.inr (Or.inr (Or.inl h))
    · exact Or.inr (Or.inr (Or.inr h))
    · exact Or.inl (h95 h)
  simp only [Bool.or_eq_false_iff, Bool.and_eq_false_iff, decide_eq_false_iff_not, beq_eq_false_iff_ne, ne_eq]
  omega

/-- the tokenizer at a constant followed by a blank -/
theorem nextToken_const (x rest : List Char) (c : Char) (t : List Char) (hx : x = c :: t)
    (hterm : ∀ ch ∈ x, isTermChar ch = true) (hd : isAsciiDigit c = true) (i : Int)
    (hp : parseConstant x = some i) :
    nextToken (x ++ ' ' :: rest) = some (.term (.value i), ' ' :: rest) := by
  subst hx
  have hc := hterm c (by simp)
  have hw := not_whitespace_of_term c hc
  obtain ⟨htk, hdr⟩ := takeWhile_term (c :: t) rest hterm
  simp only [List.cons_append] at htk hdr
  simp only [nextToken, List.cons_append, List.dropWhile, hw, List.head?_cons, findOp_term c _ hc, htk, hdr,
    List.isEmpty_cons, Bool.false_eq_true, if_false, hd, if_true, hp]

/-- the tokenizer at an identifier followed by a blank -/
theorem nextToken_name (x rest : List Char) (c : Char) (t : List Char) (hx : x = c :: t)
    (hterm : ∀ ch ∈ x, isTermChar ch = true) (hd : isAsciiDigit c = false) :
    nextToken (x ++ ' ' :: rest) = some (.term (.variable x), ' ' :: rest) := by
  subst hx
  have hc := hterm c (by simp)
  have hw := not_whitespace_of_term c hc
  obtain ⟨htk, hdr⟩ := takeWhile_term (c :: t) rest hterm
  simp only [List.cons_append] at htk hdr
  simp only [nextToken, List.cons_append, List.dropWhile, hw, List.head?_cons, findOp_term c _ hc, htk, hdr,
    List.isEmpty_cons, Bool.false_eq_true, if_false, hd]

/-- a decimal numeral is a constant of the tokenizer with its value -/
theorem parseConstant_digits (n : Nat) (hn : InRange (n : Int)) :
    parseConstant (natDigits (n + 1) n) = some (n : Int) := by
  obtain ⟨hne, hdec, hval, hhead⟩ := natDigits_facts (n + 1) n (Nat.lt_succ_self _)
  generalize natDigits (n + 1) n = l at *
  cases l with
  | nil => exact absurd rfl hne
  | cons a t =>
    have ha := hdec a (by simp)
    have hnat : parseNat 10 (a :: t) = some n := by
      rw [parseNat_eq 10 (by omega), digitsValue_of_dec _ hne hdec, hval]
    have hsX : stripPrefix ['0', 'X'] (a :: t) = none := by
      unfold stripPrefix
      cases t with
      | nil => simp [List.isPrefixOf]
      | cons b u =>
        have hb := hdec b (by simp)
        simp [List.isPrefixOf] <;> (intro _ h; exact hb.2.2.1 h.symm)
    have hsx : stripPrefix ['0', 'x'] (a :: t) = none := by
      unfold stripPrefix
      cases t with
      | nil => simp [List.isPrefixOf]
      | cons b u =>
        have hb := hdec b (by simp)
        simp [List.isPrefixOf] <;> (intro _ h; exact hb.2.1 h.symm)
    unfold parseConstant
    simp only [hsX, hsx]
    by_cases h0 : a = '0'
    · subst h0
      obtain ⟨hl, hz⟩ := hhead (by simp)
      injection hl with _ ht
      subst ht; subst hz
      decide
    · simp only [List.head?_cons, Option.some.injEq, h0, if_false]
      unfold fromStrRadix
      simp only [List.head?_cons, Option.some.injEq, ha.2.2.2.1, ha.2.2.2.2, if_false, hnat]
      exact checked_of_inRange' hn

theorem digit_of_digitOf (c : Char) (h : Spec.digitOf c < 10) : isAsciiDigit c = true := by
  unfold Spec.digitOf at h
  unfold isAsciiDigit
  simp only [Char.le_def, UInt32.le_iff_toNat_le] at h
  have h0 : ('0' : Char).val.toNat = 48 := by decide
  have h9 : ('9' : Char).val.toNat = 57 := by decide
  simp only [h0, h9] at h
  by_cases h1 : 48 ≤ c.val.toNat ∧ c.val.toNat ≤ 57
  · simp only [Bool.and_eq_true, decide_eq_true_eq]; exact h1
  · simp only [h1, if_false] at h
    split at h
    · omega
    · split at h <;> omega

theorem term_of_digit (c : Char) (h : isAsciiDigit c = true) : isTermChar c = true := by
  simp [isTermChar, isAsciiAlnum, h]

theorem nextToken_value (v : Int) (h0 : 0 ≤ v) (hv : InRange v) (rest : List Char) :
    nextToken (showInt v ++ ' ' :: rest) = some (.term (.value v), ' ' :: rest) := by
  have hneg : ¬ v < 0 := by omega
  unfold showInt
  simp only [hneg, if_false]
  obtain ⟨hne, hdec, _, _⟩ := natDigits_facts (v.toNat + 1) v.toNat (Nat.lt_succ_self _)
  have hvn : ((v.toNat : Nat) : Int) = v := by omega
  have hpc := parseConstant_digits v.toNat (by rw [hvn]; exact hv)
  rw [hvn] at hpc
  cases hl : natDigits (v.toNat + 1) v.toNat with
  | nil => exact absurd hl hne
  | cons c t =>
    rw [hl] at hdec hpc
    have hdig : ∀ ch ∈ c :: t, isAsciiDigit ch = true := fun ch hch => digit_of_digitOf ch (hdec ch hch).1
    exact nextToken_const (c :: t) rest c t rfl (fun ch hch => term_of_digit ch (hdig ch hch))
      (hdig c (by simp)) v hpc

/-- ☆ the tokenizer reads the spelling of a token list back as that list -/
theorem tokenize_spell (toks : List Tok) (hok : ∀ t ∈ toks, TokOK t) :
    ∀ f, (spell toks).length < f → tokenize f (spell toks) = toks := by
  induction toks with
  | nil =>
    intro f hf
    cases f with
    | zero => omega
    | succ f => simp [spell, tokenize, nextToken]
  | cons t ts ih =>
    intro f hf
    have iht := ih (fun t' ht' => hok t' (by simp [ht']))
    simp only [spell, List.length_append, List.length_cons] at hf
    cases f with
    | zero => omega
    | succ g =>
      cases g with
      | zero => omega
      | succ g' =>
        have hnext : nextToken (spellTok t ++ ' ' :: spell ts) = some (t, ' ' :: spell ts) ∧ t ≠ .err := by
          have htok := hok t (by simp)
          cases t with
          | op o => exact ⟨nextToken_op o _, by simp⟩
          | err => exact absurd htok (by simp [TokOK])
          | term tm =>
            cases tm with
            | value v =>
              simp only [TokOK] at htok
              exact ⟨nextToken_value v htok.1 htok.2 _, by simp⟩
            | «variable» x =>
              simp only [TokOK] at htok
              obtain ⟨hne, hterm, hhead⟩ := htok
              cases x with
              | nil => exact absurd rfl hne
              | cons c u =>
                exact ⟨nextToken_name (c :: u) _ c u rfl hterm (hhead c rfl), by simp⟩
        obtain ⟨hn, hne⟩ := hnext
        have hstep : tokenize (g' + 1 + 1) (spellTok t ++ ' ' :: spell ts)
            = t :: tokenize (g' + 1) (' ' :: spell ts) := by
          rw [tokenize, hn]
          cases t with
          | err => exact absurd rfl hne
          | op o => rfl
          | term tm => rfl
        simp only [spell]
        rw [hstep, tokenize_blank, iht (g' + 1) (by omega)]

/-- trees whose leaves have a spelling: non-negative i64 constants, identifiers -/
def leavesOK : Spec.Expr → Prop
  | .num v => 0 ≤ v ∧ InRange v
  | .var x => x ≠ [] ∧ (∀ c ∈ x, isTermChar c = true) ∧ (∀ c, x.head? = some c → isAsciiDigit c = false)
  | .pre _ e => leavesOK e
  | .post _ e => leavesOK e
  | .bin _ l r => leavesOK l ∧ leavesOK r
  | .cond c t e => leavesOK c ∧ leavesOK t ∧ leavesOK e

theorem tokOK_paren (p : Bool) (ts : List Tok) (h : ∀ t ∈ ts, TokOK t) : ∀ t ∈ paren p ts, TokOK t := by
  intro t ht
  unfold paren at ht
  split at ht
  · simp only [List.cons_append, List.nil_append, List.mem_cons, List.mem_append, List.mem_nil_iff, or_false] at ht
    rcases ht with rfl | ht | rfl
    · trivial
    · exact h t ht
    · trivial
  · exact h t ht

theorem tokOK_render (e : Spec.Expr) (h : leavesOK e) : ∀ t ∈ render e, TokOK t := by
  induction e with
  | num v => intro t ht; simp only [render, List.mem_singleton] at ht; subst ht; exact h
  | var x => intro t ht; simp only [render, List.mem_singleton] at ht; subst ht; exact h
  | pre op e ih =>
    intro t ht
    simp only [render, List.mem_cons] at ht
    rcases ht with rfl | ht
    · trivial
    · exact tokOK_paren _ _ (ih h) t ht
  | post op e ih =>
    intro t ht
    simp only [render, List.mem_append, List.mem_singleton] at ht
    rcases ht with ht | rfl
    · exact tokOK_paren _ _ (ih h) t ht
    · trivial
  | bin b l r ihl ihr =>
    intro t ht
    simp only [render] at ht
    split at ht
    · simp only [List.mem_append, List.mem_singleton] at ht
      rcases ht with (ht | rfl) | ht
      · exact tokOK_paren _ _ (ihl h.1) t ht
      · trivial
      · exact tokOK_paren _ _ (ihr h.2) t ht
    · simp only [List.mem_append, List.mem_singleton] at ht
      rcases ht with (ht | rfl) | ht
      · exact tokOK_paren _ _ (ihl h.1) t ht
      · trivial
      · exact ihr h.2 t ht
  | cond c t' e ihc iht ihe =>
    intro t ht
    simp only [render, List.mem_append, List.mem_singleton] at ht
    rcases ht with (((ht | rfl) | ht) | rfl) | ht
    · exact tokOK_paren _ _ (ihc h.1) t ht
    · trivial
    · exact iht h.2.1 t ht
    · trivial
    · exact tokOK_paren _ _ (ihe h.2.2) t ht

theorem litsInRange_of_leavesOK (e : Spec.Expr) (h : leavesOK e) : litsInRange e := by
  induction e with
  | num v => exact h.2
  | var x => trivial
  | pre op e ih => exact ih h
  | post op e ih => exact ih h
  | bin b l r ihl ihr => exact ⟨ihl h.1, ihr h.2⟩
  | cond c t e ihc iht ihe => exact ⟨ihc h.1, iht h.2.1, ihe h.2.2⟩

/-- the text of a tree (minimal parentheses, every token followed by a blank) parses to its vector -/
theorem parse_spell_render (e : Spec.Expr) (h : leavesOK e) : parse (spell (render e)) = .ok (rpn e) := by
  unfold parse
  simp only [tokenize_spell (render e) (tokOK_render e h) _ (Nat.lt_succ_self _)]
  exact parseToks_render e _ (Nat.le_refl _)

/-- from the characters to the value -/
theorem evalStr_spell_render (e : Spec.Expr) (env : Env) (hs : Spec.inScope e = true) (h : leavesOK e) :
    match Spec.evalExact e env with
    | some (v, env') => evalStr (spell (render e)) env = .value v env'
    | none => ∃ err, evalStr (spell (render e)) env = .evalError err := by
  unfold evalStr
  rw [parse_spell_render e h]
  have := evalValue_rpn e env hs (litsInRange_of_leavesOK e h)
  cases hc : Spec.evalExact e env with
  | none =>
    rw [hc] at this
    obtain ⟨err, he⟩ := this
    exact ⟨err, by simp [he, Outcome.ofRes]⟩
  | some p =>
    obtain ⟨v, env'⟩ := p
    rw [hc] at this
    simp only at this ⊢
    simp [this, Outcome.ofRes]

end YashModel.Arith
