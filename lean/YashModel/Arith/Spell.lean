/-
  C03 — from characters to tokens: the text "every token followed by one blank" of a token list is read
  back by the tokenizer as that list (`tokenize_spell`).  With `parse_render` and `model_computes_C_value`
  this closes the chain text → tokens → vector → value.
-/
import YashModel.Arith.Render
import YashModel.Arith.RenderD
import YashModel.Arith.RoundTrip
import YashModel.Arith.SemMain
namespace YashModel.Arith
open YashModel.Generated.ArithTables

theorem checked_of_inRange' {x : Int} (h : InRange x) : checked x = some x := by
  unfold checked; rw [if_pos h]

/-- the lexeme of an operator token (inverse of the generated `OPERATORS`) -/
def lexemeOf (o : Operator) : List Char := ((operators.find? fun p => p.2 = o).map (·.1)).getD []

def spellTok : Tok → List Char
  | .op o => lexemeOf o
  | .term (.value v) => showInt v
  | .term (.variable x) => x
  | .err => []

/-- every token followed by one blank -/
def spell : List Tok → List Char
  | [] => []
  | t :: ts => spellTok t ++ ' ' :: spell ts

/-- tokens that have a spelling: non-negative i64 constants and identifiers -/
def TokOK : Tok → Prop
  | .op _ => True
  | .term (.value v) => 0 ≤ v ∧ InRange v
  | .term (.variable x) => x ≠ [] ∧ (∀ c ∈ x, isTermChar c = true) ∧ (∀ c, x.head? = some c → isAsciiDigit c = false)
  | .err => False

theorem tokenize_blank (f : Nat) (s : List Char) : tokenize (f + 1) (' ' :: s) = tokenize (f + 1) s := by
  simp only [tokenize, nextToken]
  have : List.dropWhile isWhitespace (' ' :: s) = List.dropWhile isWhitespace s := by
    simp [List.dropWhile, show isWhitespace ' ' = true by decide]
  rw [this]

/-- the tokenizer at an operator lexeme followed by a blank -/
theorem nextToken_op (o : Operator) (rest : List Char) :
    nextToken (lexemeOf o ++ ' ' :: rest) = some (.op o, ' ' :: rest) := by
  cases o <;>
    simp [nextToken, lexemeOf, operators, findOp, List.find?, List.isPrefixOf, List.dropWhile, isWhitespace]

theorem operators_head_not_term :
    operators.all (fun p => match p.1.head? with | some c => !isTermChar c | none => false) = true := by
  decide

/-- no operator lexeme starts with a character of a term -/
theorem findOp_term (c : Char) (rest : List Char) (hc : isTermChar c = true) : findOp (c :: rest) = none := by
  unfold findOp
  rw [List.find?_eq_none]
  intro p hp
  have := List.all_eq_true.mp operators_head_not_term p hp
  cases hl : p.1 with
  | nil => simp [hl] at this
  | cons a t =>
    simp only [hl, List.head?_cons, Bool.not_eq_true'] at this
    simp only [List.isPrefixOf, Bool.and_eq_true, beq_iff_eq, not_and]
    intro e; subst e; rw [hc] at this; exact absurd this (by decide)

theorem takeWhile_term (x rest : List Char) (hx : ∀ c ∈ x, isTermChar c = true) :
    (x ++ ' ' :: rest).takeWhile isTermChar = x ∧ (x ++ ' ' :: rest).dropWhile isTermChar = ' ' :: rest := by
  induction x with
  | nil => simp [List.takeWhile, List.dropWhile, show isTermChar ' ' = false by decide]
  | cons a t ih =>
    have ha := hx a (by simp)
    have := ih (fun c hc => hx c (by simp [hc]))
    simp [List.takeWhile, List.dropWhile, ha, this.1, this.2]

theorem not_whitespace_of_term (c : Char) (hc : isTermChar c = true) : isWhitespace c = false := by
  unfold isTermChar isAsciiAlnum isAsciiDigit at hc
  unfold isWhitespace
  simp only [Bool.or_eq_true, Bool.and_eq_true, decide_eq_true_eq, beq_iff_eq] at hc
  have h95 : c = '_' → c.toNat = 95 := by intro e; subst e; decide
  have : c.toNat = 95 ∨ (48 ≤ c.toNat ∧ c.toNat ≤ 57) ∨ (65 ≤ c.toNat ∧ c.toNat ≤ 90) ∨ (97 ≤ c.toNat ∧ c.toNat ≤ 122) := by
    rcases hc with ((h | h) | h) | h
    · exact Or.inr (Or.inl h)
    · exact Or.inr (Or.inr (Or.inl h))
    · exact Or.inr (Or.inr (Or.inr h))
    · exact Or.inl (h95 h)
  simp only [Bool.or_eq_false_iff, Bool.and_eq_false_iff, decide_eq_false_iff_not, beq_eq_false_iff_ne, ne_eq]
  omega

/-- the tokenizer at a constant followed by a blank -/
theorem nextToken_const (x rest : List Char) (c : Char) (t : List Char) (hx : x = c :: t)
    (hterm : ∀ ch ∈ x, isTermChar ch = true) (hd : isAsciiDigit c = true) (i : Int)
    (hp : parseConstant x = some i) :
    nextToken (x ++ ' ' :: rest) = some (.term (.value i), ' ' :: rest) := by
  subst hx
  have hc := hterm c (by simp)
  have hw := not_whitespace_of_term c hc
  obtain ⟨htk, hdr⟩ := takeWhile_term (c :: t) rest hterm
  simp only [List.cons_append] at htk hdr
  simp only [nextToken, List.cons_append, List.dropWhile, hw, List.head?_cons, findOp_term c _ hc, htk, hdr,
    List.isEmpty_cons, Bool.false_eq_true, if_false, hd, if_true, hp]

/-- the tokenizer at an identifier followed by a blank -/
theorem nextToken_name (x rest : List Char) (c : Char) (t : List Char) (hx : x = c :: t)
    (hterm : ∀ ch ∈ x, isTermChar ch = true) (hd : isAsciiDigit c = false) :
    nextToken (x ++ ' ' :: rest) = some (.term (.variable x), ' ' :: rest) := by
  subst hx
  have hc := hterm c (by simp)
  have hw := not_whitespace_of_term c hc
  obtain ⟨htk, hdr⟩ := takeWhile_term (c :: t) rest hterm
  simp only [List.cons_append] at htk hdr
  simp only [nextToken, List.cons_append, List.dropWhile, hw, List.head?_cons, findOp_term c _ hc, htk, hdr,
    List.isEmpty_cons, Bool.false_eq_true, if_false, hd]

/-- a decimal numeral is a constant of the tokenizer with its value -/
theorem parseConstant_digits (n : Nat) (hn : InRange (n : Int)) :
    parseConstant (natDigits (n + 1) n) = some (n : Int) := by
  obtain ⟨hne, hdec, hval, hhead⟩ := natDigits_facts (n + 1) n (Nat.lt_succ_self _)
  generalize natDigits (n + 1) n = l at *
  cases l with
  | nil => exact absurd rfl hne
  | cons a t =>
    have ha := hdec a (by simp)
    have hnat : parseNat 10 (a :: t) = some n := by
      rw [parseNat_eq 10 (by omega), digitsValue_of_dec _ hne hdec, hval]
    have hsX : stripPrefix ['0', 'X'] (a :: t) = none := by
      unfold stripPrefix
      cases t with
      | nil => simp [List.isPrefixOf]
      | cons b u =>
        have hb := hdec b (by simp)
        simp [List.isPrefixOf] <;> (intro _ h; exact hb.2.2.1 h.symm)
    have hsx : stripPrefix ['0', 'x'] (a :: t) = none := by
      unfold stripPrefix
      cases t with
      | nil => simp [List.isPrefixOf]
      | cons b u =>
        have hb := hdec b (by simp)
        simp [List.isPrefixOf] <;> (intro _ h; exact hb.2.1 h.symm)
    unfold parseConstant
    simp only [hsX, hsx]
    by_cases h0 : a = '0'
    · subst h0
      obtain ⟨hl, hz⟩ := hhead (by simp)
      injection hl with _ ht
      subst ht; subst hz
      decide
    · simp only [List.head?_cons, Option.some.injEq, h0, if_false]
      unfold fromStrRadix
      simp only [List.head?_cons, Option.some.injEq, ha.2.2.2.1, ha.2.2.2.2, if_false, hnat]
      exact checked_of_inRange' hn

theorem digit_of_digitOf (c : Char) (h : Spec.digitOf c < 10) : isAsciiDigit c = true := by
  unfold Spec.digitOf at h
  unfold isAsciiDigit
  simp only [Char.le_def, UInt32.le_iff_toNat_le] at h
  have h0 : ('0' : Char).val.toNat = 48 := by decide
  have h9 : ('9' : Char).val.toNat = 57 := by decide
  simp only [h0, h9] at h
  by_cases h1 : 48 ≤ c.val.toNat ∧ c.val.toNat ≤ 57
  · simp only [Bool.and_eq_true, decide_eq_true_eq]; exact h1
  · simp only [h1, if_false] at h
    split at h
    · omega
    · split at h <;> omega

theorem term_of_digit (c : Char) (h : isAsciiDigit c = true) : isTermChar c = true := by
  simp [isTermChar, isAsciiAlnum, h]

theorem nextToken_value (v : Int) (h0 : 0 ≤ v) (hv : InRange v) (rest : List Char) :
    nextToken (showInt v ++ ' ' :: rest) = some (.term (.value v), ' ' :: rest) := by
  have hneg : ¬ v < 0 := by omega
  unfold showInt
  simp only [hneg, if_false]
  obtain ⟨hne, hdec, _, _⟩ := natDigits_facts (v.toNat + 1) v.toNat (Nat.lt_succ_self _)
  have hvn : ((v.toNat : Nat) : Int) = v := by omega
  have hpc := parseConstant_digits v.toNat (by rw [hvn]; exact hv)
  rw [hvn] at hpc
  cases hl : natDigits (v.toNat + 1) v.toNat with
  | nil => exact absurd hl hne
  | cons c t =>
    rw [hl] at hdec hpc
    have hdig : ∀ ch ∈ c :: t, isAsciiDigit ch = true := fun ch hch => digit_of_digitOf ch (hdec ch hch).1
    exact nextToken_const (c :: t) rest c t rfl (fun ch hch => term_of_digit ch (hdig ch hch))
      (hdig c (by simp)) v hpc

/-- ☆ the tokenizer reads the spelling of a token list back as that list -/
theorem tokenize_spell (toks : List Tok) (hok : ∀ t ∈ toks, TokOK t) :
    ∀ f, (spell toks).length < f → tokenize f (spell toks) = toks := by
  induction toks with
  | nil =>
    intro f hf
    cases f with
    | zero => omega
    | succ f => simp [spell, tokenize, nextToken]
  | cons t ts ih =>
    intro f hf
    have iht := ih (fun t' ht' => hok t' (by simp [ht']))
    simp only [spell, List.length_append, List.length_cons] at hf
    cases f with
    | zero => omega
    | succ g =>
      cases g with
      | zero => omega
      | succ g' =>
        have hnext : nextToken (spellTok t ++ ' ' :: spell ts) = some (t, ' ' :: spell ts) ∧ t ≠ .err := by
          have htok := hok t (by simp)
          cases t with
          | op o => exact ⟨nextToken_op o _, by simp⟩
          | err => exact absurd htok (by simp [TokOK])
          | term tm =>
            cases tm with
            | value v =>
              simp only [TokOK] at htok
              exact ⟨nextToken_value v htok.1 htok.2 _, by simp⟩
            | «variable» x =>
              simp only [TokOK] at htok
              obtain ⟨hne, hterm, hhead⟩ := htok
              cases x with
              | nil => exact absurd rfl hne
              | cons c u =>
                exact ⟨nextToken_name (c :: u) _ c u rfl hterm (hhead c rfl), by simp⟩
        obtain ⟨hn, hne⟩ := hnext
        have hstep : tokenize (g' + 1 + 1) (spellTok t ++ ' ' :: spell ts)
            = t :: tokenize (g' + 1) (' ' :: spell ts) := by
          rw [tokenize, hn]
          cases t with
          | err => exact absurd rfl hne
          | op o => rfl
          | term tm => rfl
        simp only [spell]
        rw [hstep, tokenize_blank, iht (g' + 1) (by omega)]

/-- trees whose leaves have a spelling: non-negative i64 constants, identifiers -/
def leavesOK : Spec.Expr → Prop
  | .num v => 0 ≤ v ∧ InRange v
  | .var x => x ≠ [] ∧ (∀ c ∈ x, isTermChar c = true) ∧ (∀ c, x.head? = some c → isAsciiDigit c = false)
  | .pre _ e => leavesOK e
  | .post _ e => leavesOK e
  | .bin _ l r => leavesOK l ∧ leavesOK r
  | .cond c t e => leavesOK c ∧ leavesOK t ∧ leavesOK e

theorem tokOK_paren (p : Bool) (ts : List Tok) (h : ∀ t ∈ ts, TokOK t) : ∀ t ∈ paren p ts, TokOK t := by
  intro t ht
  unfold paren at ht
  split at ht
  · simp only [List.cons_append, List.nil_append, List.mem_cons, List.mem_append, List.mem_nil_iff, or_false] at ht
    rcases ht with rfl | ht | rfl
    · trivial
    · exact h t ht
    · trivial
  · exact h t ht

theorem tokOK_render (e : Spec.Expr) (h : leavesOK e) : ∀ t ∈ render e, TokOK t := by
  induction e with
  | num v => intro t ht; simp only [render, List.mem_singleton] at ht; subst ht; exact h
  | var x => intro t ht; simp only [render, List.mem_singleton] at ht; subst ht; exact h
  | pre op e ih =>
    intro t ht
    simp only [render, List.mem_cons] at ht
    rcases ht with rfl | ht
    · trivial
    · exact tokOK_paren _ _ (ih h) t ht
  | post op e ih =>
    intro t ht
    simp only [render, List.mem_append, List.mem_singleton] at ht
    rcases ht with ht | rfl
    · exact tokOK_paren _ _ (ih h) t ht
    · trivial
  | bin b l r ihl ihr =>
    intro t ht
    simp only [render] at ht
    split at ht
    · simp only [List.mem_append, List.mem_singleton] at ht
      rcases ht with (ht | rfl) | ht
      · exact tokOK_paren _ _ (ihl h.1) t ht
      · trivial
      · exact tokOK_paren _ _ (ihr h.2) t ht
    · simp only [List.mem_append, List.mem_singleton] at ht
      rcases ht with (ht | rfl) | ht
      · exact tokOK_paren _ _ (ihl h.1) t ht
      · trivial
      · exact ihr h.2 t ht
  | cond c t' e ihc iht ihe =>
    intro t ht
    simp only [render, List.mem_append, List.mem_singleton] at ht
    rcases ht with (((ht | rfl) | ht) | rfl) | ht
    · exact tokOK_paren _ _ (ihc h.1) t ht
    · trivial
    · exact iht h.2.1 t ht
    · trivial
    · exact tokOK_paren _ _ (ihe h.2.2) t ht

theorem litsInRange_of_leavesOK (e : Spec.Expr) (h : leavesOK e) : litsInRange e := by
  induction e with
  | num v => exact h.2
  | var x => trivial
  | pre op e ih => exact ih h
  | post op e ih => exact ih h
  | bin b l r ihl ihr => exact ⟨ihl h.1, ihr h.2⟩
  | cond c t e ihc iht ihe => exact ⟨ihc h.1, iht h.2.1, ihe h.2.2⟩

/-- the text of a tree (minimal parentheses, every token followed by a blank) parses to its vector -/
theorem parse_spell_render (e : Spec.Expr) (h : leavesOK e) : parse (spell (render e)) = .ok (rpn e) := by
  unfold parse
  simp only [tokenize_spell (render e) (tokOK_render e h) _ (Nat.lt_succ_self _)]
  exact parseToks_render e _ (Nat.le_refl _)

/-- from the characters to the value -/
theorem evalStr_spell_render (e : Spec.Expr) (env : Env) (hs : Spec.inScope e = true) (h : leavesOK e) :
    match Spec.evalExact e env with
    | some (v, env') => evalStr (spell (render e)) env = .value v env'
    | none => ∃ err, evalStr (spell (render e)) env = .evalError err := by
  unfold evalStr
  rw [parse_spell_render e h]
  have := evalValue_rpn e env hs (litsInRange_of_leavesOK e h)
  cases hc : Spec.evalExact e env with
  | none =>
    rw [hc] at this
    obtain ⟨err, he⟩ := this
    exact ⟨err, by simp [he, Outcome.ofRes]⟩
  | some p =>
    obtain ⟨v, env'⟩ := p
    rw [hc] at this
    simp only at this ⊢
    simp [this, Outcome.ofRes]

/-! ## every spelling: any white space (also none where two tokens cannot run together), any notation of
     the constants -/

/-- the characters operator lexemes other than the parentheses are made of -/
def isOpChar (c : Char) : Bool :=
  c == '+' || c == '-' || c == '<' || c == '>' || c == '=' || c == '&' || c == '|' || c == '!' || c == '*' ||
  c == '/' || c == '%' || c == '^' || c == '~' || c == '?' || c == ':'

def isParenOp (o : Operator) : Bool := o == .OpenParen || o == .CloseParen

/-- some lexeme of `OPERATORS` continues the lexeme `lex` with the character `c` (then the two run together:
    `<` `=`, `-` `-`, `+` `+=`, `<` `<=`) -/
def opGlue (lex : List Char) (c : Char) : Bool := operators.any fun q => (lex ++ [c]).isPrefixOf q.1

theorem table_facts :
    operators.Pairwise (fun a q => ¬ (a.1 <+: q.1 ∧ a.1 ≠ q.1)) ∧ (operators.map (·.1)).Nodup ∧
    (∀ p ∈ operators, ∀ c, p.1.head? = some c → isWhitespace c = false) ∧
    (∀ o : Operator, (lexemeOf o, o) ∈ operators) := by
  refine ⟨by decide, by decide, by decide, fun o => by cases o <;> decide⟩

theorem lexeme_inj : ∀ p ∈ operators, ∀ q ∈ operators, p.1 = q.1 → p = q := by decide

theorem lexemeOf_cons (o : Operator) : ∃ c0 u0, lexemeOf o = c0 :: u0 := by
  cases o <;> exact ⟨_, _, rfl⟩

/-- first match = longest match (as `longest_match` in `Theorems.lean`, needed here already) -/
theorem findOp_longest (s lex : List Char) (o : Operator) (h : findOp s = some (lex, o)) :
    (lex, o) ∈ operators ∧ lex <+: s ∧ ∀ q ∈ operators, q.1 <+: s → q.1.length ≤ lex.length := by
  unfold findOp at h
  rw [List.find?_eq_some_iff_append] at h
  obtain ⟨hp, as, bs, hsplit, hbefore⟩ := h
  have hpre : lex <+: s := by simpa [List.isPrefixOf_iff_prefix] using hp
  refine ⟨by rw [hsplit]; simp, hpre, ?_⟩
  intro q hq hqs
  have hpw := table_facts.1
  rw [hsplit, List.pairwise_append] at hpw
  obtain ⟨_, hcons, _⟩ := hpw
  rw [List.pairwise_cons] at hcons
  rw [hsplit, List.mem_append, List.mem_cons] at hq
  rcases hq with hq | hq | hq
  · have := hbefore q hq
    have hb := List.isPrefixOf_iff_prefix.mpr hqs
    simp only [Bool.not_eq_true'] at this
    rw [this] at hb; exact absurd hb (by decide)
  · subst hq; exact Nat.le_refl _
  · have hr := hcons.1 q hq
    by_cases hlen : q.1.length ≤ lex.length
    · exact hlen
    · exfalso
      apply hr
      have hle : lex.length ≤ q.1.length := by omega
      refine ⟨List.prefix_of_prefix_length_le hpre hqs hle, ?_⟩
      intro e
      simp only at e
      rw [e] at hlen
      exact hlen (Nat.le_refl _)

/-- an operator followed by a character that continues no lexeme is read as that operator -/
theorem findOp_of_not_glue (o : Operator) (c : Char) (rest : List Char) (hg : opGlue (lexemeOf o) c = false) :
    findOp (lexemeOf o ++ c :: rest) = some (lexemeOf o, o) := by
  have hmem := table_facts.2.2.2 o
  have hpre : lexemeOf o <+: lexemeOf o ++ c :: rest := List.prefix_append _ _
  cases hf : findOp (lexemeOf o ++ c :: rest) with
  | none =>
    unfold findOp at hf
    rw [List.find?_eq_none] at hf
    have := hf _ hmem
    simp only [List.isPrefixOf_iff_prefix.mpr hpre, not_true_eq_false] at this
  | some r =>
    obtain ⟨lex', o'⟩ := r
    obtain ⟨hm', hp', hmax⟩ := findOp_longest _ _ _ hf
    have hle : (lexemeOf o).length ≤ lex'.length := hmax _ hmem hpre
    by_cases hlt : (lexemeOf o).length < lex'.length
    · exfalso
      have h1 : lexemeOf o ++ [c] <+: lexemeOf o ++ c :: rest := by
        have : lexemeOf o ++ c :: rest = (lexemeOf o ++ [c]) ++ rest := by simp
        rw [this]; exact List.prefix_append _ _
      have h2 : lexemeOf o ++ [c] <+: lex' :=
        List.prefix_of_prefix_length_le h1 hp' (by simp; omega)
      unfold opGlue at hg
      rw [List.any_eq_false] at hg
      exact hg _ hm' (List.isPrefixOf_iff_prefix.mpr h2)
    · have heq : lex' = lexemeOf o :=
        (List.prefix_of_prefix_length_le hp' hpre (by omega)).eq_of_length (by omega)
      subst heq
      rw [lexeme_inj _ hm' _ hmem rfl]

/-- what may directly follow the text of a token without changing how it is read -/
def Terminates : Tok → List Char → Prop
  | .op o, c :: _ => isParenOp o = true ∨ isOpChar c = false ∨ opGlue (lexemeOf o) c = false
  | .term _, c :: _ => isTermChar c = false
  | _, _ => True

theorem opChar_ne (c : Char) (h : isOpChar c = false) :
    c ≠ '+' ∧ c ≠ '-' ∧ c ≠ '<' ∧ c ≠ '>' ∧ c ≠ '=' ∧ c ≠ '&' ∧ c ≠ '|' ∧ c ≠ '!' ∧ c ≠ '*' ∧ c ≠ '/' ∧
    c ≠ '%' ∧ c ≠ '^' ∧ c ≠ '~' ∧ c ≠ '?' ∧ c ≠ ':' := by
  unfold isOpChar at h
  simp only [Bool.or_eq_false_iff, beq_eq_false_iff_ne, ne_eq] at h
  obtain ⟨⟨⟨⟨⟨⟨⟨⟨⟨⟨⟨⟨⟨⟨h1, h2⟩, h3⟩, h4⟩, h5⟩, h6⟩, h7⟩, h8⟩, h9⟩, h10⟩, h11⟩, h12⟩, h13⟩, h14⟩, h15⟩ := h
  exact ⟨h1, h2, h3, h4, h5, h6, h7, h8, h9, h10, h11, h12, h13, h14, h15⟩

theorem nextToken_drop (ws s : List Char) (hws : ∀ c ∈ ws, isWhitespace c = true) :
    nextToken (ws ++ s) = nextToken s := by
  have : (ws ++ s).dropWhile isWhitespace = s.dropWhile isWhitespace := by
    induction ws with
    | nil => rfl
    | cons a t ih =>
      simp only [List.cons_append, List.dropWhile, hws a (by simp)]
      exact ih (fun c hc => hws c (by simp [hc]))
  simp only [nextToken, this]

/-- the tokenizer at an operator lexeme followed by anything that cannot extend it -/
theorem nextToken_op_general (o : Operator) (rest : List Char) (h : Terminates (.op o) rest) :
    nextToken (lexemeOf o ++ rest) = some (.op o, rest) := by
  cases rest with
  | nil =>
    cases o <;>
      simp [nextToken, lexemeOf, operators, findOp, List.find?, List.isPrefixOf, List.dropWhile, isWhitespace]
  | cons c r =>
    simp only [Terminates] at h
    by_cases hp : isParenOp o = true
    · cases o <;> first
        | (simp [isParenOp] at hp; done)
        | simp [nextToken, lexemeOf, operators, findOp, List.find?, List.isPrefixOf, List.dropWhile, isWhitespace]
    · by_cases hgl : opGlue (lexemeOf o) c = false ∧ isOpChar c = true
      · -- a character that could start an operator but continues no lexeme after this one
        have hf := findOp_of_not_glue o c r hgl.1
        obtain ⟨c0, u0, hl0⟩ := lexemeOf_cons o
        have hws : isWhitespace c0 = false :=
          table_facts.2.2.1 _ (table_facts.2.2.2 o) c0 (by simp [hl0])
        have hdw : (lexemeOf o ++ c :: r).dropWhile isWhitespace = lexemeOf o ++ c :: r := by
          rw [hl0]; simp [List.dropWhile, hws]
        unfold nextToken
        simp only [hdw, hf]
        rw [hl0]
        simp
      have hc : isOpChar c = false := by
        rcases h with h | h | h
        · exact absurd h hp
        · exact h
        · cases hoc : isOpChar c with
          | false => rfl
          | true => exact absurd ⟨h, hoc⟩ hgl
      obtain ⟨h1, h2, h3, h4, h5, h6, h7, h8, h9, h10, h11, h12, h13, h14, h15⟩ := opChar_ne c hc
      have b1 : ('+' == c) = false := beq_eq_false_iff_ne.mpr (Ne.symm h1)
      have b2 : ('-' == c) = false := beq_eq_false_iff_ne.mpr (Ne.symm h2)
      have b3 : ('<' == c) = false := beq_eq_false_iff_ne.mpr (Ne.symm h3)
      have b4 : ('>' == c) = false := beq_eq_false_iff_ne.mpr (Ne.symm h4)
      have b5 : ('=' == c) = false := beq_eq_false_iff_ne.mpr (Ne.symm h5)
      have b6 : ('&' == c) = false := beq_eq_false_iff_ne.mpr (Ne.symm h6)
      have b7 : ('|' == c) = false := beq_eq_false_iff_ne.mpr (Ne.symm h7)
      have b8 : ('!' == c) = false := beq_eq_false_iff_ne.mpr (Ne.symm h8)
      have b9 : ('*' == c) = false := beq_eq_false_iff_ne.mpr (Ne.symm h9)
      have b10 : ('/' == c) = false := beq_eq_false_iff_ne.mpr (Ne.symm h10)
      have b11 : ('%' == c) = false := beq_eq_false_iff_ne.mpr (Ne.symm h11)
      have b12 : ('^' == c) = false := beq_eq_false_iff_ne.mpr (Ne.symm h12)
      have b13 : ('~' == c) = false := beq_eq_false_iff_ne.mpr (Ne.symm h13)
      have b14 : ('?' == c) = false := beq_eq_false_iff_ne.mpr (Ne.symm h14)
      have b15 : (':' == c) = false := beq_eq_false_iff_ne.mpr (Ne.symm h15)
      cases o <;>
        simp [nextToken, lexemeOf, operators, findOp, List.find?, List.isPrefixOf, List.dropWhile, isWhitespace,
          b1, b2, b3, b4, b5, b6, b7, b8, b9, b10, b11, b12, b13, b14, b15]

theorem takeWhile_term_general (x rest : List Char) (hx : ∀ c ∈ x, isTermChar c = true)
    (hr : ∀ c, rest.head? = some c → isTermChar c = false) :
    (x ++ rest).takeWhile isTermChar = x ∧ (x ++ rest).dropWhile isTermChar = rest := by
  induction x with
  | nil =>
    cases rest with
    | nil => simp
    | cons c r => simp [List.takeWhile, List.dropWhile, hr c rfl]
  | cons a t ih =>
    have ha := hx a (by simp)
    have := ih (fun c hc => hx c (by simp [hc]))
    simp [List.takeWhile, List.dropWhile, ha, this.1, this.2]

theorem nextToken_const_general (c : Char) (t rest : List Char)
    (hterm : ∀ ch ∈ c :: t, isTermChar ch = true) (hd : isAsciiDigit c = true) (i : Int)
    (hp : parseConstant (c :: t) = some i) (hr : ∀ d, rest.head? = some d → isTermChar d = false) :
    nextToken (c :: t ++ rest) = some (.term (.value i), rest) := by
  have hc := hterm c (by simp)
  have hw := not_whitespace_of_term c hc
  obtain ⟨htk, hdr⟩ := takeWhile_term_general (c :: t) rest hterm hr
  simp only [List.cons_append] at htk hdr
  simp only [nextToken, List.cons_append, List.dropWhile, hw, List.head?_cons, findOp_term c _ hc, htk, hdr,
    List.isEmpty_cons, Bool.false_eq_true, if_false, hd, if_true, hp]

theorem nextToken_name_general (c : Char) (t rest : List Char)
    (hterm : ∀ ch ∈ c :: t, isTermChar ch = true) (hd : isAsciiDigit c = false)
    (hr : ∀ d, rest.head? = some d → isTermChar d = false) :
    nextToken (c :: t ++ rest) = some (.term (.variable (c :: t)), rest) := by
  have hc := hterm c (by simp)
  have hw := not_whitespace_of_term c hc
  obtain ⟨htk, hdr⟩ := takeWhile_term_general (c :: t) rest hterm hr
  simp only [List.cons_append] at htk hdr
  simp only [nextToken, List.cons_append, List.dropWhile, hw, List.head?_cons, findOp_term c _ hc, htk, hdr,
    List.isEmpty_cons, Bool.false_eq_true, if_false, hd]

/-- a text that spells a token: the lexeme of an operator; for a constant ANY literal the C rules give that
    value (decimal, `0x`/`0X` hexadecimal, leading-`0` octal); the name of a variable -/
def Spells (text : List Char) : Tok → Prop
  | .op o => text = lexemeOf o
  | .term (.value v) =>
    (∀ ch ∈ text, isTermChar ch = true) ∧ (∀ c, text.head? = some c → isAsciiDigit c = true) ∧
    Spec.constValue text = some v
  | .term (.variable x) =>
    text = x ∧ x ≠ [] ∧ (∀ ch ∈ x, isTermChar ch = true) ∧ (∀ c, x.head? = some c → isAsciiDigit c = false)
  | .err => False

theorem nextToken_spells (text rest : List Char) (t : Tok) (hs : Spells text t) (ht : Terminates t rest) :
    nextToken (text ++ rest) = some (t, rest) ∧ t ≠ .err := by
  cases t with
  | err => exact absurd hs (by simp [Spells])
  | op o =>
    simp only [Spells] at hs
    subst hs
    exact ⟨nextToken_op_general o rest ht, by simp⟩
  | term tm =>
    have hr : ∀ d, rest.head? = some d → isTermChar d = false := by
      intro d hd
      cases rest with
      | nil => simp at hd
      | cons a r => simp only [List.head?_cons, Option.some.injEq] at hd; subst hd; exact ht
    cases tm with
    | value v =>
      obtain ⟨hterm, hdig, hval⟩ := hs
      cases text with
      | nil => simp [Spec.constValue, Spec.constMagnitude, Spec.digitsValue, Option.bind] at hval
      | cons c u =>
        have hp : parseConstant (c :: u) = some v := by rw [parseConstant_eq_spec _ hterm]; exact hval
        exact ⟨nextToken_const_general c u rest hterm (hdig c rfl) v hp hr, by simp⟩
    | «variable» x =>
      obtain ⟨rfl, hne, hterm, hdig⟩ := hs
      cases text with
      | nil => exact absurd rfl hne
      | cons c u => exact ⟨nextToken_name_general c u rest hterm (hdig c rfl) hr, by simp⟩

theorem opChar_cases (c : Char) (h : isOpChar c = true) : isTermChar c = false ∧ isWhitespace c = false := by
  unfold isOpChar at h
  simp only [Bool.or_eq_true, beq_iff_eq] at h
  rcases h with ((((((((((((((h | h) | h) | h) | h) | h) | h) | h) | h) | h) | h) | h) | h) | h) | h) <;>
    (subst h; decide)

theorem term_not_op (c : Char) (h : isTermChar c = true) : isOpChar c = false := by
  cases ho : isOpChar c with
  | false => rfl
  | true => have := (opChar_cases c ho).1; rw [h] at this; exact absurd this (by decide)

theorem ws_not_op (c : Char) (h : isWhitespace c = true) : isOpChar c = false := by
  cases ho : isOpChar c with
  | false => rfl
  | true => have := (opChar_cases c ho).2; rw [h] at this; exact absurd this (by decide)

theorem ws_not_term (c : Char) (h : isWhitespace c = true) : isTermChar c = false := by
  cases ht : isTermChar c with
  | false => rfl
  | true => have := not_whitespace_of_term c ht; rw [h] at this; exact absurd this (by decide)

theorem lexeme_head (o : Operator) :
    ∃ c t, lexemeOf o = c :: t ∧ isTermChar c = false ∧ (isParenOp o = true → isOpChar c = false) := by
  cases o <;> refine ⟨_, _, rfl, ?_, ?_⟩ <;> decide

/-- the first character of a token's text -/
theorem spells_head (text : List Char) (t : Tok) (h : Spells text t) :
    ∃ c u, text = c :: u ∧
      (∀ o, t = .op o → isTermChar c = false ∧ (isParenOp o = true → isOpChar c = false)) ∧
      (∀ tm, t = .term tm → isTermChar c = true ∧ isOpChar c = false) := by
  cases t with
  | err => exact absurd h (by simp [Spells])
  | op o =>
    simp only [Spells] at h
    obtain ⟨c, u, hl, h1, h2⟩ := lexeme_head o
    exact ⟨c, u, by rw [h, hl], fun o' ho' => by injection ho' with ho'; subst ho'; exact ⟨h1, h2⟩,
      fun tm htm => by simp at htm⟩
  | term tm =>
    cases tm with
    | value v =>
      obtain ⟨hterm, _, hval⟩ := h
      cases text with
      | nil => simp [Spec.constValue, Spec.constMagnitude, Spec.digitsValue, Option.bind] at hval
      | cons c u =>
        exact ⟨c, u, rfl, fun o ho => by simp at ho,
          fun _ _ => ⟨hterm c (by simp), term_not_op c (hterm c (by simp))⟩⟩
    | «variable» x =>
      obtain ⟨rfl, hne, hterm, _⟩ := h
      cases text with
      | nil => exact absurd rfl hne
      | cons c u =>
        exact ⟨c, u, rfl, fun o ho => by simp at ho,
          fun _ _ => ⟨hterm c (by simp), term_not_op c (hterm c (by simp))⟩⟩

/-- a token, the text that spells it, the white space after it -/
structure Piece where
  tok : Tok
  text : List Char
  sep : List Char

def flatten : List Piece → List Char
  | [] => []
  | p :: ps => p.text ++ (p.sep ++ flatten ps)

/-- two tokens that may stand next to each other without white space: a term and an operator (either
    order), or two operators one of which is a parenthesis, or (wave 3) two operators such that no lexeme of
    `OPERATORS` continues the first one with the first character of the second (`a<-b`, `x=-1`, `a*-b`, `1?-2:+3`;
    NOT `a- -b`, `a+ ++b`, `a< <b`, `x= =1`) — `operators_touch_exactly_when_opGlue` shows that this is also
    necessary -/
def glueSafe : Tok → Tok → Prop
  | .term _, .op _ => True
  | .op _, .term _ => True
  | .op o, .op o' => isParenOp o = true ∨ isParenOp o' = true ∨
      ∀ c, (lexemeOf o').head? = some c → opGlue (lexemeOf o) c = false
  | _, _ => False

def PiecesOK : List Piece → Prop
  | [] => True
  | p :: ps =>
    Spells p.text p.tok ∧ (∀ c ∈ p.sep, isWhitespace c = true) ∧
    (p.sep = [] → match ps with | [] => True | q :: _ => glueSafe p.tok q.tok) ∧ PiecesOK ps

theorem pieces_terminate (p : Piece) (ps : List Piece) (h : PiecesOK (p :: ps)) :
    Terminates p.tok (p.sep ++ flatten ps) := by
  obtain ⟨hsp, hws, hglue, hrest⟩ := h
  cases hsep : p.sep with
  | cons a r =>
    have ha := hws a (by rw [hsep]; simp)
    cases htok : p.tok with
    | op o => simp only [List.cons_append, Terminates]; exact Or.inr (Or.inl (ws_not_op a ha))
    | term tm => simp only [List.cons_append, Terminates]; exact ws_not_term a ha
    | err => trivial
  | nil =>
    have hg := hglue hsep
    cases ps with
    | nil =>
      simp only [flatten, List.append_nil]
      cases p.tok <;> trivial
    | cons q qs =>
      obtain ⟨hq, _⟩ := hrest
      obtain ⟨c, u, hc, hclsO, hclsT⟩ := spells_head q.text q.tok hq
      simp only at hg
      simp only [flatten, List.nil_append, hc, List.cons_append]
      cases htok : p.tok with
      | err => trivial
      | op o =>
        simp only [Terminates]
        rw [htok] at hg
        cases hqt : q.tok with
        | err => rw [hqt] at hq; exact absurd hq (by simp [Spells])
        | term tm =>
          exact Or.inr (Or.inl (hclsT tm hqt).2)
        | op o' =>
          rw [hqt] at hg hq
          simp only [glueSafe] at hg
          rcases hg with hg | hg | hg
          · exact Or.inl hg
          · exact Or.inr (Or.inl ((hclsO o' hqt).2 hg))
          · simp only [Spells] at hq
            exact Or.inr (Or.inr (hg c (by rw [← hq, hc]; rfl)))
      | term tm =>
        simp only [Terminates]
        rw [htok] at hg
        cases hqt : q.tok with
        | err => rw [hqt] at hq; exact absurd hq (by simp [Spells])
        | term tm' => rw [hqt] at hg; exact absurd hg (by simp [glueSafe])
        | op o' => exact (hclsO o' hqt).1

/-- ☆ the tokenizer reads every spelling of a token list back as that list: any (Unicode) white space before,
    between and after the tokens — none at all where `glueSafe` allows it — and any notation of the constants -/
theorem tokenize_pieces (ps : List Piece) : ∀ (lead : List Char) (f : Nat), PiecesOK ps →
    (∀ c ∈ lead, isWhitespace c = true) → (lead ++ flatten ps).length < f →
    tokenize f (lead ++ flatten ps) = ps.map (·.tok) := by
  induction ps with
  | nil =>
    intro lead f _ hlead hf
    cases f with
    | zero => omega
    | succ f =>
      have : nextToken lead = none := by
        have := nextToken_drop lead [] hlead
        rw [List.append_nil] at this
        rw [this]; rfl
      simp [flatten, tokenize, this]
  | cons p ps ih =>
    intro lead f hok hlead hf
    cases f with
    | zero => omega
    | succ g =>
      obtain ⟨hn, hne⟩ := nextToken_spells p.text (p.sep ++ flatten ps) p.tok hok.1 (pieces_terminate p ps hok)
      obtain ⟨c, u, hc, _, _⟩ := spells_head p.text p.tok hok.1
      have hnext : nextToken (lead ++ flatten (p :: ps)) = some (p.tok, p.sep ++ flatten ps) := by
        rw [nextToken_drop lead _ hlead]; exact hn
      have hlen : (p.sep ++ flatten ps).length < g := by
        simp only [flatten, List.length_append, hc, List.length_cons] at hf ⊢
        omega
      have hstep : tokenize (g + 1) (lead ++ flatten (p :: ps)) = p.tok :: tokenize g (p.sep ++ flatten ps) := by
        rw [tokenize, hnext]
        cases htok : p.tok with
        | err => exact absurd htok hne
        | op o => rfl
        | term tm => rfl
      rw [hstep, ih p.sep g hok.2.2.2 hok.2.1 hlen]
      rfl

/-- the text of any spelling of a tree's tokens parses to the tree's vector -/
theorem parse_pieces (e : Spec.Expr) (ps : List Piece) (lead : List Char) (hps : PiecesOK ps)
    (hlead : ∀ c ∈ lead, isWhitespace c = true) (htoks : ps.map (·.tok) = render e) :
    parse (lead ++ flatten ps) = .ok (rpn e) := by
  unfold parse
  simp only [tokenize_pieces ps lead _ hps hlead (Nat.lt_succ_self _), htoks]
  exact parseToks_render e _ (Nat.le_refl _)

theorem evalStr_pieces (e : Spec.Expr) (env : Env) (hs : Spec.inScope e = true) (hl : litsInRange e)
    (ps : List Piece) (lead : List Char) (hps : PiecesOK ps)
    (hlead : ∀ c ∈ lead, isWhitespace c = true) (htoks : ps.map (·.tok) = render e) :
    match Spec.evalExact e env with
    | some (v, env') => evalStr (lead ++ flatten ps) env = .value v env'
    | none => ∃ err, evalStr (lead ++ flatten ps) env = .evalError err := by
  unfold evalStr
  rw [parse_pieces e ps lead hps hlead htoks]
  have := evalValue_rpn e env hs hl
  cases hc : Spec.evalExact e env with
  | none =>
    rw [hc] at this
    obtain ⟨err, he⟩ := this
    exact ⟨err, by simp [he, Outcome.ofRes]⟩
  | some p =>
    obtain ⟨v, env'⟩ := p
    rw [hc] at this
    simp only at this ⊢
    simp [this, Outcome.ofRes]

theorem evalStr_piecesD (d : Deco) (e : Spec.Expr) (env : Env) (hs : Spec.inScope e = true)
    (hl : litsInRange e) (ps : List Piece) (lead : List Char) (hps : PiecesOK ps)
    (hlead : ∀ c ∈ lead, isWhitespace c = true) (htoks : ps.map (·.tok) = renderTop d e) :
    match Spec.evalExact e env with
    | some (v, env') => evalStr (lead ++ flatten ps) env = .value v env'
    | none => ∃ err, evalStr (lead ++ flatten ps) env = .evalError err := by
  have hparse : parse (lead ++ flatten ps) = .ok (rpn e) := by
    unfold parse
    simp only [tokenize_pieces ps lead _ hps hlead (Nat.lt_succ_self _), htoks]
    exact parseToks_renderD d e _ (Nat.le_refl _)
  unfold evalStr
  rw [hparse]
  have := evalValue_rpn e env hs hl
  cases hc : Spec.evalExact e env with
  | none =>
    rw [hc] at this
    obtain ⟨err, he⟩ := this
    exact ⟨err, by simp [he, Outcome.ofRes]⟩
  | some p =>
    obtain ⟨v, env'⟩ := p
    rw [hc] at this
    simp only at this ⊢
    simp [this, Outcome.ofRes]

/-- a constant written alone: its C value, or a token error when the literal is malformed or too large -/
theorem evalStr_literal (c : Char) (t : List Char) (env : Env) (hterm : ∀ ch ∈ c :: t, isTermChar ch = true)
    (hd : isAsciiDigit c = true) :
    evalStr (c :: t) env =
      match Spec.constValue (c :: t) with
      | some v => .value v env
      | none => .syntaxError .tokenError := by
  have hc := hterm c (by simp)
  have hw := not_whitespace_of_term c hc
  obtain ⟨htk, hdr⟩ := takeWhile_term_general (c :: t) [] hterm (by simp)
  simp only [List.append_nil] at htk hdr
  have hnt : nextToken (c :: t) =
      match parseConstant (c :: t) with
      | some i => some (.term (.value i), [])
      | none => some (.err, c :: t) := by
    simp only [nextToken, List.dropWhile, hw, List.head?_cons, findOp_term c _ hc, htk, hdr,
      List.isEmpty_cons, Bool.false_eq_true, if_false, hd, if_true]
    cases parseConstant (c :: t) <;> rfl
  rw [parseConstant_eq_spec _ hterm] at hnt
  unfold evalStr parse
  cases hv : Spec.constValue (c :: t) with
  | none =>
    rw [hv] at hnt
    simp [tokenize, hnt, parseToks, parseTree, parseLeaf]
  | some v =>
    rw [hv] at hnt
    have h2 : nextToken ([] : List Char) = none := rfl
    simp [tokenize, hnt, h2, parseToks, parseTree, parseLeaf, parsePostfix, parseLoop, parseEndOfInput,
      evalValue, eval, splitLast, Res.bind, intoValue, Outcome.ofRes]

end YashModel.Arith
